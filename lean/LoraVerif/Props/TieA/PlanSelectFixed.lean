import LoraVerif.Props.TieA.PlanSelect
/-!
# Tie A for the channel selection (C09), fixed plans (US915 / AU915): the join-bias bookkeeping of `JoinChannels`
and the join-request branch of `FixedChannelPlan::select_tx_channel`

`Gen/PlanSelectFn.lean` also holds the state-passing translation of `FixedChannelPlan::select_tx_channel` and of
`JoinChannels::{has_bias_and_not_exhausted, clear_join_bias, first_data_channel}`; the bank walk
`JoinChannels::get_next_channel` is abstract there (`JcOps`).
-/
set_option linter.unusedSimpArgs false
set_option linter.unusedVariables false
namespace C09
open Model Gen.Region Gen.Modulation TieA.Select TieA.CMask

/-- the model's join-channel state a generated `JoinChannels` stands for -/
def jcOf (j : Gen.PlanSelectFn.JoinChannels) : JoinChannels :=
  { maxRetries := j.max_retries.toNat, numRetries := j.num_retries.toNat,
    preferredSubband := j.preferred_subband.map (fun sb => sb.toInt.toNat),
    avail := natsOf j.available_channels.data._0, availPrev := j.available_channels.previous.map Int.toNat,
    previousChannel := j.previous_channel.toNat }

def fixOf (p : Gen.PlanSelectFn.FixedChannelPlan) : FixPlan := { mask := natsOf p.channel_mask._0, jc := jcOf p.join_channels }

def fregOf (r : RegionId) : Gen.PlanSelectFn.FixRegion := ⟨join500kDr r, datarates r, uplinkChannels r, downlinkChannels r⟩

/-- what the Rust types guarantee: the counters are `usize`, the previous channel a `u8` -/
def JcWF (j : Gen.PlanSelectFn.JoinChannels) : Prop :=
  0 ≤ j.max_retries ∧ 0 ≤ j.num_retries ∧ 0 ≤ j.previous_channel ∧ j.previous_channel ≤ 255

/-- a test spelt `>=` with the arms swapped (a harmless rewrite of the source) -/
theorem ite_ge_swap {α} (c n : Int) (A B : α) :
    (if decide (c ≥ n) = true then A else B) = (if decide (c < n) = true then B else A) := by
  by_cases h : c < n
  · have : ¬ c ≥ n := by omega
    simp [h, this]
  · have : c ≥ n := by omega
    simp [h, this]

/-- `has_bias_and_not_exhausted` -/
theorem tieA_has_bias_and_not_exhausted (j : Gen.PlanSelectFn.JoinChannels) (hj : JcWF j) :
    Gen.PlanSelectFn.JoinChannels.has_bias_and_not_exhausted j = (jcOf j).hasBiasAndNotExhausted := by
  obtain ⟨h1, h2, _, _⟩ := hj
  unfold Gen.PlanSelectFn.JoinChannels.has_bias_and_not_exhausted JoinChannels.hasBiasAndNotExhausted jcOf
  have e1 : decide (j.num_retries < j.max_retries) = decide (j.num_retries.toNat < j.max_retries.toNat) := by
    apply decide_eq_decide.mpr; omega
  have e2 : decide (j.num_retries ≠ 0) = (j.num_retries.toNat != 0) := by
    by_cases h : j.num_retries = 0
    · simp [h]
    · have : j.num_retries.toNat ≠ 0 := by omega
      simp [h, this]
  simp only [e1, e2, Option.isSome_map] <;>
    (cases j.preferred_subband.isSome <;> cases decide (j.num_retries.toNat < j.max_retries.toNat) <;>
      cases (j.num_retries.toNat != 0) <;> rfl)

/-- `clear_join_bias` -/
theorem tieA_clear_join_bias (j : Gen.PlanSelectFn.JoinChannels) :
    jcOf (Gen.PlanSelectFn.JoinChannels.clear_join_bias j) = (jcOf j).clearBias := rfl

theorem div8_u8 (c : Int) (h0 : 0 ≤ c) (h1 : c ≤ 255) : Rt.divC .u8 c 8 = some ((c.toNat / 8 : Nat) : Int) := by
  rw [Rt.divC_pos h0 (by decide), Rt.ck_u8 (by omega) (by omega)]; congr 1; omega

theorem rem8_u8 (c : Int) (h0 : 0 ≤ c) (h1 : c ≤ 255) : Rt.remC .u8 c 8 = some ((c.toNat % 8 : Nat) : Int) := by
  have h8 : (8 : Int) ≠ 0 := by decide
  simp only [Rt.remC, h8, if_false]
  have : Int.tmod c 8 = c % 8 := by rw [Int.tmod_eq_emod_of_nonneg h0]
  rw [this, Rt.ck_u8 (by omega) (by omega)]; congr 1; omega

/-- `first_data_channel`: the sub-band of the previous (join) channel, a fresh channel of it from three random
bits, the bias cleared; `None` and nothing changed without a bias or before any attempt.  It cannot panic. -/
theorem tieA_first_data_channel {σ} (g : Rng σ) (j : Gen.PlanSelectFn.JoinChannels) (hj : JcWF j) (s : σ) :
    ∃ o, @Gen.PlanSelectFn.JoinChannels.first_data_channel σ (rngOf g) j s = some o ∧
      (o.1.map Int.toNat, jcOf o.2.1, o.2.2) = (jcOf j).firstDataChannel g s ∧
      (∀ c, o.1 = some c → 0 ≤ c ∧ c ≤ 63) ∧ JcWF o.2.1 ∧
      o.2.1.available_channels = j.available_channels := by
  obtain ⟨h1, h2, h3, h4⟩ := hj
  unfold Gen.PlanSelectFn.JoinChannels.first_data_channel JoinChannels.firstDataChannel
  have e2 : decide (j.num_retries ≠ 0) = ((jcOf j).numRetries != 0) := by
    by_cases h : j.num_retries = 0
    · simp [h, jcOf]
    · have : j.num_retries.toNat ≠ 0 := by omega
      simp [h, this, jcOf]
  have e1 : j.preferred_subband.isSome = (jcOf j).preferredSubband.isSome := by simp [jcOf]
  rw [e1, e2]
  by_cases hc : ((jcOf j).preferredSubband.isSome && (jcOf j).numRetries != 0) = true
  · rw [if_pos hc, if_pos hc]
    have hp : (Gen.PlanSelectFn.JoinChannels.clear_join_bias j).previous_channel = j.previous_channel := rfl
    simp only [hp, next_rngOf, andI_7, andI_7', ite_ge_swap, Option.bind_eq_bind, Option.pure_def]
    have hcb : (jcOf j).clearBias.previousChannel = j.previous_channel.toNat := rfl
    by_cases h64 : j.previous_channel < 64
    · have h64' : j.previous_channel.toNat < 64 := by omega
      simp only [h64, decide_true, if_true, div8_u8 _ h3 h4, Option.bind_some, hcb, h64']
      rw [Rt.ck_u8 (by omega) (by omega), Option.bind_some, wrap_u8_nat _ (by omega), Rt.ck_u8 (by omega) (by omega)]
      refine ⟨_, rfl, ?_, ?_, ?_, rfl⟩
      · simp only [Option.map_some, tieA_clear_join_bias]
        congr 2
      · intro c hc; cases hc; omega
      · exact ⟨Int.le_refl 0, h2, h3, h4⟩
    · have h64' : ¬ j.previous_channel.toNat < 64 := by omega
      simp only [h64, decide_false, Bool.false_eq_true, if_false, rem8_u8 _ h3 h4, and7 _ h3, Option.bind_some, hcb, h64']
      rw [Rt.ck_u8 (by omega) (by omega), Option.bind_some, wrap_u8_nat _ (by omega), Rt.ck_u8 (by omega) (by omega)]
      refine ⟨_, rfl, ?_, ?_, ?_, rfl⟩
      · simp only [Option.map_some, tieA_clear_join_bias]
        congr 2
      · intro c hc; cases hc; omega
      · exact ⟨Int.le_refl 0, h2, h3, h4⟩
  · rw [if_neg hc, if_neg hc]
    refine ⟨_, rfl, rfl, ?_, ?_, rfl⟩
    · intro c hc; cases hc
    · exact ⟨h1, h2, h3, h4⟩

/-- the abstract bank walk `JoinChannels::get_next_channel`, called on the state `j` with the stream `s`, answers as the
model's `getNextChannel` (hypothesis of the theorems below — needed only at the one call `select_tx_channel` makes; the
walk itself — `AvailableChannels::get_next`, its entropy loop — is not translated yet) -/
def JcOk {σ} (g : Rng σ) (ops : Gen.PlanSelectFn.JcOps σ) (j : Gen.PlanSelectFn.JoinChannels) (s : σ) : Prop :=
    (ops.get_next_channel j s).map (fun o => (o.1.toNat, jcOf o.2.1, o.2.2)) = ((jcOf j).getNextChannel g s).toOption ∧
    ∀ o, ops.get_next_channel j s = some o → 0 ≤ o.1 ∧ o.1 ≤ 255 ∧ JcWF o.2.1

/-- the tail of `select_tx_channel`: the TxChannel of a (data rate, channel) pair -/
theorem fixed_tx_tail (r : RegionId) (dr : DR) (c : Int) (h0 : 0 ≤ c) (h1 : c ≤ 255) :
    ((Rt.idx (datarates r) (Rt.wrap .usize (DR.toInt dr))).bind fun t36 => t36.bind fun t37 =>
      (Rt.idx (uplinkChannels r) c).bind fun t38 => (Rt.remC .u8 c 8).bind fun t39 =>
        (Rt.idx (downlinkChannels r) t39).bind fun t40 =>
          some (({ datarate := t37, dr := dr, frequency := t38, rx1_frequency := t40 } : Gen.PlanSelectFn.TxChannel))).map txOf
      = (do
          let d ← unwrapDatarate "datarates()[dr].unwrap" (← indexDatarate r dr.toInt.toNat)
          match (uplinkChannels r)[c.toNat]?, (downlinkChannels r)[c.toNat % 8]? with
          | some f, some f1 => pure ({ dr := dr, datarate := d, frequency := f.toNat, rx1Frequency := f1.toNat } : TxChannel)
          | _, _ => panic "uplink_channels()[channel]" : M TxChannel).toOption := by
  rw [idx_datarates, rem8_u8 c h0 h1, show c = ((c.toNat : Nat) : Int) by omega, idx_nat]
  simp only [Int.toNat_natCast, Option.bind_some, idx_nat]
  rw [toOption_bind, indexDatarate_opt]
  cases (datarates r)[dr.toInt.toNat]? with
  | none => rfl
  | some od =>
    cases od with
    | none => rfl
    | some d =>
      simp only [Option.bind_some, unwrapDatarate, bind, Except.bind]
      cases (uplinkChannels r)[c.toNat]? with
      | none => rfl
      | some f =>
        cases (downlinkChannels r)[c.toNat % 8]? with
        | none => rfl
        | some f1 => rfl

/-- **the join request of a fixed plan** (`Frame::Join` of `FixedChannelPlan::select_tx_channel` as the current source
has it) is the model's: the channel the bank walk yields, DR0 below channel 64 and the region's `JOIN_DR_500KHZ`
on the 500 kHz channels, the uplink frequency of that channel and the downlink frequency of `channel % 8`, the
join-channel state as the walk leaves it — for every plan, data rate, generator and stream, and every walk that is
the model's (`JcOk`) -/
theorem tieA_fixed_select_join_partial {σ} (g : Rng σ) (ops : Gen.PlanSelectFn.JcOps σ)
    (rs : RegionState) (p : Gen.PlanSelectFn.FixedChannelPlan) (hplan : rs.plan = .fix (fixOf p))
    (hj : JcWF p.join_channels) (dr : DR) (s : σ) (hops : JcOk g ops p.join_channels s) :
    (@Gen.PlanSelectFn.FixedChannelPlan.select_tx_channel σ (rngOf g) (fuelOf loopFuel) (fregOf rs.id) ops p s dr .Join).map
        (fun o => (txOf o.1, { rs with plan := .fix (fixOf o.2.1) }, o.2.2))
      = (selectTxChannel g rs dr .join s).toOption := by
  obtain ⟨hg1, hg2⟩ := hops
  unfold Gen.PlanSelectFn.FixedChannelPlan.select_tx_channel selectTxChannel
  simp only [hplan, Option.bind_eq_bind, Option.pure_def, fixOf]
  cases hgn : ops.get_next_channel p.join_channels s with
  | none =>
    rw [hgn] at hg1
    cases hm : (jcOf p.join_channels).getNextChannel g s with
    | ok v => rw [hm] at hg1; simp [Except.toOption] at hg1
    | error e => rfl
  | some o =>
    obtain ⟨c, j', s1⟩ := o
    obtain ⟨hc0, hc1, hj'⟩ := hg2 _ hgn
    rw [hgn] at hg1
    cases hm : (jcOf p.join_channels).getNextChannel g s with
    | error e => rw [hm] at hg1; simp [Except.toOption] at hg1
    | ok v =>
      rw [hm] at hg1
      simp only [Except.toOption, Option.map_some, Option.some.injEq] at hg1
      subst hg1
      simp only at hc0 hc1
      have hdr : (if decide (c < 64) = true then DR._0 else (fregOf rs.id).JOIN_DR_500KHZ)
          = (if c.toNat < 64 then DR._0 else join500kDr rs.id) := by
        by_cases h : c < 64
        · have h' : c.toNat < 64 := by omega
          simp [h, h']
        · have h' : ¬ c.toNat < 64 := by omega
          simp [h, h', fregOf]
      simp only [Option.bind_some, ite_ge_swap, hdr, bind, Except.bind, pure, Except.pure]
      generalize (if c.toNat < 64 then DR._0 else join500kDr rs.id) = drc
      rw [show (fregOf rs.id).datarates = datarates rs.id from rfl, show (fregOf rs.id).uplink_channels = uplinkChannels rs.id from rfl,
        show (fregOf rs.id).downlink_channels = downlinkChannels rs.id from rfl,
        idx_datarates, rem8_u8 c hc0 hc1]
      have hcn : c = ((c.toNat : Nat) : Int) := by omega
      rw [hcn, idx_nat]
      simp only [Int.toNat_natCast, Option.bind_some, idx_nat]
      have hi := indexDatarate_opt rs.id drc.toInt.toNat
      cases hidx : indexDatarate rs.id drc.toInt.toNat with
      | error e =>
        rw [hidx] at hi
        simp only [Except.toOption] at hi
        rw [← hi]; rfl
      | ok od =>
        rw [hidx] at hi
        simp only [Except.toOption] at hi
        rw [← hi]
        cases od with
        | none => rfl
        | some d =>
          simp only [Option.bind_some, unwrapDatarate]
          cases (uplinkChannels rs.id)[c.toNat]? with
          | none => rfl
          | some f =>
            cases (downlinkChannels rs.id)[c.toNat % 8]? with
            | none => rfl
            | some f1 => rfl


/-- 9 mask bytes, each an octet: what `ChannelMask<9>` guarantees -/
def MaskWF (p : Gen.PlanSelectFn.FixedChannelPlan) : Prop := p.channel_mask._0.length = 9 ∧ Octets p.channel_mask._0

/-- **a data frame of a fixed plan while the join bias is in force** (`has_bias_and_not_exhausted`): unless the mask
disables the channel the walk yields, the regenerated `select_tx_channel` is the model's — that channel, with the
data rate the channel mandates (DR0 / `JOIN_DR_500KHZ`), mask untouched, join-channel state as the walk leaves it.
(The case "the mask disables the biased channel" continues as without a bias; see `…_full` below.) -/
theorem tieA_fixed_select_data_biased_partial {σ} (g : Rng σ) (ops : Gen.PlanSelectFn.JcOps σ)
    (rs : RegionState) (p : Gen.PlanSelectFn.FixedChannelPlan) (hplan : rs.plan = .fix (fixOf p))
    (hj : JcWF p.join_channels) (hm : MaskWF p) (dr : DR) (s : σ) (hops : JcOk g ops p.join_channels s)
    (hb : (jcOf p.join_channels).hasBiasAndNotExhausted = true)
    (hen : ∀ ch jc' s1, (jcOf p.join_channels).getNextChannel g s = .ok (ch, jc', s1) →
      Mask.isEnabled (natsOf p.channel_mask._0) ch ≠ .ok false) :
    (@Gen.PlanSelectFn.FixedChannelPlan.select_tx_channel σ (rngOf g) (fuelOf loopFuel) (fregOf rs.id) ops p s dr .Data).map
        (fun o => (txOf o.1, { rs with plan := .fix (fixOf o.2.1) }, o.2.2))
      = (selectTxChannel g rs dr .data s).toOption := by
  obtain ⟨hg1, hg2⟩ := hops
  obtain ⟨hml, hoct⟩ := hm
  have hb' := tieA_has_bias_and_not_exhausted p.join_channels hj
  rw [hb] at hb'
  unfold Gen.PlanSelectFn.FixedChannelPlan.select_tx_channel selectTxChannel
  simp only [hplan, Option.bind_eq_bind, Option.pure_def, fixOf, hb, hb', if_true]
  cases hgn : ops.get_next_channel p.join_channels s with
  | none =>
    rw [hgn] at hg1
    cases hmd : (jcOf p.join_channels).getNextChannel g s with
    | ok v => rw [hmd] at hg1; simp [Except.toOption] at hg1
    | error e => rfl
  | some o =>
    obtain ⟨c, j', s1⟩ := o
    obtain ⟨hc0, hc1, hj'⟩ := hg2 _ hgn
    rw [hgn] at hg1
    cases hmd : (jcOf p.join_channels).getNextChannel g s with
    | error e => rw [hmd] at hg1; simp [Except.toOption] at hg1
    | ok v =>
      rw [hmd] at hg1
      simp only [Except.toOption, Option.map_some, Option.some.injEq] at hg1
      subst hg1
      simp only at hc0 hc1
      have hne := hen _ _ _ hmd
      have hcn : c = ((c.toNat : Nat) : Int) := by omega
      have hie := is_enabled_nat9 p.channel_mask hoct hml c.toNat
      rw [← hcn] at hie
      simp only [Option.bind_some, bind, Except.bind, pure, Except.pure, bind_bind_id, hie]
      cases hme : Mask.isEnabled (natsOf p.channel_mask._0) c.toNat with
      | error e => rfl
      | ok b =>
        cases b with
        | false => exact absurd hme hne
        | true =>
          simp only [Except.toOption, Option.bind_some, if_true]
          have hdr : (if decide (c < 64) = true then DR._0 else (fregOf rs.id).JOIN_DR_500KHZ)
              = (if c.toNat < 64 then DR._0 else join500kDr rs.id) := by
            by_cases h : c < 64
            · have h' : c.toNat < 64 := by omega
              simp [h, h']
            · have h' : ¬ c.toNat < 64 := by omega
              simp [h, h', fregOf]
          simp only [Option.bind_some, ite_ge_swap, hdr, bind, Except.bind, pure, Except.pure]
          generalize (if c.toNat < 64 then DR._0 else join500kDr rs.id) = drc
          rw [show (fregOf rs.id).datarates = datarates rs.id from rfl, show (fregOf rs.id).uplink_channels = uplinkChannels rs.id from rfl,
            show (fregOf rs.id).downlink_channels = downlinkChannels rs.id from rfl,
            idx_datarates, rem8_u8 c hc0 hc1]
          have hcn : c = ((c.toNat : Nat) : Int) := by omega
          rw [hcn, idx_nat]
          simp only [Int.toNat_natCast, Option.bind_some, idx_nat]
          have hi := indexDatarate_opt rs.id drc.toInt.toNat
          cases hidx : indexDatarate rs.id drc.toInt.toNat with
          | error e =>
            rw [hidx] at hi
            simp only [Except.toOption] at hi
            rw [← hi]; rfl
          | ok od =>
            rw [hidx] at hi
            simp only [Except.toOption] at hi
            rw [← hi]
            cases od with
            | none => rfl
            | some d =>
              simp only [Option.bind_some, unwrapDatarate]
              cases (uplinkChannels rs.id)[c.toNat]? with
              | none => rfl
              | some f =>
                cases (downlinkChannels rs.id)[c.toNat % 8]? with
                | none => rfl
                | some f1 => rfl

/-! ## non-vacuity: US915, join bias on sub-band 2 with one try, evaluated through the REGENERATED code -/

/-- a US915 plan as `State::new` builds it, with `set_join_bias(Subband::_2)`; `exPlanFixJoined`: after one join attempt
on channel 10 -/
def exJc (n : Int) (prev : Int) : Gen.PlanSelectFn.JoinChannels :=
  { max_retries := 1, num_retries := n, preferred_subband := some ._2,
    available_channels := ⟨⟨List.replicate 9 255⟩, none⟩, previous_channel := prev }
def exPlanFix : Gen.PlanSelectFn.FixedChannelPlan := { channel_mask := ⟨List.replicate 9 255⟩, join_channels := exJc 0 0 }

/-- the walk, tabulated at the one state the example calls it in: what the model's `getNextChannel` answers there -/
@[reducible] def exOps : Gen.PlanSelectFn.JcOps Nat :=
  ⟨fun j s => if j = exJc 0 0 ∧ s = 5 then
      some (13, { (exJc 1 13) with available_channels := ⟨⟨[255, 223, 255, 255, 255, 255, 255, 255, 255]⟩, some 13⟩ }, 6)
    else none⟩

/-- the hypotheses of `tieA_fixed_select_join_partial` are satisfiable (`JcOk` at the state of the call: the tabulated
answer IS the model's, by evaluation), and the regenerated method then sends the join request on channel 13 of
sub-band 2 (904.9 MHz) at DR0; `first_data_channel` after that join yields a channel of the same sub-band and clears
the bias -/
example :
    JcWF exPlanFix.join_channels ∧ (RegionState.init .US915 |>.setJoinBias 2 1).plan = .fix (fixOf exPlanFix) ∧
    (exOps.get_next_channel exPlanFix.join_channels 5).map (fun o => (o.1.toNat, jcOf o.2.1, o.2.2))
      = ((jcOf exPlanFix.join_channels).getNextChannel exGen 5).toOption ∧
    (@Gen.PlanSelectFn.FixedChannelPlan.select_tx_channel Nat (rngOf exGen) (fuelOf loopFuel) (fregOf .US915) exOps exPlanFix 5 DR._3 .Join).map
        (fun o => (o.1.frequency, o.1.dr, o.2.1.join_channels.previous_channel, o.2.2)) = some (904900000, DR._0, 13, 6) ∧
    (@Gen.PlanSelectFn.JoinChannels.first_data_channel Nat (rngOf exGen) (exJc 1 13) 6).map
        (fun o => (o.1, o.2.1.preferred_subband, o.2.2)) = some (some 14, none, 7) := by
  refine ⟨⟨by decide, by decide, by decide, by decide⟩, ?_, ?_, ?_, ?_⟩ <;> decide +kernel

/- (builder D2: `JcOk` is discharged in `Props/TieA/JoinWalk.lean` — `C09.tieA_join_channels_walk`; what follows about the
walk is history.)
NOT REACHED (full statement, kept visible): the whole data-frame branch and the whole method on a fixed plan,

theorem tieA_fixed_select_tx_channel {σ} (g : Rng σ) (ops : Gen.PlanSelectFn.JcOps σ)
    (rs : RegionState) (p : Gen.PlanSelectFn.FixedChannelPlan) (hplan : rs.plan = .fix (fixOf p))
    (hj : JcWF p.join_channels) (hm : MaskWF p) (dr : DR) (frame : Gen.PlanSelectFn.Frame) (s : σ)
    (hops : ∀ j s, JcWF j → JcOk g ops j s) :
    (@Gen.PlanSelectFn.FixedChannelPlan.select_tx_channel σ (rngOf g) (fuelOf loopFuel) (fregOf rs.id) ops p s dr frame).map
        (fun o => (txOf o.1, { rs with plan := .fix (fixOf o.2.1) }, o.2.2))
      = (selectTxChannel g rs dr (frameOf frame) s).toOption

proved here for `frame = .Join` (`tieA_fixed_select_join_partial`) and for `frame = .Data` while the join bias is in
force and the mask does not disable the biased channel (`tieA_fixed_select_data_biased_partial`).  Missing: the
data frame after the bias (`first_data_channel` as a preference — the function itself is tied, `tieA_first_data_channel`
— and the two bandwidth groups with their "never spin" re-enabling and redraw loops, which the translator already
emits: `Rt.rangeAnyM 64 72`, `set_bank 8 255`, `Rt.forRangeM 0 8`, two `Rt.loopM`), and `JcOk` itself: the bank walk
`JoinChannels::get_next_channel` / `AvailableChannels::get_next` with its entropy loop is not translated (it needs
`match (a, b.cmp(c))`, `for byte in slice { return }` in the translator). -/

#print axioms tieA_has_bias_and_not_exhausted
#print axioms tieA_fixed_select_data_biased_partial
#print axioms tieA_clear_join_bias
#print axioms tieA_first_data_channel
#print axioms tieA_fixed_select_join_partial

end C09
