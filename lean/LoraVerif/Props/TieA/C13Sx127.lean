import LoraVerif.Props.TieA.C13
import LoraVerif.Lemmas.PhyTieA127
import LoraVerif.Gen.PhyEnc1276
import LoraVerif.Gen.PhyEnc1272
/-!
# C13, tie A for the SX127x command encoders (builder P; continues `Props/TieA/C13.lean`)

Same statement as for the SX126x: the driver method, regenerated from its current source as a value
of `Rt.Phy.IoM` (`Gen/PhyEnc1276.lean`, `Gen/PhyEnc1272.lean`: the `RadioKind` methods of `Sx127x`
with the type parameter `C` fixed to `Sx1276` / `Sx1272`, the variant's associated functions
translated on demand), run on the wire-level chip after any requests, gives exactly what the hand
model's `Prog` gives — the same SPI transactions and busy waits in the same order with the same
bytes, the same chip afterwards, the same `Ok` / `Err` / panic — for ALL parameter values and ALL
chip contents.
-/
open Model.Phy TieA.Phy Gen.PhyCodes127
set_option linter.unusedSimpArgs false

namespace C13

/-- `phy_tie` with the SX127x register access of the hand model unfolded -/
syntax "phy_tie127" "[" Lean.Parser.Tactic.simpLemma,* "]" "[" Lean.Parser.Tactic.simpLemma,* "]" : tactic
macro_rules
  | `(tactic| phy_tie127 [$ls,*] [$ds,*]) => `(tactic| (
    phy_tie [Sx127x.writeRegister, Sx127x.readRegister, Sx127x.setOcp, $ls,*]
      [Sx127x.wr, Sx127x.rd, Register.write_addr, Register.read_addr, Register.toInt, PaDac.value, PaDac.toInt, OcpTrim.value, OcpTrim.toInt,
       PaConfig.value, PaConfig.toInt, RampTime.value, RampTime.toInt, $ds,*]))

/-! ## TX power: PA select, OutputPower, PaDac, OCP, PaRamp -/


/-- `Sx1276::set_tx_power` (translated from the current source, with `write_register` / `set_ocp`) IS the
model's `setTxPower` on an SX1276: RegPaDac (0x84 / 0x87), RegOcp (100 mA / 240 mA), RegPaConfig
(PA select, MaxPower, the clamped OutputPower) — every integer request, both `tx_boost` settings,
every chip and prefix of requests. -/
theorem tieA_sx1276_set_tx_power (radio : Gen.PhyEnc1276.Sx127x) (cfg : Sx127x.Config) (hc : cfg.chip = .sx1276)
    (p : Int) (c : Chip) (log : List Rt.Phy.Ev) :
    view id (Gen.PhyEnc1276.Sx1276.set_tx_power radio p cfg.txBoost chipDev c log)
      = denote (Sx127x.setTxPower cfg p) c log := by
  obtain ⟨chip, tcxo, boost, rxb⟩ := cfg
  simp only at hc; subst hc
  cases boost
  · have hr := allFrom_elim (fun k => ∀ (c : Chip) (log : List Rt.Phy.Ev), Max.max (-4) (Min.min 14 p) = k →
        view id (Gen.PhyEnc1276.Sx1276.set_tx_power radio p false chipDev c log)
          = denote (Sx127x.setTxPower ⟨.sx1276, tcxo, false, rxb⟩ p) c log) (-4) 19 (by
      simp only [AllFrom, Int.reduceAdd, Int.reduceNeg, and_true]
      refine ⟨?_, ?_, ?_, ?_, ?_, ?_, ?_, ?_, ?_, ?_, ?_, ?_, ?_, ?_, ?_, ?_, ?_, ?_, ?_⟩ <;> (
        intro c log hk
        clamp_forms hk (-4) 14 p
        simp only [Gen.PhyEnc1276.Sx1276.set_tx_power, Sx127x.setTxPower, Sx127x.clampI, hk, hk2, hk3]
        try gen_unfold_helpers_PhyEnc1276
        phy_tie127 [] []
        try rfl))
    exact hr _ (by omega) (by omega) c log rfl
  · have hr := allFrom_elim (fun k => ∀ (c : Chip) (log : List Rt.Phy.Ev), Max.max 2 (Min.min 20 p) = k →
        view id (Gen.PhyEnc1276.Sx1276.set_tx_power radio p true chipDev c log)
          = denote (Sx127x.setTxPower ⟨.sx1276, tcxo, true, rxb⟩ p) c log) 2 19 (by
      simp only [AllFrom, Int.reduceAdd, and_true]
      refine ⟨?_, ?_, ?_, ?_, ?_, ?_, ?_, ?_, ?_, ?_, ?_, ?_, ?_, ?_, ?_, ?_, ?_, ?_, ?_⟩ <;> (
        intro c log hk
        clamp_forms hk 2 20 p
        simp only [Gen.PhyEnc1276.Sx1276.set_tx_power, Sx127x.setTxPower, Sx127x.clampI, hk, hk2, hk3]
        try gen_unfold_helpers_PhyEnc1276
        phy_tie127 [] []
        try rfl))
    exact hr _ (by omega) (by omega) c log rfl

#print axioms tieA_sx1276_set_tx_power

/-- non-vacuity: +20 dBm on PA_BOOST — PaDac 0x87, OCP 240 mA, RegPaConfig 0x8F -/
example : Gen.PhyEnc1276.Sx1276.set_tx_power ⟨⟨⟨⟩, false, true, false⟩, ⟨false⟩⟩ 20 true (fun (_ : Unit) _ n => (List.replicate n 0, ())) () [] =
    some (.ok (), (), [.spi [0xCD, 0x87] 0, .busy, .spi [0x8B, 0x3B] 0, .busy, .spi [0x89, 0x8F] 0, .busy]) := rfl

/-- `Sx1272::set_tx_power` IS the model's `setTxPower` on an SX1272: RegPaConfig (PA select and the clamped,
offset OutputPower nibble), RegPaDac (0x87 above +17 dBm on PA_BOOST, else 0x84) — every integer request,
both `tx_boost` settings, every chip and prefix. -/
theorem tieA_sx1272_set_tx_power (radio : Gen.PhyEnc1272.Sx127x) (cfg : Sx127x.Config) (hc : cfg.chip = .sx1272)
    (p : Int) (c : Chip) (log : List Rt.Phy.Ev) :
    view id (Gen.PhyEnc1272.Sx1272.set_tx_power radio p cfg.txBoost chipDev c log)
      = denote (Sx127x.setTxPower cfg p) c log := by
  obtain ⟨chip, tcxo, boost, rxb⟩ := cfg
  simp only at hc; subst hc
  cases boost
  · have hr := allFrom_elim (fun k => ∀ (c : Chip) (log : List Rt.Phy.Ev), Max.max (-1) (Min.min 14 p) = k →
        view id (Gen.PhyEnc1272.Sx1272.set_tx_power radio p false chipDev c log)
          = denote (Sx127x.setTxPower ⟨.sx1272, tcxo, false, rxb⟩ p) c log) (-1) 16 (by
      simp only [AllFrom, Int.reduceAdd, Int.reduceNeg, and_true]
      refine ⟨?_, ?_, ?_, ?_, ?_, ?_, ?_, ?_, ?_, ?_, ?_, ?_, ?_, ?_, ?_, ?_⟩ <;> (
        intro c log hk
        clamp_forms hk (-1) 14 p
        simp only [Gen.PhyEnc1272.Sx1272.set_tx_power, Sx127x.setTxPower, Sx127x.clampI, hk, hk2, hk3]
        try gen_unfold_helpers_PhyEnc1272
        phy_tie127 [] []
        try rfl))
    exact hr _ (by omega) (by omega) c log rfl
  · by_cases hp : p > 17
    · have hr := allFrom_elim (fun k => ∀ (c : Chip) (log : List Rt.Phy.Ev), Max.max 5 (Min.min 20 p) = k →
          view id (Gen.PhyEnc1272.Sx1272.set_tx_power radio p true chipDev c log)
            = denote (Sx127x.setTxPower ⟨.sx1272, tcxo, true, rxb⟩ p) c log) 18 3 (by
        simp only [AllFrom, Int.reduceAdd, and_true]
        refine ⟨?_, ?_, ?_⟩ <;> (
          intro c log hk
          clamp_forms hk 5 20 p
          have hk4 : min p 20 = max 5 (min 20 p) := by omega
          have hk5 : min 20 p = max 5 (min 20 p) := by omega
          rw [hk] at hk4 hk5
          simp only [Gen.PhyEnc1272.Sx1272.set_tx_power, Sx127x.setTxPower, Sx127x.clampI, hk, hk2, hk3, hk4, hk5, hp, decide_true, if_true]
          try gen_unfold_helpers_PhyEnc1272
          phy_tie127 [] []
          try rfl))
      exact hr _ (by omega) (by omega) c log rfl
    · have hr := allFrom_elim (fun k => ∀ (c : Chip) (log : List Rt.Phy.Ev), Max.max 2 (Min.min 17 p) = k →
          view id (Gen.PhyEnc1272.Sx1272.set_tx_power radio p true chipDev c log)
            = denote (Sx127x.setTxPower ⟨.sx1272, tcxo, true, rxb⟩ p) c log) 2 16 (by
        simp only [AllFrom, Int.reduceAdd, and_true]
        refine ⟨?_, ?_, ?_, ?_, ?_, ?_, ?_, ?_, ?_, ?_, ?_, ?_, ?_, ?_, ?_, ?_⟩ <;> (
          intro c log hk
          clamp_forms hk 2 17 p
          have hk4 : max p 2 = max 2 (min 17 p) := by omega
          have hk5 : max 2 p = max 2 (min 17 p) := by omega
          rw [hk] at hk4 hk5
          simp only [Gen.PhyEnc1272.Sx1272.set_tx_power, Sx127x.setTxPower, Sx127x.clampI, hk, hk2, hk3, hk4, hk5, hp, decide_false, if_false]
          try gen_unfold_helpers_PhyEnc1272
          phy_tie127 [] []
          try rfl))
      exact hr _ (by omega) (by omega) c log rfl

#print axioms tieA_sx1272_set_tx_power

/-- non-vacuity: +19 dBm on PA_BOOST — RegPaConfig 0x8E, PaDac 0x87 -/
example : Gen.PhyEnc1272.Sx1272.set_tx_power ⟨⟨⟨⟩, false, true, false⟩⟩ 19 true (fun (_ : Unit) _ n => (List.replicate n 0, ())) () [] =
    some (.ok (), (), [.spi [0x89, 0x8E] 0, .busy, .spi [0xDA, 0x87] 0, .busy]) := rfl

/-! ## `set_tx_power_and_ramp_time`: the variant's power programming, then RegPaRamp -/

def genCfg1276 (cfg : Sx127x.Config) : Gen.PhyEnc1276.Config := ⟨⟨⟩, cfg.tcxoUsed, cfg.txBoost, cfg.rxBoost⟩
def genCfg1272 (cfg : Sx127x.Config) : Gen.PhyEnc1272.Config := ⟨⟨⟩, cfg.tcxoUsed, cfg.txBoost, cfg.rxBoost⟩

/-- `Sx127x::<Sx1276>::set_tx_power_and_ramp_time` (with `Sx1276::set_tx_power`, `Sx1276::ramp_value`) IS the
model's `setTxPowerAndRampTime` on an SX1276 — every request, `tx_boost`, ramp choice, chip and prefix. -/
theorem tieA_set_tx_power_and_ramp_time_1276 (cfg : Sx127x.Config) (hc : cfg.chip = .sx1276) (d : Gen.PhyEnc1276.Sx1276Data)
    (p : Int) (mp : Option Gen.PhyEnc1276.ModulationParams) (prep : Bool) (c : Chip) (log : List Rt.Phy.Ev) :
    view id (Gen.PhyEnc1276.Sx127x.set_tx_power_and_ramp_time ⟨genCfg1276 cfg, d⟩ p mp prep chipDev c log)
      = denote (Sx127x.setTxPowerAndRampTime cfg p prep) c log := by
  simp only [Gen.PhyEnc1276.Sx127x.set_tx_power_and_ramp_time, Sx127x.setTxPowerAndRampTime, Model.Phy.bind_eq]
  refine tie_bind id id _ _ _ _ c log (tieA_sx1276_set_tx_power _ cfg hc p c log) ?_
  intro _ c1 log1
  obtain ⟨chip, tcxo, boost, rxb⟩ := cfg
  simp only at hc; subst hc
  cases prep <;> (
    simp only [Gen.PhyEnc1276.Sx127x.write_register, Gen.PhyEnc1276.Sx1276.ramp_value, Sx127x.rampValue]
    phy_tie127 [] [])

#print axioms tieA_set_tx_power_and_ramp_time_1276

theorem tieA_set_tx_power_and_ramp_time_1272 (cfg : Sx127x.Config) (hc : cfg.chip = .sx1272)
    (p : Int) (mp : Option Gen.PhyEnc1272.ModulationParams) (prep : Bool) (c : Chip) (log : List Rt.Phy.Ev) :
    view id (Gen.PhyEnc1272.Sx127x.set_tx_power_and_ramp_time ⟨genCfg1272 cfg⟩ p mp prep chipDev c log)
      = denote (Sx127x.setTxPowerAndRampTime cfg p prep) c log := by
  simp only [Gen.PhyEnc1272.Sx127x.set_tx_power_and_ramp_time, Sx127x.setTxPowerAndRampTime, Model.Phy.bind_eq]
  refine tie_bind id id _ _ _ _ c log (tieA_sx1272_set_tx_power _ cfg hc p c log) ?_
  intro _ c1 log1
  obtain ⟨chip, tcxo, boost, rxb⟩ := cfg
  simp only at hc; subst hc
  cases prep <;> (
    simp only [Gen.PhyEnc1272.Sx127x.write_register, Gen.PhyEnc1272.Sx1272.ramp_value, Sx127x.rampValue]
    phy_tie127 [] []
    try rfl)

#print axioms tieA_set_tx_power_and_ramp_time_1272

/-! ## register access, one request at a time -/

theorem wr_val (r : Register) : ((Sx127x.wr r).toNat : Int) = Register.write_addr r := by cases r <;> rfl
theorem rd_val (r : Register) : ((Sx127x.rd r).toNat : Int) = Register.read_addr r := by cases r <;> rfl
theorem wr_byte (r : Register) : byte (Register.write_addr r) = Sx127x.wr r := rfl
theorem rd_byte (r : Register) : byte (Register.read_addr r) = Sx127x.rd r := rfl

/-- the generated `read_register` / `write_register` of both units are the model's register accesses -/
theorem gen_read_1276 (self : Gen.PhyEnc1276.Sx127x) (r : Register) : IsRead127 (Gen.PhyEnc1276.Sx127x.read_register self r) r := by
  intro c log
  simp only [Gen.PhyEnc1276.Sx127x.read_register, read_bind_app, ofOpt_some_bind_app, ofOpt_some_app, pure_app, chipDev_fst, chipDev_snd, List.length_cons,
    List.length_nil, idx_fill_one, toBytes_cons, toBytes_nil, rd_byte, rd_val, Nat.zero_add]
theorem gen_write_1276 (self : Gen.PhyEnc1276.Sx127x) (r : Register) (v : Int) : IsWrite127 (Gen.PhyEnc1276.Sx127x.write_register self r v) r v := by
  intro c log
  simp only [Gen.PhyEnc1276.Sx127x.write_register, write_app, chipDev_snd, toBytes_cons, toBytes_nil, wr_byte, wr_val, Bool.false_eq_true, if_false]
theorem gen_read_1272 (self : Gen.PhyEnc1272.Sx127x) (r : Register) : IsRead127 (Gen.PhyEnc1272.Sx127x.read_register self r) r := by
  intro c log
  simp only [Gen.PhyEnc1272.Sx127x.read_register, read_bind_app, ofOpt_some_bind_app, ofOpt_some_app, pure_app, chipDev_fst, chipDev_snd, List.length_cons,
    List.length_nil, idx_fill_one, toBytes_cons, toBytes_nil, rd_byte, rd_val, Nat.zero_add]
theorem gen_write_1272 (self : Gen.PhyEnc1272.Sx127x) (r : Register) (v : Int) : IsWrite127 (Gen.PhyEnc1272.Sx127x.write_register self r v) r v := by
  intro c log
  simp only [Gen.PhyEnc1272.Sx127x.write_register, write_app, chipDev_snd, toBytes_cons, toBytes_nil, wr_byte, wr_val, Bool.false_eq_true, if_false]

/-- the pure parts of a generated action between two requests, and the model's `do` blocks in bind-normal form -/
syntax "tie_norm" "[" Lean.Parser.Tactic.simpLemma,* "]" : tactic
macro_rules
  | `(tactic| tie_norm [$ls,*]) => `(tactic| (
    try simp +decide only [bind_assoc_app, pure_bind_app, ofOpt_some_bind_app, ofOpt_none_bind_app, throw_bind_app, panic_bind_app, ite_bind_app, ite_app,
      pure_app, pure_app', throw_app, Rt.shrC, Rt.shlC, Rt.ITy.bits, Rt.ITy.lo, Rt.ITy.hi, Rt.ITy.signed, Rt.b2i,
      Model.Phy.pure_eq_ret, Model.Phy.bind_eq, Model.Phy.bind_ret, Model.Phy.bind_fail, prog_bind_assoc, prog_bind_ite,
      if_true, if_false, Bool.false_eq_true, Bool.true_eq_false, $ls,*]
    try simp (disch := omega) only [Rt.ck, Rt.ITy.bits, Rt.ITy.lo, Rt.ITy.hi, Rt.ITy.signed, Int.reducePow, Int.reduceSub, Int.reduceNeg, if_pos, Bool.false_eq_true, if_false,
      ofOpt_some_bind_app, bind_assoc_app, pure_bind_app]))

/-- `v = u.toNat` for a byte computed on both sides: the `Rt` operations and the `UInt8` operations meet in `Nat` -/
syntax "tie_val" "[" Lean.Parser.Tactic.simpLemma,* "]" : tactic
macro_rules
  | `(tactic| tie_val [$ls,*]) => `(tactic| (
    simp +decide only [andI_toNat, orI_toNat, andI_lit_r, orI_lit_r, orI_lit_l, andI_lit_l, UInt8.toNat_and, UInt8.toNat_or, UInt8.toNat_ofNat', UInt8.toNat_ofNat,
      UInt8.reduceToNat, Rt.wrap, Rt.ITy.bits, Rt.ITy.signed, b2u, hi8, lo8, if_true, if_false, Bool.false_eq_true, Nat.reducePow, Nat.reduceMod, Int.reducePow,
      Nat.reduceMul, Int.reduceMul, Int.reduceMod, Int.reduceSub, Int.reduceToNat, Nat.reduceSub, $ls,*]
    try first
      | rfl
      | ac_rfl
      | (congr 1
         generalize hn : UInt8.toNat _ = n
         have hlt : n < 256 := by rw [← hn]; exact UInt8.toNat_lt _
         clear hn
         revert n
         decide +kernel)))

/-- a read / a write / the last write / a call of a method already tied, on both sides -/
macro "tie_rd" : tactic => `(tactic| (
  try tie_norm [if_true]
  refine tie_read id _ _ (by first | exact gen_read_1276 _ _ | exact gen_read_1272 _ _) _ _ _ _ (fun b c1 log1 => ?_)))
macro "tie_wr" : tactic => `(tactic| (
  try tie_norm [if_true]
  refine tie_write id _ _ _ (by first | exact gen_write_1276 _ _ _ | exact gen_write_1272 _ _ _) _ ?_ _ _ _ _ (fun c1 log1 => ?_)))
macro "tie_wr_end" : tactic => `(tactic| (
  try tie_norm [if_true]
  refine tie_write_end _ _ _ (by first | exact gen_write_1276 _ _ _ | exact gen_write_1272 _ _ _) _ ?_ _ (fun c1 log1 => rfl) _ _))
macro "tie_call" h:term : tactic => `(tactic| (
  try tie_norm [if_true]
  refine tie_bind id id _ _ _ _ _ _ $h (fun _ c1 log1 => ?_)))

/-! ## packet parameters -/

def genPkt76 (p : PacketParams) : Gen.PhyEnc1276.PacketParams :=
  { preamble_length := p.preambleLength, implicit_header := p.implicitHeader, payload_length := p.payloadLength, crc_on := p.crcOn, iq_inverted := p.iqInverted }
def genPkt72 (p : PacketParams) : Gen.PhyEnc1272.PacketParams :=
  { preamble_length := p.preambleLength, implicit_header := p.implicitHeader, payload_length := p.payloadLength, crc_on := p.crcOn, iq_inverted := p.iqInverted }

/-- `Sx1276::set_packet_params` IS the model's variant program: ImplicitHeaderModeOn (RegModemConfig1 bit 0) and
RxPayloadCrcOn (RegModemConfig2 bit 2) by read-modify-write — every flag, chip content and prefix. -/
theorem tieA_sx1276_set_packet_params (radio : Gen.PhyEnc1276.Sx127x) (cfg : Sx127x.Config) (hc : cfg.chip = .sx1276)
    (p : PacketParams) (c : Chip) (log : List Rt.Phy.Ev) :
    view id (Gen.PhyEnc1276.Sx1276.set_packet_params radio (genPkt76 p) chipDev c log)
      = denote (Sx127x.variantSetPacketParams cfg p) c log := by
  obtain ⟨chip, tcxo, boost, rxb⟩ := cfg
  simp only at hc; subst hc
  obtain ⟨pre, ih, len, crc, iq⟩ := p
  simp only [Gen.PhyEnc1276.Sx1276.set_packet_params, Sx127x.variantSetPacketParams, genPkt76]
  tie_rd
  tie_wr
  · cases ih <;> tie_val []
  tie_rd
  tie_wr_end
  · cases crc <;> tie_val []

/-- `Sx1272::set_packet_params`: ImplicitHeaderModeOn (bit 2) and RxPayloadCrcOn (bit 1) of RegModemConfig1 in one
read-modify-write. -/
theorem tieA_sx1272_set_packet_params (radio : Gen.PhyEnc1272.Sx127x) (cfg : Sx127x.Config) (hc : cfg.chip = .sx1272)
    (p : PacketParams) (c : Chip) (log : List Rt.Phy.Ev) :
    view id (Gen.PhyEnc1272.Sx1272.set_packet_params radio (genPkt72 p) chipDev c log)
      = denote (Sx127x.variantSetPacketParams cfg p) c log := by
  obtain ⟨chip, tcxo, boost, rxb⟩ := cfg
  simp only at hc; subst hc
  obtain ⟨pre, ih, len, crc, iq⟩ := p
  simp only [Gen.PhyEnc1272.Sx1272.set_packet_params, Sx127x.variantSetPacketParams, genPkt72]
  tie_rd
  tie_wr_end
  · cases ih <;> cases crc <;> tie_val []

#print axioms tieA_sx1276_set_packet_params
#print axioms tieA_sx1272_set_packet_params


end C13
