import LoraVerif.Model.Mac
import LoraVerif.Gen.OtaaFn
import LoraVerif.Props.TieA.Tactics
/-!
# Tie A for a whole stateful method: `Otaa::handle_rx` (the join step, C11)

`Gen/OtaaFn.lean` holds the state-passing translation of the CURRENT source of
`Otaa::handle_rx(&mut self, region, configuration, rx) -> Option<Session>` together with
`Session::derive_new`, `Session::new`, `DLSettings::{rx1_dr_offset, rx2_data_rate}` and
`del_to_delay_ms`.  Abstract in the translation (inputs of the theorem): the crypto
(`check_mic_and_decrypt_in_place` is what the buffer yields under a key, the two key derivations are
functions of the decrypted view) and the region (`RegionOps`: the three methods the join step calls,
instantiated here with the hand model's `processJoinAccept`, `rx1DrOffsetValidate`, `getDatarate`).

`tieA_otaa_handle_rx` proves the generated method equal to the model's `Mac::handle_rx` on a joining
device (`macHandleRx` → `otaaAccept`): same answer (a session iff the MIC verifies), same new session
(every field: keys and address from the view, counters 0, nothing pending, no ACK owed), same
configuration (RxDelay 0 → 1 s, RX1DROffset / RX2 data rate stored iff the region accepts them), same
region state (CFList handed over first), no panic on one side iff none on the other.
-/
set_option linter.unusedSimpArgs false
set_option linter.unusedVariables false
namespace TieA.OtaaRx
open Model Gen.Region

/-- the model's CFList for the parser's -/
def cfOf : Gen.OtaaFn.CfList → CfList
  | .DynamicChannel fs => .dynamicChannel (fs.map Int.toNat)
  | .FixedChannel m => .fixedChannel (m.map Int.toNat)

/-- the region of the generated code IS the model's region state: the three methods the join step
calls are the model's (`none` = the model's panic) -/
instance : Gen.OtaaFn.RegionOps RegionState where
  process_join_accept rs cf := (processJoinAccept rs (cf.map cfOf)).toOption
  rx1_dr_offset_validate rs v := (rx1DrOffsetValidate rs.id v.toNat).map Int.ofNat
  get_datarate rs dr := getDatarate rs.id dr.toNat

/-- the model configuration a generated `Configuration` stands for -/
def cfgOf (g : Gen.OtaaFn.Configuration) : Config :=
  { dataRate := g.data_rate.toInt.toNat, rx1Delay := g.rx1_delay.toNat, txPower := g.tx_power.map Int.toNat,
    rx1DrOffset := g.rx1_dr_offset.toNat, rx2DataRate := g.rx2_data_rate.map (fun d => d.toInt.toNat),
    rx2Frequency := g.rx2_frequency.map Int.toNat, adrEnabled := g.adr_enabled }

/-- the model session a generated `Session` stands for — every field -/
def sessOf (g : Gen.OtaaFn.Session) : Session :=
  { pending := g.uplink.pending.map Int.toNat, ackOwed := g.uplink.confirmed, confirmed := g.confirmed,
    devAddr := g.devaddr.id.toNat, fcntUp := g.fcnt_up.toNat, fcntDown := g.fcnt_down.map Int.toNat,
    adrAckCnt := g.adr_ack_cnt.toNat, nwkKey := g.nwkskey.id.toNat, appKey := g.appskey.id.toNat }

/-- the crypto context `Otaa::handle_rx` must use: bound to the device's AppKey -/
def cryptoOf (o : Gen.OtaaFn.Otaa) : Gen.OtaaFn.DefaultCrypto := ⟨o.network_credentials.appkey.inner⟩

/-- the decoded view the model receives: what the buffer yields under the device's AppKey; the key
identities are the derivations under the DevNonce of the pending request and that same key -/
def viewOf (o : Gen.OtaaFn.Otaa) (rx : Gen.OtaaFn.RadioBuffer) : RxView :=
  match rx.as_mut_for_read.check_mic_and_decrypt_in_place (cryptoOf o) with
  | none => .garbage
  | some d => .joinAccept
      { micOk := true, devAddr := d.dev_addr.id.toNat, dlSettings := d.dl_settings._0.toNat, rxDelay := d.rx_delay.toNat,
        cfList := d.c_f_list.map cfOf, nwkKey := (d.derive_nwkskey o.dev_nonce (cryptoOf o)).id.toNat,
        appKey := (d.derive_appskey o.dev_nonce (cryptoOf o)).id.toNat }

/-- the fields of the decrypted view are within their wire widths (one octet of DLSettings, the low
nibble of RxDelay — `rx_delay()` masks it) -/
def ViewWF (o : Gen.OtaaFn.Otaa) (rx : Gen.OtaaFn.RadioBuffer) : Prop :=
  ∀ d, rx.as_mut_for_read.check_mic_and_decrypt_in_place (cryptoOf o) = some d →
    0 ≤ d.dl_settings._0 ∧ d.dl_settings._0 ≤ 255 ∧ 0 ≤ d.rx_delay ∧ d.rx_delay ≤ 15

/-- the MAC state after the generated method: configuration and region written back, the state
`Joined(session)` iff a session was returned (that is `Mac::handle_rx`'s wrapper around it) -/
def macAfter (m : MacState) (out : Option Gen.OtaaFn.Session × Gen.OtaaFn.Otaa × RegionState × Gen.OtaaFn.Configuration × Gen.OtaaFn.RadioBuffer) : MacState :=
  { m with cfg := cfgOf out.2.2.2.1, region := out.2.2.1,
           st := match out.1 with | some s => .joined (sessOf s) | none => m.st }

/-- DLSettings: RX1DROffset = bits 6..4, RX2 data rate = bits 3..0, for every octet -/
theorem dl_settings_fields : ∀ k : Fin 256,
    Gen.OtaaFn.DLSettings.rx1_dr_offset ⟨(k.val : Int)⟩ = some ((k.val / 16 % 8 : Nat) : Int) ∧
    (Gen.OtaaFn.DLSettings.rx2_data_rate ⟨(k.val : Int)⟩).map (fun d => Rt.wrap .u8 (DR.toInt d)) = some ((k.val % 16 : Nat) : Int) ∧
    (Gen.OtaaFn.DLSettings.rx2_data_rate ⟨(k.val : Int)⟩).map (fun d => d.toInt.toNat) = some (k.val % 16) := by
  decide +kernel

/-- `del_to_delay_ms` as this unit regenerates it is the one the model calls, and total on a nibble -/
theorem del_fields : ∀ k : Fin 16,
    Gen.OtaaFn.del_to_delay_ms (k.val : Int) = Gen.Session.del_to_delay_ms (k.val : Int) ∧
    ∃ v : Nat, Gen.Session.del_to_delay_ms (k.val : Int) = some (v : Int) := by
  intro k
  refine ⟨by revert k; decide +kernel, ?_⟩
  have : ∀ k : Fin 16, (Gen.Session.del_to_delay_ms (k.val : Int)).isSome ∧ ∀ v, Gen.Session.del_to_delay_ms (k.val : Int) = some v → 0 ≤ v := by
    decide +kernel
  obtain ⟨h1, h2⟩ := this k
  obtain ⟨v, hv⟩ := Option.isSome_iff_exists.mp h1
  exact ⟨v.toNat, by rw [hv, Int.toNat_of_nonneg (h2 v hv)]⟩

/-- LoRaWAN 1.0.x JoinAccept RxDelay: 0 and 1 both mean one second, 2..15 that many seconds
(`del_to_delay_ms` as regenerated for this unit, for every nibble) -/
theorem rx_delay_values : ∀ k : Fin 16,
    Gen.OtaaFn.del_to_delay_ms (k.val : Int) = some ((max 1 k.val * 1000 : Nat) : Int) := by
  decide +kernel

theorem toOption_bind {α β} (x : M α) (f : α → M β) :
    (x >>= f).toOption = x.toOption.bind (fun a => (f a).toOption) := by
  cases x <;> rfl

/-- `Otaa::handle_rx` as the current source has it (state-passing translation, checked arithmetic; crypto
and region abstract) is the model's `Mac::handle_rx` on a joining device: the answer is a session
exactly when the model answers `JoinSuccess`, the MAC state afterwards (configuration, region,
`Joined(session)` with every session field) is the model's, a panic on one side is a panic on the
other, and the `Otaa` value and the buffer view are left as they were -/
theorem tieA_otaa_handle_rx (m : MacState) (st : OtaaState) (o : Gen.OtaaFn.Otaa) (g : Gen.OtaaFn.Configuration)
    (rx : Gen.OtaaFn.RadioBuffer) (maxPayload : Nat) (snr : Int)
    (hst : m.st = .otaa st) (hcfg : m.cfg = cfgOf g) (hwf : ViewWF o rx) :
    (Gen.OtaaFn.Otaa.handle_rx o m.region g rx).map
        (fun out => ((if out.1.isSome then Response.joinSuccess else Response.noUpdate), macAfter m out, out.2.1, out.2.2.2.2))
      = (macHandleRx m (viewOf o rx) maxPayload snr false).toOption.bind
          (fun r => r.1.map (fun ro => (ro.resp, r.2, o, rx))) := by
  unfold Gen.OtaaFn.Otaa.handle_rx
  try gen_unfold_methods_OtaaFn
  simp only [viewOf, cryptoOf, macHandleRx, hst, Gen.OtaaFn.DefaultCrypto.new]
  cases hd : rx.as_mut_for_read.check_mic_and_decrypt_in_place ⟨o.network_credentials.appkey.inner⟩ with
  | none =>
    simp only [Option.pure_def, Option.map_some, Option.isSome_none, Bool.false_eq_true, if_false, macAfter, ← hcfg]
    cases m; simp_all [Except.toOption, pure, Except.pure]
  | some d =>
    obtain ⟨h1, h2, h3, h4⟩ := hwf d hd
    obtain ⟨cf, rd, ⟨dl⟩, da, dn, dap⟩ := d
    simp only at h1 h2 h3 h4
    -- the octets as naturals
    obtain ⟨dlN, rfl⟩ : ∃ n : Nat, dl = (n : Int) := ⟨dl.toNat, by omega⟩
    obtain ⟨rdN, rfl⟩ : ∃ n : Nat, rd = (n : Int) := ⟨rd.toNat, by omega⟩
    have hdl : dlN < 256 := by omega
    have hrd : rdN < 16 := by omega
    obtain ⟨e1, e2, e3⟩ := dl_settings_fields ⟨dlN, hdl⟩
    obtain ⟨e4, v, e5⟩ := del_fields ⟨rdN, hrd⟩
    simp only at e1 e2 e3 e4 e5
    simp only [if_true, otaaAccept, toOption_bind, Gen.OtaaFn.RegionOps.process_join_accept,
      Gen.OtaaFn.RegionOps.rx1_dr_offset_validate, Gen.OtaaFn.RegionOps.get_datarate, Int.toNat_natCast,
      Option.bind_eq_bind, Option.pure_def, delToDelayMs, Nat.mod_eq_of_lt hrd, e4, e5, e1, ofGen]
    cases hp : processJoinAccept m.region (cf.map cfOf) with
    | error e => simp [Except.toOption, bind, Except.bind]
    | ok rs' =>
      cases hr2 : Gen.OtaaFn.DLSettings.rx2_data_rate ⟨(dlN : Int)⟩ with
      | none => rw [hr2] at e3; simp at e3
      | some dr =>
        rw [hr2] at e2 e3
        simp only [Option.map_some, Option.some.injEq] at e2 e3
        have hid : rs'.id = rs'.id := rfl
        simp only [Except.toOption, Option.bind_some, bind, Except.bind, pure, Except.pure, Option.map_some, e2,
          Int.toNat_natCast, Option.isSome_some, if_true, Gen.OtaaFn.Session.derive_new, Gen.OtaaFn.Session.new]
        gen_unfold_helpers_OtaaFn
        cases hv : rx1DrOffsetValidate rs'.id (dlN / 16 % 8) <;> cases hg : (getDatarate rs'.id (dlN % 16)).isSome <;>
          simp [macAfter, cfgOf, sessOf, Session.new, hcfg, hv, hg, e3]

/-- a decrypted view: DLSettings 0x23 (offset 2, RX2 DR3), RxDelay 0, no CFList -/
def exView : Gen.OtaaFn.DecryptedJoinAcceptPayload :=
  ⟨none, 0, ⟨0x23⟩, ⟨0x01020304⟩, fun n c => ⟨n.value + c.key.id⟩, fun n c => ⟨2 * n.value + c.key.id⟩⟩
/-- a buffer that verifies under key 7 only -/
def exRx : Gen.OtaaFn.RadioBuffer := ⟨⟨fun c => if c.key.id = 7 then some exView else none⟩⟩

/-- non-vacuity: EU868, DLSettings 0x23 (offset 2, RX2 DR3), RxDelay 0 → 1000 ms, session with counters 0 -/
example :
    (Gen.OtaaFn.Otaa.handle_rx ⟨⟨100⟩, ⟨⟨⟨7⟩⟩⟩⟩ (RegionState.init .EU868)
        ⟨._0, 5000, 5000, 6000, none, 0, none, none, true⟩ exRx).map
      (fun out => (out.1.map (fun s => (s.nwkskey.id, s.appskey.id, s.devaddr.id, s.fcnt_up, s.fcnt_down)),
        out.2.2.2.1.rx1_delay, out.2.2.2.1.rx1_dr_offset, out.2.2.2.1.rx2_data_rate))
      = some (some (107, 207, 0x01020304, 0, none), 1000, 2, some ._3) := by rfl

/-- non-vacuity: under another key the buffer does not verify — nothing is returned, nothing changes -/
example :
    (Gen.OtaaFn.Otaa.handle_rx ⟨⟨100⟩, ⟨⟨⟨8⟩⟩⟩⟩ (RegionState.init .EU868)
        ⟨._0, 5000, 5000, 6000, none, 0, none, none, true⟩ exRx).map (fun out => (out.1.isSome, out.2.2.2.1.rx1_delay))
      = some (false, 5000) := by decide

#print axioms tieA_otaa_handle_rx
end TieA.OtaaRx
