import LoraVerif.Props.TieA.Basic
/-!
# C08, tie A: the index and data-rate-range guards of NewChannelReq / DlChannelReq handling

`Model/Region.lean` (`handleNewChannel`, `channelDlUpdate`) refuses a channel index below the join
channels or at/above 16 and a DataRateRange whose maximum is not below 15.  The corresponding tests of
`DynamicChannelPlan::handle_new_channel` / `channel_dl_update` (`index < R::NUM_JOIN_CHANNELS`,
`index >= NUM_CHANNELS_DYNAMIC`, `r.max_data_rate() < NUM_DATARATES`) are regenerated from the current
source as functions of their operands (`Gen/RegionStatic.lean`) and proved equal to the model's.
-/
namespace C08
open Model TieA

/-- `index < R::NUM_JOIN_CHANNELS` with the region's constant is the model's `index < numJoinChannels r` -/
theorem tieA_newChannel_joinIndex (r : RegionId) (h : r.isFixed = false) (index : Nat) :
    ∃ n, Gen.RegionStatic.NUM_JOIN_CHANNELS (toGen r) = some n ∧
      Gen.RegionStatic.DynamicChannelPlan.handle_new_channel.index_is_join_channel index n
        = decide (index < numJoinChannels r) := by
  refine ⟨(numJoinChannels r : Int), ?_, ?_⟩
  · cases r <;> first | (exact absurd h (by decide)) | rfl
  · simp only [Gen.RegionStatic.DynamicChannelPlan.handle_new_channel.index_is_join_channel]
    rw [Bool.eq_iff_iff]; simp only [decide_eq_true_eq]; omega

/-- `index >= NUM_CHANNELS_DYNAMIC` (both handlers) is the model's `index ≥ 16` -/
theorem tieA_newChannel_pastPlan (index : Nat) :
    Gen.RegionStatic.DynamicChannelPlan.handle_new_channel.index_past_plan index = decide (index ≥ 16) ∧
    Gen.RegionStatic.DynamicChannelPlan.channel_dl_update.index_past_plan index = decide (index ≥ 16) := by
  have hn : Gen.RegionStatic.NUM_CHANNELS_DYNAMIC = 16 := rfl
  constructor <;>
    simp only [Gen.RegionStatic.DynamicChannelPlan.handle_new_channel.index_past_plan,
      Gen.RegionStatic.DynamicChannelPlan.channel_dl_update.index_past_plan] <;>
    rw [Bool.eq_iff_iff] <;> simp only [decide_eq_true_eq] <;> omega

/-- `r.max_data_rate() < NUM_DATARATES` is the model's `dmax < 15` -/
theorem tieA_newChannel_maxDr (dmax : Nat) :
    Gen.RegionStatic.DynamicChannelPlan.handle_new_channel.max_dr_in_table dmax = decide (dmax < 15) := by
  have hn : Gen.RegionStatic.NUM_DATARATES = 15 := rfl
  simp only [Gen.RegionStatic.DynamicChannelPlan.handle_new_channel.max_dr_in_table]
  rw [Bool.eq_iff_iff]; simp only [decide_eq_true_eq]; omega

example : Gen.RegionStatic.DynamicChannelPlan.handle_new_channel.index_past_plan 16 = true ∧
    Gen.RegionStatic.DynamicChannelPlan.handle_new_channel.index_is_join_channel 2 3 = true ∧
    Gen.RegionStatic.DynamicChannelPlan.handle_new_channel.max_dr_in_table 15 = false := by decide

#print axioms tieA_newChannel_joinIndex
#print axioms tieA_newChannel_pastPlan
#print axioms tieA_newChannel_maxDr
end C08
