import LoraVerif.Model.Mac
import LoraVerif.Props.TieA.HandleRx
import LoraVerif.Props.TieA.HandleRxFull
/-!
# C07, tie A: `Session::handle_rx` as the current source has it IS the model function the C07 theorems
are about (builder N; `Gen/SessionRx.lean`, `Props/TieA/HandleRx.lean`)
-/
namespace C07
open Model

/-- builder N — frames that are not accepted change nothing, in the CODE: the state-passing translation of
the current source of `Session::handle_rx` is the model's `sessionHandleRx` (which `C07.*` are about): in
particular every early exit (parser rejects, oversized on RXC, `next_fcnt_down` refuses, MIC does not
verify) returns `NoUpdate` with the session, configuration, region, buffer and downlink queue it was
given; see `C05.tieA_handle_rx_accept`.  Builder X: for downlink-typed frames (`hup`); an uplink-typed frame is the
further early exit `tieA_handle_rx_uplink_typed` (a rejected frame for C07: nothing changes).  Builder Y: and carrying the session's own DevAddr if it passes the size test (`haddr`); a fitting frame addressed to another device is the early exit `tieA_handle_rx_other_devaddr` (`NoUpdate`, nothing changes; an oversized one ends the Class A procedure whatever its address).  Proved in `Props/TieA/HandleRx.lean`.  Builder S: stated for the regenerated
`handle_downlink_macs` (`TieA.Rx.Full.genOps`) on every command stream, no simulation hypothesis
(`Props/TieA/HandleRxFull.lean`). -/
theorem tieA_handle_rx_accept
    (D : Int) (gs : Gen.SessionRx.Session) (rs : RegionState) (g : Gen.SessionRx.Configuration)
    (rx : Gen.SessionRx.RadioBuffer) (dl : List Gen.SessionRx.Downlink) (maxp snr : Int) (ign : Bool)
    (e : Gen.SessionRx.EncryptedDataPayload)
    (hparse : rx.as_mut_for_read.parse = some e) (hup : e.is_uplink = false)
    (haddr : ¬ (e.as_bytes.length : Int) > maxp + 5 → e.fhdr.dev_addr = gs.devaddr)
    (hw : TieA.Rx.SessWF gs) (hmax : 0 ≤ maxp ∧ maxp ≤ 255) (hwire : 0 ≤ e.fhdr.fcnt)
    (hdec : ∀ f, Gen.SessionRx.next_fcnt_down gs.fcnt_down e.fhdr.fcnt = some f → e.validate_mic (TieA.Rx.nwkOf gs) f = true →
      ∃ d, rx.as_mut_for_read.decrypt_in_place (some (TieA.Rx.nwkOf gs)) (some (TieA.Rx.appOf gs)) f = some d ∧ TieA.Rx.DecWF TieA.Rx.Full.Stream d) :
    (@Gen.SessionRx.Session.handle_rx RegionState TieA.Rx.Full.genOps D gs rs g rx dl maxp snr ign).bind
        (fun out => (TieA.Rx.respOf out.1).map (fun r => (r, TieA.Rx.sessOf out.2.1, out.2.2.1, TieA.Rx.cfgOf out.2.2.2.1, out.2.2.2.2.2.map TieA.Rx.dlOf)))
      = (sessionHandleRx (TieA.Rx.sessOf gs) (TieA.Rx.cfgOf g) rs (TieA.Rx.dataOf gs e (TieA.Rx.decOf gs rx e)) maxp.toNat snr ign).toOption.map (TieA.Rx.expect dl D) :=
  TieA.Rx.Full.handle_rx_full D gs rs g rx dl maxp snr ign e hparse hup haddr hw hmax hwire hdec

/-- builder N — a buffer the data-frame parser rejects: `NoUpdate`, every output is the input -/
theorem tieA_handle_rx_unparsed [Gen.SessionRx.MacOps RegionState]
    (D : Int) (gs : Gen.SessionRx.Session) (rs : RegionState) (g : Gen.SessionRx.Configuration)
    (rx : Gen.SessionRx.RadioBuffer) (dl : List Gen.SessionRx.Downlink) (maxp snr : Int) (ign : Bool)
    (hparse : rx.as_mut_for_read.parse = none) :
    Gen.SessionRx.Session.handle_rx D gs rs g rx dl maxp snr ign = some (.NoUpdate, gs, rs, g, rx, dl) :=
  TieA.Rx.handle_rx_unparsed D gs rs g rx dl maxp snr ign hparse

/-- builder X — a buffer the parser accepts whose MType is an UPLINK type (`is_uplink()`; the device's own uplink
echoed back, another device's uplink, any frame MIC'd with Dir = 0 under the session key): `NoUpdate`, every output is
the input — whatever its length, wire counter and MIC, in a Class A window (no `rx2_complete`) and outside.  For the
model such a buffer is NOT a data-frame view (`RxView.garbage`, the reference codec's `g`), exactly like a buffer the
parser rejects: `sessionHandleRx` is only ever applied to downlink-typed frames (`hup` of `tieA_handle_rx_accept`). -/
theorem tieA_handle_rx_uplink_typed [Gen.SessionRx.MacOps RegionState]
    (D : Int) (gs : Gen.SessionRx.Session) (rs : RegionState) (g : Gen.SessionRx.Configuration)
    (rx : Gen.SessionRx.RadioBuffer) (dl : List Gen.SessionRx.Downlink) (maxp snr : Int) (ign : Bool)
    (e : Gen.SessionRx.EncryptedDataPayload)
    (hparse : rx.as_mut_for_read.parse = some e) (hup : e.is_uplink = true) :
    Gen.SessionRx.Session.handle_rx D gs rs g rx dl maxp snr ign = some (.NoUpdate, gs, rs, g, rx, dl) :=
  TieA.Rx.handle_rx_uplink_typed D gs rs g rx dl maxp snr ign e hparse hup

/-- builder Y — a buffer the parser accepts as a downlink-typed frame that fits the window's data rate but whose FHDR
DevAddr differs from the session's (a frame ADDRESSED TO SOMEONE ELSE): `NoUpdate`, every output is the input — whatever
its wire counter and MIC (also a MIC that verifies under this session's NwkSKey at a fresh counter: two devices
provisioned with the same keys), for every `ignore_mac` and every `MacOps` instance.  For the model such a buffer is NOT a
data-frame view (`RxView.garbage`, the reference codec's `g`): `sessionHandleRx` is only ever applied to frames carrying
the session's own DevAddr (`haddr` of `tieA_handle_rx_accept`).  Without this exit (before the fix) the method never
compared the address and accepted such a frame: payload delivered, FCntDown advanced. -/
theorem tieA_handle_rx_other_devaddr [Gen.SessionRx.MacOps RegionState]
    (D : Int) (gs : Gen.SessionRx.Session) (rs : RegionState) (g : Gen.SessionRx.Configuration)
    (rx : Gen.SessionRx.RadioBuffer) (dl : List Gen.SessionRx.Downlink) (maxp snr : Int) (ign : Bool)
    (e : Gen.SessionRx.EncryptedDataPayload)
    (hparse : rx.as_mut_for_read.parse = some e) (hup : e.is_uplink = false)
    (hmax : 0 ≤ maxp ∧ maxp ≤ 255) (hfits : ¬ (e.as_bytes.length : Int) > maxp + 5)
    (haddr : e.fhdr.dev_addr ≠ gs.devaddr) :
    Gen.SessionRx.Session.handle_rx D gs rs g rx dl maxp snr ign = some (.NoUpdate, gs, rs, g, rx, dl) :=
  TieA.Rx.handle_rx_other_devaddr D gs rs g rx dl maxp snr ign e hparse hup hmax hfits haddr

/-- builder S: the two former hypotheses are theorems for the regenerated `handle_downlink_macs` -/
example : @TieA.Rx.NextLowerOk TieA.Rx.Full.genOps ∧ @TieA.Rx.MacsOk TieA.Rx.Full.genOps TieA.Rx.Full.Stream := TieA.Rx.Full.genOps_ok

#print axioms tieA_handle_rx_accept
#print axioms tieA_handle_rx_unparsed
#print axioms tieA_handle_rx_uplink_typed
#print axioms tieA_handle_rx_other_devaddr
end C07
