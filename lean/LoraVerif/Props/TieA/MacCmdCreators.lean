import LoraVerif.Props.C19
import LoraVerif.Gen.MacCmdCreatorFn
import LoraVerif.Props.TieA.MacCmdFrame
/-!
# Tie A for the command creators (builder F, C19)

`Gen/MacCmdCreatorFn.lean` holds, for eight MAC commands, the creator `#[derive(CommandHandler)]` generates (`XCreator { data }`,
`new`, `len`, `build`, expanded from the `quote!` template with the `#[cmd]` attributes of the current source) and the
hand-written setters of maccommandcreator.rs that take plain integers / booleans.  Here each regenerated function is proved
EQUAL to the hand model `Model/MacCmdCreators.lean` (`Creator.new`, `Creator.build`, `setLinkADRReq` … — the functions the C19
refinement lemmas `MacCmd.set_*` and `buildWith` are stated about), for EVERY state of the creator (`data` is an array of
`max_len + 1` octets: a list of exactly that length) and every argument of the setter's Rust type.
A setter's result is compared as (accepted?, new `data`); which `Error` a refusal carries is not modelled on the generated side.
-/
set_option linter.unusedSimpArgs false
set_option linter.unusedVariables false
namespace TieA.Creators
open MacCmd TieA.MacCmdFrame

/-- a setter's outcome: accepted?, the new `data` -/
def resUp (r : SetRes × Creator) : Bool × List Int := (r.1 == .ok, ints r.2.data)
/-- the same of a regenerated fallible setter (`Result<&mut Self, Error>`) / infallible setter (`&mut Self`) -/
def resF {C : Type} (data : C → List Int) (r : Option Unit × C) : Bool × List Int := (r.1.isSome, data r.2)
def resI {C : Type} (data : C → List Int) (r : C) : Bool × List Int := (true, data r)

def b2n (b : Bool) : Nat := if b then 1 else 0

theorem shl_u8 (v k : Nat) (hk : k < 8) : Rt.shlC .u8 (v : Int) (k : Int) = some (((v <<< k) % 256 : Nat) : Int) := by
  unfold Rt.shlC
  have h : (0 : Int) ≤ (k : Int) ∧ (k : Int) < ((Rt.ITy.u8.bits : Nat) : Int) := by simp [Rt.ITy.bits]; omega
  rw [if_pos h]
  simp [Rt.wrap, Rt.ITy.signed, Rt.ITy.bits, Nat.shiftLeft_eq]

/-- evaluates a regenerated setter and the model's on a creator of known shape -/
macro "setter_eval" : tactic =>
  `(tactic| simp [toOpt, resUp, resF, resI, ints, b2n, Rt.idx, Rt.setIdx, Rt.andI, Rt.orI, Rt.notI, Rt.b2i, Rt.shlC, Rt.wrap, Rt.divC, Rt.ITy.bits,
      Rt.ITy.signed, Rt.ITy.hi, Rt.ITy.lo, modByte, setByte, index, okD, refuse, setFlag, setRaw, setLowNibbleChecked, bind, Outcome.bind])

theorem LinkADRReq_set_data_rate (c b0 b1 b2 b3 v : Nat) (hv : v < 256) :
    (Gen.MacCmdCreatorFn.LinkADRReqCreator.set_data_rate ⟨ints [c, b0, b1, b2, b3]⟩ v).map (resF (·.data))
      = (toOpt (setLinkADRReq ⟨[c, b0, b1, b2, b3], 0⟩ "set_data_rate" (.n v))).map resUp := by
  unfold Gen.MacCmdCreatorFn.LinkADRReqCreator.set_data_rate setLinkADRReq
  by_cases h : v > 15
  · have h' : ((v : Int) > 15) := by omega
    have h2 : 15 < v := by omega
    simp [h, h', h2, refuse, toOpt, resUp, resF, ints, setLowNibbleChecked]
  · have h' : ¬ ((v : Int) > 15) := by omega
    have s4 : Rt.shlC .u8 (v : Int) 4 = some (((v <<< 4) % 256 : Nat) : Int) := shl_u8 v 4 (by omega)
    have h2 : ¬ 15 < v := by omega
    simp only [h, h', h2, if_false, decide_false, Bool.false_eq_true, not_false_eq_true, setLowNibbleChecked]
    obtain ⟨w, hw⟩ : ∃ w : Nat, w = v <<< 4 % 256 := ⟨_, rfl⟩
    rw [← hw] at s4
    try simp only [s4]
    setter_eval
    try rw [hw]
    try simp [Nat.and_comm]

theorem LinkADRReq_set_tx_power (c b0 b1 b2 b3 v : Nat) (hv : v < 256) :
    (Gen.MacCmdCreatorFn.LinkADRReqCreator.set_tx_power ⟨ints [c, b0, b1, b2, b3]⟩ v).map (resF (·.data))
      = (toOpt (setLinkADRReq ⟨[c, b0, b1, b2, b3], 0⟩ "set_tx_power" (.n v))).map resUp := by
  unfold Gen.MacCmdCreatorFn.LinkADRReqCreator.set_tx_power setLinkADRReq
  by_cases h : v > 15
  · have h' : ((v : Int) > 15) := by omega
    have h2 : 15 < v := by omega
    simp [h, h', h2, refuse, toOpt, resUp, resF, ints, setLowNibbleChecked]
  · have h' : ¬ ((v : Int) > 15) := by omega
    have s4 : Rt.shlC .u8 (v : Int) 4 = some (((v <<< 4) % 256 : Nat) : Int) := shl_u8 v 4 (by omega)
    have h2 : ¬ 15 < v := by omega
    simp only [h, h', h2, if_false, decide_false, Bool.false_eq_true, not_false_eq_true, setLowNibbleChecked]
    obtain ⟨w, hw⟩ : ∃ w : Nat, w = v <<< 4 % 256 := ⟨_, rfl⟩
    rw [← hw] at s4
    try simp only [s4]
    setter_eval
    try rw [hw]
    try simp [Nat.and_comm]

theorem LinkADRAns_set_channel_mask_ack (c b0 : Nat) (ack : Bool) :
    (Gen.MacCmdCreatorFn.LinkADRAnsCreator.set_channel_mask_ack ⟨ints [c, b0]⟩ ack).map (resI (·.data))
      = (toOpt (setLinkADRAns ⟨[c, b0], 0⟩ "set_channel_mask_ack" (.n (b2n ack)))).map resUp := by
  unfold Gen.MacCmdCreatorFn.LinkADRAnsCreator.set_channel_mask_ack setLinkADRAns
  cases ack <;> setter_eval

theorem LinkADRAns_set_data_rate_ack (c b0 : Nat) (ack : Bool) :
    (Gen.MacCmdCreatorFn.LinkADRAnsCreator.set_data_rate_ack ⟨ints [c, b0]⟩ ack).map (resI (·.data))
      = (toOpt (setLinkADRAns ⟨[c, b0], 0⟩ "set_data_rate_ack" (.n (b2n ack)))).map resUp := by
  unfold Gen.MacCmdCreatorFn.LinkADRAnsCreator.set_data_rate_ack setLinkADRAns
  cases ack <;> setter_eval

theorem LinkADRAns_set_tx_power_ack (c b0 : Nat) (ack : Bool) :
    (Gen.MacCmdCreatorFn.LinkADRAnsCreator.set_tx_power_ack ⟨ints [c, b0]⟩ ack).map (resI (·.data))
      = (toOpt (setLinkADRAns ⟨[c, b0], 0⟩ "set_tx_power_ack" (.n (b2n ack)))).map resUp := by
  unfold Gen.MacCmdCreatorFn.LinkADRAnsCreator.set_tx_power_ack setLinkADRAns
  cases ack <;> setter_eval

theorem NewChannelReq_set_channel_index (c b0 b1 b2 b3 b4 v : Nat) (hv : v < 256) :
    (Gen.MacCmdCreatorFn.NewChannelReqCreator.set_channel_index ⟨ints [c, b0, b1, b2, b3, b4]⟩ v).map (resI (·.data))
      = (toOpt (setNewChannelReq ⟨[c, b0, b1, b2, b3, b4], 0⟩ "set_channel_index" (.n v))).map resUp := by
  unfold Gen.MacCmdCreatorFn.NewChannelReqCreator.set_channel_index setNewChannelReq
  setter_eval

theorem DlChannelReq_set_channel_index (c b0 b1 b2 b3 v : Nat) (hv : v < 256) :
    (Gen.MacCmdCreatorFn.DlChannelReqCreator.set_channel_index ⟨ints [c, b0, b1, b2, b3]⟩ v).map (resI (·.data))
      = (toOpt (setDlChannelReq ⟨[c, b0, b1, b2, b3], 0⟩ "set_channel_index" (.n v))).map resUp := by
  unfold Gen.MacCmdCreatorFn.DlChannelReqCreator.set_channel_index setDlChannelReq
  setter_eval

theorem DevStatusAns_set_battery (c b0 b1 v : Nat) (hv : v < 256) :
    (Gen.MacCmdCreatorFn.DevStatusAnsCreator.set_battery ⟨ints [c, b0, b1]⟩ v).map (resI (·.data))
      = (toOpt (setDevStatusAns ⟨[c, b0, b1], 0⟩ "set_battery" (.n v))).map resUp := by
  unfold Gen.MacCmdCreatorFn.DevStatusAnsCreator.set_battery setDevStatusAns
  setter_eval

theorem TXParamSetupReq_set_downlink_dwell_time (c b0 : Nat) (ack : Bool) :
    (Gen.MacCmdCreatorFn.TXParamSetupReqCreator.set_downlink_dwell_time ⟨ints [c, b0]⟩ ack).map (resI (·.data))
      = (toOpt (setTXParamSetupReq ⟨[c, b0], 0⟩ "set_downlink_dwell_time" (.n (b2n ack)))).map resUp := by
  unfold Gen.MacCmdCreatorFn.TXParamSetupReqCreator.set_downlink_dwell_time setTXParamSetupReq
  cases ack <;> setter_eval

theorem TXParamSetupReq_set_uplink_dwell_time (c b0 : Nat) (ack : Bool) :
    (Gen.MacCmdCreatorFn.TXParamSetupReqCreator.set_uplink_dwell_time ⟨ints [c, b0]⟩ ack).map (resI (·.data))
      = (toOpt (setTXParamSetupReq ⟨[c, b0], 0⟩ "set_uplink_dwell_time" (.n (b2n ack)))).map resUp := by
  unfold Gen.MacCmdCreatorFn.TXParamSetupReqCreator.set_uplink_dwell_time setTXParamSetupReq
  cases ack <;> setter_eval

theorem TXParamSetupReq_set_max_eirp (c b0 v : Nat) (hv : v < 256) :
    (Gen.MacCmdCreatorFn.TXParamSetupReqCreator.set_max_eirp ⟨ints [c, b0]⟩ v).map (resF (·.data))
      = (toOpt (setTXParamSetupReq ⟨[c, b0], 0⟩ "set_max_eirp" (.n v))).map resUp := by
  unfold Gen.MacCmdCreatorFn.TXParamSetupReqCreator.set_max_eirp setTXParamSetupReq
  by_cases h : v > 15
  · have h' : ((v : Int) > 15) := by omega
    have h2 : 15 < v := by omega
    simp [h, h', h2, refuse, toOpt, resUp, resF, ints, setLowNibbleChecked]
  · have h' : ¬ ((v : Int) > 15) := by omega
    have s4 : Rt.shlC .u8 (v : Int) 4 = some (((v <<< 4) % 256 : Nat) : Int) := shl_u8 v 4 (by omega)
    have h2 : ¬ 15 < v := by omega
    simp only [h, h', h2, if_false, decide_false, Bool.false_eq_true, not_false_eq_true, setLowNibbleChecked]
    obtain ⟨w, hw⟩ : ∃ w : Nat, w = v <<< 4 % 256 := ⟨_, rfl⟩
    rw [← hw] at s4
    try simp only [s4]
    setter_eval
    try rw [hw]
    try simp [Nat.and_comm]
theorem leBytes_nat : ∀ (n v : Nat), Rt.leBytes n (v : Int) = ints (toLeBytes n v) := by
  intro n
  induction n with
  | zero => intro v; rfl
  | succ n ih =>
    intro v
    have h1 : ((v : Int) % 256) = ((v % 256 : Nat) : Int) := by omega
    have h2 : ((v : Int) / 256) = ((v / 256 : Nat) : Int) := by omega
    simp only [Rt.leBytes, toLeBytes, h1, h2, ih]
    rfl

/-- `set_seconds` writes the 32-bit value LEAST significant octet first (`to_le_bytes`), as the model says — the creator
half of the known finding C19-devicetime-seconds (the parser's accessor reads the octets most significant first:
`MacCmd.acc_DeviceTimeAns_seconds`, `C19.c19_devicetime_counterexample`) -/
theorem DeviceTimeAns_set_seconds (c b0 b1 b2 b3 b4 v : Nat) (hv : v < 4294967296) :
    (Gen.MacCmdCreatorFn.DeviceTimeAnsCreator.set_seconds ⟨ints [c, b0, b1, b2, b3, b4]⟩ v).map (resI (·.data))
      = (toOpt (setDeviceTimeAns ⟨[c, b0, b1, b2, b3, b4], 0⟩ "set_seconds" (.n v))).map resUp := by
  unfold Gen.MacCmdCreatorFn.DeviceTimeAnsCreator.set_seconds setDeviceTimeAns
  rw [leBytes_nat]
  simp [toOpt, resUp, resI, ints, Rt.copyFromSlice, copyInto, toLeBytes, okD, bind, Outcome.bind]

theorem DeviceTimeAns_set_nano_seconds (c b0 b1 b2 b3 b4 v : Nat) (hv : v < 4294967296) :
    (Gen.MacCmdCreatorFn.DeviceTimeAnsCreator.set_nano_seconds ⟨ints [c, b0, b1, b2, b3, b4]⟩ v).map (resF (·.data))
      = (toOpt (setDeviceTimeAns ⟨[c, b0, b1, b2, b3, b4], 0⟩ "set_nano_seconds" (.n v))).map resUp := by
  unfold Gen.MacCmdCreatorFn.DeviceTimeAnsCreator.set_nano_seconds setDeviceTimeAns
  by_cases h : v > 1000000000
  · have h' : ((v : Int) > 1000000000) := by omega
    have h2 : 1000000000 < v := by omega
    simp [h, h', h2, refuse, toOpt, resUp, resF, ints]
  · have h' : ¬ ((v : Int) > 1000000000) := by omega
    have h2 : ¬ 1000000000 < v := by omega
    have hd : Rt.divC .u32 (v : Int) 3906250 = some (((v / 3906250 : Nat)) : Int) := by
      simp [Rt.divC, Rt.ck, Rt.ITy.lo, Rt.ITy.hi, Rt.ITy.signed, Rt.ITy.bits]
      omega
    simp only [h, h', h2, if_false, decide_false, Bool.false_eq_true, not_false_eq_true, hd]
    setter_eval
    try omega

/-- the table row of `LinkADRReq` (regenerated from the `#[cmd]` attribute) -/
def eLinkADRReq : Entry := ⟨3, some 4, "LinkADRReq", "LinkADRReqPayload"⟩
theorem eLinkADRReq_row : (C03.T Gen.CmdTables.downlinkMacCommand).lookup 3 = some eLinkADRReq := by decide

theorem LinkADRReq_new : (Gen.MacCmdCreatorFn.LinkADRReqCreator.new).map (·.data) = (toOpt (Creator.new eLinkADRReq)).map (fun c => ints c.data) := by decide

theorem LinkADRReq_build (c b0 b1 b2 b3 : Nat) :
    Gen.MacCmdCreatorFn.LinkADRReqCreator.build ⟨ints [c, b0, b1, b2, b3]⟩ = (toOpt (Creator.build eLinkADRReq ⟨[c, b0, b1, b2, b3], 0⟩)).map ints := by
  unfold Gen.MacCmdCreatorFn.LinkADRReqCreator.build Gen.MacCmdCreatorFn.LinkADRReqCreator.len Creator.build
  simp [Gen.MacCmdCreatorFn.LinkADRReqPayload.max_len, Rt.ck, Rt.ITy.lo, Rt.ITy.hi, Rt.ITy.signed, Rt.ITy.bits, Rt.slice, ints, eLinkADRReq, Creator.len, slice, toOpt]

/-- the table row of `LinkADRAns` (regenerated from the `#[cmd]` attribute) -/
def eLinkADRAns : Entry := ⟨3, some 1, "LinkADRAns", "LinkADRAnsPayload"⟩
theorem eLinkADRAns_row : (C03.T Gen.CmdTables.uplinkMacCommand).lookup 3 = some eLinkADRAns := by decide

theorem LinkADRAns_new : (Gen.MacCmdCreatorFn.LinkADRAnsCreator.new).map (·.data) = (toOpt (Creator.new eLinkADRAns)).map (fun c => ints c.data) := by decide

theorem LinkADRAns_build (c b0 : Nat) :
    Gen.MacCmdCreatorFn.LinkADRAnsCreator.build ⟨ints [c, b0]⟩ = (toOpt (Creator.build eLinkADRAns ⟨[c, b0], 0⟩)).map ints := by
  unfold Gen.MacCmdCreatorFn.LinkADRAnsCreator.build Gen.MacCmdCreatorFn.LinkADRAnsCreator.len Creator.build
  simp [Gen.MacCmdCreatorFn.LinkADRAnsPayload.max_len, Rt.ck, Rt.ITy.lo, Rt.ITy.hi, Rt.ITy.signed, Rt.ITy.bits, Rt.slice, ints, eLinkADRAns, Creator.len, slice, toOpt]

/-- the table row of `NewChannelReq` (regenerated from the `#[cmd]` attribute) -/
def eNewChannelReq : Entry := ⟨7, some 5, "NewChannelReq", "NewChannelReqPayload"⟩
theorem eNewChannelReq_row : (C03.T Gen.CmdTables.downlinkMacCommand).lookup 7 = some eNewChannelReq := by decide

theorem NewChannelReq_new : (Gen.MacCmdCreatorFn.NewChannelReqCreator.new).map (·.data) = (toOpt (Creator.new eNewChannelReq)).map (fun c => ints c.data) := by decide

theorem NewChannelReq_build (c b0 b1 b2 b3 b4 : Nat) :
    Gen.MacCmdCreatorFn.NewChannelReqCreator.build ⟨ints [c, b0, b1, b2, b3, b4]⟩ = (toOpt (Creator.build eNewChannelReq ⟨[c, b0, b1, b2, b3, b4], 0⟩)).map ints := by
  unfold Gen.MacCmdCreatorFn.NewChannelReqCreator.build Gen.MacCmdCreatorFn.NewChannelReqCreator.len Creator.build
  simp [Gen.MacCmdCreatorFn.NewChannelReqPayload.max_len, Rt.ck, Rt.ITy.lo, Rt.ITy.hi, Rt.ITy.signed, Rt.ITy.bits, Rt.slice, ints, eNewChannelReq, Creator.len, slice, toOpt]

/-- the table row of `DlChannelReq` (regenerated from the `#[cmd]` attribute) -/
def eDlChannelReq : Entry := ⟨10, some 4, "DlChannelReq", "DlChannelReqPayload"⟩
theorem eDlChannelReq_row : (C03.T Gen.CmdTables.downlinkMacCommand).lookup 10 = some eDlChannelReq := by decide

theorem DlChannelReq_new : (Gen.MacCmdCreatorFn.DlChannelReqCreator.new).map (·.data) = (toOpt (Creator.new eDlChannelReq)).map (fun c => ints c.data) := by decide

theorem DlChannelReq_build (c b0 b1 b2 b3 : Nat) :
    Gen.MacCmdCreatorFn.DlChannelReqCreator.build ⟨ints [c, b0, b1, b2, b3]⟩ = (toOpt (Creator.build eDlChannelReq ⟨[c, b0, b1, b2, b3], 0⟩)).map ints := by
  unfold Gen.MacCmdCreatorFn.DlChannelReqCreator.build Gen.MacCmdCreatorFn.DlChannelReqCreator.len Creator.build
  simp [Gen.MacCmdCreatorFn.DlChannelReqPayload.max_len, Rt.ck, Rt.ITy.lo, Rt.ITy.hi, Rt.ITy.signed, Rt.ITy.bits, Rt.slice, ints, eDlChannelReq, Creator.len, slice, toOpt]

/-- the table row of `RXParamSetupReq` (regenerated from the `#[cmd]` attribute) -/
def eRXParamSetupReq : Entry := ⟨5, some 4, "RXParamSetupReq", "RXParamSetupReqPayload"⟩
theorem eRXParamSetupReq_row : (C03.T Gen.CmdTables.downlinkMacCommand).lookup 5 = some eRXParamSetupReq := by decide

theorem RXParamSetupReq_new : (Gen.MacCmdCreatorFn.RXParamSetupReqCreator.new).map (·.data) = (toOpt (Creator.new eRXParamSetupReq)).map (fun c => ints c.data) := by decide

theorem RXParamSetupReq_build (c b0 b1 b2 b3 : Nat) :
    Gen.MacCmdCreatorFn.RXParamSetupReqCreator.build ⟨ints [c, b0, b1, b2, b3]⟩ = (toOpt (Creator.build eRXParamSetupReq ⟨[c, b0, b1, b2, b3], 0⟩)).map ints := by
  unfold Gen.MacCmdCreatorFn.RXParamSetupReqCreator.build Gen.MacCmdCreatorFn.RXParamSetupReqCreator.len Creator.build
  simp [Gen.MacCmdCreatorFn.RXParamSetupReqPayload.max_len, Rt.ck, Rt.ITy.lo, Rt.ITy.hi, Rt.ITy.signed, Rt.ITy.bits, Rt.slice, ints, eRXParamSetupReq, Creator.len, slice, toOpt]

/-- the table row of `DevStatusAns` (regenerated from the `#[cmd]` attribute) -/
def eDevStatusAns : Entry := ⟨6, some 2, "DevStatusAns", "DevStatusAnsPayload"⟩
theorem eDevStatusAns_row : (C03.T Gen.CmdTables.uplinkMacCommand).lookup 6 = some eDevStatusAns := by decide

theorem DevStatusAns_new : (Gen.MacCmdCreatorFn.DevStatusAnsCreator.new).map (·.data) = (toOpt (Creator.new eDevStatusAns)).map (fun c => ints c.data) := by decide

theorem DevStatusAns_build (c b0 b1 : Nat) :
    Gen.MacCmdCreatorFn.DevStatusAnsCreator.build ⟨ints [c, b0, b1]⟩ = (toOpt (Creator.build eDevStatusAns ⟨[c, b0, b1], 0⟩)).map ints := by
  unfold Gen.MacCmdCreatorFn.DevStatusAnsCreator.build Gen.MacCmdCreatorFn.DevStatusAnsCreator.len Creator.build
  simp [Gen.MacCmdCreatorFn.DevStatusAnsPayload.max_len, Rt.ck, Rt.ITy.lo, Rt.ITy.hi, Rt.ITy.signed, Rt.ITy.bits, Rt.slice, ints, eDevStatusAns, Creator.len, slice, toOpt]

/-- the table row of `TXParamSetupReq` (regenerated from the `#[cmd]` attribute) -/
def eTXParamSetupReq : Entry := ⟨9, some 1, "TXParamSetupReq", "TXParamSetupReqPayload"⟩
theorem eTXParamSetupReq_row : (C03.T Gen.CmdTables.downlinkMacCommand).lookup 9 = some eTXParamSetupReq := by decide

theorem TXParamSetupReq_new : (Gen.MacCmdCreatorFn.TXParamSetupReqCreator.new).map (·.data) = (toOpt (Creator.new eTXParamSetupReq)).map (fun c => ints c.data) := by decide

theorem TXParamSetupReq_build (c b0 : Nat) :
    Gen.MacCmdCreatorFn.TXParamSetupReqCreator.build ⟨ints [c, b0]⟩ = (toOpt (Creator.build eTXParamSetupReq ⟨[c, b0], 0⟩)).map ints := by
  unfold Gen.MacCmdCreatorFn.TXParamSetupReqCreator.build Gen.MacCmdCreatorFn.TXParamSetupReqCreator.len Creator.build
  simp [Gen.MacCmdCreatorFn.TXParamSetupReqPayload.max_len, Rt.ck, Rt.ITy.lo, Rt.ITy.hi, Rt.ITy.signed, Rt.ITy.bits, Rt.slice, ints, eTXParamSetupReq, Creator.len, slice, toOpt]

/-- the table row of `DeviceTimeAns` (regenerated from the `#[cmd]` attribute) -/
def eDeviceTimeAns : Entry := ⟨13, some 5, "DeviceTimeAns", "DeviceTimeAnsPayload"⟩
theorem eDeviceTimeAns_row : (C03.T Gen.CmdTables.downlinkMacCommand).lookup 13 = some eDeviceTimeAns := by decide

theorem DeviceTimeAns_new : (Gen.MacCmdCreatorFn.DeviceTimeAnsCreator.new).map (·.data) = (toOpt (Creator.new eDeviceTimeAns)).map (fun c => ints c.data) := by decide

theorem DeviceTimeAns_build (c b0 b1 b2 b3 b4 : Nat) :
    Gen.MacCmdCreatorFn.DeviceTimeAnsCreator.build ⟨ints [c, b0, b1, b2, b3, b4]⟩ = (toOpt (Creator.build eDeviceTimeAns ⟨[c, b0, b1, b2, b3, b4], 0⟩)).map ints := by
  unfold Gen.MacCmdCreatorFn.DeviceTimeAnsCreator.build Gen.MacCmdCreatorFn.DeviceTimeAnsCreator.len Creator.build
  simp [Gen.MacCmdCreatorFn.DeviceTimeAnsPayload.max_len, Rt.ck, Rt.ITy.lo, Rt.ITy.hi, Rt.ITy.signed, Rt.ITy.bits, Rt.slice, ints, eDeviceTimeAns, Creator.len, slice, toOpt]


end TieA.Creators

namespace C19
open MacCmd TieA.MacCmdFrame TieA.Creators

/-! builder F — `C19.tieA_creator_*`: each regenerated creator function (derive-generated `new` / `build`, hand-written setter)
IS the model's (`Creator.new`, `Creator.build`, `set<Cmd>` of `Model/MacCmdCreators.lean`, the functions `buildWith` and the C19
refinement lemmas `MacCmd.set_*` are about), for every state of the creator and every argument. -/


theorem tieA_creator_LinkADRReq_set_data_rate (c b0 b1 b2 b3 v : Nat) (hv : v < 256) :
    (Gen.MacCmdCreatorFn.LinkADRReqCreator.set_data_rate ⟨ints [c, b0, b1, b2, b3]⟩ v).map (resF (·.data))
      = (toOpt (setLinkADRReq ⟨[c, b0, b1, b2, b3], 0⟩ "set_data_rate" (.n v))).map resUp :=
  TieA.Creators.LinkADRReq_set_data_rate c b0 b1 b2 b3 v hv

theorem tieA_creator_LinkADRReq_set_tx_power (c b0 b1 b2 b3 v : Nat) (hv : v < 256) :
    (Gen.MacCmdCreatorFn.LinkADRReqCreator.set_tx_power ⟨ints [c, b0, b1, b2, b3]⟩ v).map (resF (·.data))
      = (toOpt (setLinkADRReq ⟨[c, b0, b1, b2, b3], 0⟩ "set_tx_power" (.n v))).map resUp :=
  TieA.Creators.LinkADRReq_set_tx_power c b0 b1 b2 b3 v hv

theorem tieA_creator_LinkADRAns_set_channel_mask_ack (c b0 : Nat) (ack : Bool) :
    (Gen.MacCmdCreatorFn.LinkADRAnsCreator.set_channel_mask_ack ⟨ints [c, b0]⟩ ack).map (resI (·.data))
      = (toOpt (setLinkADRAns ⟨[c, b0], 0⟩ "set_channel_mask_ack" (.n (b2n ack)))).map resUp :=
  TieA.Creators.LinkADRAns_set_channel_mask_ack c b0 ack

theorem tieA_creator_LinkADRAns_set_data_rate_ack (c b0 : Nat) (ack : Bool) :
    (Gen.MacCmdCreatorFn.LinkADRAnsCreator.set_data_rate_ack ⟨ints [c, b0]⟩ ack).map (resI (·.data))
      = (toOpt (setLinkADRAns ⟨[c, b0], 0⟩ "set_data_rate_ack" (.n (b2n ack)))).map resUp :=
  TieA.Creators.LinkADRAns_set_data_rate_ack c b0 ack

theorem tieA_creator_LinkADRAns_set_tx_power_ack (c b0 : Nat) (ack : Bool) :
    (Gen.MacCmdCreatorFn.LinkADRAnsCreator.set_tx_power_ack ⟨ints [c, b0]⟩ ack).map (resI (·.data))
      = (toOpt (setLinkADRAns ⟨[c, b0], 0⟩ "set_tx_power_ack" (.n (b2n ack)))).map resUp :=
  TieA.Creators.LinkADRAns_set_tx_power_ack c b0 ack

theorem tieA_creator_NewChannelReq_set_channel_index (c b0 b1 b2 b3 b4 v : Nat) (hv : v < 256) :
    (Gen.MacCmdCreatorFn.NewChannelReqCreator.set_channel_index ⟨ints [c, b0, b1, b2, b3, b4]⟩ v).map (resI (·.data))
      = (toOpt (setNewChannelReq ⟨[c, b0, b1, b2, b3, b4], 0⟩ "set_channel_index" (.n v))).map resUp :=
  TieA.Creators.NewChannelReq_set_channel_index c b0 b1 b2 b3 b4 v hv

theorem tieA_creator_DlChannelReq_set_channel_index (c b0 b1 b2 b3 v : Nat) (hv : v < 256) :
    (Gen.MacCmdCreatorFn.DlChannelReqCreator.set_channel_index ⟨ints [c, b0, b1, b2, b3]⟩ v).map (resI (·.data))
      = (toOpt (setDlChannelReq ⟨[c, b0, b1, b2, b3], 0⟩ "set_channel_index" (.n v))).map resUp :=
  TieA.Creators.DlChannelReq_set_channel_index c b0 b1 b2 b3 v hv

theorem tieA_creator_DevStatusAns_set_battery (c b0 b1 v : Nat) (hv : v < 256) :
    (Gen.MacCmdCreatorFn.DevStatusAnsCreator.set_battery ⟨ints [c, b0, b1]⟩ v).map (resI (·.data))
      = (toOpt (setDevStatusAns ⟨[c, b0, b1], 0⟩ "set_battery" (.n v))).map resUp :=
  TieA.Creators.DevStatusAns_set_battery c b0 b1 v hv

theorem tieA_creator_TXParamSetupReq_set_downlink_dwell_time (c b0 : Nat) (ack : Bool) :
    (Gen.MacCmdCreatorFn.TXParamSetupReqCreator.set_downlink_dwell_time ⟨ints [c, b0]⟩ ack).map (resI (·.data))
      = (toOpt (setTXParamSetupReq ⟨[c, b0], 0⟩ "set_downlink_dwell_time" (.n (b2n ack)))).map resUp :=
  TieA.Creators.TXParamSetupReq_set_downlink_dwell_time c b0 ack

theorem tieA_creator_TXParamSetupReq_set_uplink_dwell_time (c b0 : Nat) (ack : Bool) :
    (Gen.MacCmdCreatorFn.TXParamSetupReqCreator.set_uplink_dwell_time ⟨ints [c, b0]⟩ ack).map (resI (·.data))
      = (toOpt (setTXParamSetupReq ⟨[c, b0], 0⟩ "set_uplink_dwell_time" (.n (b2n ack)))).map resUp :=
  TieA.Creators.TXParamSetupReq_set_uplink_dwell_time c b0 ack

theorem tieA_creator_TXParamSetupReq_set_max_eirp (c b0 v : Nat) (hv : v < 256) :
    (Gen.MacCmdCreatorFn.TXParamSetupReqCreator.set_max_eirp ⟨ints [c, b0]⟩ v).map (resF (·.data))
      = (toOpt (setTXParamSetupReq ⟨[c, b0], 0⟩ "set_max_eirp" (.n v))).map resUp :=
  TieA.Creators.TXParamSetupReq_set_max_eirp c b0 v hv

theorem tieA_creator_DeviceTimeAns_set_nano_seconds (c b0 b1 b2 b3 b4 v : Nat) (hv : v < 4294967296) :
    (Gen.MacCmdCreatorFn.DeviceTimeAnsCreator.set_nano_seconds ⟨ints [c, b0, b1, b2, b3, b4]⟩ v).map (resF (·.data))
      = (toOpt (setDeviceTimeAns ⟨[c, b0, b1, b2, b3, b4], 0⟩ "set_nano_seconds" (.n v))).map resUp :=
  TieA.Creators.DeviceTimeAns_set_nano_seconds c b0 b1 b2 b3 b4 v hv

theorem tieA_creator_LinkADRReq_new : (Gen.MacCmdCreatorFn.LinkADRReqCreator.new).map (·.data) = (toOpt (Creator.new eLinkADRReq)).map (fun c => ints c.data) :=
  TieA.Creators.LinkADRReq_new 

theorem tieA_creator_LinkADRReq_build (c b0 b1 b2 b3 : Nat) :
    Gen.MacCmdCreatorFn.LinkADRReqCreator.build ⟨ints [c, b0, b1, b2, b3]⟩ = (toOpt (Creator.build eLinkADRReq ⟨[c, b0, b1, b2, b3], 0⟩)).map ints :=
  TieA.Creators.LinkADRReq_build c b0 b1 b2 b3

theorem tieA_creator_LinkADRAns_new : (Gen.MacCmdCreatorFn.LinkADRAnsCreator.new).map (·.data) = (toOpt (Creator.new eLinkADRAns)).map (fun c => ints c.data) :=
  TieA.Creators.LinkADRAns_new 

theorem tieA_creator_LinkADRAns_build (c b0 : Nat) :
    Gen.MacCmdCreatorFn.LinkADRAnsCreator.build ⟨ints [c, b0]⟩ = (toOpt (Creator.build eLinkADRAns ⟨[c, b0], 0⟩)).map ints :=
  TieA.Creators.LinkADRAns_build c b0

theorem tieA_creator_NewChannelReq_new : (Gen.MacCmdCreatorFn.NewChannelReqCreator.new).map (·.data) = (toOpt (Creator.new eNewChannelReq)).map (fun c => ints c.data) :=
  TieA.Creators.NewChannelReq_new 

theorem tieA_creator_NewChannelReq_build (c b0 b1 b2 b3 b4 : Nat) :
    Gen.MacCmdCreatorFn.NewChannelReqCreator.build ⟨ints [c, b0, b1, b2, b3, b4]⟩ = (toOpt (Creator.build eNewChannelReq ⟨[c, b0, b1, b2, b3, b4], 0⟩)).map ints :=
  TieA.Creators.NewChannelReq_build c b0 b1 b2 b3 b4

theorem tieA_creator_DlChannelReq_new : (Gen.MacCmdCreatorFn.DlChannelReqCreator.new).map (·.data) = (toOpt (Creator.new eDlChannelReq)).map (fun c => ints c.data) :=
  TieA.Creators.DlChannelReq_new 

theorem tieA_creator_DlChannelReq_build (c b0 b1 b2 b3 : Nat) :
    Gen.MacCmdCreatorFn.DlChannelReqCreator.build ⟨ints [c, b0, b1, b2, b3]⟩ = (toOpt (Creator.build eDlChannelReq ⟨[c, b0, b1, b2, b3], 0⟩)).map ints :=
  TieA.Creators.DlChannelReq_build c b0 b1 b2 b3

theorem tieA_creator_RXParamSetupReq_new : (Gen.MacCmdCreatorFn.RXParamSetupReqCreator.new).map (·.data) = (toOpt (Creator.new eRXParamSetupReq)).map (fun c => ints c.data) :=
  TieA.Creators.RXParamSetupReq_new 

theorem tieA_creator_RXParamSetupReq_build (c b0 b1 b2 b3 : Nat) :
    Gen.MacCmdCreatorFn.RXParamSetupReqCreator.build ⟨ints [c, b0, b1, b2, b3]⟩ = (toOpt (Creator.build eRXParamSetupReq ⟨[c, b0, b1, b2, b3], 0⟩)).map ints :=
  TieA.Creators.RXParamSetupReq_build c b0 b1 b2 b3

theorem tieA_creator_DevStatusAns_new : (Gen.MacCmdCreatorFn.DevStatusAnsCreator.new).map (·.data) = (toOpt (Creator.new eDevStatusAns)).map (fun c => ints c.data) :=
  TieA.Creators.DevStatusAns_new 

theorem tieA_creator_DevStatusAns_build (c b0 b1 : Nat) :
    Gen.MacCmdCreatorFn.DevStatusAnsCreator.build ⟨ints [c, b0, b1]⟩ = (toOpt (Creator.build eDevStatusAns ⟨[c, b0, b1], 0⟩)).map ints :=
  TieA.Creators.DevStatusAns_build c b0 b1

theorem tieA_creator_TXParamSetupReq_new : (Gen.MacCmdCreatorFn.TXParamSetupReqCreator.new).map (·.data) = (toOpt (Creator.new eTXParamSetupReq)).map (fun c => ints c.data) :=
  TieA.Creators.TXParamSetupReq_new 

theorem tieA_creator_TXParamSetupReq_build (c b0 : Nat) :
    Gen.MacCmdCreatorFn.TXParamSetupReqCreator.build ⟨ints [c, b0]⟩ = (toOpt (Creator.build eTXParamSetupReq ⟨[c, b0], 0⟩)).map ints :=
  TieA.Creators.TXParamSetupReq_build c b0

theorem tieA_creator_DeviceTimeAns_new : (Gen.MacCmdCreatorFn.DeviceTimeAnsCreator.new).map (·.data) = (toOpt (Creator.new eDeviceTimeAns)).map (fun c => ints c.data) :=
  TieA.Creators.DeviceTimeAns_new 

theorem tieA_creator_DeviceTimeAns_build (c b0 b1 b2 b3 b4 : Nat) :
    Gen.MacCmdCreatorFn.DeviceTimeAnsCreator.build ⟨ints [c, b0, b1, b2, b3, b4]⟩ = (toOpt (Creator.build eDeviceTimeAns ⟨[c, b0, b1, b2, b3, b4], 0⟩)).map ints :=
  TieA.Creators.DeviceTimeAns_build c b0 b1 b2 b3 b4

theorem tieA_creator_DeviceTimeAns_set_seconds (c b0 b1 b2 b3 b4 v : Nat) (hv : v < 4294967296) :
    (Gen.MacCmdCreatorFn.DeviceTimeAnsCreator.set_seconds ⟨ints [c, b0, b1, b2, b3, b4]⟩ v).map (resI (·.data))
      = (toOpt (setDeviceTimeAns ⟨[c, b0, b1, b2, b3, b4], 0⟩ "set_seconds" (.n v))).map resUp :=
  TieA.Creators.DeviceTimeAns_set_seconds c b0 b1 b2 b3 b4 v hv

/-- the known finding, on the REGENERATED creator: 0x01020304 seconds are written as 04 03 02 01 (little-endian) -/
example : (Gen.MacCmdCreatorFn.DeviceTimeAnsCreator.set_seconds ⟨[13, 0, 0, 0, 0, 0]⟩ 0x01020304).map (·.data) = some [13, 4, 3, 2, 1, 0] := by decide

/-! non-vacuity: concrete calls through the regenerated code (LinkADRReq: data rate 5 over power 3 kept; 16 refused;
DeviceTimeAns: 500 ms = 128/256 s; the fresh creator; `build` of a full creator) -/
example : (Gen.MacCmdCreatorFn.LinkADRReqCreator.set_data_rate ⟨[3, 0x03, 0, 0, 0]⟩ 5).map (resF (·.data)) = some (true, [3, 0x53, 0, 0, 0]) := by decide
example : (Gen.MacCmdCreatorFn.LinkADRReqCreator.set_data_rate ⟨[3, 0x03, 0, 0, 0]⟩ 16).map (resF (·.data)) = some (false, [3, 0x03, 0, 0, 0]) := by decide
example : (Gen.MacCmdCreatorFn.DeviceTimeAnsCreator.set_nano_seconds ⟨[13, 0, 0, 0, 0, 0]⟩ 500000000).map (resF (·.data)) = some (true, [13, 0, 0, 0, 0, 128]) := by decide
example : (Gen.MacCmdCreatorFn.TXParamSetupReqCreator.set_downlink_dwell_time ⟨[9, 0x0f]⟩ true).map (·.data) = some [9, 0x2f] := by decide
example : (Gen.MacCmdCreatorFn.NewChannelReqCreator.new).bind (·.build) = some [7, 0, 0, 0, 0, 0] := by decide

#print axioms tieA_creator_LinkADRReq_set_data_rate
#print axioms tieA_creator_LinkADRReq_set_tx_power
#print axioms tieA_creator_LinkADRAns_set_channel_mask_ack
#print axioms tieA_creator_LinkADRAns_set_data_rate_ack
#print axioms tieA_creator_LinkADRAns_set_tx_power_ack
#print axioms tieA_creator_NewChannelReq_set_channel_index
#print axioms tieA_creator_DlChannelReq_set_channel_index
#print axioms tieA_creator_DevStatusAns_set_battery
#print axioms tieA_creator_TXParamSetupReq_set_downlink_dwell_time
#print axioms tieA_creator_TXParamSetupReq_set_uplink_dwell_time
#print axioms tieA_creator_TXParamSetupReq_set_max_eirp
#print axioms tieA_creator_DeviceTimeAns_set_seconds
#print axioms tieA_creator_DeviceTimeAns_set_nano_seconds
#print axioms tieA_creator_LinkADRReq_new
#print axioms tieA_creator_LinkADRReq_build
#print axioms tieA_creator_LinkADRAns_new
#print axioms tieA_creator_LinkADRAns_build
#print axioms tieA_creator_NewChannelReq_new
#print axioms tieA_creator_NewChannelReq_build
#print axioms tieA_creator_DlChannelReq_new
#print axioms tieA_creator_DlChannelReq_build
#print axioms tieA_creator_RXParamSetupReq_new
#print axioms tieA_creator_RXParamSetupReq_build
#print axioms tieA_creator_DevStatusAns_new
#print axioms tieA_creator_DevStatusAns_build
#print axioms tieA_creator_TXParamSetupReq_new
#print axioms tieA_creator_TXParamSetupReq_build
#print axioms tieA_creator_DeviceTimeAns_new
#print axioms tieA_creator_DeviceTimeAns_build
end C19
