import LoraVerif.Props.TieA.MacCmdFrameGen
import LoraVerif.Gen.MacCmdFnDownlinkRemoteSetup
/-!
# Tie A for the framing step of `DownlinkRemoteSetup` (builder F, C03)

`Gen/MacCmdFnDownlinkRemoteSetup.lean` holds what `#[derive(CommandHandler)]` generates for `DownlinkRemoteSetup` (payload structs,
`new_from_raw` / `max_len`, `MacCommandSet::parse_one`, expanded from the `quote!` templates with the `#[cmd]` attributes of
the current source), the hand-written `len()` helpers of its variable-length payloads, and the source's
`MacCommands::next` for `T = DownlinkRemoteSetup`.  Here: the regenerated framing IS the hand model `Model/MacCmd.lean` over the
regenerated table `Gen.CmdTables.downlinkRemoteSetup`, for every octet stream.  The set-independent part of the argument is
`Props/TieA/MacCmdFrameGen.lean`; this file supplies the reading of the set's own types (`infoOf` …), one lemma per
`match` arm, and the bridge `next_bridge` (the unit's `next` is `gNext` of the unit's `parse_one`).
-/
set_option linter.unusedSimpArgs false
set_option linter.unusedVariables false
namespace TieA.FrameDownlinkRemoteSetup
open MacCmd TieA.MacCmdFrame TieA.FrameGen

/-- the table of the set, regenerated from the `#[cmd]` attributes (C03's `T`) -/
def TS : Table := C03.T Gen.CmdTables.downlinkRemoteSetup

/-- what a yielded command is: CID, variant, payload type, the octets its payload view borrows -/
def infoOf : Gen.MacCmdFnDownlinkRemoteSetup.DownlinkRemoteSetup → Info
  | .PackageVersionReq _ => (0, "PackageVersionReq", "PackageVersionReqPayload", [])
  | .McGroupStatusReq p => (1, "McGroupStatusReq", "McGroupStatusReqPayload", p._0)
  | .McGroupSetupReq p => (2, "McGroupSetupReq", "McGroupSetupReqPayload", p._0)
  | .McGroupDeleteReq p => (3, "McGroupDeleteReq", "McGroupDeleteReqPayload", p._0)
  | .McClassCSessionReq p => (4, "McClassCSessionReq", "McClassCSessionReqPayload", p._0)
  | .McClassBSessionReq p => (5, "McClassBSessionReq", "McClassBSessionReqPayload", p._0)

def errOf : Gen.MacCmdFnDownlinkRemoteSetup.ParseError → MacCmd.ParseError
  | .UnknownCid c => .unknownCid c.toNat
  | .Truncated c => .truncated c.toNat

def oneOf : Gen.MacCmdFnDownlinkRemoteSetup.ParseOne → POne
  | .Ok c n => .ok (infoOf c, n)
  | .Err e => .error (errOf e)

def itemOf : Gen.MacCmdFnDownlinkRemoteSetup.NextItem → GItem
  | .Ok c => .ok (infoOf c)
  | .Err e => .error (errOf e)

def stOf (g : Gen.MacCmdFnDownlinkRemoteSetup.MacCommands) : GSt := (g.data, g.errored)

/-- the regenerated `parse_one` in set-independent vocabulary -/
def P (d : List Int) : Option POne := (Gen.MacCmdFnDownlinkRemoteSetup.DownlinkRemoteSetup.parse_one d).map oneOf

attribute [local simp] infoOf errOf oneOf Gen.MacCmdFnDownlinkRemoteSetup.PackageVersionReqPayload.new_from_raw Gen.MacCmdFnDownlinkRemoteSetup.PackageVersionReqPayload.max_len Gen.MacCmdFnDownlinkRemoteSetup.McGroupStatusReqPayload.new_from_raw Gen.MacCmdFnDownlinkRemoteSetup.McGroupStatusReqPayload.max_len Gen.MacCmdFnDownlinkRemoteSetup.McGroupSetupReqPayload.new_from_raw Gen.MacCmdFnDownlinkRemoteSetup.McGroupSetupReqPayload.max_len Gen.MacCmdFnDownlinkRemoteSetup.McGroupDeleteReqPayload.new_from_raw Gen.MacCmdFnDownlinkRemoteSetup.McGroupDeleteReqPayload.max_len Gen.MacCmdFnDownlinkRemoteSetup.McClassCSessionReqPayload.new_from_raw Gen.MacCmdFnDownlinkRemoteSetup.McClassCSessionReqPayload.max_len Gen.MacCmdFnDownlinkRemoteSetup.McClassBSessionReqPayload.new_from_raw Gen.MacCmdFnDownlinkRemoteSetup.McClassBSessionReqPayload.max_len

theorem arm0 : ∀ rest : List Nat, (Gen.MacCmdFnDownlinkRemoteSetup.DownlinkRemoteSetup.parse_one (ints (0 :: rest))).map oneOf
    = (toOpt (parseOne TS varLen (0 :: rest))).map oneUp := by
  arm_fixed Gen.MacCmdFnDownlinkRemoteSetup.DownlinkRemoteSetup.parse_one 0

theorem arm1 : ∀ rest : List Nat, (Gen.MacCmdFnDownlinkRemoteSetup.DownlinkRemoteSetup.parse_one (ints (1 :: rest))).map oneOf
    = (toOpt (parseOne TS varLen (1 :: rest))).map oneUp := by
  arm_fixed Gen.MacCmdFnDownlinkRemoteSetup.DownlinkRemoteSetup.parse_one 1

theorem arm2 : ∀ rest : List Nat, (Gen.MacCmdFnDownlinkRemoteSetup.DownlinkRemoteSetup.parse_one (ints (2 :: rest))).map oneOf
    = (toOpt (parseOne TS varLen (2 :: rest))).map oneUp := by
  arm_fixed Gen.MacCmdFnDownlinkRemoteSetup.DownlinkRemoteSetup.parse_one 29

theorem arm3 : ∀ rest : List Nat, (Gen.MacCmdFnDownlinkRemoteSetup.DownlinkRemoteSetup.parse_one (ints (3 :: rest))).map oneOf
    = (toOpt (parseOne TS varLen (3 :: rest))).map oneUp := by
  arm_fixed Gen.MacCmdFnDownlinkRemoteSetup.DownlinkRemoteSetup.parse_one 1

theorem arm4 : ∀ rest : List Nat, (Gen.MacCmdFnDownlinkRemoteSetup.DownlinkRemoteSetup.parse_one (ints (4 :: rest))).map oneOf
    = (toOpt (parseOne TS varLen (4 :: rest))).map oneUp := by
  arm_fixed Gen.MacCmdFnDownlinkRemoteSetup.DownlinkRemoteSetup.parse_one 10

theorem arm5 : ∀ rest : List Nat, (Gen.MacCmdFnDownlinkRemoteSetup.DownlinkRemoteSetup.parse_one (ints (5 :: rest))).map oneOf
    = (toOpt (parseOne TS varLen (5 :: rest))).map oneUp := by
  arm_fixed Gen.MacCmdFnDownlinkRemoteSetup.DownlinkRemoteSetup.parse_one 10

theorem lookup_none (cid : Nat) (h : cid ∉ [0, 1, 2, 3, 4, 5]) : TS.lookup cid = none := by
  simp only [List.mem_cons, List.not_mem_nil, or_false, not_or] at h
  obtain ⟨h0, h1, h2, h3, h4, h5⟩ := h
  have e : ∀ k : Nat, cid ≠ k → (k == cid) = false := fun k hk => by simp; omega
  simp [TS, C03.T, Table.ofRows, Gen.CmdTables.downlinkRemoteSetup, Table.lookup, Entry.ofRow, List.find?, e _ h0, e _ h1, e _ h2, e _ h3, e _ h4, e _ h5]

theorem arm_unknown (cid : Nat) (h : cid ∉ [0, 1, 2, 3, 4, 5]) (rest : List Nat) :
    (Gen.MacCmdFnDownlinkRemoteSetup.DownlinkRemoteSetup.parse_one (ints (cid :: rest))).map oneOf = (toOpt (parseOne TS varLen (cid :: rest))).map oneUp := by
  rw [model_unknown' TS varLen cid rest (lookup_none cid h)]
  simp only [List.mem_cons, List.not_mem_nil, or_false, not_or] at h
  obtain ⟨h0, h1, h2, h3, h4, h5⟩ := h
  unfold Gen.MacCmdFnDownlinkRemoteSetup.DownlinkRemoteSetup.parse_one
  simp only [idx0', Option.bind_eq_bind, Option.bind_some]
  have e0 : ¬ ((cid : Int) = 0) := by omega
  have e1 : ¬ ((cid : Int) = 1) := by omega
  have e2 : ¬ ((cid : Int) = 2) := by omega
  have e3 : ¬ ((cid : Int) = 3) := by omega
  have e4 : ¬ ((cid : Int) = 4) := by omega
  have e5 : ¬ ((cid : Int) = 5) := by omega
  simp [e0, e1, e2, e3, e4, e5, h0, h1, h2, h3, h4, h5, toOpt, oneUp]

/-- the regenerated `parse_one` of `DownlinkRemoteSetup` IS the model's `parseOne` over the regenerated table, on every octet string -/
theorem parse_one_tie (data : List Nat) :
    (Gen.MacCmdFnDownlinkRemoteSetup.DownlinkRemoteSetup.parse_one (ints data)).map oneOf = (toOpt (parseOne TS varLen data)).map oneUp := by
  cases data with
  | nil => rfl
  | cons cid rest =>
    by_cases h : cid ∈ [0, 1, 2, 3, 4, 5]
    · simp only [List.mem_cons, List.not_mem_nil, or_false] at h
      rcases h with rfl | rfl | rfl | rfl | rfl | rfl
      · exact arm0 rest
      · exact arm1 rest
      · exact arm2 rest
      · exact arm3 rest
      · exact arm4 rest
      · exact arm5 rest
    · exact arm_unknown cid h rest

/-- the length bound under which the regenerated `parse_one` cannot overflow `1 + len` -/
def Q (n : Nat) : Prop := True

theorem Q_down (a b : Nat) (h : a ≤ b) (hb : Q b) : Q a := by
  trivial

theorem P_tie (data : List Nat) (hq : Q data.length) : P (ints data) = (toOpt (parseOne TS varLen data)).map oneUp :=
  parse_one_tie data

/-- the unit's `MacCommands::next` (for `T = DownlinkRemoteSetup`), read through `itemOf` / `stOf`, is `gNext` of the unit's `parse_one` -/
theorem next_bridge (s : Gen.MacCmdFnDownlinkRemoteSetup.MacCommands) :
    (Gen.MacCmdFnDownlinkRemoteSetup.MacCommands.next s).map (fun r => (r.1.map itemOf, stOf r.2)) = gNext P (stOf s) := by
  obtain ⟨d, e⟩ := s
  unfold Gen.MacCmdFnDownlinkRemoteSetup.MacCommands.next gNext P
  cases e with
  | true => simp [stOf]
  | false =>
    cases d with
    | nil => simp [stOf]
    | cons a t =>
      simp only [stOf, List.isEmpty_cons, Bool.or_self, Bool.or_false, Bool.false_or, Bool.false_eq_true, if_false,
        Option.bind_eq_bind]
      cases hp : Gen.MacCmdFnDownlinkRemoteSetup.DownlinkRemoteSetup.parse_one (a :: t) with
      | none => simp
      | some r =>
        cases r with
        | Err x => simp [itemOf, stOf]
        | Ok c n =>
          simp only [Option.bind_some, Option.map_some, oneOf]
          cases hs : Rt.sliceFrom (a :: t) n with
          | none => simp
          | some d' => simp [itemOf, stOf]

def runOf (r : List Gen.MacCmdFnDownlinkRemoteSetup.NextItem × Gen.MacCmdFnDownlinkRemoteSetup.MacCommands × Bool) := (r.1.map itemOf, stOf r.2.1, r.2.2)

end TieA.FrameDownlinkRemoteSetup

namespace C03
open MacCmd TieA.MacCmdFrame TieA.FrameGen TieA.FrameDownlinkRemoteSetup

/-- builder F — the derive-generated `parse_one` of `DownlinkRemoteSetup` (expanded from the `quote!` templates of the `CommandHandler`
derive with the `#[cmd(cid, len)]` attributes of the current source) IS the
model's `parseOne` over the regenerated table, for EVERY octet string: same variant, payload type, payload octets and
consumed count, `UnknownCid` / `Truncated` with the same CID on the same inputs, a panic exactly on the empty slice. -/
theorem tieA_parse_one_DownlinkRemoteSetup (data : List Nat) :
    (Gen.MacCmdFnDownlinkRemoteSetup.DownlinkRemoteSetup.parse_one (ints data)).map TieA.FrameDownlinkRemoteSetup.oneOf = (toOpt (parseOne TieA.FrameDownlinkRemoteSetup.TS varLen data)).map oneUp :=
  TieA.FrameDownlinkRemoteSetup.parse_one_tie data

/-- builder F — the source's `MacCommands::next` for `T = DownlinkRemoteSetup` IS the model's `next` in every state. -/
theorem tieA_next_DownlinkRemoteSetup (data : List Nat) (err : Bool) :
    (Gen.MacCmdFnDownlinkRemoteSetup.MacCommands.next ⟨ints data, err⟩).map (fun r => (r.1.map TieA.FrameDownlinkRemoteSetup.itemOf, TieA.FrameDownlinkRemoteSetup.stOf r.2))
      = (toOpt (MacCmd.next TieA.FrameDownlinkRemoteSetup.TS varLen ⟨data, err⟩)).map (fun r => (r.1.map itemUp, stUp r.2)) := by
  rw [TieA.FrameDownlinkRemoteSetup.next_bridge]
  exact gNext_tie _ _ _ TieA.FrameDownlinkRemoteSetup.Q TieA.FrameDownlinkRemoteSetup.P_tie data err trivial

/-- builder F — the `DownlinkRemoteSetup` iterator over `data`, drained through the REGENERATED `next` (`MacCommands::new(data)`, then
`next` until `None`, budget `data.len() + 2`), is the model's run, for every octet stream: the same items in the same order,
the same final state, within the same budget. -/
theorem tieA_iterator_DownlinkRemoteSetup (data : List Nat) :
    (runFuelOf Gen.MacCmdFnDownlinkRemoteSetup.MacCommands.next (data.length + 2) ⟨ints data, false⟩).map TieA.FrameDownlinkRemoteSetup.runOf
      = (toOpt (run TieA.FrameDownlinkRemoteSetup.TS varLen data)).map runUp := by
  have h := runFuelOf_sim Gen.MacCmdFnDownlinkRemoteSetup.MacCommands.next (gNext TieA.FrameDownlinkRemoteSetup.P) TieA.FrameDownlinkRemoteSetup.itemOf TieA.FrameDownlinkRemoteSetup.stOf
    TieA.FrameDownlinkRemoteSetup.next_bridge (data.length + 2) ⟨ints data, false⟩
  unfold TieA.FrameDownlinkRemoteSetup.runOf
  rw [h]
  exact gRun_tie _ _ _ TieA.FrameDownlinkRemoteSetup.Q TieA.FrameDownlinkRemoteSetup.Q_down TieA.FrameDownlinkRemoteSetup.P_tie _ data false trivial

/-! non-vacuity: a concrete stream through the regenerated iterator (CID and payload octets of every item, `none` = the
error item; the unread rest and the `errored` flag; budget not exhausted) -/
example : (runFuelOf Gen.MacCmdFnDownlinkRemoteSetup.MacCommands.next (3 + 2) ⟨[1, 15, 3], false⟩).map
    (fun r => (r.1.map (fun i => (TieA.FrameDownlinkRemoteSetup.itemOf i).toOption.map (fun c => (c.1, c.2.2.2))), TieA.FrameDownlinkRemoteSetup.stOf r.2.1, r.2.2))
    = some ([some (1, [0x0F]), none], ([3], true), false) := by decide


#print axioms tieA_parse_one_DownlinkRemoteSetup
#print axioms tieA_next_DownlinkRemoteSetup
#print axioms tieA_iterator_DownlinkRemoteSetup
end C03
