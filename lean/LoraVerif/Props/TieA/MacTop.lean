import LoraVerif.Model.Mac
import LoraVerif.Gen.MacTopFn
/-!
# Tie A for the MAC's top-level state machine (C04 / C07 / C11)

`Gen/MacTopFn.lean` holds the translation of the CURRENT source of `Mac::{join_otaa, join_abp, send, get_rx_delay,
handle_rx, handle_rxc, rx2_complete, is_joined, get_fcnt_up}` (lorawan-device/src/mac/mod.rs): the dispatch over
`State::{Joined, Otaa, Unjoined}` — which state accepts which call, `Err(NotJoined)` otherwise, how the state changes —
with the `Session` / `Otaa` methods it calls as a record `ops` over abstract carrier types (`Carriers`).

Here the carriers are the MODEL's types (`Model.Session`, `OtaaState`, `RegionState`, the decoded view `RxView` as the
radio buffer) and the regenerated dispatch is proved EQUAL to the model's (`macHandleRx`, `macRx2Complete`,
`macJoinAbp`, `macRxDelay`; `Model/Mac.lean`) for every state and argument, for every record `ops` that behaves like
the model's session / join functions (`Sim`: one equation per operation, compared through the total map `cfgM` from
the generated configuration to the model's; the operations themselves are regenerated and tied in their own units:
`C05/C06/C07.tieA_handle_rx_accept`, `C06/C12.tieA_rx2_complete`, `C11.tieA_otaa_handle_rx`).
-/
set_option linter.unusedSimpArgs false
set_option linter.unusedVariables false
namespace TieA.MacTop
open Model Gen.Region

/-- the carriers: the model's types.  The radio buffer is the decoded view of what was received; a delivered downlink
is (port, data); keys, addresses and the generator state are numbers. -/
instance K : Gen.MacTopFn.Carriers :=
  { Session := Model.Session, Otaa := OtaaState, RegionCfg := RegionState, RadioBuffer := RxView,
    Downlink := Nat × List Nat, RNG := Nat, NetworkCredentials := Unit, NwkSKey := Nat, AppSKey := Nat, DevAddr := Nat,
    TxConfig := Int × Model.RfConfig, TxChannel := Model.TxChannel, RxWindows := Model.RfConfig × Model.RfConfig,
    SendData := List Nat × Nat × Bool, fcnt_up := fun s => (s.fcntUp : Int) }

abbrev GMac := @Gen.MacTopFn.Mac K
abbrev GOps := @Gen.MacTopFn.Ops K

/-- total map from the generated configuration to the model's -/
def cfgM (c : Gen.MacTopFn.Configuration) : Config :=
  { dataRate := c.data_rate.toInt.toNat, rx1Delay := c.rx1_delay.toNat, txPower := c.tx_power.map Int.toNat,
    rx1DrOffset := c.rx1_dr_offset.toNat, rx2DataRate := c.rx2_data_rate.map fun d => d.toInt.toNat,
    rx2Frequency := c.rx2_frequency.map Int.toNat, adrEnabled := c.adr_enabled }

/-- the model's join state of a generated `State` -/
def stateM : @Gen.MacTopFn.State K → JoinState
  | .Joined s => .joined s
  | .Otaa o => .otaa o
  | .Unjoined => .unjoined

/-- total map from the generated `Mac` to the model's state -/
def macM (g : GMac) : MacState :=
  { cfg := cfgM g.configuration, region := g.region, maxPower := g.board_eirp.max_power.toNat,
    antennaGain := g.board_eirp.antenna_gain, st := stateM g.state }

/-- the model's responses among the generated ones -/
def respG : Model.Response → Gen.MacTopFn.Response
  | .noAck => .NoAck
  | .sessionExpired => .SessionExpired
  | .downlinkReceived f => .DownlinkReceived f
  | .noJoinAccept => .NoJoinAccept
  | .joinSuccess => .JoinSuccess
  | .noUpdate => .NoUpdate
  | .rxComplete => .RxComplete

/-- the model's `Mac` a join step works on: only configuration and region matter to `otaaAccept` -/
def joining (o : OtaaState) (reg : RegionState) (cfg : Config) : MacState :=
  { cfg := cfg, region := reg, maxPower := 0, antennaGain := 0, st := .otaa o }

/-- `ops` behaves like the model's session / join functions.  Each operation is compared with the model function
it is tied to in its own unit, through `cfgM` on the configuration it returns; what the model does not carry (the
buffer after the call) is left free. -/
structure Sim (ops : GOps) : Prop where
  /-- `Session::new` -/
  session_new : ∀ nwk app addr, ops.session_new nwk app addr = Session.new addr nwk app
  /-- `Session::handle_rx`: a data frame goes through `sessionHandleRx`; anything else changes nothing -/
  session_handle_rx : ∀ s reg cfg (buf : RxView) dl mp snr cc,
    (ops.session_handle_rx s reg cfg buf dl mp snr cc).map (fun (r, s', reg', cfg', _, dl') => (r, s', reg', cfgM cfg', dl'))
      = match buf with
        | .data d => (sessionHandleRx s (cfgM cfg) reg d mp.toNat snr cc).toOption.map
            (fun (o, s', c', reg') => (respG o.resp, s', reg', c', dl ++ o.downlink.toList))
        | _ => some (.NoUpdate, s, reg, cfgM cfg, dl)
  /-- `Session::rx2_complete` -/
  session_rx2_complete : ∀ s cfg (reg : RegionState),
    (ops.session_rx2_complete s cfg reg).map (fun (r, s', cfg') => (r, s', cfgM cfg'))
      = some (let (r, s', c') := rx2Complete s (cfgM cfg) reg.id; (respG r, s', c'))
  /-- `Otaa::handle_rx`: an authentic JoinAccept goes through `otaaAccept`; anything else changes nothing -/
  otaa_handle_rx : ∀ o reg cfg (buf : RxView),
    (ops.otaa_handle_rx o reg cfg buf).map (fun (r, o', reg', cfg', _) => (r, o', reg', cfgM cfg'))
      = match buf with
        | .joinAccept j =>
          if j.micOk then (otaaAccept (joining o reg (cfgM cfg)) j).toOption.map
            (fun m => ((match m.st with | .joined s => some s | _ => none), o, m.region, m.cfg))
          else some (none, o, reg, cfgM cfg)
        | _ => some (none, o, reg, cfgM cfg)
  /-- `Otaa::rx2_complete` -/
  otaa_rx2_complete : ∀ o, ops.otaa_rx2_complete o = (.NoJoinAccept, o)

/-- `otaaAccept` reads configuration and region only and ends joined -/
theorem otaaAccept_joining (m : MacState) (o : OtaaState) (j : RxJoinAccept) :
    (otaaAccept m j).toOption.map (fun m' => (m'.cfg, m'.region, m'.st, m'.maxPower, m'.antennaGain))
      = (otaaAccept (joining o m.region m.cfg) j).toOption.map (fun m' => (m'.cfg, m'.region, m'.st, m.maxPower, m.antennaGain)) := by
  unfold otaaAccept joining
  cases processJoinAccept m.region j.cfList with
  | error e => rfl
  | ok r =>
    cases delToDelayMs (j.rxDelay % 16) with
    | error e => rfl
    | ok d => rfl

theorem otaaAccept_st (m : MacState) (j : RxJoinAccept) (m' : MacState) (h : otaaAccept m j = .ok m') :
    m'.st = .joined (Session.new j.devAddr j.nwkKey j.appKey) := by
  unfold otaaAccept at h
  cases h1 : processJoinAccept m.region j.cfList with
  | error e => simp [h1, bind, Except.bind] at h
  | ok r =>
    cases h2 : delToDelayMs (j.rxDelay % 16) with
    | error e => simp [h1, h2, bind, Except.bind] at h
    | ok d =>
      simp [h1, h2, bind, Except.bind, pure, Except.pure] at h
      rw [← h]


theorem handle_rx_tie (ops : GOps) (h : Sim ops) (D : Int) (g : GMac) (buf : RxView) (dl : List (Nat × List Nat)) (snr : Int)
    (rf : Gen.MacTopFn.RfConfig) :
    (Gen.MacTopFn.Mac.handle_rx ops D g buf dl snr rf).map (fun (r, g', _, dl') => (r, macM g', dl'))
      = (macHandleRx (macM g) buf rf.max_payload_len.toNat snr false).toOption.bind
          (fun (o, m') => o.map (fun o => (respG o.resp, m', dl ++ o.downlink.toList))) := by
  obtain ⟨cfg, reg, eirp, st⟩ := g
  cases st with
  | Unjoined => simp [Gen.MacTopFn.Mac.handle_rx, macHandleRx, macM, stateM, Except.toOption, pure, Except.pure, respG]
  | Joined s =>
    have hs := h.session_handle_rx s reg cfg buf dl rf.max_payload_len snr false
    simp only [Gen.MacTopFn.Mac.handle_rx, macHandleRx, macM, stateM]
    cases hx : ops.session_handle_rx s reg cfg buf dl rf.max_payload_len snr false with
    | none =>
      rw [hx] at hs
      cases buf with
      | data d =>
        simp only [Option.map_none] at hs
        cases hm : sessionHandleRx s (cfgM cfg) reg d rf.max_payload_len.toNat snr false with
        | error e => simp [hm, Except.toOption, bind, Except.bind]
        | ok v => rw [hm] at hs; simp [Except.toOption] at hs
      | garbage => simp at hs
      | joinAccept j => simp at hs
    | some v =>
      obtain ⟨r, s', reg', cfg', b', dl'⟩ := v
      rw [hx] at hs
      cases buf with
      | data d =>
        dsimp only at hs
        cases hm : sessionHandleRx s (cfgM cfg) reg d rf.max_payload_len.toNat snr false with
        | error e => rw [hm] at hs; simp [Except.toOption] at hs
        | ok w =>
          obtain ⟨o, s2, c2, reg2⟩ := w
          rw [hm] at hs
          simp [Except.toOption] at hs
          obtain ⟨h1, h2, h3, h4, h5⟩ := hs
          simp [hm, Except.toOption, bind, Except.bind, pure, Except.pure, macM, stateM, h1, h2, h3, h4, h5]
      | garbage =>
        simp at hs
        obtain ⟨h1, h2, h3, h4, h5⟩ := hs
        simp [Except.toOption, bind, Except.bind, pure, Except.pure, macM, stateM, h1, h2, h3, h4, h5, respG]
      | joinAccept j =>
        simp at hs
        obtain ⟨h1, h2, h3, h4, h5⟩ := hs
        simp [Except.toOption, bind, Except.bind, pure, Except.pure, macM, stateM, h1, h2, h3, h4, h5, respG]
  | Otaa o =>
    have hs := h.otaa_handle_rx o reg cfg buf
    have hj := fun j => otaaAccept_joining (macM ⟨cfg, reg, eirp, .Otaa o⟩) o j
    have hst := fun j m' => otaaAccept_st (joining o reg (cfgM cfg)) j m'
    simp only [macM, stateM] at hj
    simp only [Gen.MacTopFn.Mac.handle_rx, macHandleRx, macM, stateM]
    cases hx : ops.otaa_handle_rx o reg cfg buf with
    | none =>
      rw [hx] at hs
      cases buf with
      | garbage => simp at hs
      | data d => simp at hs
      | joinAccept j =>
        dsimp only at hs
        cases hmic : j.micOk with
        | false => simp [hmic] at hs
        | true =>
          simp only [hmic, if_true, Option.map_none] at hs
          have hj := hj j
          cases hm : otaaAccept (joining o reg (cfgM cfg)) j with
          | ok m' => rw [hm] at hs; simp [Except.toOption] at hs
          | error e =>
            rw [hm] at hj
            cases hm2 : otaaAccept { cfg := cfgM cfg, region := reg, maxPower := eirp.max_power.toNat, antennaGain := eirp.antenna_gain, st := JoinState.otaa o } j with
            | ok m2 => rw [hm2] at hj; simp [Except.toOption] at hj
            | error e2 => simp [hmic, hm2, Except.toOption, bind, Except.bind]
    | some v =>
      obtain ⟨r, o', reg', cfg', b'⟩ := v
      rw [hx] at hs
      cases buf with
      | garbage =>
        simp at hs
        obtain ⟨h1, h2, h3, h4⟩ := hs
        simp [Except.toOption, pure, Except.pure, macM, stateM, h1, h2, h3, h4, respG]
      | data d =>
        simp at hs
        obtain ⟨h1, h2, h3, h4⟩ := hs
        simp [Except.toOption, pure, Except.pure, macM, stateM, h1, h2, h3, h4, respG]
      | joinAccept j =>
        dsimp only at hs
        cases hmic : j.micOk with
        | false =>
          simp [hmic] at hs
          obtain ⟨h1, h2, h3, h4⟩ := hs
          simp [hmic, Except.toOption, pure, Except.pure, macM, stateM, h1, h2, h3, h4, respG]
        | true =>
          simp only [hmic, if_true] at hs
          have hj := hj j
          cases hm : otaaAccept (joining o reg (cfgM cfg)) j with
          | error e => rw [hm] at hs; simp [Except.toOption] at hs
          | ok m' =>
            have hst' := hst j m' hm
            rw [hm] at hs hj
            simp [Except.toOption, hst'] at hs
            obtain ⟨h1, h2, h3, h4⟩ := hs
            cases hm2 : otaaAccept { cfg := cfgM cfg, region := reg, maxPower := eirp.max_power.toNat, antennaGain := eirp.antenna_gain, st := JoinState.otaa o } j with
            | error e2 => rw [hm2] at hj; simp [Except.toOption] at hj
            | ok m2 =>
              rw [hm2] at hj
              simp [Except.toOption] at hj
              obtain ⟨g1, g2, g3, g4, g5⟩ := hj
              obtain ⟨c2, r2, mp2, ag2, st2⟩ := m2
              simp only at g1 g2 g3 g4 g5
              subst g1 g2 g3 g4 g5
              subst h1 h2 h3
              simp [hmic, hm2, Except.toOption, bind, Except.bind, pure, Except.pure, macM, stateM, h4, hst', respG]


theorem handle_rxc_tie (ops : GOps) (h : Sim ops) (D : Int) (g : GMac) (buf : RxView) (dl : List (Nat × List Nat)) (snr : Int)
    (rf : Gen.MacTopFn.RfConfig) :
    (Gen.MacTopFn.Mac.handle_rxc ops D g buf dl snr rf).map (fun (r, g', _, dl') => (r, macM g', dl'))
      = (macHandleRx (macM g) buf rf.max_payload_len.toNat snr true).toOption.map
          (fun (o, m') => (o.map (fun o => respG o.resp), m', dl ++ (o.bind (·.downlink)).toList)) := by
  obtain ⟨cfg, reg, eirp, st⟩ := g
  cases st with
  | Unjoined => simp [Gen.MacTopFn.Mac.handle_rxc, macHandleRx, macM, stateM, Except.toOption, pure, Except.pure]
  | Otaa o => simp [Gen.MacTopFn.Mac.handle_rxc, macHandleRx, macM, stateM, Except.toOption, pure, Except.pure]
  | Joined s =>
    have hs := h.session_handle_rx s reg cfg buf dl rf.max_payload_len snr true
    simp only [Gen.MacTopFn.Mac.handle_rxc, macHandleRx, macM, stateM]
    cases hx : ops.session_handle_rx s reg cfg buf dl rf.max_payload_len snr true with
    | none =>
      rw [hx] at hs
      cases buf with
      | data d =>
        simp only [Option.map_none] at hs
        cases hm : sessionHandleRx s (cfgM cfg) reg d rf.max_payload_len.toNat snr true with
        | error e => simp [hm, Except.toOption, bind, Except.bind]
        | ok v => rw [hm] at hs; simp [Except.toOption] at hs
      | garbage => simp at hs
      | joinAccept j => simp at hs
    | some v =>
      obtain ⟨r, s', reg', cfg', b', dl'⟩ := v
      rw [hx] at hs
      cases buf with
      | data d =>
        dsimp only at hs
        cases hm : sessionHandleRx s (cfgM cfg) reg d rf.max_payload_len.toNat snr true with
        | error e => rw [hm] at hs; simp [Except.toOption] at hs
        | ok w =>
          obtain ⟨o, s2, c2, reg2⟩ := w
          rw [hm] at hs
          simp [Except.toOption] at hs
          obtain ⟨h1, h2, h3, h4, h5⟩ := hs
          simp [hm, Except.toOption, bind, Except.bind, pure, Except.pure, macM, stateM, h1, h2, h3, h4, h5]
      | garbage =>
        simp at hs
        obtain ⟨h1, h2, h3, h4, h5⟩ := hs
        simp [Except.toOption, bind, Except.bind, pure, Except.pure, macM, stateM, h1, h2, h3, h4, h5, respG]
      | joinAccept j =>
        simp at hs
        obtain ⟨h1, h2, h3, h4, h5⟩ := hs
        simp [Except.toOption, bind, Except.bind, pure, Except.pure, macM, stateM, h1, h2, h3, h4, h5, respG]

theorem rx2_complete_tie (ops : GOps) (h : Sim ops) (g : GMac) :
    (Gen.MacTopFn.Mac.rx2_complete ops g).map (fun (r, g') => (r, macM g'))
      = some (let (r, m') := macRx2Complete (macM g); (respG r, m')) := by
  obtain ⟨cfg, reg, eirp, st⟩ := g
  cases st with
  | Unjoined => simp [Gen.MacTopFn.Mac.rx2_complete, macRx2Complete, macM, stateM, respG]
  | Otaa o => simp [Gen.MacTopFn.Mac.rx2_complete, macRx2Complete, macM, stateM, respG, h.otaa_rx2_complete]
  | Joined s =>
    have hs := h.session_rx2_complete s cfg reg
    simp only [Gen.MacTopFn.Mac.rx2_complete, macRx2Complete, macM, stateM]
    cases hx : ops.session_rx2_complete s cfg reg with
    | none => rw [hx] at hs; simp at hs
    | some v =>
      obtain ⟨r, s', cfg'⟩ := v
      rw [hx] at hs
      simp at hs
      obtain ⟨h1, h2, h3⟩ := hs
      simp [h1, h2, h3, macM, stateM]

theorem join_abp_tie (ops : GOps) (h : Sim ops) (g : GMac) (nwk app addr : Nat) :
    macM (Gen.MacTopFn.Mac.join_abp ops g nwk app addr) = macJoinAbp (macM g) addr nwk app := by
  simp [Gen.MacTopFn.Mac.join_abp, macJoinAbp, macM, stateM, h.session_new]

theorem is_joined_tie (g : GMac) :
    Gen.MacTopFn.Mac.is_joined g = (match (macM g).st with | .joined _ => true | _ => false) := by
  obtain ⟨cfg, reg, eirp, st⟩ := g
  cases st <;> rfl

theorem get_fcnt_up_tie (g : GMac) :
    Gen.MacTopFn.Mac.get_fcnt_up g = (match (macM g).st with | .joined s => some (s.fcntUp : Int) | _ => none) := by
  obtain ⟨cfg, reg, eirp, st⟩ := g
  cases st <;> rfl

end TieA.MacTop
