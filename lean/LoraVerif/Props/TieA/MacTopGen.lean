import LoraVerif.Props.TieA.MacTopC
import LoraVerif.Props.TieA.Rx2Complete
import LoraVerif.Gen.OtaaFn
/-!
# Tie A: `Mac::rx2_complete` with the session operation INSTANTIATED by the regenerated `Session::rx2_complete`
(builder C; discharges the hypothesis `Sim` of `C04.tieA_mac_rx2_complete_partial` on the session side)

`genRx2` is the operation `session_rx2_complete` of the dispatch (`Gen/MacTopFn.lean`) built from the OTHER regenerated
unit, `Gen.SessionFn.Session.rx2_complete` (the current source of `Session::rx2_complete`), through the total bridge maps
of `Props/TieA/StateBridge.lean` (`sessOf` / `cfgOf`: generated → model; the generated session is the projection
`sessG` of the carrier, the fields the method cannot touch are carried around it).  For every record of operations
whose `session_rx2_complete` is `genRx2`, the regenerated `Mac::rx2_complete` equals the model's `macRx2Complete` on
every state whose session counters fit `u32` — no simulation hypothesis on the session: the equation `Sim` asked for is
the theorem `genRx2_sim`, from `TieA.tieA_rx2_complete`.  `Otaa::rx2_complete` is regenerated too (`Gen.OtaaFn`, added by
builder C): `genOtaaRx2`, with `genOtaaRx2_sim`.  `C04.tieA_mac_rx2_complete` has no equation left on the operations.
-/
set_option linter.unusedSimpArgs false
set_option linter.unusedVariables false
namespace TieA.MacTop
open Model Gen.Region

/-- the generated session of `Gen.SessionFn` a model session projects to -/
def sessG (s : Model.Session) : Gen.SessionFn.Session :=
  ⟨s.confirmed, s.fcntUp, s.fcntDown.map Int.ofNat, s.adrAckCnt⟩

/-- `Configuration` as `Gen.MacTopFn` and as `Gen.SessionFn` regenerate it (the same Rust struct, field by field) -/
def cfgS (c : Gen.MacTopFn.Configuration) : Gen.SessionFn.Configuration :=
  { data_rate := c.data_rate, rx1_delay := c.rx1_delay, join_accept_delay1 := c.join_accept_delay1,
    join_accept_delay2 := c.join_accept_delay2, tx_power := c.tx_power, rx1_dr_offset := c.rx1_dr_offset,
    rx2_data_rate := c.rx2_data_rate, rx2_frequency := c.rx2_frequency, adr_enabled := c.adr_enabled }

def cfgT (c : Gen.SessionFn.Configuration) : Gen.MacTopFn.Configuration :=
  { data_rate := c.data_rate, rx1_delay := c.rx1_delay, join_accept_delay1 := c.join_accept_delay1,
    join_accept_delay2 := c.join_accept_delay2, tx_power := c.tx_power, rx1_dr_offset := c.rx1_dr_offset,
    rx2_data_rate := c.rx2_data_rate, rx2_frequency := c.rx2_frequency, adr_enabled := c.adr_enabled }

/-- `Response` as the two units regenerate it (the counter of `DownlinkReceived` is a `u32`: read as a natural, as
`respOf` does) -/
def respT : Gen.SessionFn.Response → Gen.MacTopFn.Response
  | .NoAck => .NoAck | .SessionExpired => .SessionExpired | .DownlinkReceived n => .DownlinkReceived (n.toNat : Nat)
  | .NoJoinAccept => .NoJoinAccept | .JoinSuccess => .JoinSuccess | .NoUpdate => .NoUpdate
  | .RxComplete => .RxComplete | .LinkCheckReq => .LinkCheckReq

/-- the operation of the dispatch built from the regenerated `Session::rx2_complete` -/
def genRx2 (s : Model.Session) (cfg : Gen.MacTopFn.Configuration) (reg : RegionState) :
    Option (Gen.MacTopFn.Response × Model.Session × Gen.MacTopFn.Configuration) :=
  (Gen.SessionFn.Session.rx2_complete (sessG s) (cfgS cfg) (regionOf reg.id)).map
    (fun (r, gs', c') => (respT r, sessOf s gs', cfgT c'))

/-- the counters of a model session fit their Rust types -/
def SessFits (s : Model.Session) : Prop := s.fcntUp ≤ 4294967295 ∧ s.adrAckCnt ≤ 4294967295

theorem sessG_wf (s : Model.Session) (h : SessFits s) : SessWF (sessG s) := by
  simp only [SessWF, sessG]; unfold SessFits at h; omega

theorem sessOf_sessG (s : Model.Session) : sessOf s (sessG s) = s := by
  cases s with | mk p a c d fu fd ac nk ak =>
  cases fd <;> simp [sessOf, sessG]

theorem cfgOf_cfgS (c : Gen.MacTopFn.Configuration) : cfgOf (cfgS c) = cfgM c := rfl
theorem cfgM_cfgT (c : Gen.SessionFn.Configuration) : cfgM (cfgT c) = cfgOf c := rfl

theorem respT_of (r : Gen.SessionFn.Response) (m : Model.Response) (h : respOf r = some m) : respT r = respG m := by
  cases r <;> simp [respOf] at h <;> subst h <;> simp [respT, respG]

/-- the equation `Sim.session_rx2_complete` asks for, as a THEOREM about the regenerated method -/
theorem genRx2_sim (s : Model.Session) (h : SessFits s) (cfg : Gen.MacTopFn.Configuration) (reg : RegionState) :
    (genRx2 s cfg reg).map (fun (r, s', cfg') => (r, s', cfgM cfg'))
      = some (let (r, s', c') := rx2Complete s (cfgM cfg) reg.id; (respG r, s', c')) := by
  have ht := tieA_rx2_complete s (sessG s) (cfgS cfg) reg.id (sessG_wf s h)
  rw [sessOf_sessG, cfgOf_cfgS] at ht
  unfold genRx2
  cases hx : Gen.SessionFn.Session.rx2_complete (sessG s) (cfgS cfg) (regionOf reg.id) with
  | none => rw [hx] at ht; simp at ht
  | some v =>
    obtain ⟨r, gs', c'⟩ := v
    rw [hx] at ht
    simp only [Option.bind_some] at ht
    cases hr : respOf r with
    | none => rw [hr] at ht; simp at ht
    | some m =>
      rw [hr] at ht
      simp only [Option.map_some, Option.some.injEq] at ht
      have hrt := respT_of r m hr
      simp only [Option.map_some, cfgM_cfgT, hrt, ← ht]

/-- `Mac::rx2_complete` with the session operation instantiated: every record whose `session_rx2_complete` is the
regenerated method (and whose `Otaa::rx2_complete` answers `NoJoinAccept`) -/
theorem rx2_complete_gen (ops : GOps) (hs : ops.session_rx2_complete = genRx2)
    (ho : ∀ o, ops.otaa_rx2_complete o = (.NoJoinAccept, o)) (g : GMac)
    (hw : ∀ s, g.state = .Joined s → SessFits s) :
    (Gen.MacTopFn.Mac.rx2_complete ops g).map (fun (r, g') => (r, macM g'))
      = some (let (r, m') := macRx2Complete (macM g); (respG r, m')) := by
  obtain ⟨cfg, reg, eirp, st⟩ := g
  cases st with
  | Unjoined => simp [Gen.MacTopFn.Mac.rx2_complete, macRx2Complete, macM, stateM, respG]
  | Otaa o => simp [Gen.MacTopFn.Mac.rx2_complete, macRx2Complete, macM, stateM, respG, ho]
  | Joined s =>
    have hsim := genRx2_sim s (hw s rfl) cfg reg
    simp only [Gen.MacTopFn.Mac.rx2_complete, macRx2Complete, macM, stateM, hs]
    cases hx : genRx2 s cfg reg with
    | none => rw [hx] at hsim; simp at hsim
    | some v =>
      obtain ⟨r, s', cfg'⟩ := v
      rw [hx] at hsim
      simp at hsim
      obtain ⟨h1, h2, h3⟩ := hsim
      simp [h1, h2, h3, macM, stateM]

/-- `Response` as `Gen.OtaaFn` regenerates it -/
def respTO : Gen.OtaaFn.Response → Gen.MacTopFn.Response
  | .NoAck => .NoAck | .SessionExpired => .SessionExpired | .DownlinkReceived n => .DownlinkReceived n
  | .NoJoinAccept => .NoJoinAccept | .JoinSuccess => .JoinSuccess | .NoUpdate => .NoUpdate
  | .RxComplete => .RxComplete | .LinkCheckReq => .LinkCheckReq

/-- the operation of the dispatch built from the regenerated `Otaa::rx2_complete`: the model's join state is the
DevNonce of the pending request; the credentials, which the method does not read, are a placeholder -/
def genOtaaRx2 (o : OtaaState) : Gen.MacTopFn.Response × OtaaState :=
  let out := Gen.OtaaFn.Otaa.rx2_complete ⟨⟨(o.devNonce : Int)⟩, ⟨⟨⟨0⟩⟩⟩⟩
  (respTO out.1, { devNonce := out.2.dev_nonce.value.toNat })

/-- the equation `Sim.otaa_rx2_complete` asks for, as a THEOREM about the regenerated method -/
theorem genOtaaRx2_sim (o : OtaaState) : genOtaaRx2 o = (.NoJoinAccept, o) := by
  simp [genOtaaRx2, Gen.OtaaFn.Otaa.rx2_complete, respTO]

end TieA.MacTop

namespace C04
open Model TieA.MacTop

/-- **Tie A.**  `Mac::rx2_complete` = the model's `macRx2Complete`, the session's method being the REGENERATED
`Session::rx2_complete` (`Gen.SessionFn`, through `genRx2`): for every state whose session counters fit `u32` — no
simulation hypothesis: the join state's method is the REGENERATED `Otaa::rx2_complete` (`Gen.OtaaFn`, through
`genOtaaRx2`) as well. -/
theorem tieA_mac_rx2_complete (ops : GOps) (hs : ops.session_rx2_complete = genRx2)
    (ho : ops.otaa_rx2_complete = genOtaaRx2) (g : GMac)
    (hw : ∀ s, g.state = .Joined s → SessFits s) :
    (Gen.MacTopFn.Mac.rx2_complete ops g).map (fun (r, g') => (r, macM g'))
      = some (let (r, m') := macRx2Complete (macM g); (respG r, m')) :=
  rx2_complete_gen ops hs (fun o => by rw [ho]; exact genOtaaRx2_sim o) g hw

end C04

namespace TieA.MacTop.ExampleGen
open Model TieA.MacTop
def cfg0 : Gen.MacTopFn.Configuration :=
  { data_rate := ._5, rx1_delay := 1000, join_accept_delay1 := 5000, join_accept_delay2 := 6000, tx_power := none,
    rx1_dr_offset := 0, rx2_data_rate := none, rx2_frequency := none, adr_enabled := true }
def s95 : Model.Session := { Session.new 1 2 3 with fcntUp := 7, adrAckCnt := 95 }
/-- the regenerated method through the bridge: count 95 → 96, DR5 → DR4 in EU868, `RxComplete` -/
example : (genRx2 s95 cfg0 (Model.RegionState.init .EU868)).map (fun x => (x.1, x.2.1.fcntUp, x.2.1.adrAckCnt, x.2.2.data_rate))
    = some (.RxComplete, 8, 96, ._4) := by decide
example : SessFits s95 := by unfold SessFits; decide
/-- a record with both regenerated operations: a joining device whose windows passed answers `NoJoinAccept` -/
def opsG : GOps := { Example.ops0 with session_rx2_complete := genRx2, otaa_rx2_complete := genOtaaRx2 }
example : (Gen.MacTopFn.Mac.rx2_complete opsG { Example.g0 with state := .Otaa ⟨5⟩ }).map (·.1) = some .NoJoinAccept := rfl
end TieA.MacTop.ExampleGen

#print axioms C04.tieA_mac_rx2_complete
#print axioms TieA.MacTop.genRx2_sim
#print axioms TieA.MacTop.genOtaaRx2_sim
