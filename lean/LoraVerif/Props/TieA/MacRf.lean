import LoraVerif.Model.Mac
import LoraVerif.Gen.MacRfFn
/-!
# Tie A for the RF configuration of the receive windows (C05 / C10)

`Gen/MacRfFn.lean` holds the translation of the CURRENT source of `Mac::build_rf_config`, `Mac::rx2_rf_config`
and `Mac::get_rxc_config` (lorawan-device/src/mac/mod.rs): the data-rate lookup, its fallback to the RX2 data
rate with the `unwrap()`, the overrides `rx2_frequency` / `rx2_data_rate` (`unwrap_or_else`, evaluated on `None`
only), `BaseBandModulationParams::new` (the regenerated one of `Gen.Modulation`).

Each is proved EQUAL to the model's function (`buildRfConfig`, `rx2RfConfig`, `macRxcConfig`, `Model/Mac.lean`)
for every state, frequency and data rate, with the REGION ABSTRACT: the record of the four lookups the methods
call is instantiated with the model's (`getDatarate`, `rxDatarate`, `rx2Frequency`; the coding rate is a
parameter — the model does not carry it).  The generated configuration is mapped to the model's by a total map
(`cfgM`); the generated `RfConfig` by `rfM` (frequency, spreading factor, bandwidth, size limit).
-/
set_option linter.unusedSimpArgs false
set_option linter.unusedVariables false
namespace TieA.MacRf
open Model Gen.Modulation Gen.Region

/-- the region the generated methods see: the model's lookups -/
def regOf (r : RegionId) (cr : CodingRate) : Gen.MacRfFn.RegionCfg :=
  { get_datarate := fun n => getDatarate r n.toNat
    get_rx_datarate := fun d off w => (rxDatarate r d off.toNat w).toOption
    get_coding_rate := cr
    get_rx2_frequency := (rx2Frequency r : Int) }

/-- total map from the generated configuration to the model's -/
def cfgM (c : Gen.MacRfFn.Configuration) : Config :=
  { dataRate := c.data_rate.toInt.toNat, rx1Delay := c.rx1_delay.toNat, txPower := c.tx_power.map Int.toNat,
    rx1DrOffset := c.rx1_dr_offset.toNat, rx2DataRate := c.rx2_data_rate.map fun d => d.toInt.toNat,
    rx2Frequency := c.rx2_frequency.map Int.toNat, adrEnabled := c.adr_enabled }

/-- what the model keeps of a generated `RfConfig` -/
def rfM (g : Gen.MacRfFn.RfConfig) : RfConfig :=
  { frequency := g.frequency.toNat, sf := g.bb.sf.factor, bwHz := g.bb.bw.hz, maxPayload := g.max_payload_len }

/-- the generated state and the model state agree on what the three methods read -/
structure Rel (g : Gen.MacRfFn.Mac) (m : MacState) (cr : CodingRate) : Prop where
  region : g.region = regOf m.region.id cr
  cfg : m.cfg = cfgM g.configuration

theorem wrap_dr (d : DR) : Rt.wrap .u8 d.toInt = d.toInt := by cases d <;> rfl

theorem drOfNat_toInt (d : DR) : drOfNat d.toInt.toNat = .ok d := by cases d <;> rfl

/-- `BaseBandModulationParams::new` never overflows on the enum values and keeps SF and bandwidth -/
theorem bb_new (sf : SpreadingFactor) (bw : Bandwidth) (cr : CodingRate) :
    ∃ p, BaseBandModulationParams.new sf bw cr = some p ∧ p.sf = sf ∧ p.bw = bw := by
  cases sf <;> cases bw <;> cases cr <;> exact ⟨_, rfl, rfl, rfl⟩

theorem build_tie (g : Gen.MacRfFn.Mac) (m : MacState) (cr : CodingRate) (h : Rel g m cr)
    (freq : Int) (dr txdr : DR) (w : Window) :
    (Gen.MacRfFn.Mac.build_rf_config g freq dr txdr w).map rfM = (buildRfConfig m freq.toNat dr txdr).toOption := by
  unfold Gen.MacRfFn.Mac.build_rf_config buildRfConfig
  rw [h.region, h.cfg]
  simp only [regOf, wrap_dr, cfgM]
  cases h1 : getDatarate m.region.id dr.toInt.toNat with
  | some d =>
    obtain ⟨p, hp, e1, e2⟩ := bb_new d.spreading_factor d.bandwidth cr
    simp [hp, rfM, rfOf, e1, e2, Except.toOption]
    rfl
  | none =>
    cases h2 : rxDatarate m.region.id txdr g.configuration.rx1_dr_offset.toNat Window._2 with
    | error e => simp [Except.toOption, bind, Except.bind]
    | ok dr2 =>
      cases h3 : getDatarate m.region.id dr2.toInt.toNat with
      | none => simp [Except.toOption, bind, Except.bind, h3, Model.panic]
      | some d =>
        obtain ⟨p, hp, e1, e2⟩ := bb_new d.spreading_factor d.bandwidth cr
        simp [hp, rfM, rfOf, e1, e2, Except.toOption, bind, Except.bind, h3]
        rfl


theorem rx2_tie (g : Gen.MacRfFn.Mac) (m : MacState) (cr : CodingRate) (h : Rel g m cr) (txdr : DR) :
    (Gen.MacRfFn.Mac.rx2_rf_config g txdr).map rfM = (rx2RfConfig m txdr).toOption := by
  have hb := fun freq dr => build_tie g m cr h freq dr txdr Window._2
  obtain ⟨c, reg⟩ := g
  obtain ⟨hr, hc⟩ := h
  simp only at hr hc
  subst hr
  unfold Gen.MacRfFn.Mac.rx2_rf_config rx2RfConfig
  rw [hc]
  obtain ⟨dr0, d1, ja1, ja2, txp, off, r2d, r2f, adr⟩ := c
  simp only [cfgM, regOf] at hb ⊢
  cases r2f <;> cases r2d <;>
    simp only [Option.map_some, Option.map_none, drOfNat_toInt, Option.pure_def, Option.bind_eq_bind, Option.bind_some,
      bind_pure, hb, Int.toNat_natCast]
  · cases h2 : rxDatarate m.region.id txdr off.toNat Window._2 with
    | error e => simp [Except.toOption, bind, Except.bind]
    | ok dr2 =>
      have := hb (rx2Frequency m.region.id : Int) dr2
      simp [Except.toOption, bind, Except.bind] at this ⊢
      exact this
  · rfl
  · cases h2 : rxDatarate m.region.id txdr off.toNat Window._2 with
    | error e => simp [Except.toOption, bind, Except.bind]
    | ok dr2 =>
      rename_i f
      have := hb f dr2
      simp [Except.toOption, bind, Except.bind] at this ⊢
      exact this
  · rfl

theorem rxc_tie (g : Gen.MacRfFn.Mac) (m : MacState) (cr : CodingRate) (h : Rel g m cr) :
    (Gen.MacRfFn.Mac.get_rxc_config g).map (fun c => (rfM c.rf, c.mode)) = (macRxcConfig m).toOption.map (fun r => (r, .Continuous)) := by
  unfold Gen.MacRfFn.Mac.get_rxc_config macRxcConfig
  have hd : m.cfg.dataRate = g.configuration.data_rate.toInt.toNat := by rw [h.cfg]; rfl
  rw [hd, drOfNat_toInt]
  have := rx2_tie g m cr h g.configuration.data_rate
  cases hx : Gen.MacRfFn.Mac.rx2_rf_config g g.configuration.data_rate with
  | none => rw [hx] at this; simp at this ⊢; simp [bind, Except.bind, ← this]
  | some r => rw [hx] at this; simp at this ⊢; simp [bind, Except.bind, ← this]


/-- the model's reading of a generated channel selection -/
def txM (t : Gen.MacRfFn.TxChannel) : TxChannel :=
  { dr := t.dr, datarate := t.datarate, frequency := t.frequency.toNat, rx1Frequency := t.rx1_frequency.toNat }

theorem windows_tie (g : Gen.MacRfFn.Mac) (m : MacState) (cr : CodingRate) (h : Rel g m cr) (t : Gen.MacRfFn.TxChannel) :
    (Gen.MacRfFn.Mac.rx_windows g t).map (fun w => (rfM w.rx1, rfM w.rx2)) = (rxWindows m (txM t)).toOption := by
  unfold Gen.MacRfFn.Mac.rx_windows rxWindows
  have hb := fun dr => build_tie g m cr h t.rx1_frequency dr t.dr Window._1
  have h2 := rx2_tie g m cr h t.dr
  have ho : m.cfg.rx1DrOffset = g.configuration.rx1_dr_offset.toNat := by rw [h.cfg]; rfl
  have hr : g.region.get_rx_datarate t.dr g.configuration.rx1_dr_offset Window._1
      = (rxDatarate m.region.id t.dr g.configuration.rx1_dr_offset.toNat Window._1).toOption := by rw [h.region]; rfl
  simp only [txM, ho, hr]
  cases h1 : rxDatarate m.region.id t.dr g.configuration.rx1_dr_offset.toNat Window._1 with
  | error e => simp [Except.toOption, bind, Except.bind]
  | ok d1 =>
    have hb1 := hb d1
    cases hx : Gen.MacRfFn.Mac.build_rf_config g t.rx1_frequency d1 t.dr Window._1 with
    | none =>
      rw [hx] at hb1
      cases hy : buildRfConfig m t.rx1_frequency.toNat d1 t.dr with
      | ok r => rw [hy] at hb1; simp [Except.toOption] at hb1
      | error e => simp [Except.toOption, bind, Except.bind, hy, hx]
    | some r1 =>
      rw [hx] at hb1
      cases hy : buildRfConfig m t.rx1_frequency.toNat d1 t.dr with
      | error e => rw [hy] at hb1; simp [Except.toOption] at hb1
      | ok r1' =>
        rw [hy] at hb1
        simp only [Option.map_some, Except.toOption, Option.some.injEq] at hb1
        cases hz : Gen.MacRfFn.Mac.rx2_rf_config g t.dr with
        | none =>
          rw [hz] at h2
          cases hw : rx2RfConfig m t.dr with
          | ok r => rw [hw] at h2; simp [Except.toOption] at h2
          | error e => simp [Except.toOption, bind, Except.bind, hy, hw, hx, hz]
        | some r2 =>
          rw [hz] at h2
          cases hw : rx2RfConfig m t.dr with
          | error e => rw [hw] at h2; simp [Except.toOption] at h2
          | ok r2' =>
            rw [hw] at h2
            simp only [Option.map_some, Except.toOption, Option.some.injEq] at h2
            subst hb1 h2
            simp [Except.toOption, bind, Except.bind, hy, hw, hx, hz]
            rfl

end TieA.MacRf
