import LoraVerif.Model.Mac
import LoraVerif.Gen.SessionStatic
import LoraVerif.Lemmas.RtLemmas
/-!
# C05, tie A: the oversize test of `Session::handle_rx` and the freshness window constant

The hand model (`Model/Mac.lean`, `sessionHandleRx`) drops a frame when `d.len > maxPayload + 5`.
`tools/translate` regenerates the comparison of the current source
(`payload_len > max_payload_len as usize + MHDR_LEN + MIC_LEN`) as a function of its operands
(`Gen/SessionStatic.lean`); the two are proved equal for every length and every `u8` limit, so
that a changed constant or comparison operator breaks a named theorem.
-/
namespace C05
open Model

private theorem oversized_int (len mp : Int) (h0 : 0 ≤ mp) (h : mp ≤ 255) :
    Gen.SessionStatic.Session.handle_rx.oversized len mp = some (decide (len > mp + 5)) := by
  simp (disch := omega) only [Gen.SessionStatic.Session.handle_rx.oversized, Gen.SessionStatic.MHDR_LEN,
    Gen.SessionStatic.MIC_LEN, Rt.ck_usize, Option.bind_eq_bind, Option.bind_some, Option.pure_def, Option.some.injEq]
  rw [Bool.eq_iff_iff]; simp only [decide_eq_true_eq]; omega

/-- oversized frames (`handle_rx`): `payload_len > max_payload_len as usize + MHDR_LEN + MIC_LEN`
is the model's `len > maxPayload + 5`, for every length and every `u8` limit -/
theorem tieA_oversized (len maxPayload : Nat) (h : maxPayload ≤ 255) :
    Gen.SessionStatic.Session.handle_rx.oversized len maxPayload = some (decide (len > maxPayload + 5)) := by
  rw [oversized_int _ _ (by omega) (by omega), Option.some.injEq, Bool.eq_iff_iff]
  simp only [decide_eq_true_eq]; omega

example : Gen.SessionStatic.Session.handle_rx.oversized 65 59 = some true ∧
    Gen.SessionStatic.Session.handle_rx.oversized 64 59 = some false := by decide

/-- the freshness window is the one constant of the source both generated units read -/
theorem tieA_maxFcntGap : Gen.SessionStatic.MAX_FCNT_GAP = Gen.Session.MAX_FCNT_GAP := rfl

#print axioms tieA_oversized
#print axioms tieA_maxFcntGap
end C05
