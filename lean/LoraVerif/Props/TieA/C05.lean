import LoraVerif.Model.Mac
import LoraVerif.Props.TieA.HandleRx
import LoraVerif.Props.TieA.HandleRxFull
import LoraVerif.Gen.SessionStatic
import LoraVerif.Lemmas.RtLemmas
/-!
# C05, tie A: the oversize test of `Session::handle_rx` and the freshness window constant

The hand model (`Model/Mac.lean`, `sessionHandleRx`) drops a frame when `d.len > maxPayload + 5`.
`tools/translate` regenerates the comparison of the current source
(`payload_len > max_payload_len as usize + MHDR_LEN + MIC_LEN`) as a function of its operands
(`Gen/SessionStatic.lean`); the two are proved equal for every length and every `u8` limit, so
that a changed constant or comparison operator breaks a named theorem.
-/
namespace C05
open Model

/-! (builder N) The former `tieA_oversized` — the oversize comparison extracted as a function of its operands —
is superseded by `tieA_handle_rx_accept` below, which ties the whole method (a changed constant or
comparison operator breaks it, a re-spelt comparison does not). -/

/-- the freshness window is the one constant of the source both generated units read -/
theorem tieA_maxFcntGap : Gen.SessionStatic.MAX_FCNT_GAP = Gen.Session.MAX_FCNT_GAP := rfl

#print axioms tieA_maxFcntGap
/-- builder N — the WHOLE acceptance test: the state-passing translation of the current source of
`Session::handle_rx` (`Gen/SessionRx.lean`, with `Session::rx2_complete`, `next_fcnt_down` and the `Uplink`
helpers translated as well) is the model's `sessionHandleRx` on every buffer the data-frame parser accepts:
a frame longer than `max_payload_len + MHDR_LEN + MIC_LEN` ends the receive procedure in a Class A window
(`rx2_complete`) and is ignored on RXC; the 32-bit counter is `next_fcnt_down(fcnt_down, wire)` and the
frame is accepted iff the MIC verifies under the session's NwkSKey and THAT counter; then, in this order:
the answer queue is cleared (Class A only), `fcnt_down` stored, `adr_ack_cnt = 0`, the MAC commands of
FOpts and of a port-0 payload handled (Class A only), an ACK owed for a confirmed frame,
`SessionExpired` at `fcnt_up = 0xFFFF_FFFF`, otherwise `fcnt_up + 1`, `DownlinkReceived(fcnt)` and the
application payload queued iff FPort > 0.  Builder S: `handle_downlink_macs` inside is the REGENERATED method
(`Gen/SessionMacs.lean`, `TieA.Rx.Full.genOps`) on every command stream of octets (`Stream`) — the former
simulation hypothesis `MacsOk` is a theorem (`TieA.Rx.Full.genOps_ok`, from `C08.tieA_handle_downlink_macs`).
Builder X: the statement is for a frame whose MType is a DOWNLINK type (`hup : e.is_uplink = false`); since the fix
"uplink-typed frames are ignored" the method returns `NoUpdate` at once for `e.is_uplink = true`
(`tieA_handle_rx_uplink_typed`) and the model's view of such a buffer is `RxView.garbage`, not `RxView.data`.
Builder Y: and carrying the session's own DevAddr if it passes the size test (`haddr`); a fitting frame addressed to another device is the early exit `tieA_handle_rx_other_devaddr` (`NoUpdate`, nothing changes; an oversized one ends the Class A procedure whatever its address).
Abstract: parsing / MIC / decryption of the frame (inputs), the MAC-command iterator (the decoded commands of the
well-formed prefix), `next_lower_datarate` and the region's methods (the model's).  A buffer the parser rejects:
`handle_rx_unparsed`.  Proved in `Props/TieA/HandleRx.lean` + `Props/TieA/HandleRxFull.lean` (non-vacuity: the
examples there instantiate every hypothesis on a frame carrying a LinkADRReq and a DevStatusReq). -/
theorem tieA_handle_rx_accept
    (D : Int) (gs : Gen.SessionRx.Session) (rs : RegionState) (g : Gen.SessionRx.Configuration)
    (rx : Gen.SessionRx.RadioBuffer) (dl : List Gen.SessionRx.Downlink) (maxp snr : Int) (ign : Bool)
    (e : Gen.SessionRx.EncryptedDataPayload)
    (hparse : rx.as_mut_for_read.parse = some e) (hup : e.is_uplink = false)
    (haddr : ¬ (e.as_bytes.length : Int) > maxp + 5 → e.fhdr.dev_addr = gs.devaddr)
    (hw : TieA.Rx.SessWF gs) (hmax : 0 ≤ maxp ∧ maxp ≤ 255) (hwire : 0 ≤ e.fhdr.fcnt)
    (hdec : ∀ f, Gen.SessionRx.next_fcnt_down gs.fcnt_down e.fhdr.fcnt = some f → e.validate_mic (TieA.Rx.nwkOf gs) f = true →
      ∃ d, rx.as_mut_for_read.decrypt_in_place (some (TieA.Rx.nwkOf gs)) (some (TieA.Rx.appOf gs)) f = some d ∧ TieA.Rx.DecWF TieA.Rx.Full.Stream d) :
    (@Gen.SessionRx.Session.handle_rx RegionState TieA.Rx.Full.genOps D gs rs g rx dl maxp snr ign).bind
        (fun out => (TieA.Rx.respOf out.1).map (fun r => (r, TieA.Rx.sessOf out.2.1, out.2.2.1, TieA.Rx.cfgOf out.2.2.2.1, out.2.2.2.2.2.map TieA.Rx.dlOf)))
      = (sessionHandleRx (TieA.Rx.sessOf gs) (TieA.Rx.cfgOf g) rs (TieA.Rx.dataOf gs e (TieA.Rx.decOf gs rx e)) maxp.toNat snr ign).toOption.map (TieA.Rx.expect dl D) :=
  TieA.Rx.Full.handle_rx_full D gs rs g rx dl maxp snr ign e hparse hup haddr hw hmax hwire hdec

/-- builder N — a buffer the data-frame parser rejects: `NoUpdate`, every output is the input -/
theorem tieA_handle_rx_unparsed [Gen.SessionRx.MacOps RegionState]
    (D : Int) (gs : Gen.SessionRx.Session) (rs : RegionState) (g : Gen.SessionRx.Configuration)
    (rx : Gen.SessionRx.RadioBuffer) (dl : List Gen.SessionRx.Downlink) (maxp snr : Int) (ign : Bool)
    (hparse : rx.as_mut_for_read.parse = none) :
    Gen.SessionRx.Session.handle_rx D gs rs g rx dl maxp snr ign = some (.NoUpdate, gs, rs, g, rx, dl) :=
  TieA.Rx.handle_rx_unparsed D gs rs g rx dl maxp snr ign hparse

/-- builder X — a buffer the parser accepts whose MType is an UPLINK type (`is_uplink()`; the device's own uplink
echoed back, another device's uplink, any frame MIC'd with Dir = 0 under the session key): `NoUpdate`, every output is
the input — whatever its length, wire counter and MIC, in a Class A window (no `rx2_complete`) and outside.  For the
model such a buffer is NOT a data-frame view (`RxView.garbage`, the reference codec's `g`), exactly like a buffer the
parser rejects: `sessionHandleRx` is only ever applied to downlink-typed frames (`hup` of `tieA_handle_rx_accept`).  This is what makes "acted upon iff an authentic fresh DOWNLINK" true of the code: MIC and keystream direction are
taken from the received MHDR, so without this exit an uplink-typed frame verifying with Dir = 0 was accepted. -/
theorem tieA_handle_rx_uplink_typed [Gen.SessionRx.MacOps RegionState]
    (D : Int) (gs : Gen.SessionRx.Session) (rs : RegionState) (g : Gen.SessionRx.Configuration)
    (rx : Gen.SessionRx.RadioBuffer) (dl : List Gen.SessionRx.Downlink) (maxp snr : Int) (ign : Bool)
    (e : Gen.SessionRx.EncryptedDataPayload)
    (hparse : rx.as_mut_for_read.parse = some e) (hup : e.is_uplink = true) :
    Gen.SessionRx.Session.handle_rx D gs rs g rx dl maxp snr ign = some (.NoUpdate, gs, rs, g, rx, dl) :=
  TieA.Rx.handle_rx_uplink_typed D gs rs g rx dl maxp snr ign e hparse hup

/-- builder Y — a buffer the parser accepts as a downlink-typed frame that fits the window's data rate but whose FHDR
DevAddr differs from the session's (a frame ADDRESSED TO SOMEONE ELSE): `NoUpdate`, every output is the input — whatever
its wire counter and MIC (also a MIC that verifies under this session's NwkSKey at a fresh counter: two devices
provisioned with the same keys), for every `ignore_mac` and every `MacOps` instance.  For the model such a buffer is NOT a
data-frame view (`RxView.garbage`, the reference codec's `g`): `sessionHandleRx` is only ever applied to frames carrying
the session's own DevAddr (`haddr` of `tieA_handle_rx_accept`).  Without this exit (before the fix) the method never
compared the address and accepted such a frame: payload delivered, FCntDown advanced. -/
theorem tieA_handle_rx_other_devaddr [Gen.SessionRx.MacOps RegionState]
    (D : Int) (gs : Gen.SessionRx.Session) (rs : RegionState) (g : Gen.SessionRx.Configuration)
    (rx : Gen.SessionRx.RadioBuffer) (dl : List Gen.SessionRx.Downlink) (maxp snr : Int) (ign : Bool)
    (e : Gen.SessionRx.EncryptedDataPayload)
    (hparse : rx.as_mut_for_read.parse = some e) (hup : e.is_uplink = false)
    (hmax : 0 ≤ maxp ∧ maxp ≤ 255) (hfits : ¬ (e.as_bytes.length : Int) > maxp + 5)
    (haddr : e.fhdr.dev_addr ≠ gs.devaddr) :
    Gen.SessionRx.Session.handle_rx D gs rs g rx dl maxp snr ign = some (.NoUpdate, gs, rs, g, rx, dl) :=
  TieA.Rx.handle_rx_other_devaddr D gs rs g rx dl maxp snr ign e hparse hup hmax hfits haddr

/-- builder S: the two former hypotheses are theorems for the regenerated `handle_downlink_macs` -/
example : @TieA.Rx.NextLowerOk TieA.Rx.Full.genOps ∧ @TieA.Rx.MacsOk TieA.Rx.Full.genOps TieA.Rx.Full.Stream := TieA.Rx.Full.genOps_ok

#print axioms tieA_handle_rx_accept
#print axioms tieA_handle_rx_unparsed
#print axioms tieA_handle_rx_uplink_typed
#print axioms tieA_handle_rx_other_devaddr
end C05
