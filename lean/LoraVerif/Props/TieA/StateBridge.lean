import LoraVerif.Model.Mac
import LoraVerif.Gen.SessionFn
import LoraVerif.Lemmas.RtLemmas
/-!
# Tie A for whole stateful methods — the bridge between the GENERATED state
(`Gen/SessionFn.lean`: the fields of `Session` / `Configuration` the translated methods touch,
machine integers as `Int`) and the hand model's state (`Model/Mac.lean`, naturals).

The direction is generated → model: the maps are total, and every model state whose counters fit
their Rust types is the image of a generated state (`sessOf_surj`, `cfgOf_surj`).
-/
namespace TieA
open Model Gen.Region

/-- total left inverse of `DR.toInt` on 0..15 -/
def drOfNatT : Nat → DR
  | 0 => ._0 | 1 => ._1 | 2 => ._2 | 3 => ._3 | 4 => ._4 | 5 => ._5 | 6 => ._6 | 7 => ._7
  | 8 => ._8 | 9 => ._9 | 10 => ._10 | 11 => ._11 | 12 => ._12 | 13 => ._13 | 14 => ._14 | _ => ._15

theorem drOfNatT_toInt (n : Nat) (h : n < 16) : (drOfNatT n).toInt.toNat = n := by
  have : n = 0 ∨ n = 1 ∨ n = 2 ∨ n = 3 ∨ n = 4 ∨ n = 5 ∨ n = 6 ∨ n = 7 ∨ n = 8 ∨ n = 9 ∨ n = 10 ∨ n = 11 ∨
      n = 12 ∨ n = 13 ∨ n = 14 ∨ n = 15 := by omega
  rcases this with h | h | h | h | h | h | h | h | h | h | h | h | h | h | h | h <;> subst h <;> rfl

theorem toInt_drOfNatT (d : DR) : drOfNatT d.toInt.toNat = d := by cases d <;> rfl

theorem DR.toInt_lt (d : DR) : d.toInt.toNat < 16 := by cases d <;> decide

/-- the model configuration a generated `Configuration` stands for (the join-accept delays are
constants in the model) -/
def cfgOf (g : Gen.SessionFn.Configuration) : Config :=
  { dataRate := g.data_rate.toInt.toNat, rx1Delay := g.rx1_delay.toNat, txPower := g.tx_power.map Int.toNat,
    rx1DrOffset := g.rx1_dr_offset.toNat, rx2DataRate := g.rx2_data_rate.map (fun d => d.toInt.toNat),
    rx2Frequency := g.rx2_frequency.map Int.toNat, adrEnabled := g.adr_enabled }

/-- the model session: the generated fields over a model session `s0` that supplies the fields the
translated methods cannot touch (answer queue, owed ACK, address and key identities) -/
def sessOf (s0 : Session) (g : Gen.SessionFn.Session) : Session :=
  { s0 with confirmed := g.confirmed, fcntUp := g.fcnt_up.toNat, fcntDown := g.fcnt_down.map Int.toNat,
            adrAckCnt := g.adr_ack_cnt.toNat }

/-- the model's `Response` (the crate's `LinkCheckReq` has no counterpart in the model) -/
def respOf : Gen.SessionFn.Response → Option Response
  | .NoAck => some .noAck | .SessionExpired => some .sessionExpired
  | .DownlinkReceived n => some (.downlinkReceived n.toNat) | .NoJoinAccept => some .noJoinAccept
  | .JoinSuccess => some .joinSuccess | .NoUpdate => some .noUpdate | .RxComplete => some .rxComplete
  | .LinkCheckReq => none

/-- what the generated code observes of the region: `next_lower_datarate`, from the model's plan tables -/
def regionOf (r : RegionId) : Gen.SessionFn.RegionCfg :=
  ⟨fun dr => (nextLowerDatarate r dr.toInt.toNat).map drOfNatT⟩

/-- the integer fields of a generated session are within their Rust types -/
def SessWF (g : Gen.SessionFn.Session) : Prop :=
  0 ≤ g.fcnt_up ∧ g.fcnt_up ≤ 4294967295 ∧ 0 ≤ g.adr_ack_cnt ∧ g.adr_ack_cnt ≤ 4294967295

/-- every model session whose counters fit `u32` is the image of a well-formed generated session -/
theorem sessOf_surj (s : Session) (h1 : s.fcntUp ≤ 4294967295) (h2 : s.adrAckCnt ≤ 4294967295) :
    ∃ g, SessWF g ∧ sessOf s g = s := by
  refine ⟨⟨s.confirmed, s.fcntUp, s.fcntDown.map Int.ofNat, s.adrAckCnt⟩, ?_, ?_⟩
  · simp only [SessWF]; omega
  · cases s with | mk p a c d fu fd ac nk ak =>
    cases fd <;> simp [sessOf]

theorem nextLower_lt {r : RegionId} {cur c : Nat} (h : nextLowerDatarate r cur = some c) : c < cur := by
  unfold nextLowerDatarate at h
  have := List.mem_of_find?_eq_some h
  simp only [List.mem_reverse, List.mem_range] at this
  exact this

end TieA
