import LoraVerif.Model.Mac
import LoraVerif.Gen.SessionStatic
import LoraVerif.Props.TieA.Rx2Complete
/-!
# C06, tie A: the counter-exhaustion tests of `session.rs`

The hand model ends the session when `s.fcntUp == 0xFFFFFFFF` (`rx2Complete`, `sessionHandleRx`).
The two `self.fcnt_up == 0xFFFF_FFFF` comparisons of the current source are regenerated as
functions of the counter (`Gen/SessionStatic.lean`) and proved equal to the model's test.
-/
namespace C06
open Model

/-- counter exhaustion: both `fcnt_up == 0xFFFF_FFFF` tests of session.rs are the model's `== 0xFFFFFFFF` -/
theorem tieA_fcntUpExhausted (n : Nat) :
    Gen.SessionStatic.Session.rx2_complete.fcnt_up_exhausted n = (n == 0xFFFFFFFF) ∧
    Gen.SessionStatic.Session.handle_rx.fcnt_up_exhausted n = (n == 0xFFFFFFFF) := by
  constructor <;>
    simp only [Gen.SessionStatic.Session.rx2_complete.fcnt_up_exhausted, Gen.SessionStatic.Session.handle_rx.fcnt_up_exhausted] <;>
    rw [Bool.eq_iff_iff] <;> simp only [decide_eq_true_eq, beq_iff_eq] <;> omega

example : Gen.SessionStatic.Session.rx2_complete.fcnt_up_exhausted 4294967295 = true := by decide

#print axioms tieA_fcntUpExhausted

/-- builder L — the WHOLE method, not only its comparisons: the state-passing translation of the current
source of `Session::rx2_complete` (`Gen/SessionFn.lean`; struct values in, `(Response, Session,
Configuration)` out, checked arithmetic) never panics on a session whose counters fit `u32` and is the
model's `rx2Complete` — in particular `fcnt_up` advances by exactly one unless it is `0xFFFF_FFFF`,
in which case nothing changes and `SessionExpired` is reported (`C06.rx2Complete_fcnt` is about that
model function).  Proved in `Props/TieA/Rx2Complete.lean`. -/
theorem tieA_rx2_complete (s0 : Session) (gs : Gen.SessionFn.Session) (g : Gen.SessionFn.Configuration) (r : RegionId)
    (hw : TieA.SessWF gs) :
    (Gen.SessionFn.Session.rx2_complete gs g (TieA.regionOf r)).bind
        (fun o => (TieA.respOf o.1).map (fun resp => (resp, TieA.sessOf s0 o.2.1, TieA.cfgOf o.2.2)))
      = some (rx2Complete (TieA.sessOf s0 gs) (TieA.cfgOf g) r) :=
  TieA.tieA_rx2_complete s0 gs g r hw

example : TieA.SessWF ⟨false, 7, none, 95⟩ := by simp only [TieA.SessWF]; omega

#print axioms tieA_rx2_complete
end C06
