import LoraVerif.Model.Mac
import LoraVerif.Props.TieA.HandleRx
import LoraVerif.Props.TieA.HandleRxFull
import LoraVerif.Props.TieA.PrepareBuffer
import LoraVerif.Gen.SessionStatic
import LoraVerif.Props.TieA.Rx2Complete
/-!
# C06, tie A: the counter-exhaustion tests of `session.rs`

The hand model ends the session when `s.fcntUp == 0xFFFFFFFF` (`rx2Complete`, `sessionHandleRx`).
The two `self.fcnt_up == 0xFFFF_FFFF` comparisons of the current source are regenerated as
functions of the counter (`Gen/SessionStatic.lean`) and proved equal to the model's test.
-/
namespace C06
open Model

/-! (builder N) The former `tieA_fcntUpExhausted` — the two `fcnt_up == 0xFFFF_FFFF` comparisons extracted as
functions of the counter — is superseded by the whole-method theorems `tieA_rx2_complete` (builder L) and
`C05/C07.tieA_handle_rx_accept` (builder N), which contain both tests. -/

/-- builder L — the WHOLE method, not only its comparisons: the state-passing translation of the current
source of `Session::rx2_complete` (`Gen/SessionFn.lean`; struct values in, `(Response, Session,
Configuration)` out, checked arithmetic) never panics on a session whose counters fit `u32` and is the
model's `rx2Complete` — in particular `fcnt_up` advances by exactly one unless it is `0xFFFF_FFFF`,
in which case nothing changes and `SessionExpired` is reported (`C06.rx2Complete_fcnt` is about that
model function).  Proved in `Props/TieA/Rx2Complete.lean`. -/
theorem tieA_rx2_complete (s0 : Session) (gs : Gen.SessionFn.Session) (g : Gen.SessionFn.Configuration) (r : RegionId)
    (hw : TieA.SessWF gs) :
    (Gen.SessionFn.Session.rx2_complete gs g (TieA.regionOf r)).bind
        (fun o => (TieA.respOf o.1).map (fun resp => (resp, TieA.sessOf s0 o.2.1, TieA.cfgOf o.2.2)))
      = some (rx2Complete (TieA.sessOf s0 gs) (TieA.cfgOf g) r) :=
  TieA.tieA_rx2_complete s0 gs g r hw

example : TieA.SessWF ⟨false, 7, none, 95⟩ := by simp only [TieA.SessWF]; omega

#print axioms tieA_rx2_complete
/-- builder N — `Session::prepare_buffer` (whole method, `Gen/SessionTx.lean`): the frame handed to the codec
carries FCnt = the session's `fcnt_up`, and `prepare_buffer` does not advance the counter (the model's
`prepareBuffer`, which `C06.send_uses_fcnt` is about); see `C12.tieA_prepare_buffer_header` for the other
header fields.  Proved in `Props/TieA/PrepareBuffer.lean`. -/
theorem tieA_prepare_buffer_header {β : Type} [Gen.SessionTx.TxBufOps β] (codec : Gen.SessionTx.FrameCodec)
    (gs : Gen.SessionTx.Session) (d : Gen.SessionTx.SendData) (tx : β) (g : Gen.SessionTx.Configuration) (r : RegionId)
    (hp : 0 ≤ d.fport)
    (hret : ∀ p, TieA.Tx.natsOf (Gen.SessionTx.retained_pipeline p []) = retainSticky (p.length + 1) (TieA.Tx.natsOf p)) :
    if d.fport = 0 ∧ d.data ≠ [] then
      Gen.SessionTx.Session.prepare_buffer codec gs d tx g (TieA.Tx.regionOf r) = none ∧
      prepareBuffer (TieA.Tx.sessOf gs) (TieA.Tx.cfgOf g) r (TieA.Tx.natsOf d.data) d.fport.toNat d.confirmed
        = panic "Data payload with fport 0 not allowed"
    else ∃ (f : Gen.SessionTx.DataFrame) (gs' : Gen.SessionTx.Session),
      Gen.SessionTx.Session.prepare_buffer codec gs d tx g (TieA.Tx.regionOf r)
        = (codec.build_into f (List.replicate 256 0) ⟨gs.nwkskey.inner⟩ (some ⟨gs.appskey.inner⟩)).bind (fun pkt =>
            let o := Gen.SessionTx.TxBufOps.extend_from_slice (Gen.SessionTx.TxBufOps.clear (Gen.SessionTx.TxBufOps.clear tx)) pkt
            o.1.map (fun _ => (gs.fcnt_up, gs', o.2)))
      ∧ f.f_pending = false
      ∧ f.frame_type = (if d.confirmed then .ConfirmedUp else .UnconfirmedUp)
      ∧ prepareBuffer (TieA.Tx.sessOf gs) (TieA.Tx.cfgOf g) r (TieA.Tx.natsOf d.data) d.fport.toNat d.confirmed
          = (if TieA.Tx.frameLen f > 256 then panic "Error assembling packet: BufferTooShort"
             else if TieA.Tx.frameLen f ≥ 256 then panic "tx_buffer.extend_from_slice unwrap"
             else .ok (TieA.Tx.descOf f, TieA.Tx.sessOf gs')) :=
  TieA.Tx.tieA_prepare_buffer_header codec gs d tx g r hp hret

#print axioms tieA_prepare_buffer_header
/-- builder N — `Session::handle_rx` (whole method, `Gen/SessionRx.lean`) is the model's `sessionHandleRx`: an
accepted downlink advances `fcnt_up` by exactly one unless it is `0xFFFF_FFFF`, in which case
`SessionExpired` is reported and the counter stays; no other path of `handle_rx` touches it except the
oversized-frame path through `rx2_complete` (`C06.handleRx_fcnt` is about that model function).  See
`C05.tieA_handle_rx_accept`.  Builder X: for downlink-typed frames (`hup`); an uplink-typed frame leaves `fcnt_up` and
everything else untouched (`tieA_handle_rx_uplink_typed`).  Builder Y: and carrying the session's own DevAddr if it passes the size test (`haddr`); a fitting frame addressed to another device leaves `fcnt_up` and everything else untouched (`C05.tieA_handle_rx_other_devaddr`).  Proved in `Props/TieA/HandleRx.lean`.  Builder S: stated for the regenerated
`handle_downlink_macs` (`TieA.Rx.Full.genOps`) on every command stream, no simulation hypothesis
(`Props/TieA/HandleRxFull.lean`). -/
theorem tieA_handle_rx_accept
    (D : Int) (gs : Gen.SessionRx.Session) (rs : RegionState) (g : Gen.SessionRx.Configuration)
    (rx : Gen.SessionRx.RadioBuffer) (dl : List Gen.SessionRx.Downlink) (maxp snr : Int) (ign : Bool)
    (e : Gen.SessionRx.EncryptedDataPayload)
    (hparse : rx.as_mut_for_read.parse = some e) (hup : e.is_uplink = false)
    (haddr : ¬ (e.as_bytes.length : Int) > maxp + 5 → e.fhdr.dev_addr = gs.devaddr)
    (hw : TieA.Rx.SessWF gs) (hmax : 0 ≤ maxp ∧ maxp ≤ 255) (hwire : 0 ≤ e.fhdr.fcnt)
    (hdec : ∀ f, Gen.SessionRx.next_fcnt_down gs.fcnt_down e.fhdr.fcnt = some f → e.validate_mic (TieA.Rx.nwkOf gs) f = true →
      ∃ d, rx.as_mut_for_read.decrypt_in_place (some (TieA.Rx.nwkOf gs)) (some (TieA.Rx.appOf gs)) f = some d ∧ TieA.Rx.DecWF TieA.Rx.Full.Stream d) :
    (@Gen.SessionRx.Session.handle_rx RegionState TieA.Rx.Full.genOps D gs rs g rx dl maxp snr ign).bind
        (fun out => (TieA.Rx.respOf out.1).map (fun r => (r, TieA.Rx.sessOf out.2.1, out.2.2.1, TieA.Rx.cfgOf out.2.2.2.1, out.2.2.2.2.2.map TieA.Rx.dlOf)))
      = (sessionHandleRx (TieA.Rx.sessOf gs) (TieA.Rx.cfgOf g) rs (TieA.Rx.dataOf gs e (TieA.Rx.decOf gs rx e)) maxp.toNat snr ign).toOption.map (TieA.Rx.expect dl D) :=
  TieA.Rx.Full.handle_rx_full D gs rs g rx dl maxp snr ign e hparse hup haddr hw hmax hwire hdec

/-- builder X — a buffer the parser accepts whose MType is an UPLINK type (`is_uplink()`; the device's own uplink
echoed back, another device's uplink, any frame MIC'd with Dir = 0 under the session key): `NoUpdate`, every output is
the input — whatever its length, wire counter and MIC, in a Class A window (no `rx2_complete`) and outside.  For the
model such a buffer is NOT a data-frame view (`RxView.garbage`, the reference codec's `g`), exactly like a buffer the
parser rejects: `sessionHandleRx` is only ever applied to downlink-typed frames (`hup` of `tieA_handle_rx_accept`). -/
theorem tieA_handle_rx_uplink_typed [Gen.SessionRx.MacOps RegionState]
    (D : Int) (gs : Gen.SessionRx.Session) (rs : RegionState) (g : Gen.SessionRx.Configuration)
    (rx : Gen.SessionRx.RadioBuffer) (dl : List Gen.SessionRx.Downlink) (maxp snr : Int) (ign : Bool)
    (e : Gen.SessionRx.EncryptedDataPayload)
    (hparse : rx.as_mut_for_read.parse = some e) (hup : e.is_uplink = true) :
    Gen.SessionRx.Session.handle_rx D gs rs g rx dl maxp snr ign = some (.NoUpdate, gs, rs, g, rx, dl) :=
  TieA.Rx.handle_rx_uplink_typed D gs rs g rx dl maxp snr ign e hparse hup

#print axioms tieA_handle_rx_accept
#print axioms tieA_handle_rx_uplink_typed
end C06
