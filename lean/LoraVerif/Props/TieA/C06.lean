import LoraVerif.Model.Mac
import LoraVerif.Gen.SessionStatic
/-!
# C06, tie A: the counter-exhaustion tests of `session.rs`

The hand model ends the session when `s.fcntUp == 0xFFFFFFFF` (`rx2Complete`, `sessionHandleRx`).
The two `self.fcnt_up == 0xFFFF_FFFF` comparisons of the current source are regenerated as
functions of the counter (`Gen/SessionStatic.lean`) and proved equal to the model's test.
-/
namespace C06
open Model

/-- counter exhaustion: both `fcnt_up == 0xFFFF_FFFF` tests of session.rs are the model's `== 0xFFFFFFFF` -/
theorem tieA_fcntUpExhausted (n : Nat) :
    Gen.SessionStatic.Session.rx2_complete.fcnt_up_exhausted n = (n == 0xFFFFFFFF) ∧
    Gen.SessionStatic.Session.handle_rx.fcnt_up_exhausted n = (n == 0xFFFFFFFF) := by
  constructor <;>
    simp only [Gen.SessionStatic.Session.rx2_complete.fcnt_up_exhausted, Gen.SessionStatic.Session.handle_rx.fcnt_up_exhausted] <;>
    rw [Bool.eq_iff_iff] <;> simp only [decide_eq_true_eq, beq_iff_eq] <;> omega

example : Gen.SessionStatic.Session.rx2_complete.fcnt_up_exhausted 4294967295 = true := by decide

#print axioms tieA_fcntUpExhausted
end C06
