import LoraVerif.Gen.LoRaApiFn
import LoraVerif.Model.PhyState
/-!
# Tie A for the `LoRa<RK, DLY>` state machine (C14, builder G)

`Gen.LoRaApiFn` is `lora-phy/src/lib.rs` regenerated on every run (`tools/translate/src/loraapi.rs`):
the methods of `LoRa` as programs of `Rt.LoRa.LM` over the struct and an abstract record `Ops` of
`RadioKind` operations.  Here the record is instantiated from the hand model's `RadioKindOps`
(`opsOf`: every operation is the interpreter `run` of the model's `Prog`, so fault positions and
dropped awaits stay in the hand model's interpreter), the struct is the image of `DriverState` under
the total, injective map `toG`, and each theorem `C14.tieA_lora_<method>` states that the regenerated
method, run from `toG d` on the world `w`, gives exactly the image (`lift`) of what the hand model's
API program (`Model/PhyState.lean`) gives from `(d, w)`: same outcome on every exit path (Ok / Err /
panic / dropped), same driver bookkeeping, same world (hence the same order of `RadioKind`
operations with the same arguments: the world carries the transcript) — for every `RadioKindOps`,
driver state, world and argument.
-/
open Model.Phy Model.Phy.M

namespace C14
namespace LoRaTie



/-- what ends a call besides `Ok` / `Err` -/
inductive Halt where
  | panic (s : String)
  | dropped
  deriving DecidableEq, Repr

def modeG : RadioMode → Gen.LoRaApiFn.RadioMode RxMode
  | .sleep => .Sleep
  | .standby => .Standby
  | .frequencySynthesis => .FrequencySynthesis
  | .transmit => .Transmit
  | .receive m => .Receive m
  | .listen => .Listen
  | .cad => .ChannelActivityDetection

def modeM : Gen.LoRaApiFn.RadioMode RxMode → RadioMode
  | .Sleep => .sleep
  | .Standby => .standby
  | .FrequencySynthesis => .frequencySynthesis
  | .Transmit => .transmit
  | .Receive m => .receive m
  | .Listen => .listen
  | .ChannelActivityDetection => .cad

@[simp] theorem modeM_modeG (m : RadioMode) : modeM (modeG m) = m := by cases m <;> rfl
@[simp] theorem modeG_modeM (m : Gen.LoRaApiFn.RadioMode RxMode) : modeG (modeM m) = m := by cases m <;> rfl

def irqG : IrqState → Gen.LoRaApiFn.IrqState
  | .preambleReceived => .PreambleReceived
  | .done => .Done

theorem modeG_sleep : modeG .sleep = .Sleep := rfl
theorem modeM_Sleep : modeM .Sleep = .sleep := rfl
theorem modeG_standby : modeG .standby = .Standby := rfl
theorem modeM_Standby : modeM .Standby = .standby := rfl
theorem modeG_frequencySynthesis : modeG .frequencySynthesis = .FrequencySynthesis := rfl
theorem modeM_FrequencySynthesis : modeM .FrequencySynthesis = .frequencySynthesis := rfl
theorem modeG_transmit : modeG .transmit = .Transmit := rfl
theorem modeM_Transmit : modeM .Transmit = .transmit := rfl
theorem modeG_listen : modeG .listen = .Listen := rfl
theorem modeM_Listen : modeM .Listen = .listen := rfl
theorem modeG_cad : modeG .cad = .ChannelActivityDetection := rfl
theorem modeM_ChannelActivityDetection : modeM .ChannelActivityDetection = .cad := rfl
theorem modeG_receive (m : RxMode) : modeG (.receive m) = .Receive m := rfl
theorem modeM_Receive (m : RxMode) : modeM (.Receive m) = .receive m := rfl
theorem irqG_done : irqG .done = .Done := rfl
theorem irqG_pre : irqG .preambleReceived = .PreambleReceived := rfl

abbrev GOut (α : Type) := Rt.LoRa.Out RadioError Halt α

def outG {α β : Type} (f : α → β) : Out α → GOut β
  | .ok a => .ok (f a)
  | .err e => .err e
  | .panic s => .halt (.panic s)
  | .dropped => .halt .dropped

variable {σ μ : Type}

/-- the driver struct of the regenerated code for a model state (total, injective) -/
def toG (d : DriverState σ) : Gen.LoRaApiFn.LoRa σ RxMode :=
  { radio_kind := d.rk, radio_mode := modeG d.radioMode, sync_word := Int.ofNat d.syncWord,
    cold_start := d.coldStart, calibrate_image := d.calibrateImage }

def lift {α β : Type} (f : α → β) (r : Out α × (DriverState σ × World)) :
    GOut β × (Gen.LoRaApiFn.LoRa σ RxMode × World) :=
  (outG f r.1, (toG r.2.1, r.2.2))

/-- a `RadioKind` operation of the model as an operation of the regenerated code: the model's
interpreter run on the world; `c` converts the answer and gives the receiver afterwards -/
def opRK {α β : Type} (p : σ → Prog α) (c : α → σ → β × σ) : σ → Rt.LoRa.Act World RadioError Halt (β × σ) :=
  fun r w =>
    match run (p r) w with
    | (.ok a, w') => (.ok (c a r), w')
    | (.err e, w') => (.err e, w')
    | (.panic s, w') => (.halt (.panic s), w')
    | (.dropped, w') => (.halt .dropped, w')

/-- an operation that leaves the receiver as it is -/
def opR {α β : Type} (p : Prog α) (c : α → β) : σ → Rt.LoRa.Act World RadioError Halt (β × σ) :=
  opRK (fun _ => p) (fun a r => (c a, r))

/-- the record of operations of the regenerated code, from the model's `RadioKindOps`; `cmp` is
`create_modulation_params(SF7, bandwidth, 4/5, frequency)` (the model's `listen` takes its result) -/
def opsOf {BW : Type} (rk : RadioKindOps σ μ) (cmp : BW → Int → Except RadioError μ) :
    Gen.LoRaApiFn.Ops σ μ PacketParams RxMode Bytes Unit BW Unit Unit World RadioError Halt where
  reset := opR rk.reset id
  ensure_ready := fun m => opR (rk.ensureReady (modeM m)) id
  set_standby := opR rk.setStandby id
  set_sleep := fun warm => opR (rk.setSleep warm) id
  init_lora := fun sw => opRK (fun r => rk.initLora r sw.toNat) (fun st _ => ((), st))
  set_lora_sync_word := fun sw => opR (rk.setLoraSyncWord sw.toNat) id
  set_tx_power_and_ramp_time := fun p m b => opR (rk.setTxPowerAndRampTime p m b) id
  set_irq_params := fun m => opR (rk.setIrqParams (m.map modeM)) id
  set_modulation_params := fun m => opRK (fun r => rk.setModulationParams r m) (fun a r => (a, r))
  set_packet_params := fun pp => opR (rk.setPacketParams pp) id
  calibrate_image := fun f => opR (rk.calibrateImage f.toNat) id
  set_channel := fun f => opR (rk.setChannel f.toNat) id
  set_payload := fun b => opR (rk.setPayload b) id
  do_tx := opR rk.doTx id
  do_rx := fun m => opR (rk.doRx m) id
  get_rx_payload := fun pp buf => opR (rk.getRxPayload pp buf) (fun r => (Int.ofNat r.1, r.2))
  get_rx_packet_status := opR rk.getRxPacketStatus id
  do_cad := fun m => opR (rk.doCad m) id
  await_irq := opR rk.awaitIrq id
  process_irq_event := fun m o b => opR (rk.processIrqEvent (modeM m) o b) (fun r => (r.1.map irqG, r.2))
  create_modulation_params := fun _ bw _ f _ => cmp bw f
  c_RadioError_InvalidRadioMode := .InvalidRadioMode
  c_RxMode_Continuous := .continuous
  c_SpreadingFactor__7 := ()
  c_CodingRate__4_5 := ()
  f_frequency_in_hz := fun m => Int.ofNat (rk.freqOf m)
  m_set_payload_length := fun pp n =>
    if n > 255 then .error (.PayloadSizeUnexpected n.toNat) else .ok ((), { pp with payloadLength := n.toNat })
  m_len := fun b => Int.ofNat b.length
  panic := Halt.panic

/-! ## evaluation lemmas: both monads applied to an explicit state -/

section eval
open Rt.LoRa
variable {ω ε η S α β γ : Type}

theorem LM_get_bind (k : S → LM S ω ε η β) (s : S × ω) : LM.bind LM.get k s = k s.1 s := rfl
theorem LM_modify_bind (f : S → S) (k : Unit → LM S ω ε η β) (s : S) (w : ω) :
    LM.bind (LM.modify f) k (s, w) = k () (f s, w) := rfl
theorem LM_pure_bind (a : α) (k : α → LM S ω ε η β) : LM.bind (LM.pure a) k = k a := rfl
theorem LM_throw_bind (e : ε) (k : α → LM S ω ε η β) (s : S × ω) : LM.bind (LM.throw e) k s = (.err e, s) := rfl
theorem LM_halt_bind (h : η) (k : α → LM S ω ε η β) (s : S × ω) : LM.bind (LM.halt h) k s = (.halt h, s) := rfl
theorem LM_bind_assoc (m : LM S ω ε η α) (f : α → LM S ω ε η β) (k : β → LM S ω ε η γ) :
    LM.bind (LM.bind m f) k = LM.bind m (fun a => LM.bind (f a) k) := by
  funext s; simp only [LM.bind]; rcases m s with ⟨_ | _ | _, _⟩ <;> rfl
theorem LM_ite_bind (c : Prop) [Decidable c] (a b : LM S ω ε η α) (k : α → LM S ω ε η β) :
    LM.bind (if c then a else b) k = if c then LM.bind a k else LM.bind b k := by split <;> rfl
theorem LM_ofExcept_bind (r : Except ε α) (k : α → LM S ω ε η β) (s : S × ω) :
    LM.bind (LM.ofExcept r) k s = match r with | .ok a => k a s | .error e => (.err e, s) := by
  cases r <;> rfl
theorem LM_pure_app (a : α) (s : S × ω) : (LM.pure a : LM S ω ε η α) s = (.ok a, s) := rfl
theorem LM_throw_app (e : ε) (s : S × ω) : (LM.throw e : LM S ω ε η α) s = (.err e, s) := rfl
theorem LM_halt_app (h : η) (s : S × ω) : (LM.halt h : LM S ω ε η α) s = (.halt h, s) := rfl
theorem fun_ite_app {A B : Type} (c : Prop) [Decidable c] (a b : A → B) (x : A) :
    (if c then a else b) x = if c then a x else b x := by split <;> rfl

theorem M_get_bind (k : DriverState σ → M σ β) (s : DriverState σ × World) : (M.get >>= k) s = k s.1 s := rfl
theorem M_modify_bind (f : DriverState σ → DriverState σ) (k : Unit → M σ β) (d : DriverState σ) (w : World) :
    (M.modify f >>= k) (d, w) = k () (f d, w) := rfl
theorem M_pure_bind (a : α) (k : α → M σ β) : (pure a >>= k) = k a := rfl
theorem M_throw_bind (e : RadioError) (k : α → M σ β) (s : DriverState σ × World) :
    ((M.throw e : M σ α) >>= k) s = (.err e, s) := rfl
theorem M_panic_bind (e : String) (k : α → M σ β) (s : DriverState σ × World) :
    ((M.panic e : M σ α) >>= k) s = (.panic e, s) := rfl
theorem M_bind_assoc (m : M σ α) (f : α → M σ β) (k : β → M σ γ) :
    ((m >>= f) >>= k) = m >>= (fun a => f a >>= k) := by
  funext s; show M.bind' (M.bind' m f) k s = M.bind' m (fun a => M.bind' (f a) k) s
  simp only [M.bind']; rcases m s with ⟨_ | _ | _ | _, _⟩ <;> rfl
theorem M_ite_bind (c : Prop) [Decidable c] (a b : M σ α) (k : α → M σ β) :
    ((if c then a else b) >>= k) = if c then a >>= k else b >>= k := by split <;> rfl
theorem M_pure_app (a : α) (s : DriverState σ × World) : (pure a : M σ α) s = (.ok a, s) := rfl
theorem M_throw_app (e : RadioError) (s : DriverState σ × World) : (M.throw e : M σ α) s = (.err e, s) := rfl
theorem M_panic_app (e : String) (s : DriverState σ × World) : (M.panic e : M σ α) s = (.panic e, s) := rfl
theorem M_modify_app (f : DriverState σ → DriverState σ) (d : DriverState σ) (w : World) :
    M.modify f (d, w) = (.ok (), (f d, w)) := rfl

end eval

/-! ## step lemmas: one `RadioKind` operation on both sides -/

section step
open Rt.LoRa
variable {α β γ γ' : Type}

theorem callRk_eta (s : Gen.LoRaApiFn.LoRa σ RxMode) : { s with radio_kind := s.radio_kind } = s := by cases s; rfl

/-- an operation followed by the rest of the method -/
theorem sim_callK {p : σ → Prog α} {c : α → σ → β × σ} {k' : β → LM (Gen.LoRaApiFn.LoRa σ RxMode) World RadioError Halt γ'}
    {k : α → M σ γ} {f : γ → γ'} {s : Gen.LoRaApiFn.LoRa σ RxMode} {d : DriverState σ} {w : World}
    (h : ∀ a w', k' (c a s.radio_kind).1 ({ s with radio_kind := (c a s.radio_kind).2 }, w') = lift f (k a (d, w')))
    (hs : s = toG d) :
    LM.bind (Gen.LoRaApiFn.callRk (opRK p c)) k' (s, w) = lift f ((M.call (p s.radio_kind) >>= k) (d, w)) := by
  subst hs
  show _ = lift f (M.bind' (M.call (p (toG d).radio_kind)) k (d, w))
  simp only [LM.bind, Gen.LoRaApiFn.callRk, opRK, M.bind', M.call]
  rcases hr : run (p (toG d).radio_kind) w with ⟨_ | _ | _ | _, w'⟩ <;> simp only [lift, outG]
  · exact h _ _

theorem sim_call {p : Prog α} {c : α → β} {k' : β → LM (Gen.LoRaApiFn.LoRa σ RxMode) World RadioError Halt γ'}
    {k : α → M σ γ} {f : γ → γ'} {s : Gen.LoRaApiFn.LoRa σ RxMode} {d : DriverState σ} {w : World}
    (h : ∀ a w', k' (c a) (s, w') = lift f (k a (d, w'))) (hs : s = toG d) :
    LM.bind (Gen.LoRaApiFn.callRk (opR p c)) k' (s, w) = lift f ((M.call p >>= k) (d, w)) := by
  subst hs
  show _ = lift f (M.bind' (M.call p) k (d, w))
  simp only [LM.bind, Gen.LoRaApiFn.callRk, opR, opRK, M.bind', M.call]
  rcases hr : run p w with ⟨_ | _ | _ | _, w'⟩ <;> simp only [lift, outG]
  · exact h _ _

/-- an operation in tail position -/
theorem sim_call_last {p : Prog α} {c : α → β} {s : Gen.LoRaApiFn.LoRa σ RxMode} {d : DriverState σ} {w : World}
    (hs : s = toG d) :
    Gen.LoRaApiFn.callRk (opR p c) (s, w) = lift c (M.call p (d, w)) := by
  subst hs
  simp only [Gen.LoRaApiFn.callRk, opR, opRK, M.call]
  rcases hr : run p w with ⟨_ | _ | _ | _, w'⟩ <;> simp only [lift, outG]

/-- an operation that is the last statement of the model's program, the regenerated one going on -/
theorem sim_call_end {p : Prog α} {c : α → β} {k' : β → LM (Gen.LoRaApiFn.LoRa σ RxMode) World RadioError Halt γ'}
    {f : α → γ'} {s : Gen.LoRaApiFn.LoRa σ RxMode} {d : DriverState σ} {w : World}
    (h : ∀ a w', k' (c a) (s, w') = (.ok (f a), (s, w'))) (hs : s = toG d) :
    LM.bind (Gen.LoRaApiFn.callRk (opR p c)) k' (s, w) = lift f (M.call p (d, w)) := by
  subst hs
  simp only [LM.bind, Gen.LoRaApiFn.callRk, opR, opRK, M.call]
  rcases hr : run p w with ⟨_ | _ | _ | _, w'⟩ <;> simp only [lift, outG]
  · exact h _ _

/-- a `Result` matched without `?` -/
theorem sim_attempt {p : Prog α} {c : α → β}
    {k' : Except RadioError β → LM (Gen.LoRaApiFn.LoRa σ RxMode) World RadioError Halt γ'}
    {k : Except RadioError α → M σ γ} {f : γ → γ'} {s : Gen.LoRaApiFn.LoRa σ RxMode} {d : DriverState σ} {w : World}
    (hok : ∀ a w', k' (.ok (c a)) (s, w') = lift f (k (.ok a) (d, w')))
    (herr : ∀ e w', k' (.error e) (s, w') = lift f (k (.error e) (d, w'))) (hs : s = toG d) :
    LM.bind (LM.attempt (Gen.LoRaApiFn.callRk (opR p c))) k' (s, w) = lift f ((M.attempt (M.call p) >>= k) (d, w)) := by
  subst hs
  show _ = lift f (M.bind' (M.attempt (M.call p)) k (d, w))
  simp only [LM.bind, LM.attempt, Gen.LoRaApiFn.callRk, opR, opRK, M.bind', M.attempt, M.call]
  rcases hr : run p w with ⟨_ | _ | _ | _, w'⟩ <;> simp only [lift, outG]
  · exact hok _ _
  · exact herr _ _

/-- a method of `LoRa` already tied, followed by the rest -/
theorem sim_bind {g : LM (Gen.LoRaApiFn.LoRa σ RxMode) World RadioError Halt β} {m : M σ α} {c : α → β}
    {k' : β → LM (Gen.LoRaApiFn.LoRa σ RxMode) World RadioError Halt γ'}
    {k : α → M σ γ} {f : γ → γ'} {s : Gen.LoRaApiFn.LoRa σ RxMode} {d : DriverState σ} {w : World}
    (hm : ∀ d w, g (toG d, w) = lift c (m (d, w)))
    (h : ∀ a d' w', k' (c a) (toG d', w') = lift f (k a (d', w'))) (hs : s = toG d) :
    LM.bind g k' (s, w) = lift f ((m >>= k) (d, w)) := by
  subst hs
  show _ = lift f (M.bind' m k (d, w))
  simp only [LM.bind, M.bind', hm]
  rcases hr : m (d, w) with ⟨_ | _ | _ | _, d', w'⟩ <;> simp only [lift, outG]
  · exact h _ _ _

end step

/-- evaluate both sides up to the next `RadioKind` operation -/
macro "lora_eval" : tactic => `(tactic| simp only [LM_get_bind, LM_modify_bind, LM_pure_bind, LM_throw_bind, LM_halt_bind,
  LM_bind_assoc, LM_ite_bind, LM_ofExcept_bind, LM_pure_app, LM_throw_app, LM_halt_app, fun_ite_app,
  M_get_bind, M_modify_bind, M_pure_bind, M_throw_bind, M_panic_bind, M_bind_assoc, M_ite_bind, M_pure_app,
  M_throw_app, M_panic_app, M_modify_app, opsOf, toG, modeG_sleep, modeM_Sleep, modeG_standby, modeM_Standby, modeG_frequencySynthesis, modeM_FrequencySynthesis, modeG_transmit, modeM_Transmit, modeG_listen, modeM_Listen, modeG_cad, modeM_ChannelActivityDetection, modeG_receive, modeM_Receive, modeM_modeG, modeG_modeM, irqG_done, irqG_pre, setMode,
  Gen.LoRaApiFn.RadioMode.from_RX, Gen.LoRaApiFn.wait_for_irq,
  ne_eq, reduceCtorEq, not_true_eq_false, not_false_eq_true, if_true, if_false, ite_true, ite_false,
  Bool.not_true, Bool.not_false, bne_iff_ne, beq_iff_eq, Bool.false_eq_true, Bool.true_eq_false,
  Option.map_some, Option.map_none, Int.toNat_natCast, Int.ofNat_eq_natCast, id_eq,
  Except.map, Option.getD_some, Option.getD_none,
  Gen.LoRaApiFn.RadioMode.Receive.injEq, Model.Phy.RadioMode.receive.injEq])

/-- the leaf of a path: the same outcome, the same driver state, the same world -/
macro "lora_leaf" : tactic => `(tactic| (simp only [lift, outG, toG, modeG_sleep, modeM_Sleep, modeG_standby, modeM_Standby, modeG_frequencySynthesis, modeM_FrequencySynthesis, modeG_transmit, modeM_Transmit, modeG_listen, modeM_Listen, modeG_cad, modeM_ChannelActivityDetection, modeG_receive, modeM_Receive, id_eq, Int.ofNat_eq_natCast]; done))

macro "lora_step" : tactic => `(tactic| first
  | (refine sim_call (fun _ _ => ?_) (by first | rfl | lora_leaf))
  | (refine sim_callK (fun _ _ => ?_) (by first | rfl | lora_leaf))
  | (refine sim_call_last (by first | rfl | lora_leaf))
  | (refine sim_call_end (fun _ _ => ?_) (by first | rfl | lora_leaf))
  | (refine sim_attempt (fun _ _ => ?_) (fun _ _ => ?_) (by first | rfl | lora_leaf)))

macro "lora_tie" : tactic => `(tactic| repeat (first | lora_step | lora_eval | lora_leaf))

/-- continue after a tied sub-method: the state it leaves is arbitrary again -/
macro "lora_sub " h:term : tactic => `(tactic| refine sim_bind $h ?_ (by first | rfl | lora_leaf))

end LoRaTie

open LoRaTie
variable {σ μ BW : Type}

/-- `LoRa::sleep` -/
theorem tieA_lora_sleep (rk : RadioKindOps σ μ) (cmp : BW → Int → Except RadioError μ) (warm : Bool)
    (d : DriverState σ) (w : World) :
    Gen.LoRaApiFn.sleep (opsOf rk cmp) warm (toG d, w) = lift id (Model.Phy.sleep rk warm (d, w)) := by
  obtain ⟨rk0, mode, sw, cs, ci⟩ := d
  unfold Gen.LoRaApiFn.sleep Model.Phy.sleep
  cases mode <;> cases warm <;> lora_tie

/-- `LoRa::rx_switch_channel` -/
theorem tieA_lora_rx_switch_channel (rk : RadioKindOps σ μ) (cmp : BW → Int → Except RadioError μ) (freq : Int)
    (d : DriverState σ) (w : World) :
    Gen.LoRaApiFn.rx_switch_channel (opsOf rk cmp) freq (toG d, w)
      = lift id (Model.Phy.rxSwitchChannel rk freq.toNat (d, w)) := by
  obtain ⟨rk0, mode, sw, cs, ci⟩ := d
  unfold Gen.LoRaApiFn.rx_switch_channel Model.Phy.rxSwitchChannel
  cases mode <;> lora_tie

/-- `LoRa::start_rx` -/
theorem tieA_lora_start_rx (rk : RadioKindOps σ μ) (cmp : BW → Int → Except RadioError μ)
    (d : DriverState σ) (w : World) :
    Gen.LoRaApiFn.start_rx (opsOf rk cmp) (toG d, w) = lift id (Model.Phy.startRx rk (d, w)) := by
  obtain ⟨rk0, mode, sw, cs, ci⟩ := d
  unfold Gen.LoRaApiFn.start_rx Model.Phy.startRx
  cases mode <;> lora_tie

/-- `LoRa::set_lora_sync_word` -/
theorem tieA_lora_set_lora_sync_word (rk : RadioKindOps σ μ) (cmp : BW → Int → Except RadioError μ) (word : Nat)
    (d : DriverState σ) (w : World) :
    Gen.LoRaApiFn.set_lora_sync_word (opsOf rk cmp) (Int.ofNat word) (toG d, w)
      = lift id (Model.Phy.setLoraSyncWord rk word (d, w)) := by
  obtain ⟨rk0, mode, sw, cs, ci⟩ := d
  unfold Gen.LoRaApiFn.set_lora_sync_word Model.Phy.setLoraSyncWord Model.Phy.toStandby
  cases mode <;> lora_tie

/-- `LoRa::do_cold_start` -/
theorem tieA_lora_do_cold_start (rk : RadioKindOps σ μ) (cmp : BW → Int → Except RadioError μ)
    (d : DriverState σ) (w : World) :
    Gen.LoRaApiFn.do_cold_start (opsOf rk cmp) (toG d, w) = lift id (Model.Phy.doColdStart rk (d, w)) := by
  obtain ⟨rk0, mode, sw, cs, ci⟩ := d
  unfold Gen.LoRaApiFn.do_cold_start Model.Phy.doColdStart
  lora_tie

set_option maxHeartbeats 800000 in
/-- `LoRa::prepare_modem` -/
theorem tieA_lora_prepare_modem (rk : RadioKindOps σ μ) (cmp : BW → Int → Except RadioError μ) (freq : Nat)
    (d : DriverState σ) (w : World) :
    Gen.LoRaApiFn.prepare_modem (opsOf rk cmp) (freq : Int) (toG d, w)
      = lift id (Model.Phy.prepareModem rk freq (d, w)) := by
  obtain ⟨rk0, mode, sw, cs, ci⟩ := d
  unfold Gen.LoRaApiFn.prepare_modem Model.Phy.prepareModem Model.Phy.toStandby
  cases mode <;> cases cs <;> cases ci <;> lora_tie
  all_goals (lora_sub (tieA_lora_do_cold_start rk cmp); intro _ d' _; obtain ⟨rk1, mode1, sw1, cs1, ci1⟩ := d'
             cases ci1 <;> lora_tie)

end C14
