import LoraVerif.Props.TieA.MacCmdFrame
import LoraVerif.Props.TieA.HandleRxFull
import LoraVerif.Lemmas.PhyArithLemmas
/-!
# Tie A for the payload accessors of the downlink MAC commands and for the iterator `handle_downlink_macs` runs over (C08)

Builder S's `C08.tieA_handle_downlink_macs` kept the iterator abstract: a command was "what its payload accessors
yield", spelt by hand (`TieA.Macs.decCmd` over the model's `parseDownlinkCmds`).  Here that reading is proved about
the REGENERATED code (`Gen/MacCmdFn.lean`): `view` applies the regenerated accessors
(`LinkADRReqPayload::{data_rate, tx_power, channel_mask, redundancy}` with `Redundancy::channel_mask_control`,
`RXParamSetupReqPayload::{dl_settings, frequency}`, `Frequency::value`, `RXTimingSetupReqPayload::delay`,
`NewChannelReqPayload::{channel_index, frequency, data_rate_range}` with `DataRateRange::new`,
`DlChannelReqPayload::{channel_index, frequency}`) to a command the regenerated `parse_one` yields; it equals
`decCmd` for EVERY payload of octets of the command's length, and the regenerated iterator drained over any octet
stream, read through `view`, is `parseDownlinkCmds` + `decCmd`.
-/
set_option linter.unusedSimpArgs false
set_option linter.unusedVariables false
namespace TieA.MacCmdAcc
open Model Gen.Region TieA.Rx TieA.Macs TieA.MacCmdFrame

/-- a command as `handle_downlink_macs` reads it: the values the REGENERATED payload accessors yield
(`none` = an accessor panics) -/
def view : Gen.MacCmdFn.DownlinkMacCommand → Option Gen.SessionMacs.DownlinkMacCommand
  | .LinkADRReq p => do
    let dr ← p.data_rate
    let pw ← p.tx_power
    let cm ← p.channel_mask
    let r ← p.redundancy
    let cntl ← r.channel_mask_control
    pure (.LinkADRReq ⟨dr, pw, ⟨cm._0⟩, ⟨cntl⟩⟩)
  | .RXParamSetupReq p => do
    let dl ← p.dl_settings
    let f ← p.frequency
    let v ← f.value
    pure (.RXParamSetupReq ⟨⟨dl._0⟩, ⟨v⟩⟩)
  | .DevStatusReq _ => some (.DevStatusReq ⟨⟩)
  | .NewChannelReq p => do
    let i ← p.channel_index
    let f ← p.frequency
    let v ← f.value
    let d ← p.data_rate_range
    pure (.NewChannelReq ⟨i, ⟨v⟩, d.map fun x => ⟨x._0⟩⟩)
  | .RXTimingSetupReq p => do
    let d ← p.delay
    pure (.RXTimingSetupReq ⟨d⟩)
  | .DlChannelReq p => do
    let i ← p.channel_index
    let f ← p.frequency
    let v ← f.value
    pure (.DlChannelReq ⟨i, ⟨v⟩⟩)
  | .LinkCheckAns p => some (.LinkCheckAns ⟨p._0⟩)
  | .DutyCycleReq p => some (.DutyCycleReq ⟨p._0⟩)
  | .TXParamSetupReq p => some (.TXParamSetupReq ⟨p._0⟩)
  | .DeviceTimeAns p => some (.DeviceTimeAns ⟨p._0⟩)

/-! ## single-octet facts (every octet, by arithmetic — not by sampling) -/

theorem shr4 (x : Int) : Rt.shrC .u8 x 4 = some (x / 16) := by
  have := @Rt.shrC_lit .u8 x 4 (by decide)
  simpa using this

theorem and15 (x : Int) (h : 0 ≤ x) : Rt.andI x 15 = x % 16 := by
  have := Rt.andI_lowmask (x := x) h 4
  simpa using this

theorem and7 (x : Int) (h : 0 ≤ x) : Rt.andI x 7 = x % 8 := by
  have := Rt.andI_lowmask (x := x) h 3
  simpa using this

theorem into_dr (n : Nat) (h : n < 16) : u8.into_DR (n : Int) = some (drOfNatT n) := by
  have : n = 0 ∨ n = 1 ∨ n = 2 ∨ n = 3 ∨ n = 4 ∨ n = 5 ∨ n = 6 ∨ n = 7 ∨ n = 8 ∨ n = 9 ∨ n = 10 ∨ n = 11 ∨
      n = 12 ∨ n = 13 ∨ n = 14 ∨ n = 15 := by omega
  rcases this with h | h | h | h | h | h | h | h | h | h | h | h | h | h | h | h <;> subst h <;> rfl

/-- `DR::from` of the high and of the low nibble of an octet -/
theorem into_dr_hi (b : Nat) (h : b < 256) : u8.into_DR ((b : Int) / 16) = some (drOfNatT (b / 16)) := by
  have := into_dr (b / 16) (by omega)
  simpa using this

theorem into_dr_lo (b : Nat) : u8.into_DR ((b : Int) % 16) = some (drOfNatT (b % 16)) := by
  have := into_dr (b % 16) (by omega)
  simpa using this

theorem shl16 (b : Nat) (h : b < 256) : Rt.shlC .u32 (b : Int) 16 = some ((b * 65536 : Nat) : Int) := by
  simp [Rt.shlC, Rt.ITy.bits, Rt.wrap, Rt.ITy.signed]
  omega

theorem shl8 (b : Nat) (h : b < 256) : Rt.shlC .u32 (b : Int) 8 = some ((b * 256 : Nat) : Int) := by
  simp [Rt.shlC, Rt.ITy.bits, Rt.wrap, Rt.ITy.signed]
  omega

/-- `Frequency::value` on three octets: the 24-bit little-endian value times 100, no overflow -/
theorem freq_value (f0 f1 f2 : Nat) (h0 : f0 < 256) (h1 : f1 < 256) (h2 : f2 < 256) :
    Gen.MacCmdFn.Frequency.value ⟨[(f0 : Int), (f1 : Int), (f2 : Int)]⟩ = some (freqOf f0 f1 f2).value := by
  unfold Gen.MacCmdFn.Frequency.value
  simp [Rt.idx, shl16 f2 h2, shl8 f1 h1, freqOf]
  simp (disch := omega) only [Rt.ck_u32, Option.bind_some]
  -- the summands in any order (harmless rewrite h3)
  try (simp only [Option.some.injEq]; omega)

/-- `ChannelMask::<2>::new_from_raw` on two octets: the array of those two -/
theorem mask2 (b1 b2 : Int) : Gen.MacCmdFn.ChannelMask.new_from_raw 2 [b1, b2] = some ⟨[b1, b2]⟩ := by
  simp [Gen.MacCmdFn.ChannelMask.new_from_raw, Rt.slice, Rt.copyFromSlice]

/-- `DataRateRange::new` on an octet: `Err` iff max < min -/
theorem drr_new (r : Nat) (h : r < 256) :
    Gen.MacCmdFn.DataRateRange.new (r : Int) = some (if r / 16 < r % 16 then none else some ⟨(r : Int)⟩) := by
  unfold Gen.MacCmdFn.DataRateRange.new Gen.MacCmdFn.DataRateRange.can_build_from
  simp only [shr4, and15 (r : Int) (by omega), Option.bind_eq_bind, Option.bind_some, Gen.MacCmdFn.DataRateRange.new_from_raw]
  by_cases hlt : r / 16 < r % 16
  · have : (r : Int) / 16 < (r : Int) % 16 := by omega
    simp [hlt, this]
  · have : ¬ (r : Int) / 16 < (r : Int) % 16 := by omega
    simp [hlt, this]

/-! ## the accessors of each command = the model's reading of the payload, for every payload of octets -/

theorem view_link_adr (b0 b1 b2 b3 : Nat) (h0 : b0 < 256) (h3 : b3 < 256) :
    view (.LinkADRReq ⟨ints [b0, b1, b2, b3]⟩) = some (decCmd (0x03, [b0, b1, b2, b3])) := by
  have e1 := into_dr_hi b0 h0
  have e2 := into_dr_lo b0
  have e3 : Rt.andI ((b3 : Int) / 16) 7 = (b3 : Int) / 16 % 8 := and7 _ (by omega)
  have e4 : Rt.andI (b0 : Int) 15 = (b0 : Int) % 16 := and15 _ (by omega)
  simp [Rt.ck, Rt.ITy.lo, Rt.ITy.hi, Rt.ITy.signed, Rt.ITy.bits, e3, e4, view, decCmd, ints, Gen.MacCmdFn.LinkADRReqPayload.data_rate, Gen.MacCmdFn.LinkADRReqPayload.tx_power,
    Gen.MacCmdFn.LinkADRReqPayload.channel_mask, Gen.MacCmdFn.LinkADRReqPayload.redundancy, Gen.MacCmdFn.Redundancy.new,
    Gen.MacCmdFn.Redundancy.channel_mask_control, Rt.idx, Rt.slice, shr4, e1, e2, mask2]

theorem view_rx_param (d f0 f1 f2 : Nat) (h0 : f0 < 256) (h1 : f1 < 256) (h2 : f2 < 256) :
    view (.RXParamSetupReq ⟨ints [d, f0, f1, f2]⟩) = some (decCmd (0x05, [d, f0, f1, f2])) := by
  have hf := freq_value f0 f1 f2 h0 h1 h2
  simp [Rt.ck, Rt.ITy.lo, Rt.ITy.hi, Rt.ITy.signed, Rt.ITy.bits, view, decCmd, ints, Gen.MacCmdFn.RXParamSetupReqPayload.dl_settings, Gen.MacCmdFn.RXParamSetupReqPayload.frequency,
    Gen.MacCmdFn.DLSettings.new, Gen.MacCmdFn.Frequency.new_from_raw, Rt.idx, Rt.sliceFrom, Rt.slice, hf]

theorem view_new_channel (i f0 f1 f2 r : Nat) (h0 : f0 < 256) (h1 : f1 < 256) (h2 : f2 < 256) (hr : r < 256) :
    view (.NewChannelReq ⟨ints [i, f0, f1, f2, r]⟩) = some (decCmd (0x07, [i, f0, f1, f2, r])) := by
  have hf := freq_value f0 f1 f2 h0 h1 h2
  have hd := drr_new r hr
  by_cases hlt : r / 16 < r % 16 <;>
  simp [Rt.ck, Rt.ITy.lo, Rt.ITy.hi, Rt.ITy.signed, Rt.ITy.bits, view, decCmd, ints, Gen.MacCmdFn.NewChannelReqPayload.channel_index, Gen.MacCmdFn.NewChannelReqPayload.frequency,
    Gen.MacCmdFn.NewChannelReqPayload.data_rate_range, Gen.MacCmdFn.Frequency.new_from_raw, Rt.idx, Rt.slice, hf, hd, hlt]

theorem view_rx_timing (d : Nat) :
    view (.RXTimingSetupReq ⟨ints [d]⟩) = some (decCmd (0x08, [d])) := by
  have e : Rt.andI (d : Int) 15 = (d : Int) % 16 := and15 _ (by omega)
  simp [view, decCmd, ints, Gen.MacCmdFn.RXTimingSetupReqPayload.delay, Rt.idx, e]

theorem view_dl_channel (i f0 f1 f2 : Nat) (h0 : f0 < 256) (h1 : f1 < 256) (h2 : f2 < 256) :
    view (.DlChannelReq ⟨ints [i, f0, f1, f2]⟩) = some (decCmd (0x0A, [i, f0, f1, f2])) := by
  have hf := freq_value f0 f1 f2 h0 h1 h2
  simp [Rt.ck, Rt.ITy.lo, Rt.ITy.hi, Rt.ITy.signed, Rt.ITy.bits, view, decCmd, ints, Gen.MacCmdFn.DlChannelReqPayload.channel_index, Gen.MacCmdFn.DlChannelReqPayload.frequency,
    Gen.MacCmdFn.Frequency.new_from_raw, Rt.idx, Rt.slice, hf]

/-- a command the regenerated `parse_one` yields for a well-formed (CID, payload) pair, read through the regenerated
accessors, is the model's reading `decCmd` of that pair — every CID of the table, every payload of octets -/
theorem view_dec (x : Nat × List Nat) (hw : WfCmd x) (c : Gen.MacCmdFn.DownlinkMacCommand) (v t : String)
    (hc : infoOf c = (x.1, v, t, ints x.2)) : view c = some (decCmd x) := by
  obtain ⟨cid, p⟩ := x
  obtain ⟨hlen, ho⟩ := hw
  simp only at hlen ho hc
  have hcid : cid = 2 ∨ cid = 3 ∨ cid = 4 ∨ cid = 5 ∨ cid = 6 ∨ cid = 7 ∨ cid = 8 ∨ cid = 9 ∨ cid = 10 ∨ cid = 13 := by
    unfold downlinkCmdLen at hlen
    split at hlen <;> simp_all
  rcases hcid with rfl | rfl | rfl | rfl | rfl | rfl | rfl | rfl | rfl | rfl <;>
    simp only [downlinkCmdLen, Option.some.injEq] at hlen
  · -- LinkCheckAns
    cases c <;> simp [infoOf] at hc
    rename_i q; obtain ⟨_, _, hq⟩ := hc
    cases q; simp only at hq; subst hq
    match p, hlen with
    | [a, b], _ => simp [view, decCmd, ints]
  · -- LinkADRReq
    cases c <;> simp [infoOf] at hc
    rename_i q; obtain ⟨_, _, hq⟩ := hc
    cases q; simp only at hq; subst hq
    match p, hlen, ho with
    | [b0, b1, b2, b3], _, ho => exact view_link_adr b0 b1 b2 b3 (ho b0 (by simp)) (ho b3 (by simp))
  · -- DutyCycleReq
    cases c <;> simp [infoOf] at hc
    rename_i q; obtain ⟨_, _, hq⟩ := hc
    cases q; simp only at hq; subst hq
    match p, hlen with
    | [a], _ => simp [view, decCmd, ints]
  · -- RXParamSetupReq
    cases c <;> simp [infoOf] at hc
    rename_i q; obtain ⟨_, _, hq⟩ := hc
    cases q; simp only at hq; subst hq
    match p, hlen, ho with
    | [d, f0, f1, f2], _, ho => exact view_rx_param d f0 f1 f2 (ho f0 (by simp)) (ho f1 (by simp)) (ho f2 (by simp))
  · -- DevStatusReq
    cases c <;> simp [infoOf] at hc
    match p, hlen with
    | [], _ => simp [view, decCmd]
  · -- NewChannelReq
    cases c <;> simp [infoOf] at hc
    rename_i q; obtain ⟨_, _, hq⟩ := hc
    cases q; simp only at hq; subst hq
    match p, hlen, ho with
    | [i, f0, f1, f2, r], _, ho =>
      exact view_new_channel i f0 f1 f2 r (ho f0 (by simp)) (ho f1 (by simp)) (ho f2 (by simp)) (ho r (by simp))
  · -- RXTimingSetupReq
    cases c <;> simp [infoOf] at hc
    rename_i q; obtain ⟨_, _, hq⟩ := hc
    cases q; simp only at hq; subst hq
    match p, hlen with
    | [d], _ => exact view_rx_timing d
  · -- TXParamSetupReq
    cases c <;> simp [infoOf] at hc
    rename_i q; obtain ⟨_, _, hq⟩ := hc
    cases q; simp only at hq; subst hq
    match p, hlen with
    | [a], _ => simp [view, decCmd, ints]
  · -- DlChannelReq
    cases c <;> simp [infoOf] at hc
    rename_i q; obtain ⟨_, _, hq⟩ := hc
    cases q; simp only at hq; subst hq
    match p, hlen, ho with
    | [i, f0, f1, f2], _, ho => exact view_dl_channel i f0 f1 f2 (ho f0 (by simp)) (ho f1 (by simp)) (ho f2 (by simp))
  · -- DeviceTimeAns
    cases c <;> simp [infoOf] at hc
    rename_i q; obtain ⟨_, _, hq⟩ := hc
    cases q; simp only at hq; subst hq
    match p, hlen with
    | [a, b, c, d, e], _ => simp [view, decCmd, ints]


/-! ## the drained iterator, read through the accessors = `parseDownlinkCmds` + `decCmd` -/

/-- an item of the iterator as `handle_downlink_macs` receives it (`Result<DownlinkMacCommand, _>`: `Err` = `none`,
dropped by its `filter_map(Result::ok)`); outer `none` = an accessor panics -/
def viewItem : Gen.MacCmdFn.NextItem → Option (Option Gen.SessionMacs.DownlinkMacCommand)
  | .Ok c => (view c).map some
  | .Err _ => some none

def viewItems : List Gen.MacCmdFn.NextItem → Option (List (Option Gen.SessionMacs.DownlinkMacCommand))
  | [] => some []
  | it :: t =>
    match viewItem it, viewItems t with
    | some a, some b => some (a :: b)
    | _, _ => none

/-- `parse_downlink_mac_commands(bytes)` as the REGENERATED iterator yields it and the REGENERATED accessors read it -/
def regenCmds (bytes : List Int) : Option (List (Option Gen.SessionMacs.DownlinkMacCommand)) :=
  match genRun bytes with
  | some r => viewItems r.1
  | none => none

theorem lookup_of_len (cid n : Nat) (h : downlinkCmdLen cid = some n) : ∃ v t, TD.lookup cid = some ⟨cid, some n, v, t⟩ := by
  have hcid : cid = 2 ∨ cid = 3 ∨ cid = 4 ∨ cid = 5 ∨ cid = 6 ∨ cid = 7 ∨ cid = 8 ∨ cid = 9 ∨ cid = 10 ∨ cid = 13 := by
    unfold downlinkCmdLen at h
    split at h <;> simp_all
  rcases hcid with rfl | rfl | rfl | rfl | rfl | rfl | rfl | rfl | rfl | rfl <;>
    simp only [downlinkCmdLen, Option.some.injEq] at h <;> subst h <;> exact ⟨_, _, rfl⟩

theorem lookup_of_none (cid : Nat) (h : downlinkCmdLen cid = none) : TD.lookup cid = none := by
  apply lookup_none
  intro hm
  simp only [List.mem_cons, List.not_mem_nil, or_false] at hm
  rcases hm with rfl | rfl | rfl | rfl | rfl | rfl | rfl | rfl | rfl | rfl <;> simp [downlinkCmdLen] at h

/-- `next` on a stream whose first command is whole -/
theorem next_ok (cid n : Nat) (rest : List Nat) (h : downlinkCmdLen cid = some n) (hl : ¬ rest.length < n) :
    ∃ c v t, Gen.MacCmdFn.MacCommands.next ⟨ints (cid :: rest), false⟩ = some (some (.Ok c), ⟨ints (rest.drop n), false⟩) ∧
      infoOf c = (cid, v, t, ints (rest.take n)) := by
  obtain ⟨v, t, hlk⟩ := lookup_of_len cid n h
  have hp := parse_one_tie (cid :: rest)
  rw [model_fixed cid n v t rest hlk, if_neg hl] at hp
  have hn := next_tie (cid :: rest) false
  cases hg : Gen.MacCmdFn.DownlinkMacCommand.parse_one (ints (cid :: rest)) with
  | none => rw [hg] at hp; simp [toOpt] at hp
  | some r =>
    rw [hg] at hp
    cases r with
    | Err e => simp [toOpt, oneOf, oneUp] at hp
    | Ok c m =>
      simp only [Option.map_some, toOpt, oneOf, oneUp, cmdUp, Option.some.injEq, Except.ok.injEq, Prod.mk.injEq] at hp
      obtain ⟨hi, hm⟩ := hp
      refine ⟨c, v, t, ?_, ?_⟩
      · have he : (ints (cid :: rest)).isEmpty = false := by simp [ints]
        unfold Gen.MacCmdFn.MacCommands.next
        simp only [he, Bool.or_self, Bool.false_eq_true, if_false, hg, Option.bind_eq_bind, Option.bind_some, hm]
        have := sliceFrom_ints (cid :: rest) (1 + n)
        have hle : 1 + n ≤ (cid :: rest).length := by simp only [List.length_cons]; omega
        rw [if_pos hle] at this
        rw [this]
        simp [Nat.add_comm 1 n, List.drop_succ_cons]
      · simpa using hi

/-- `next` on a stream whose first octet does not start a whole known command -/
theorem next_err (cid : Nat) (rest : List Nat)
    (h : downlinkCmdLen cid = none ∨ ∃ n, downlinkCmdLen cid = some n ∧ rest.length < n) :
    ∃ e, Gen.MacCmdFn.MacCommands.next ⟨ints (cid :: rest), false⟩ = some (some (.Err e), ⟨ints (cid :: rest), true⟩) := by
  have hp := parse_one_tie (cid :: rest)
  have hm : ∃ e, MacCmd.parseOne TD MacCmd.varLen (cid :: rest) = MacCmd.Outcome.ok (Except.error e) := by
    rcases h with h | ⟨n, h, hl⟩
    · exact ⟨_, model_unknown cid rest (lookup_of_none cid h)⟩
    · obtain ⟨v, t, hlk⟩ := lookup_of_len cid n h
      exact ⟨_, by rw [model_fixed cid n v t rest hlk, if_pos hl]⟩
  obtain ⟨e, hm⟩ := hm
  rw [hm] at hp
  cases hg : Gen.MacCmdFn.DownlinkMacCommand.parse_one (ints (cid :: rest)) with
  | none => rw [hg] at hp; simp [toOpt] at hp
  | some r =>
    rw [hg] at hp
    cases r with
    | Ok c m => simp [toOpt, oneOf, oneUp] at hp
    | Err e' =>
      refine ⟨e', ?_⟩
      have he : (ints (cid :: rest)).isEmpty = false := by simp [ints]
      unfold Gen.MacCmdFn.MacCommands.next
      simp [he, hg]

theorem drain : ∀ (k : Nat) (data : List Nat), data.length ≤ k → (∀ b ∈ data, b < 256) →
    ∀ fuel fuel', data.length + 2 ≤ fuel → data.length + 1 ≤ fuel' →
    ∃ r l, genRunFuel fuel ⟨ints data, false⟩ = some r ∧ r.2.2 = false ∧ viewItems r.1 = some l ∧
      l.filterMap id = (parseDownlinkCmds fuel' data).map decCmd := by
  intro k
  induction k with
  | zero =>
    intro data hk ho fuel fuel' hf hf'
    have : data = [] := List.length_eq_zero_iff.mp (by omega)
    subst this
    obtain ⟨f, rfl⟩ : ∃ f, fuel = f + 1 := ⟨fuel - 1, by simp at hf; omega⟩
    obtain ⟨f', rfl⟩ : ∃ f', fuel' = f' + 1 := ⟨fuel' - 1, by simp at hf'; omega⟩
    exact ⟨_, [], run_empty f, rfl, rfl, by simp [parseDownlinkCmds]⟩
  | succ k ih =>
    intro data hk ho fuel fuel' hf hf'
    obtain ⟨f, rfl⟩ : ∃ f, fuel = f + 1 := ⟨fuel - 1, by omega⟩
    obtain ⟨f', rfl⟩ : ∃ f', fuel' = f' + 1 := ⟨fuel' - 1, by omega⟩
    cases data with
    | nil => exact ⟨_, [], run_empty f, rfl, rfl, by simp [parseDownlinkCmds]⟩
    | cons cid rest =>
      simp only [List.length_cons] at hk hf hf'
      obtain ⟨f2, rfl⟩ : ∃ f2, f = f2 + 1 := ⟨f - 1, by omega⟩
      have herr : (downlinkCmdLen cid = none ∨ ∃ n, downlinkCmdLen cid = some n ∧ rest.length < n) →
          ∃ r l, genRunFuel (f2 + 1 + 1) ⟨ints (cid :: rest), false⟩ = some r ∧ r.2.2 = false ∧ viewItems r.1 = some l ∧
            l.filterMap id = (parseDownlinkCmds (f' + 1) (cid :: rest)).map decCmd := by
        intro h
        obtain ⟨e, hn⟩ := next_err cid rest h
        refine ⟨([.Err e], ⟨ints (cid :: rest), true⟩, false), [none], ?_, rfl, rfl, ?_⟩
        · simp [genRunFuel, hn, next_errored]
        · rcases h with h | ⟨n, h, hl⟩ <;> simp [parseDownlinkCmds, h, *]
      cases hc : downlinkCmdLen cid with
      | none => exact herr (Or.inl hc)
      | some n =>
        by_cases hl : rest.length < n
        · exact herr (Or.inr ⟨n, hc, hl⟩)
        · obtain ⟨c, v, t, hn, hi⟩ := next_ok cid n rest hc hl
          have hd : ∀ b ∈ rest.drop n, b < 256 := fun b hb => ho b (by simp [List.mem_of_mem_drop hb])
          obtain ⟨r', l', hr', hh', hv', hl'⟩ := ih (rest.drop n) (by simp only [List.length_drop]; omega) hd (f2 + 1) f'
            (by simp only [List.length_drop]; omega) (by simp only [List.length_drop]; omega)
          have hw : WfCmd (cid, rest.take n) := by
            refine ⟨?_, ?_⟩
            · simp only [hc, List.length_take]; congr 1; omega
            · intro b hb; exact ho b (by simp [List.mem_of_mem_take hb])
          have hview := view_dec (cid, rest.take n) hw c v t hi
          refine ⟨(.Ok c :: r'.1, r'.2.1, r'.2.2), some (decCmd (cid, rest.take n)) :: l', ?_, hh', ?_, ?_⟩
          · exact run_step _ _ _ _ _ hn hr'
          · simp only [viewItems, viewItem, hview, hv', Option.map_some]
          · simp only [List.filterMap_cons, id, hl', parseDownlinkCmds, hc, hl, if_false, List.map_cons]


/-- the regenerated `handle_downlink_macs` reads its command list through `filter_map(Result::ok)` only -/
theorem hdm_congr (gs : Gen.SessionRx.Session) (g : Gen.SessionRx.Configuration) (rs : RegionState)
    (l1 l2 : List (Option Gen.SessionMacs.DownlinkMacCommand)) (snr : Int) (full : Bool) (h : l1.filterMap id = l2.filterMap id) :
    Gen.SessionMacs.Session.handle_downlink_macs gs g rs l1 snr full = Gen.SessionMacs.Session.handle_downlink_macs gs g rs l2 snr full := by
  unfold Gen.SessionMacs.Session.handle_downlink_macs
  simp only [h]

theorem ints_natsOf (bytes : List Int) (h : ∀ b ∈ bytes, 0 ≤ b ∧ b ≤ 255) : ints (natsOf bytes) = bytes := by
  induction bytes with
  | nil => rfl
  | cons a t ih =>
    have ha := h a (by simp)
    have := ih (fun b hb => h b (by simp [hb]))
    simp only [natsOf, ints, List.map_cons, List.map_map] at this ⊢
    rw [this]
    congr 1
    show ((a.toNat : Nat) : Int) = a
    omega

end TieA.MacCmdAcc

namespace C08
open Model Gen.Region TieA.Rx TieA.Macs TieA.MacCmdFrame TieA.MacCmdAcc TieA.Rx.Full

/-- builder U — the REGENERATED payload accessors (`Gen/MacCmdFn.lean`, from the current maccommands.rs / types.rs) read a
command exactly as the model does: for every well-formed (CID, payload) pair — every CID of the table, EVERY payload of
octets of the command's length — the command the regenerated `parse_one` yields for it (`infoOf c`: that CID, those
octets), read through `view` (data_rate / tx_power / channel_mask / redundancy.channel_mask_control; dl_settings /
frequency.value; channel_index / frequency.value / data_rate_range; delay; channel_index / frequency.value), is `decCmd`:
the abstract command of `tieA_handle_downlink_macs`.  No accessor panics on a payload of the command's length. -/
theorem tieA_payload_accessors (x : Nat × List Nat) (hw : WfCmd x) (c : Gen.MacCmdFn.DownlinkMacCommand) (v t : String)
    (hc : infoOf c = (x.1, v, t, ints x.2)) : view c = some (decCmd x) :=
  view_dec x hw c v t hc

/-- builder U — LinkADRReq, field by field, for every four octets: DataRate = bits 7..4 and TXPower = bits 3..0 of octet 0
(through `DR::from`), ChMask = octets 1..2 (`ChannelMask::<2>::new_from_raw`), ChMaskCntl = bits 6..4 of octet 3
(`Redundancy::channel_mask_control`), NbTrans = bits 3..0 of octet 3 (`Redundancy::number_of_transmissions`). -/
theorem tieA_acc_link_adr (b0 b1 b2 b3 : Nat) (h0 : b0 < 256) (h3 : b3 < 256) :
    view (.LinkADRReq ⟨ints [b0, b1, b2, b3]⟩) = some (decCmd (0x03, [b0, b1, b2, b3])) ∧
    Gen.MacCmdFn.Redundancy.number_of_transmissions ⟨(b3 : Int)⟩ = ((b3 % 16 : Nat) : Int) := by
  refine ⟨view_link_adr b0 b1 b2 b3 h0 h3, ?_⟩
  simp [Gen.MacCmdFn.Redundancy.number_of_transmissions, and15 (b3 : Int) (by omega)]

/-- builder U — RXParamSetupReq for every four octets: DLSettings = octet 0, Frequency = the 24-bit little-endian value
of octets 1..3 times 100 Hz (no `u32` overflow); and the `DLSettings` accessors regenerated from types.rs are the ones
`handle_downlink_macs` was proved with (RX1DROffset = bits 6..4, RX2DataRate = bits 3..0). -/
theorem tieA_acc_rx_param_setup (d f0 f1 f2 : Nat) (h0 : f0 < 256) (h1 : f1 < 256) (h2 : f2 < 256) :
    view (.RXParamSetupReq ⟨ints [d, f0, f1, f2]⟩) = some (decCmd (0x05, [d, f0, f1, f2])) ∧
    (∀ x : Int, Gen.MacCmdFn.DLSettings.rx1_dr_offset ⟨x⟩ = Gen.SessionMacs.DLSettings.rx1_dr_offset ⟨x⟩ ∧
      Gen.MacCmdFn.DLSettings.rx2_data_rate ⟨x⟩ = Gen.SessionMacs.DLSettings.rx2_data_rate ⟨x⟩) :=
  ⟨view_rx_param d f0 f1 f2 h0 h1 h2, fun _ => ⟨rfl, rfl⟩⟩

/-- builder U — NewChannelReq for every five octets: ChIndex = octet 0, Frequency = octets 1..3, DrRange = octet 4 with
`Err(InvalidDataRateRange)` iff MaxDR (bits 7..4) < MinDR (bits 3..0) -/
theorem tieA_acc_new_channel (i f0 f1 f2 r : Nat) (h0 : f0 < 256) (h1 : f1 < 256) (h2 : f2 < 256) (hr : r < 256) :
    view (.NewChannelReq ⟨ints [i, f0, f1, f2, r]⟩) = some (decCmd (0x07, [i, f0, f1, f2, r])) :=
  view_new_channel i f0 f1 f2 r h0 h1 h2 hr

/-- builder U — RXTimingSetupReq for every octet: Del = bits 3..0 -/
theorem tieA_acc_rx_timing_setup (d : Nat) : view (.RXTimingSetupReq ⟨ints [d]⟩) = some (decCmd (0x08, [d])) :=
  view_rx_timing d

/-- builder U — DlChannelReq for every four octets: ChIndex = octet 0, Frequency = octets 1..3 -/
theorem tieA_acc_dl_channel (i f0 f1 f2 : Nat) (h0 : f0 < 256) (h1 : f1 < 256) (h2 : f2 < 256) :
    view (.DlChannelReq ⟨ints [i, f0, f1, f2]⟩) = some (decCmd (0x0A, [i, f0, f1, f2])) :=
  view_dl_channel i f0 f1 f2 h0 h1 h2

/-- builder U — `parse_downlink_mac_commands(bytes)` as the REGENERATED iterator yields it (`MacCommands::next` over the
derive-generated `parse_one`, drained) and the REGENERATED accessors read it, for EVERY stream of octets: the drain
returns, no accessor panics, and what survives `filter_map(Result::ok)` is exactly the model's well-formed prefix
`parseDownlinkCmds` read by `decCmd` — whole commands only, an unknown CID or a truncated command ends the list. -/
theorem tieA_parse_downlink_mac_commands (bytes : List Nat) (ho : ∀ b ∈ bytes, b < 256) :
    ∃ l, regenCmds (ints bytes) = some l ∧
      l.filterMap id = (parseDownlinkCmds (bytes.length + 1) bytes).map decCmd := by
  obtain ⟨r, l, hr, _, hv, hl⟩ := drain bytes.length bytes (Nat.le_refl _) ho (bytes.length + 2) (bytes.length + 1)
    (Nat.le_refl _) (Nat.le_refl _)
  refine ⟨l, ?_, hl⟩
  unfold regenCmds genRun
  rw [ints_length, hr]
  exact hv

/-- builder U — builder S's `tieA_handle_downlink_macs` with the iterator INSTANTIATED by the regenerated one: the regenerated
`Session::handle_downlink_macs` run on `regenCmds bytes` — the regenerated `parse_downlink_mac_commands` drained and read
through the regenerated accessors — for every stream of octets shorter than 2^31, with the region's methods the
model's, IS the model's `handleCmds` over `parseDownlinkCmds` from the mask in force (same answers, latch,
configuration, region; a panic iff a panic).  `decCmd` no longer occurs. -/
theorem tieA_handle_downlink_macs_iter (snr : Int) (bytes : List Int) (hS : Stream bytes)
    (gs : Gen.SessionRx.Session) (g : Gen.SessionRx.Configuration) (rs : RegionState) (full : Bool)
    (hq : gs.uplink.pending.length ≤ 15) :
    ∃ l, regenCmds bytes = some l ∧
    match handleCmds snr (parseDownlinkCmds (bytes.length + 1) (natsOf bytes))
        { cfg := TieA.Rx.cfgOf g, region := rs, pending := TieA.Rx.natsOf gs.uplink.pending, full := full }
        (channelMaskGet rs) false 0 with
    | .error _ => Gen.SessionMacs.Session.handle_downlink_macs gs g rs l snr full = none
    | .ok c => ∃ pend' g', Gen.SessionMacs.Session.handle_downlink_macs gs g rs l snr full
          = some ({ gs with uplink := { gs.uplink with pending := pend' } }, g', c.region, c.full)
        ∧ TieA.Rx.natsOf pend' = c.pending ∧ TieA.Rx.cfgOf g' = c.cfg ∧ pend'.length ≤ 15 := by
  obtain ⟨ho, hlen⟩ := hS
  have hl : (natsOf bytes).length = bytes.length := by simp [natsOf]
  obtain ⟨l, hr, hf⟩ := tieA_parse_downlink_mac_commands (natsOf bytes) (natsOf_lt bytes ho)
  rw [ints_natsOf bytes ho] at hr
  rw [hl] at hf
  refine ⟨l, hr, ?_⟩
  obtain ⟨hw, hn⟩ := parse_wf (bytes.length + 1) (natsOf bytes) (natsOf_lt bytes ho)
  have h := tieA_handle_downlink_macs snr (parseDownlinkCmds (bytes.length + 1) (natsOf bytes)) hw gs g rs full hq (by omega)
  have hc := hdm_congr gs g rs l ((parseDownlinkCmds (bytes.length + 1) (natsOf bytes)).map (some ∘ decCmd)) snr full
    (by rw [hf]; simp [List.filterMap_map])
  rw [hc]
  exact h

/-- `MacOps` with the regenerated `handle_downlink_macs` run on the REGENERATED iterator read through the REGENERATED
accessors (`regenCmds`); `next_lower_datarate` from the model's tables -/
@[instance_reducible] def genOpsU : Gen.SessionRx.MacOps RegionState where
  next_lower rs dr := (nextLowerDatarate rs.id dr.toInt.toNat).map TieA.drOfNatT
  handle_downlink_macs gs g rs b snr full :=
    (regenCmds b.bytes).bind fun l => Gen.SessionMacs.Session.handle_downlink_macs gs g rs l snr full

/-- `MacsOk` for that instance, on every command stream of octets -/
theorem genOpsU_ok : @NextLowerOk genOpsU ∧ @MacsOk genOpsU Stream := by
  refine ⟨fun _ _ => rfl, ?_⟩
  intro gs g rs bytes snr full hS hq
  have hl : (natsOf bytes).length = bytes.length := by simp [natsOf]
  obtain ⟨l, hr, h⟩ := tieA_handle_downlink_macs_iter snr bytes hS gs g rs full hq
  have e : @Gen.SessionRx.MacOps.handle_downlink_macs RegionState genOpsU gs g rs ⟨bytes⟩ snr full
      = Gen.SessionMacs.Session.handle_downlink_macs gs g rs l snr full := by
    show (regenCmds bytes).bind _ = _
    rw [hr]; rfl
  simp only [handleDownlinkMacs, hl, e]
  exact h

/-- builder U — `Session::handle_rx` (regenerated, builder N) with the regenerated `handle_downlink_macs` (builder S) fed by
the REGENERATED `parse_downlink_mac_commands` and payload accessors is the model's `sessionHandleRx`:
`tieA_handle_rx_accept` of C05 / C06 / C07 for the instance `genOpsU`, on every command stream, with no simulation
hypothesis and no hand-written reading of the commands.  Builder X: for a downlink-typed frame (`hup`); an uplink-typed
frame never reaches the iterator (`C05.tieA_handle_rx_uplink_typed`, for every `MacOps` instance, `genOpsU` included).
Builder Y: likewise a fitting frame addressed to another DevAddr (`haddr`; `C05.tieA_handle_rx_other_devaddr`). -/
theorem tieA_handle_rx_iter (D : Int) (gs : Gen.SessionRx.Session) (rs : RegionState) (g : Gen.SessionRx.Configuration)
    (rx : Gen.SessionRx.RadioBuffer) (dl : List Gen.SessionRx.Downlink) (maxp snr : Int) (ign : Bool)
    (e : Gen.SessionRx.EncryptedDataPayload)
    (hparse : rx.as_mut_for_read.parse = some e) (hup : e.is_uplink = false)
    (haddr : ¬ (e.as_bytes.length : Int) > maxp + 5 → e.fhdr.dev_addr = gs.devaddr)
    (hw : SessWF gs) (hmax : 0 ≤ maxp ∧ maxp ≤ 255) (hwire : 0 ≤ e.fhdr.fcnt)
    (hdec : ∀ f, Gen.SessionRx.next_fcnt_down gs.fcnt_down e.fhdr.fcnt = some f → e.validate_mic (nwkOf gs) f = true →
      ∃ d, rx.as_mut_for_read.decrypt_in_place (some (nwkOf gs)) (some (appOf gs)) f = some d ∧ DecWF Stream d) :
    (@Gen.SessionRx.Session.handle_rx RegionState genOpsU D gs rs g rx dl maxp snr ign).bind
        (fun out => (respOf out.1).map (fun r => (r, sessOf out.2.1, out.2.2.1, cfgOf out.2.2.2.1, out.2.2.2.2.2.map dlOf)))
      = (sessionHandleRx (sessOf gs) (cfgOf g) rs (dataOf gs e (decOf gs rx e)) maxp.toNat snr ign).toOption.map (expect dl D) :=
  @tieA_handle_rx_accept genOpsU Stream genOpsU_ok.1 genOpsU_ok.2 D gs rs g rx dl maxp snr ign e hparse hup haddr hw hmax hwire hdec

/-- builder S's example frame through the regenerated `handle_rx`, `handle_downlink_macs`, iterator and accessors -/
example :
    (@Gen.SessionRx.Session.handle_rx RegionState genOpsU 4 exSess (RegionState.init .EU868) exCfg Full.exRx [] 250 3 false).map
      (fun out => (out.1, out.2.1.uplink.pending, out.2.2.2.1.data_rate, out.2.2.2.1.tx_power))
      = some (.DownlinkReceived 5, [3, 7, 6, 255, 3], DR._5, some 14) := by
  rfl

/-! non-vacuity: the FOpts of builder S's example frame (LinkADRReq DR5 / power 1 / mask 0x0007, DevStatusReq), then an
RXParamSetupReq and a truncated NewChannelReq — through the regenerated iterator and accessors -/
example : regenCmds [3, 0x51, 0x07, 0x00, 0x00, 6] = some [some (decCmd (3, [0x51, 7, 0, 0])), some (decCmd (6, []))] := by decide
example : regenCmds [5, 0x23, 0x28, 0x76, 0x84, 7, 1] =
    some [some (.RXParamSetupReq ⟨⟨0x23⟩, ⟨868100000⟩⟩), none] := by decide
example : Stream [3, 0x51, 0x07, 0x00, 0x00, 6] := ⟨by decide, by decide⟩
example : WfCmd (7, [3, 0x28, 0x76, 0x84, 0x50]) := ⟨rfl, by decide⟩
example : view (.NewChannelReq ⟨[3, 0x28, 0x76, 0x84, 0x05]⟩) = some (.NewChannelReq ⟨3, ⟨868100000⟩, none⟩) := by decide

#print axioms tieA_payload_accessors
#print axioms tieA_acc_link_adr
#print axioms tieA_acc_rx_param_setup
#print axioms tieA_acc_new_channel
#print axioms tieA_acc_rx_timing_setup
#print axioms tieA_acc_dl_channel
#print axioms tieA_parse_downlink_mac_commands
#print axioms tieA_handle_downlink_macs_iter
#print axioms tieA_handle_rx_iter
end C08
