import LoraVerif.Props.TieA.C13
import LoraVerif.Gen.PhyEncE126
/-!
# C13 / C17, tie A for the PHY command encoders, continued (builder E)

`set_lora_symbol_num_timeout` of the SX126x: the `while mant > 31` loop computing mantissa and exponent
(`Rt.loopM` on a fuel, `Gen.PhyEncE126`).
-/
open Model.Phy TieA.Phy Gen.PhyCodes126

namespace C13

/-- the model's loop in closed form on the halves the clamp allows -/
theorem mantExp_closed (h : Nat) (hh : h ≤ 124) :
    Sx126x.mantExp h 0 8 = if h > 31 then ((h + 3) / 4, 1) else (h, 0) := by
  by_cases g : h > 31
  · have g2 : ¬ (h + 3) / 4 > 31 := by omega
    simp [Sx126x.mantExp, g, g2]
  · simp [Sx126x.mantExp, g]

/-- a loop that leaves at its first test -/
theorem loopM_exit {σ β : Type} (k : Nat) (step : σ → Option (σ ⊕ β)) (s : σ) (b : β)
    (h : step s = some (Sum.inr b)) : Rt.loopM (k + 2) step s = some b := by
  simp only [Rt.loopM, h]
/-- a loop that runs its body once and leaves at the second test -/
theorem loopM_once {σ β : Type} (k : Nat) (step : σ → Option (σ ⊕ β)) (s s' : σ) (b : β)
    (h : step s = some (Sum.inl s')) (h' : step s' = some (Sum.inr b)) : Rt.loopM (k + 2) step s = some b := by
  simp only [Rt.loopM, h, h']

/-- `Sx126x::set_lora_symbol_num_timeout`, regenerated (with its `while mant > 31` loop as `Rt.loopM` on a fuel), IS the
model's `setLoraSymbolNumTimeout`: for EVERY symbol count (every natural number, so all of `u16`), every chip content and
prefix, and every fuel of at least 2 steps — the same `SetLoRaSymbTimeout` command byte `mant << (2·exp + 1)`, the same
`SynchTimeout` register write `exp + (mant << 3)` when the count is not 0, no panic on either side.  Proved through the
closed form of the loop on the clamped count (`mantExp_closed`: at most one turn, since `min n 248` halves to at most 124),
not by enumeration. -/
theorem tieA_sx126x_symbol_num_timeout [Gen.PhyEncE126.LoopFuel] (hf : 2 ≤ Gen.PhyEncE126.LoopFuel.fuel)
    (self : Gen.PhyEncE126.Sx126x) (n : Nat) (c : Chip) (log : List Rt.Phy.Ev) :
    view id (Gen.PhyEncE126.Sx126x.set_lora_symbol_num_timeout self (n : Int) chipDev c log)
      = denote (Sx126x.setLoraSymbolNumTimeout n) c log := by
  obtain ⟨k, hk⟩ : ∃ k, Gen.PhyEncE126.LoopFuel.fuel = k + 2 := ⟨Gen.PhyEncE126.LoopFuel.fuel - 2, by omega⟩
  have e : min (n : Int) 248 = ((min n 248 : Nat) : Int) := by omega
  have hh : (min n 248 + 1) / 2 ≤ 124 := by omega
  simp only [Gen.PhyEncE126.Sx126x.set_lora_symbol_num_timeout, Sx126x.setLoraSymbolNumTimeout, Sx126x.SX126X_MAX_LORA_SYMB_NUM_TIMEOUT,
    Gen.PhyArith.SX126X_MAX_LORA_SYMB_NUM_TIMEOUT, e, hk, mantExp_closed _ hh]
  gen_unfold_helpers_PhyEncE126
  rcases Nat.eq_zero_or_pos n with rfl | hn
  · phy_tie [Rt.loopM] [Rt.loopM]
  · have hp : decide ((n : Int) > 0) = true := decide_eq_true (by omega)
    have hp' : (n > 0) = True := eq_true hn
    simp only [hp, hp', if_true]
    have hv : min n 248 ≤ 248 := by omega
    have hv1 : 1 ≤ min n 248 := by omega
    generalize min n 248 = v at hv hv1 ⊢
    have e2 : ((v : Int) + 1) / 2 = (((v + 1) / 2 : Nat) : Int) := by omega
    have b1 : (0 : Int) ≤ (v : Int) + 1 ∧ (v : Int) + 1 ≤ 65535 := by omega
    have hh1 : 1 ≤ (v + 1) / 2 := by omega
    have hh2 : (v + 1) / 2 ≤ 124 := by omega
    simp +decide only [Rt.ck, Rt.shrC, Rt.divC, Rt.ITy.lo, Rt.ITy.hi, Rt.ITy.bits, Rt.ITy.signed, Bool.false_eq_true, if_false, b1, if_true,
      ofOpt_some_bind_app, bind_assoc_app, Int.reducePow, Int.reduceSub, Int.reduceLE, Int.reduceToNat, and_self, e2]
    generalize (v + 1) / 2 = h at hh1 hh2 ⊢
    have w8 : ∀ x : Nat, x < 256 → Rt.wrap .u8 (x : Int) = (x : Int) := by
      intro x hx; simp only [Rt.wrap, Rt.ITy.bits, Rt.ITy.signed, Bool.false_eq_true, if_false]; omega
    rw [w8 h (by omega)]
    by_cases g : h > 31
    · have g1 : decide ((h : Int) > 31) = true := decide_eq_true (by omega)
      have b2 : (0 : Int) ≤ (h : Int) + 3 ∧ (h : Int) + 3 ≤ 255 := by omega
      have e3 : ((h : Int) + 3) / 4 = (((h + 3) / 4 : Nat) : Int) := by omega
      have g2 : decide ((((h + 3) / 4 : Nat) : Int) > 31) = false := decide_eq_false (by omega)
      -- the rounding spelt with `/ 4` (truncating division) instead of `>> 2`
      have e3t : ((h : Int) + 3).tdiv 4 = (((h + 3) / 4 : Nat) : Int) := by
        rw [Int.tdiv_eq_ediv_of_nonneg (by omega)]; exact e3
      have b3 : (0 : Int) ≤ (((h + 3) / 4 : Nat) : Int) ∧ (((h + 3) / 4 : Nat) : Int) ≤ 255 := by omega
      have hm1 : 8 ≤ (h + 3) / 4 := by omega
      have hm2 : (h + 3) / 4 ≤ 31 := by omega
      rw [loopM_once k _ (0, (h : Int)) (1, (((h + 3) / 4 : Nat) : Int)) (1, (((h + 3) / 4 : Nat) : Int))
        (by simp only [g1, b2, e3, e3t, b3, if_true, Option.bind_eq_bind, Option.pure_def, Option.bind_some, and_self, Int.reduceAdd, Int.reduceLE])
        (by simp only [g2, if_false, Bool.false_eq_true, Option.pure_def])]
      simp only [if_pos g]
      generalize (h + 3) / 4 = m at hm1 hm2 ⊢
      have hw : Rt.wrap .u8 ((m : Int) * 8) = ((m * 8 : Nat) : Int) := by rw [← w8 (m * 8) (by omega)]; simp
      have hb : (0 : Int) ≤ 1 + ((m * 8 : Nat) : Int) ∧ 1 + ((m * 8 : Nat) : Int) ≤ 255 := by omega
      have hb' : ¬ (1 + m * 8 > 255) := by omega
      -- the same bytes spelt with a checked multiplication instead of a shift
      have hbm : (0 : Int) ≤ (m : Int) * 8 ∧ (m : Int) * 8 ≤ 255 := by omega
      have hbm2 : (0 : Int) ≤ 1 + (m : Int) * 8 ∧ 1 + (m : Int) * 8 ≤ 255 := by omega
      phy_tie [hw, hb, hb', hbm, hbm2, Int.reduceMul, Int.reduceAdd, Int.reduceToNat, Int.reducePow] []
      have q1 : m * 2 ^ (2 * 1 + 1) % 256 = m * 8 := by show m * 8 % 256 = m * 8; omega
      have q2 : (1 : Int) + ((m * 8 : Nat) : Int) = ((1 + m * 8 : Nat) : Int) := by omega
      have q3 : (1 : Int) + (m : Int) * 8 = ((1 + m * 8 : Nat) : Int) := by omega
      have q4 : (m : Int) * 8 = ((m * 8 : Nat) : Int) := by omega
      simp only [q1, q2, q3, q4]
      have hx : (m * 8) < 256 := by omega
      have hy : (1 + m * 8) < 256 := by omega
      generalize (1 + m * 8) = y at hy ⊢
      generalize (m * 8) = x at hx ⊢
      simp +decide [toBytes_cons, toInts_cons, toBytes_nil, toInts_nil, Nat.mod_eq_of_lt hx, Nat.mod_eq_of_lt hy,
        Sx126x.op, Sx126x.addr2, OpCode.value, OpCode.toInt, Register.toInt, Register.addr2, byte, Rt.wrap, Rt.ITy.bits, Rt.ITy.signed, Rt.andI]
    · have g1 : decide ((h : Int) > 31) = false := decide_eq_false (by omega)
      rw [loopM_exit k _ (0, (h : Int)) (0, (h : Int)) (by simp only [g1, if_false, Bool.false_eq_true, Option.pure_def])]
      simp only [if_neg g]
      have hw : Rt.wrap .u8 ((h : Int) * 8) = ((h * 8 : Nat) : Int) := by rw [← w8 (h * 8) (by omega)]; simp
      have hw2 : Rt.wrap .u8 ((h : Int) * 2) = ((h * 2 : Nat) : Int) := by rw [← w8 (h * 2) (by omega)]; simp
      have hb : (0 : Int) ≤ 0 + ((h * 8 : Nat) : Int) ∧ 0 + ((h * 8 : Nat) : Int) ≤ 255 := by omega
      have hb' : ¬ (0 + h * 8 > 255) := by omega
      have hbm : (0 : Int) ≤ (h : Int) * 8 ∧ (h : Int) * 8 ≤ 255 := by omega
      have hbm2 : (0 : Int) ≤ 0 + (h : Int) * 8 ∧ 0 + (h : Int) * 8 ≤ 255 := by omega
      have hbm3 : (0 : Int) ≤ (h : Int) * 2 ∧ (h : Int) * 2 ≤ 255 := by omega
      phy_tie [hw, hw2, hb, hb', hbm, hbm2, hbm3, Int.reduceMul, Int.reduceAdd, Int.reduceToNat, Int.reducePow] []
      have q1 : h * 2 ^ (2 * 0 + 1) % 256 = h * 2 := by show h * 2 % 256 = h * 2; omega
      have q2 : (0 : Int) + ((h * 8 : Nat) : Int) = ((0 + h * 8 : Nat) : Int) := by omega
      have q3 : (0 : Int) + (h : Int) * 8 = ((0 + h * 8 : Nat) : Int) := by omega
      have q4 : (h : Int) * 8 = ((h * 8 : Nat) : Int) := by omega
      have q5 : (h : Int) * 2 = ((h * 2 : Nat) : Int) := by omega
      simp only [q1, q2, q3, q4, q5]
      have hx : (h * 2) < 256 := by omega
      have hy : (0 + h * 8) < 256 := by omega
      generalize (0 + h * 8) = y at hy ⊢
      generalize (h * 2) = x at hx ⊢
      simp +decide [toBytes_cons, toInts_cons, toBytes_nil, toInts_nil, Nat.mod_eq_of_lt hx, Nat.mod_eq_of_lt hy,
        Sx126x.op, Sx126x.addr2, OpCode.value, OpCode.toInt, Register.toInt, Register.addr2, byte, Rt.wrap, Rt.ITy.bits, Rt.ITy.signed, Rt.andI]

#print axioms tieA_sx126x_symbol_num_timeout

/-- non-vacuity: 100 symbols: mant 50 -> 13, exp 1: command byte 13 << 3 = 0x68, SynchTimeout (0x0706) := 1 + (13 << 3) = 0x69 -/
example : @Gen.PhyEncE126.Sx126x.set_lora_symbol_num_timeout ⟨2⟩ Unit ⟨⟨⟨⟩, none, true, false⟩⟩ 100
    (fun (_ : Unit) _ n => (List.replicate n 0, ())) () [] =
    some (.ok (), (), [.spi [0xA0, 0x68] 0, .busy, .spi [0x0D, 0x07, 0x06, 0x69] 0, .busy]) := rfl
/-- with one step of fuel the translation of the loop answers a panic for the same count: the hypothesis on the fuel is needed -/
example : @Gen.PhyEncE126.Sx126x.set_lora_symbol_num_timeout ⟨1⟩ Unit ⟨⟨⟨⟩, none, true, false⟩⟩ 100
    (fun (_ : Unit) _ n => (List.replicate n 0, ())) () [] = none := rfl

end C13

namespace C17
/-- C17's name for the same equality (the programmed timeout is what the model, whose bytes `C17.symb126` decodes, programs) -/
theorem tieA_sx126x_symbol_num_timeout [Gen.PhyEncE126.LoopFuel] (hf : 2 ≤ Gen.PhyEncE126.LoopFuel.fuel)
    (self : Gen.PhyEncE126.Sx126x) (n : Nat) (c : Chip) (log : List Rt.Phy.Ev) :
    view id (Gen.PhyEncE126.Sx126x.set_lora_symbol_num_timeout self (n : Int) chipDev c log)
      = denote (Sx126x.setLoraSymbolNumTimeout n) c log :=
  C13.tieA_sx126x_symbol_num_timeout hf self n c log
#print axioms tieA_sx126x_symbol_num_timeout
end C17
