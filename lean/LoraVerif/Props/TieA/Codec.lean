import LoraVerif.Model.Codec
import LoraVerif.Gen.CodecFn
import LoraVerif.Lemmas.CodecLemmas
/-!
# Tie A for the frame codec (C01, C02): `securityhelpers.rs` regenerated (`Gen.CodecFn`) = the hand model

`Gen.CodecFn` is regenerated from `lorawan-encoding/src/securityhelpers.rs` on every run.  Its values are
`Int`s and `List Int`s (Rust's checked arithmetic, `none` = panic); the hand model (`Model/Codec.lean`) works on
`UInt8` / `Block`.  The state map is total: `ints` (a byte ↦ its value), the crypto object of the model
(`Crypto` = abstract `Cipher` + key) ↦ the record `genCrypto cr` of the two trait methods.  Every theorem is an
equality of outcomes for ALL arguments: `Outcome.ofOption (generated …) = (model …).map ints` — the same
bytes, or a panic on both sides (the model never answers `err` here).
-/
set_option linter.unusedSimpArgs false
namespace TieA.Codec
open Lora Lora.Codec

def toI (b : UInt8) : Int := (b.toNat : Int)
def ofI (i : Int) : UInt8 := UInt8.ofNat i.toNat
def ints (bs : Bytes) : List Int := bs.map toI
def bytes (l : List Int) : Bytes := l.map ofI

@[simp] theorem ofI_toI (b : UInt8) : ofI (toI b) = b := by simp [ofI, toI]
@[simp] theorem bytes_ints (bs : Bytes) : bytes (ints bs) = bs := by
  simp [bytes, ints, List.map_map, Function.comp_def]
@[simp] theorem ints_length (bs : Bytes) : (ints bs).length = bs.length := by simp [ints]
theorem toI_nonneg (b : UInt8) : 0 ≤ toI b := Int.natCast_nonneg _
theorem toI_lt (b : UInt8) : toI b < 256 := by have := b.toNat_lt; simp only [toI]; omega

/-- the model's crypto object (abstract cipher + key) as the record of the two methods of `dyn Crypto` -/
def genCrypto (cr : Crypto) : Gen.CodecFn.Crypto where
  calculate_mic b0 data := ints (cr.calculateMic (bytes b0) (bytes data))
  encrypt_block blk := match cr.encryptBlock (bytes blk) with
    | .ok r => some (ints r)
    | _ => none

/-! ## Runtime primitives on encoded byte lists -/

theorem setIdx_ints (l : Bytes) (i : Nat) (v : UInt8) :
    Rt.setIdx (ints l) (i : Int) (toI v) = if i < l.length then some (ints (l.set i v)) else none := by
  simp [Rt.setIdx, ints, List.map_set]

theorem idx_ints (l : Bytes) (i : Nat) : Rt.idx (ints l) (i : Int) = (l[i]?).map toI := by
  simp only [Rt.idx, ints, Int.toNat_natCast, List.getElem?_map]
  rw [if_neg (by omega)]

theorem slice_ints (l : Bytes) (a b : Nat) :
    Rt.slice (ints l) (a : Int) (b : Int) = if a ≤ b ∧ b ≤ l.length then some (ints ((l.take b).drop a)) else none := by
  simp only [Rt.slice, ints, List.length_map, Int.toNat_natCast]
  by_cases h : a ≤ b ∧ b ≤ l.length
  · have h' : (0:Int) ≤ (a:Int) ∧ (a:Int) ≤ (b:Int) ∧ (b:Int) ≤ (l.length : Int) := by omega
    rw [if_pos h', if_pos h, ← List.map_drop, ← List.map_take]
    congr 2
    rw [List.take_drop, show a + (b - a) = b by omega]
  · have h' : ¬ ((0:Int) ≤ (a:Int) ∧ (a:Int) ≤ (b:Int) ∧ (b:Int) ≤ (l.length : Int)) := by omega
    rw [if_neg h', if_neg h]

theorem copyFromSlice_ints (l src : Bytes) (a b : Nat) :
    Rt.copyFromSlice (ints l) (a : Int) (b : Int) (ints src)
      = if a ≤ b ∧ b ≤ l.length ∧ src.length = b - a then some (ints (l.take a ++ src ++ l.drop b)) else none := by
  simp only [Rt.copyFromSlice, ints, List.length_map, Int.toNat_natCast]
  by_cases h : a ≤ b ∧ b ≤ l.length ∧ src.length = b - a
  · have h' : (0:Int) ≤ (a:Int) ∧ (a:Int) ≤ (b:Int) ∧ (b:Int) ≤ (l.length : Int) ∧ (src.length : Int) = (b:Int) - (a:Int) := by omega
    rw [if_pos h', if_pos h]; simp
  · have h' : ¬ ((0:Int) ≤ (a:Int) ∧ (a:Int) ≤ (b:Int) ∧ (b:Int) ≤ (l.length : Int) ∧ (src.length : Int) = (b:Int) - (a:Int)) := by omega
    rw [if_neg h', if_neg h]

/-! ## Octet arithmetic -/

theorem andI_nat (a b : Nat) : Rt.andI (a : Int) (b : Int) = ((a &&& b : Nat) : Int) := by
  simp [Rt.andI]
theorem xorI_nat (a b : Nat) : Rt.xorI (a : Int) (b : Int) = ((a ^^^ b : Nat) : Int) := by
  simp [Rt.xorI]
theorem shrC_lit {t : Rt.ITy} {a : Int} {k : Nat} (hk : (k : Int) < t.bits) :
    Rt.shrC t a (k : Int) = some (a / (2 ^ k : Int)) := by
  have : (0 : Int) ≤ (k : Int) := Int.natCast_nonneg k
  simp [Rt.shrC, hk, this]

/-- `(data[0] & 0x20) >> 5` -/
theorem dir_bit (d : UInt8) : Rt.shrC .u8 (Rt.andI (toI d) 32) 5 = some (toI ((d &&& 0x20) >>> 5)) := by
  have h := andI_nat d.toNat 32
  simp only [toI]
  rw [show ((32:Int)) = ((32:Nat):Int) from rfl, h]
  have := @shrC_lit .u8 ((d.toNat &&& 32 : Nat) : Int) 5 (by decide)
  rw [show ((5:Int)) = ((5:Nat):Int) from rfl, this]
  congr 1
  simp only [UInt8.toNat_shiftRight, UInt8.toNat_and, Nat.shiftRight_eq_div_pow]
  norm_cast

theorem fcnt_b0 (f : UInt32) : Rt.wrap .u8 (Rt.andI (f.toNat : Int) 255) = toI (f &&& 0xff).toUInt8 := by
  have h : Rt.andI (f.toNat : Int) 255 = ((f.toNat &&& 255 : Nat) : Int) := andI_nat _ 255
  rw [h, show (255 : Nat) = 2 ^ 8 - 1 from rfl, Nat.and_two_pow_sub_one_eq_mod]
  simp only [Rt.wrap, Rt.ITy.bits, Rt.ITy.signed, Bool.false_eq_true, if_false, toI,
    UInt32.toNat_toUInt8, UInt32.toNat_and]
  rw [show (UInt32.toNat 0xff) = 2 ^ 8 - 1 from rfl, Nat.and_two_pow_sub_one_eq_mod]
  omega

theorem fcnt_bk (f : UInt32) (k : Nat) (hk : k < 32) :
    Rt.wrap .u8 (Rt.andI ((f.toNat : Int) / (2 ^ k : Int)) 255) = toI ((f >>> UInt32.ofNat k) &&& 0xff).toUInt8 := by
  have e : ((f.toNat : Int) / (2 ^ k : Int)) = (((f.toNat / 2 ^ k : Nat)) : Int) := by norm_cast
  have h : Rt.andI ((f.toNat / 2 ^ k : Nat) : Int) 255 = (((f.toNat / 2 ^ k) &&& 255 : Nat) : Int) := andI_nat _ 255
  rw [e, h, show (255 : Nat) = 2 ^ 8 - 1 from rfl, Nat.and_two_pow_sub_one_eq_mod]
  simp only [Rt.wrap, Rt.ITy.bits, Rt.ITy.signed, Bool.false_eq_true, if_false, toI,
    UInt32.toNat_toUInt8, UInt32.toNat_and, UInt32.toNat_shiftRight, UInt32.toNat_ofNat', Nat.shiftRight_eq_div_pow]
  rw [show (UInt32.toNat 0xff) = 2 ^ 8 - 1 from rfl, Nat.and_two_pow_sub_one_eq_mod]
  have : k % 2 ^ 32 % 32 = k := by omega
  rw [this]
  omega


theorem fcnt_b1 (f : UInt32) : Rt.wrap .u8 (Rt.andI ((f.toNat : Int) / 256) 255) = toI ((f >>> 8) &&& 0xff).toUInt8 := by
  simpa using fcnt_bk f 8 (by omega)
theorem fcnt_b2 (f : UInt32) : Rt.wrap .u8 (Rt.andI ((f.toNat : Int) / 65536) 255) = toI ((f >>> 16) &&& 0xff).toUInt8 := by
  simpa using fcnt_bk f 16 (by omega)
theorem fcnt_b3 (f : UInt32) : Rt.wrap .u8 (Rt.andI ((f.toNat : Int) / 16777216) 255) = toI ((f >>> 24) &&& 0xff).toUInt8 := by
  simpa using fcnt_bk f 24 (by omega)
theorem shr_u32_8 (a : Int) : Rt.shrC .u32 a 8 = some (a / 256) := by simp [Rt.shrC, Rt.ITy.bits]
theorem shr_u32_16 (a : Int) : Rt.shrC .u32 a 16 = some (a / 65536) := by simp [Rt.shrC, Rt.ITy.bits]
theorem shr_u32_24 (a : Int) : Rt.shrC .u32 a 24 = some (a / 16777216) := by simp [Rt.shrC, Rt.ITy.bits]

/-! ## Blocks as sixteen octets -/

theorem block_cases {P : Block → Prop}
    (h : ∀ r0 r1 r2 r3 r4 r5 r6 r7 r8 r9 r10 r11 r12 r13 r14 r15 : UInt8,
      P ⟨#[r0, r1, r2, r3, r4, r5, r6, r7, r8, r9, r10, r11, r12, r13, r14, r15], rfl⟩) (b : Block) : P b := by
  obtain ⟨⟨l⟩, hl⟩ := b
  simp only [List.size_toArray] at hl
  match l, hl with
  | [r0, r1, r2, r3, r4, r5, r6, r7, r8, r9, r10, r11, r12, r13, r14, r15], _ => exact h ..

/-- a panic stays a panic, a result is encoded -/
def enc {α β} (f : α → β) (o : Outcome α) : Outcome β := o.map f

@[simp] theorem bind_ok {α β} (a : α) (f : α → Outcome β) : (Outcome.ok a >>= f) = f a := rfl
@[simp] theorem bind_panic {α β} (f : α → Outcome β) : (Outcome.panic >>= f) = Outcome.panic := rfl
@[simp] theorem bind_err {α β} (e : Err) (f : α → Outcome β) : (Outcome.err e >>= f) = Outcome.err e := rfl
@[simp] theorem pure_ok {α} (a : α) : (pure a : Outcome α) = Outcome.ok a := rfl

/-! ## `generate_helper_block` -/

theorem gen_helper_eq (data : Bytes) (first : UInt8) (fcnt : UInt32) (res : Block) :
    Outcome.ofOption (Gen.CodecFn.generate_helper_block (ints data) (toI first) (fcnt.toNat : Int) (ints res.toList))
      = (generateHelperBlock data first fcnt res).map (fun b => ints b.toList) := by
  revert res
  apply block_cases
  intro r0 r1 r2 r3 r4 r5 r6 r7 r8 r9 r10 r11 r12 r13 r14 r15
  match data with
  | [] => simp [Gen.CodecFn.generate_helper_block, generateHelperBlock, ints, Rt.setIdx, Rt.idx, getByte, Outcome.ofOption, Outcome.map]
  | [d0] => simp [Gen.CodecFn.generate_helper_block, generateHelperBlock, ints, Rt.setIdx, Rt.idx, Rt.slice, getByte, slice, Outcome.ofOption, Outcome.map, dir_bit]
  | [d0, d1] => simp [Gen.CodecFn.generate_helper_block, generateHelperBlock, ints, Rt.setIdx, Rt.idx, Rt.slice, getByte, slice, Outcome.ofOption, Outcome.map, dir_bit]
  | [d0, d1, d2] => simp [Gen.CodecFn.generate_helper_block, generateHelperBlock, ints, Rt.setIdx, Rt.idx, Rt.slice, getByte, slice, Outcome.ofOption, Outcome.map, dir_bit]
  | [d0, d1, d2, d3] => simp [Gen.CodecFn.generate_helper_block, generateHelperBlock, ints, Rt.setIdx, Rt.idx, Rt.slice, getByte, slice, Outcome.ofOption, Outcome.map, dir_bit]
  | d0 :: d1 :: d2 :: d3 :: d4 :: rest =>
    simp [Gen.CodecFn.generate_helper_block, generateHelperBlock, ints, Rt.setIdx, Rt.idx, Rt.slice, Rt.copyFromSlice, getByte, slice, Outcome.ofOption, Outcome.map, dir_bit,
      shr_u32_8, shr_u32_16, shr_u32_24, fcnt_b0, fcnt_b1, fcnt_b2, fcnt_b3]
    rw [if_pos (by omega)]
    simp


/-! ## Int-indexed forms of the primitives (the generated text carries `Int` literals) -/

theorem setIdx_ints' (l : Bytes) (i : Int) (v : UInt8) (hi : 0 ≤ i) :
    Rt.setIdx (ints l) i (toI v) = if i.toNat < l.length then some (ints (l.set i.toNat v)) else none := by
  obtain ⟨k, rfl⟩ := Int.eq_ofNat_of_zero_le hi
  simpa using setIdx_ints l k v

theorem idx_ints' (l : Bytes) (i : Int) (hi : 0 ≤ i) : Rt.idx (ints l) i = (l[i.toNat]?).map toI := by
  obtain ⟨k, rfl⟩ := Int.eq_ofNat_of_zero_le hi
  simpa using idx_ints l k

theorem slice_ints' (l : Bytes) (a b : Int) (ha : 0 ≤ a) (hb : 0 ≤ b) :
    Rt.slice (ints l) a b = if a.toNat ≤ b.toNat ∧ b.toNat ≤ l.length then some (ints ((l.take b.toNat).drop a.toNat)) else none := by
  obtain ⟨k, rfl⟩ := Int.eq_ofNat_of_zero_le ha
  obtain ⟨m, rfl⟩ := Int.eq_ofNat_of_zero_le hb
  simpa using slice_ints l k m

theorem copyFromSlice_ints' (l src : Bytes) (a b : Int) (ha : 0 ≤ a) (hb : 0 ≤ b) :
    Rt.copyFromSlice (ints l) a b (ints src)
      = if a.toNat ≤ b.toNat ∧ b.toNat ≤ l.length ∧ src.length = b.toNat - a.toNat then
          some (ints (l.take a.toNat ++ src ++ l.drop b.toNat)) else none := by
  obtain ⟨k, rfl⟩ := Int.eq_ofNat_of_zero_le ha
  obtain ⟨m, rfl⟩ := Int.eq_ofNat_of_zero_le hb
  simpa using copyFromSlice_ints l src k m

/-- `Outcome` ↦ `Option` (a panic is `none`) -/
def optOf {α} : Outcome α → Option α
  | .ok a => some a
  | _ => none

theorem opt_of_eq {α} {o : Option α} {m : Outcome α} (h : Outcome.ofOption o = m) : o = optOf m := by
  cases o <;> simp [← h, optOf, Outcome.ofOption]

theorem not_err_of_eq {α} {o : Option α} {m : Outcome α} {e : Err} (h : Outcome.ofOption o = m) : m ≠ .err e := by
  cases o <;> simp [← h, Outcome.ofOption]

theorem zero_block_ints : List.replicate (Int.toNat 16) (0 : Int) = ints Block.zero.toList := by decide

theorem len_as_u8 (data : Bytes) : Rt.wrap .u8 (Int.ofNat (ints data).length) = toI (UInt8.ofNat data.length) := by
  simp only [Rt.wrap, Rt.ITy.bits, Rt.ITy.signed, Bool.false_eq_true, if_false, toI, ints_length, UInt8.toNat_ofNat']
  simp only [Int.ofNat_eq_natCast]
  omega

theorem slice_full_ints (l : Bytes) : Rt.slice (ints l) 0 (Int.ofNat (ints l).length) = some (ints l) := by
  have := slice_ints l 0 l.length
  simpa using this

theorem copy_full_ints (l src : Bytes) :
    Rt.copyFromSlice (ints l) 0 (Int.ofNat (ints l).length) (ints src)
      = if src.length = l.length then some (ints src) else none := by
  have := copyFromSlice_ints l src 0 l.length
  simpa using this

theorem slice16_zero : Rt.slice (ints Block.zero.toList) 0 16 = some (ints Block.zero.toList) := by decide

theorem copy16_zero (src : Bytes) :
    Rt.copyFromSlice (ints Block.zero.toList) 0 16 (ints src) = if src.length = 16 then some (ints src) else none := by
  have := copy_full_ints Block.zero.toList src
  simpa using this

theorem len_as_u8' (n : Nat) : Rt.wrap .u8 (n : Int) = toI (UInt8.ofNat n) := by
  simp only [Rt.wrap, Rt.ITy.bits, Rt.ITy.signed, Bool.false_eq_true, if_false, toI, UInt8.toNat_ofNat']
  omega

/-! ## `calculate_data_mic`, `calculate_mic` -/

theorem calc_data_mic_eq (cr : Crypto) (data : Bytes) (fcnt : UInt32) :
    Outcome.ofOption ((Gen.CodecFn.calculate_data_mic (ints data) (genCrypto cr) (fcnt.toNat : Int)).map (·._0))
      = (calculateDataMic cr data fcnt).map ints := by
  have hg := gen_helper_eq data 0x49 fcnt Block.zero
  have hne := fun e => not_err_of_eq (e := e) hg
  have ho := opt_of_eq hg
  simp only [Gen.CodecFn.calculate_data_mic, calculateDataMic, zero_block_ints]
  simp only [show (73 : Int) = toI 0x49 from rfl]
  simp only [slice_full_ints, slice16_zero, Option.bind_eq_bind, Option.bind_some, ho]
  cases hm : generateHelperBlock data 73 fcnt Block.zero with
  | panic => simp [optOf, Outcome.map, Outcome.ofOption, Outcome.bind]
  | err e => exact absurd (by rw [hm]; rfl) (hne e)
  | ok b =>
    have hb : b.toList.length = 16 := Vector.length_toList ..
    simp [optOf, Outcome.map, Outcome.ofOption, Outcome.bind, copy_full_ints, copy16_zero, len_as_u8, len_as_u8', setIdx_ints', hb, genCrypto, Vector.toList_set]

/-- `calculate_mic(data, crypto)` -/
theorem calc_mic_eq (cr : Crypto) (data : Bytes) :
    (Gen.CodecFn.calculate_mic (ints data) (genCrypto cr))._0 = ints (calculateMic cr data) := by
  simp [Gen.CodecFn.calculate_mic, calculateMic, genCrypto, show bytes ([] : List Int) = [] from rfl]

/-! ## `encrypt_frm_data_payload`: the keystream loop -/

/-- the loop-carried variables of the generated loop, as the model's loop state -/
def encSt (st : KsState) : List Int × List Int × List Int × Int :=
  (ints st.buf, ints st.a.toList, ints st.s.toList, toI st.ctr)

theorem forRange_go_eq (cr : Crypto) (start : Nat)
    (f : Int → (List Int × List Int × List Int × Int) → Option (List Int × List Int × List Int × Int)) :
    ∀ (n lo : Nat) (st : KsState),
      (∀ i, lo ≤ i → i < lo + n → ∀ st, f (i : Int) (encSt st) = optOf ((ksStep cr start st i).map encSt)) →
      Rt.forRangeM.go f n (lo : Int) (encSt st) = optOf ((ksLoop cr start (List.range' lo n) st).map encSt) := by
  intro n
  induction n with
  | zero => intro lo st _; simp [Rt.forRangeM.go, ksLoop, optOf, Outcome.map]
  | succ n ih =>
    intro lo st h
    have h0 := h lo (Nat.le_refl _) (by omega) st
    rw [List.range'_succ]
    simp only [Rt.forRangeM.go, ksLoop, h0]
    cases hs : ksStep cr start st lo with
    | ok st' =>
      simp only [Outcome.map, optOf, Outcome.bind]
      have := ih (lo + 1) st' (fun i h1 h2 => h i (by omega) (by omega))
      rw [show ((lo + 1 : Nat) : Int) = (lo : Int) + 1 by push_cast; rfl] at this
      rw [this]; rfl
    | err e => simp [Outcome.map, optOf, Outcome.bind]
    | panic => simp [Outcome.map, optOf, Outcome.bind]

theorem forRangeM_eq (cr : Crypto) (start : Nat)
    (f : Int → (List Int × List Int × List Int × Int) → Option (List Int × List Int × List Int × Int))
    (len : Nat) (st : KsState) (s0 : List Int × List Int × List Int × Int) (hs : s0 = encSt st)
    (hstep : ∀ i, i < len → ∀ st, f (i : Int) (encSt st) = optOf ((ksStep cr start st i).map encSt)) :
    Rt.forRangeM 0 (len : Int) f s0 = optOf ((ksLoop cr start (List.range len) st).map encSt) := by
  subst hs
  have := forRange_go_eq cr start f len 0 st (fun i _ h2 => hstep i (by omega))
  rw [List.range_eq_range']
  simpa [Rt.forRangeM] using this

theorem block_ofList_toList (b : Block) : Block.ofList? b.toList = some b := by
  simp [Block.ofList?, Vector.toList]

theorem ck_u8_succ (c : UInt8) : Rt.ck .u8 (toI c + 1) = if c = 255 then none else some (toI (c + 1)) := by
  have h := c.toNat_lt
  by_cases hc : c = 255
  · subst hc; simp [Rt.ck, Rt.ITy.lo, Rt.ITy.hi, Rt.ITy.signed, Rt.ITy.bits, toI]
  · have : c.toNat ≠ 255 := fun e => hc (UInt8.toNat_inj.mp (by simpa using e))
    simp only [hc, if_false, Rt.ck, Rt.ITy.lo, Rt.ITy.hi, Rt.ITy.signed, Rt.ITy.bits, toI, UInt8.toNat_add]
    simp
    omega

theorem xor_toI (a b : UInt8) : Rt.xorI (toI a) (toI b) = toI (a ^^^ b) := by
  simp only [toI, xorI_nat, UInt8.toNat_xor]


theorem ck_usize_sub (stop start : Nat) (h : stop < 2 ^ 64) :
    Rt.ck .usize ((stop : Int) - (start : Int)) = if start ≤ stop then some (((stop - start : Nat)) : Int) else none := by
  by_cases hs : start ≤ stop
  · have : ((stop - start : Nat) : Int) = (stop : Int) - (start : Int) := by omega
    simp only [hs, if_true, this, Rt.ck, Rt.ITy.lo, Rt.ITy.hi, Rt.ITy.signed, Rt.ITy.bits]
    simp; omega
  · simp only [hs, if_false, Rt.ck, Rt.ITy.lo, Rt.ITy.hi, Rt.ITy.signed, Rt.ITy.bits]
    simp; omega

theorem ck_usize_add (a b : Nat) (h : a + b < 2 ^ 64) : Rt.ck .usize ((a : Int) + (b : Int)) = some ((a + b : Nat) : Int) := by
  simp only [Rt.ck, Rt.ITy.lo, Rt.ITy.hi, Rt.ITy.signed, Rt.ITy.bits]
  simp; omega

theorem and15 (i : Nat) : Rt.andI (i : Int) 15 = ((i &&& 15 : Nat) : Int) := andI_nat i 15

theorem setIdx_block15 (a : Block) (v : UInt8) :
    Rt.setIdx (ints a.toList) 15 (toI v) = some (ints (a.set 15 v).toList) := by
  rw [setIdx_ints' _ _ _ (by omega)]
  simp [Vector.toList_set]

theorem idx_block (b : Block) (j : Nat) : Rt.idx (ints b.toList) (j : Int) = (b[j]?).map toI := by
  rw [idx_ints]
  congr 1
  simp [Vector.toList]

theorem idx_block0 (b : Block) : Rt.idx (ints b.toList) 0 = some (toI b[0]) := by
  have := idx_block b 0
  simpa using this

theorem idx_add (l : Bytes) (a b : Nat) : Rt.idx (ints l) ((a : Int) + (b : Int)) = (l[a + b]?).map toI := by
  exact_mod_cast idx_ints l (a + b)

theorem setIdx_add (l : Bytes) (a b : Nat) (v : UInt8) :
    Rt.setIdx (ints l) ((a : Int) + (b : Int)) (toI v) = if a + b < l.length then some (ints (l.set (a + b) v)) else none := by
  exact_mod_cast setIdx_ints l (a + b) v

theorem ksStep_ne_err (cr : Crypto) (start : Nat) (st : KsState) (i : Nat) (e : Err) : ksStep cr start st i ≠ .err e := by
  unfold ksStep
  by_cases hj : i &&& 15 = 0 <;> by_cases hc : st.ctr = 255 <;> simp [hj, hc, Outcome.bind] <;>
    (split <;> simp)

theorem ksLoop_ne_err (cr : Crypto) (start : Nat) (e : Err) : ∀ (l : List Nat) (st : KsState), ksLoop cr start l st ≠ .err e := by
  intro l
  induction l with
  | nil => intro st; simp [ksLoop]
  | cons i is ih =>
    intro st
    simp only [ksLoop]
    cases h : ksStep cr start st i with
    | ok st' => simpa [Outcome.bind] using ih st'
    | err e' => exact absurd h (ksStep_ne_err cr start st i e')
    | panic => simp [Outcome.bind]

theorem encrypt_eq_opt (cr : Crypto) (phy : Bytes) (start stop : Nat) (fcnt : UInt32) (hstop : stop < 2 ^ 64) :
    Gen.CodecFn.encrypt_frm_data_payload (ints phy) (start : Int) (stop : Int) (fcnt.toNat : Int) (genCrypto cr)
      = optOf ((encryptFrmDataPayload cr phy start stop fcnt).map ints) := by
  have hg := gen_helper_eq phy 0x01 fcnt Block.zero
  have ho : Gen.CodecFn.generate_helper_block (ints phy) 1 (fcnt.toNat : Int) (ints Block.zero.toList)
      = optOf ((generateHelperBlock phy 0x01 fcnt Block.zero).map (fun b => ints b.toList)) := opt_of_eq hg
  simp only [Gen.CodecFn.encrypt_frm_data_payload, encryptFrmDataPayload, zero_block_ints, usizeSub]
  simp only [ck_usize_sub _ _ hstop, slice_full_ints, slice16_zero, Option.bind_eq_bind, Option.bind_some, ho]
  cases hm : generateHelperBlock phy 1 fcnt Block.zero with
  | panic => by_cases hs : start ≤ stop <;> simp [hs, optOf, Outcome.map]
  | err e => by_cases hs : start ≤ stop <;> simp [hs, optOf, Outcome.map]
  | ok b =>
    have hb : b.toList.length = 16 := Vector.length_toList ..
    by_cases hs : start ≤ stop
    case neg => simp [hs, optOf, Outcome.map, copy_full_ints, copy16_zero, hb]
    case pos =>
      simp only [hs, if_true, Option.bind_eq_bind, optOf, Outcome.map, Option.bind_some, copy_full_ints, copy16_zero, hb,
        Vector.length_toList, bind_ok]
      erw [forRangeM_eq cr start _ _ { a := b, s := Block.zero, ctr := 1, buf := phy } _ rfl]
      · cases hl : ksLoop cr start (List.range (stop - start)) { a := b, s := Block.zero, ctr := 1, buf := phy } with
        | ok st' => simp [optOf, Outcome.map, encSt]
        | err e => simp [optOf, Outcome.map]
        | panic => simp [optOf, Outcome.map]
      · intro i hi st
        have hlt : start + i < 2 ^ 64 := by omega
        rw [and15, ck_usize_add start i hlt]
        simp only [encSt, ksStep]
        have hjlt : i &&& 15 < 16 := Nat.lt_of_le_of_lt Nat.and_le_right (by omega)
        generalize i &&& 15 = j at *
        have hx : ∀ v : Block, v[j]? = some v[j] := fun v => by simp [hjlt]
        have hj0 : ((0 : Int) = (j : Int)) = (j = 0) := propext ⟨fun h => by omega, fun h => by omega⟩
        cases hb : st.buf[start + i]? with
        | none =>
          by_cases hj : j = 0
          · by_cases hc : st.ctr = 255
            · simp [hj0, hj, hc, setIdx_block15, ck_u8_succ, optOf, Outcome.map, Outcome.bind]
            · simp [hj, hc, hb, setIdx_block15, ck_u8_succ, optOf, Outcome.map, Outcome.bind, genCrypto, Crypto.encryptBlock,
                block_ofList_toList, idx_ints, idx_add]
          · simp [hj0, hj, hb, optOf, Outcome.map, Outcome.bind, idx_ints, idx_add]
        | some b0 =>
          have hlen : start + i < st.buf.length := (List.getElem?_eq_some_iff.mp hb).1
          by_cases hj : j = 0
          · by_cases hc : st.ctr = 255
            · simp [hj0, hj, hc, setIdx_block15, ck_u8_succ, optOf, Outcome.map, Outcome.bind]
            · subst hj
              simp [hc, hb, hx, hlen, setIdx_block15, ck_u8_succ, optOf, Outcome.map, Outcome.bind, genCrypto, Crypto.encryptBlock,
                block_ofList_toList, idx_ints, setIdx_ints, idx_add, setIdx_add, idx_block, idx_block0, xor_toI, encSt]
          · simp [hj0, hj, hb, hx, hlen, optOf, Outcome.map, Outcome.bind, idx_ints, setIdx_ints, idx_add, setIdx_add, idx_block, idx_block0, xor_toI, encSt]

theorem encrypt_ne_err (cr : Crypto) (phy : Bytes) (start stop : Nat) (fcnt : UInt32) (e : Err) :
    encryptFrmDataPayload cr phy start stop fcnt ≠ .err e := by
  have hg := fun e0 => not_err_of_eq (e := e0) (gen_helper_eq phy 0x01 fcnt Block.zero)
  unfold encryptFrmDataPayload usizeSub
  by_cases hs : start ≤ stop
  · simp only [hs, if_true, bind_ok]
    cases hm : generateHelperBlock phy 1 fcnt Block.zero with
    | panic => simp
    | err e' => exact absurd (by rw [hm]; rfl) (hg e')
    | ok b =>
      simp only [bind_ok]
      cases hl : ksLoop cr start (List.range (stop - start)) { a := b, s := Block.zero, ctr := 1, buf := phy } with
      | ok st' => simp
      | err e' => exact absurd hl (ksLoop_ne_err cr start e' _ _)
      | panic => simp
  · simp [hs]

/-! ## creator.rs: `write_mic` -/

theorem write_mic_eq (cr : Crypto) (out : Bytes) (hlen : out.length < 2 ^ 64) :
    Outcome.ofOption (Gen.CodecFn.write_mic (ints out) (genCrypto cr)) = (writeMic cr out).map ints := by
  have hck : Rt.ck .usize ((out.length : Int) - 4) = if 4 ≤ out.length then some ((out.length - 4 : Nat) : Int) else none := by
    exact_mod_cast ck_usize_sub out.length 4 hlen
  have hcm := fun pre => calc_mic_eq cr pre
  simp only [Gen.CodecFn.write_mic, writeMic, Gen.CodecFn.MIC_LEN, usizeSub, Int.ofNat_eq_natCast, ints_length]
  rw [hck]
  by_cases h4 : 4 ≤ out.length
  · have hs : Rt.slice (ints out) 0 ((out.length - 4 : Nat) : Int) = (if 0 ≤ out.length - 4 ∧ out.length - 4 ≤ out.length then some (ints ((out.take (out.length - 4)).drop 0)) else none) := by exact_mod_cast slice_ints out 0 (out.length - 4)
    simp only [h4, if_true, Option.bind_eq_bind, Option.bind_some, bind_ok, hs, Nat.zero_le, Nat.sub_le, and_self, hcm,
      Codec.slice]
    have hc := copyFromSlice_ints out (calculateMic cr (List.drop 0 (List.take (out.length - 4) out))) (out.length - 4) out.length
    rw [hc]
    simp [Codec.copyFromSlice, Outcome.ofOption, Outcome.map]
    by_cases hl : List.length (calculateMic cr (List.take (List.length out - 4) out)) = List.length out - (List.length out - 4) <;> simp [hl]
  · simp [h4, Outcome.ofOption, Outcome.map]

end TieA.Codec

/-! ## The named tie-A theorems -/
namespace C01
open Lora Lora.Codec TieA.Codec

/-- **Tie A.** `generate_helper_block` regenerated from `securityhelpers.rs` = the hand model's `generateHelperBlock`, for
every frame, first octet, counter and scratch block: the same sixteen octets, or a panic on both sides. -/
theorem tieA_generate_helper_block (data : Bytes) (first : UInt8) (fcnt : UInt32) (res : Block) :
    Outcome.ofOption (Gen.CodecFn.generate_helper_block (ints data) (toI first) (fcnt.toNat : Int) (ints res.toList))
      = (generateHelperBlock data first fcnt res).map (fun b => ints b.toList) :=
  gen_helper_eq data first fcnt res

/-- **Tie A.** `calculate_data_mic` regenerated = the hand model's `calculateDataMic`, for every frame, counter, cipher
and key (`genCrypto cr` is the trait object `&dyn Crypto` answering as the model's `cr` does). -/
theorem tieA_calculate_data_mic (cr : Crypto) (data : Bytes) (fcnt : UInt32) :
    Outcome.ofOption ((Gen.CodecFn.calculate_data_mic (ints data) (genCrypto cr) (fcnt.toNat : Int)).map (·._0))
      = (calculateDataMic cr data fcnt).map ints :=
  calc_data_mic_eq cr data fcnt

/-- **Tie A.** `calculate_mic` (join messages) regenerated = the hand model's `calculateMic`. -/
theorem tieA_calculate_mic (cr : Crypto) (data : Bytes) :
    (Gen.CodecFn.calculate_mic (ints data) (genCrypto cr))._0 = ints (calculateMic cr data) :=
  calc_mic_eq cr data

/-- **Tie A.** `encrypt_frm_data_payload` regenerated (the in-place keystream loop with its `u8` block counter) = the hand
model's `encryptFrmDataPayload`, for every buffer, `start`, `end`, counter, cipher and key: the same buffer afterwards, or
a panic on both sides (range underflow, short header, index out of range, counter overflow after 255 blocks).
`hstop`: `end` is a `usize`. -/
theorem tieA_encrypt_frm_data_payload (cr : Crypto) (phy : Bytes) (start stop : Nat) (fcnt : UInt32) (hstop : stop < 2 ^ 64) :
    Outcome.ofOption (Gen.CodecFn.encrypt_frm_data_payload (ints phy) (start : Int) (stop : Int) (fcnt.toNat : Int) (genCrypto cr))
      = (encryptFrmDataPayload cr phy start stop fcnt).map ints := by
  rw [encrypt_eq_opt cr phy start stop fcnt hstop]
  have hne := encrypt_ne_err cr phy start stop fcnt
  cases h : encryptFrmDataPayload cr phy start stop fcnt with
  | ok r => rfl
  | err e => exact absurd h (hne e)
  | panic => rfl

/-- non-vacuity: a 20-octet payload (two keystream blocks) after an 9-octet header, identity cipher: both sides answer -/
example : (encryptFrmDataPayload ⟨⟨fun _ b => b, fun _ b => b, fun _ _ => Block.zero⟩, Block.zero⟩
    (List.replicate 29 0x40) 9 29 7).map List.length = .ok 29 := by decide

/-- **Tie A (creator.rs).** `write_mic` regenerated = the hand model's `writeMic`, for every buffer (its length is a
`usize`), cipher and key: the join MIC of everything before the last four octets written into the last four octets,
or a panic on both sides (buffer shorter than four octets). -/
theorem tieA_write_mic (cr : Crypto) (out : Bytes) (hlen : out.length < 2 ^ 64) :
    Outcome.ofOption (Gen.CodecFn.write_mic (ints out) (genCrypto cr)) = (writeMic cr out).map ints :=
  write_mic_eq cr out hlen

example : (writeMic ⟨⟨fun _ b => b, fun _ b => b, fun _ _ => Vector.replicate 16 7⟩, Block.zero⟩ [1, 2, 3, 4, 5, 6]).map ints
    = .ok [1, 2, 7, 7, 7, 7] := by decide

/-- **Tie A, composed with the model's keystream theorem.** On a frame `pre ++ pl ++ post` whose header yields the block
`a0`, the REGENERATED `encrypt_frm_data_payload` returns `pre ++ (pl XOR keystream) ++ post`, keystream octet `i` =
`ksByte cr a0 i` (octet `i mod 16` of `aes(key, a0[15 := i / 16 + 1])`), for every payload up to 4064 octets: no panic,
`pre` and `post` untouched. -/
theorem tieA_encrypt_eq_keystream (cr : Crypto) (pre pl post : Bytes) (fcnt : UInt32) (a0 : Block)
    (ha : generateHelperBlock (pre ++ pl ++ post) 0x01 fcnt Block.zero = .ok a0) (hmax : pl.length ≤ 4064)
    (hlen : pre.length + pl.length < 2 ^ 64) :
    Gen.CodecFn.encrypt_frm_data_payload (ints (pre ++ pl ++ post)) (pre.length : Int) ((pre.length + pl.length : Nat) : Int)
        (fcnt.toNat : Int) (genCrypto cr)
      = some (ints (pre ++ List.zipWith (· ^^^ ·) pl ((List.range pl.length).map (Lora.CodecLemmas.ksByte cr a0)) ++ post)) := by
  have h := tieA_encrypt_frm_data_payload cr (pre ++ pl ++ post) pre.length (pre.length + pl.length) fcnt hlen
  rw [Lora.CodecLemmas.encryptFrm_spec cr pre pl post fcnt a0 _ _ rfl rfl ha hmax] at h
  exact opt_of_eq h

/-- the hypotheses are satisfiable: an uplink header of nine octets, a two-octet payload -/
example : (generateHelperBlock ([0x40, 1, 2, 3, 4, 0, 5, 0, 1] ++ [9, 9] ++ [0, 0, 0, 0]) 0x01 5 Block.zero).map (fun _ => ())
    = .ok () := by decide

/-- non-vacuity: on a concrete downlink header both sides of `tieA_generate_helper_block` are a block (not a panic) -/
example : (generateHelperBlock [0x60, 1, 2, 3, 4, 0, 7, 0] 0x49 0x01020304 Block.zero).map (fun b => ints b.toList)
    = .ok [73, 0, 0, 0, 0, 1, 1, 2, 3, 4, 4, 3, 2, 1, 0, 0] := by decide
example : Gen.CodecFn.generate_helper_block (ints [0x60, 1, 2, 3, 4, 0, 7, 0]) (toI 0x49) ((0x01020304 : UInt32).toNat : Int)
    (ints Block.zero.toList) = some [73, 0, 0, 0, 0, 1, 1, 2, 3, 4, 4, 3, 2, 1, 0, 0] := by decide

end C01

namespace C02
open Lora Lora.Codec TieA.Codec
/-- the parser's `validate_mic` calls the same `calculate_data_mic` -/
theorem tieA_calculate_data_mic (cr : Crypto) (data : Bytes) (fcnt : UInt32) :
    Outcome.ofOption ((Gen.CodecFn.calculate_data_mic (ints data) (genCrypto cr) (fcnt.toNat : Int)).map (·._0))
      = (calculateDataMic cr data fcnt).map ints :=
  C01.tieA_calculate_data_mic cr data fcnt
/-- the join messages' `validate_mic` calls the same `calculate_mic` -/
theorem tieA_calculate_mic (cr : Crypto) (data : Bytes) :
    (Gen.CodecFn.calculate_mic (ints data) (genCrypto cr))._0 = ints (calculateMic cr data) :=
  C01.tieA_calculate_mic cr data
/-- `decrypt_in_place` of the parser runs the same `encrypt_frm_data_payload` -/
theorem tieA_encrypt_frm_data_payload (cr : Crypto) (phy : Bytes) (start stop : Nat) (fcnt : UInt32) (hstop : stop < 2 ^ 64) :
    Outcome.ofOption (Gen.CodecFn.encrypt_frm_data_payload (ints phy) (start : Int) (stop : Int) (fcnt.toNat : Int) (genCrypto cr))
      = (encryptFrmDataPayload cr phy start stop fcnt).map ints :=
  C01.tieA_encrypt_frm_data_payload cr phy start stop fcnt hstop
end C02
