import LoraVerif.Model.Codec
import LoraVerif.Gen.CodecFn
/-!
# Tie A for the frame codec (C01, C02): `securityhelpers.rs` regenerated (`Gen.CodecFn`) = the hand model

`Gen.CodecFn` is regenerated from `lorawan-encoding/src/securityhelpers.rs` on every run.  Its values are
`Int`s and `List Int`s (Rust's checked arithmetic, `none` = panic); the hand model (`Model/Codec.lean`) works on
`UInt8` / `Block`.  The state map is total: `ints` (a byte ↦ its value), the crypto object of the model
(`Crypto` = abstract `Cipher` + key) ↦ the record `genCrypto cr` of the two trait methods.  Every theorem is an
equality of outcomes for ALL arguments: `Outcome.ofOption (generated …) = (model …).map ints` — the same
bytes, or a panic on both sides (the model never answers `err` here).
-/
set_option linter.unusedSimpArgs false
namespace TieA.Codec
open Lora Lora.Codec

def toI (b : UInt8) : Int := (b.toNat : Int)
def ofI (i : Int) : UInt8 := UInt8.ofNat i.toNat
def ints (bs : Bytes) : List Int := bs.map toI
def bytes (l : List Int) : Bytes := l.map ofI

@[simp] theorem ofI_toI (b : UInt8) : ofI (toI b) = b := by simp [ofI, toI]
@[simp] theorem bytes_ints (bs : Bytes) : bytes (ints bs) = bs := by
  simp [bytes, ints, List.map_map, Function.comp_def]
@[simp] theorem ints_length (bs : Bytes) : (ints bs).length = bs.length := by simp [ints]
theorem toI_nonneg (b : UInt8) : 0 ≤ toI b := Int.natCast_nonneg _
theorem toI_lt (b : UInt8) : toI b < 256 := by have := b.toNat_lt; simp only [toI]; omega

/-- the model's crypto object (abstract cipher + key) as the record of the two methods of `dyn Crypto` -/
def genCrypto (cr : Crypto) : Gen.CodecFn.Crypto where
  calculate_mic b0 data := ints (cr.calculateMic (bytes b0) (bytes data))
  encrypt_block blk := match cr.encryptBlock (bytes blk) with
    | .ok r => some (ints r)
    | _ => none

/-! ## Runtime primitives on encoded byte lists -/

theorem setIdx_ints (l : Bytes) (i : Nat) (v : UInt8) :
    Rt.setIdx (ints l) (i : Int) (toI v) = if i < l.length then some (ints (l.set i v)) else none := by
  simp [Rt.setIdx, ints, List.map_set]

theorem idx_ints (l : Bytes) (i : Nat) : Rt.idx (ints l) (i : Int) = (l[i]?).map toI := by
  simp only [Rt.idx, ints, Int.toNat_natCast, List.getElem?_map]
  rw [if_neg (by omega)]

theorem slice_ints (l : Bytes) (a b : Nat) :
    Rt.slice (ints l) (a : Int) (b : Int) = if a ≤ b ∧ b ≤ l.length then some (ints ((l.take b).drop a)) else none := by
  simp only [Rt.slice, ints, List.length_map, Int.toNat_natCast]
  by_cases h : a ≤ b ∧ b ≤ l.length
  · have h' : (0:Int) ≤ (a:Int) ∧ (a:Int) ≤ (b:Int) ∧ (b:Int) ≤ (l.length : Int) := by omega
    rw [if_pos h', if_pos h, ← List.map_drop, ← List.map_take]
    congr 2
    rw [List.take_drop, show a + (b - a) = b by omega]
  · have h' : ¬ ((0:Int) ≤ (a:Int) ∧ (a:Int) ≤ (b:Int) ∧ (b:Int) ≤ (l.length : Int)) := by omega
    rw [if_neg h', if_neg h]

theorem copyFromSlice_ints (l src : Bytes) (a b : Nat) :
    Rt.copyFromSlice (ints l) (a : Int) (b : Int) (ints src)
      = if a ≤ b ∧ b ≤ l.length ∧ src.length = b - a then some (ints (l.take a ++ src ++ l.drop b)) else none := by
  simp only [Rt.copyFromSlice, ints, List.length_map, Int.toNat_natCast]
  by_cases h : a ≤ b ∧ b ≤ l.length ∧ src.length = b - a
  · have h' : (0:Int) ≤ (a:Int) ∧ (a:Int) ≤ (b:Int) ∧ (b:Int) ≤ (l.length : Int) ∧ (src.length : Int) = (b:Int) - (a:Int) := by omega
    rw [if_pos h', if_pos h]; simp
  · have h' : ¬ ((0:Int) ≤ (a:Int) ∧ (a:Int) ≤ (b:Int) ∧ (b:Int) ≤ (l.length : Int) ∧ (src.length : Int) = (b:Int) - (a:Int)) := by omega
    rw [if_neg h', if_neg h]

/-! ## Octet arithmetic -/

theorem andI_nat (a b : Nat) : Rt.andI (a : Int) (b : Int) = ((a &&& b : Nat) : Int) := by
  simp [Rt.andI]
theorem xorI_nat (a b : Nat) : Rt.xorI (a : Int) (b : Int) = ((a ^^^ b : Nat) : Int) := by
  simp [Rt.xorI]
theorem shrC_lit {t : Rt.ITy} {a : Int} {k : Nat} (hk : (k : Int) < t.bits) :
    Rt.shrC t a (k : Int) = some (a / (2 ^ k : Int)) := by
  have : (0 : Int) ≤ (k : Int) := Int.natCast_nonneg k
  simp [Rt.shrC, hk, this]

/-- `(data[0] & 0x20) >> 5` -/
theorem dir_bit (d : UInt8) : Rt.shrC .u8 (Rt.andI (toI d) 32) 5 = some (toI ((d &&& 0x20) >>> 5)) := by
  have h := andI_nat d.toNat 32
  simp only [toI]
  rw [show ((32:Int)) = ((32:Nat):Int) from rfl, h]
  have := @shrC_lit .u8 ((d.toNat &&& 32 : Nat) : Int) 5 (by decide)
  rw [show ((5:Int)) = ((5:Nat):Int) from rfl, this]
  congr 1
  simp only [UInt8.toNat_shiftRight, UInt8.toNat_and, Nat.shiftRight_eq_div_pow]
  norm_cast

theorem fcnt_b0 (f : UInt32) : Rt.wrap .u8 (Rt.andI (f.toNat : Int) 255) = toI (f &&& 0xff).toUInt8 := by
  have h : Rt.andI (f.toNat : Int) 255 = ((f.toNat &&& 255 : Nat) : Int) := andI_nat _ 255
  rw [h, show (255 : Nat) = 2 ^ 8 - 1 from rfl, Nat.and_two_pow_sub_one_eq_mod]
  simp only [Rt.wrap, Rt.ITy.bits, Rt.ITy.signed, Bool.false_eq_true, if_false, toI,
    UInt32.toNat_toUInt8, UInt32.toNat_and]
  rw [show (UInt32.toNat 0xff) = 2 ^ 8 - 1 from rfl, Nat.and_two_pow_sub_one_eq_mod]
  omega

theorem fcnt_bk (f : UInt32) (k : Nat) (hk : k < 32) :
    Rt.wrap .u8 (Rt.andI ((f.toNat : Int) / (2 ^ k : Int)) 255) = toI ((f >>> UInt32.ofNat k) &&& 0xff).toUInt8 := by
  have e : ((f.toNat : Int) / (2 ^ k : Int)) = (((f.toNat / 2 ^ k : Nat)) : Int) := by norm_cast
  have h : Rt.andI ((f.toNat / 2 ^ k : Nat) : Int) 255 = (((f.toNat / 2 ^ k) &&& 255 : Nat) : Int) := andI_nat _ 255
  rw [e, h, show (255 : Nat) = 2 ^ 8 - 1 from rfl, Nat.and_two_pow_sub_one_eq_mod]
  simp only [Rt.wrap, Rt.ITy.bits, Rt.ITy.signed, Bool.false_eq_true, if_false, toI,
    UInt32.toNat_toUInt8, UInt32.toNat_and, UInt32.toNat_shiftRight, UInt32.toNat_ofNat', Nat.shiftRight_eq_div_pow]
  rw [show (UInt32.toNat 0xff) = 2 ^ 8 - 1 from rfl, Nat.and_two_pow_sub_one_eq_mod]
  have : k % 2 ^ 32 % 32 = k := by omega
  rw [this]
  omega


theorem fcnt_b1 (f : UInt32) : Rt.wrap .u8 (Rt.andI ((f.toNat : Int) / 256) 255) = toI ((f >>> 8) &&& 0xff).toUInt8 := by
  simpa using fcnt_bk f 8 (by omega)
theorem fcnt_b2 (f : UInt32) : Rt.wrap .u8 (Rt.andI ((f.toNat : Int) / 65536) 255) = toI ((f >>> 16) &&& 0xff).toUInt8 := by
  simpa using fcnt_bk f 16 (by omega)
theorem fcnt_b3 (f : UInt32) : Rt.wrap .u8 (Rt.andI ((f.toNat : Int) / 16777216) 255) = toI ((f >>> 24) &&& 0xff).toUInt8 := by
  simpa using fcnt_bk f 24 (by omega)
theorem shr_u32_8 (a : Int) : Rt.shrC .u32 a 8 = some (a / 256) := by simp [Rt.shrC, Rt.ITy.bits]
theorem shr_u32_16 (a : Int) : Rt.shrC .u32 a 16 = some (a / 65536) := by simp [Rt.shrC, Rt.ITy.bits]
theorem shr_u32_24 (a : Int) : Rt.shrC .u32 a 24 = some (a / 16777216) := by simp [Rt.shrC, Rt.ITy.bits]

/-! ## Blocks as sixteen octets -/

theorem block_cases {P : Block → Prop}
    (h : ∀ r0 r1 r2 r3 r4 r5 r6 r7 r8 r9 r10 r11 r12 r13 r14 r15 : UInt8,
      P ⟨#[r0, r1, r2, r3, r4, r5, r6, r7, r8, r9, r10, r11, r12, r13, r14, r15], rfl⟩) (b : Block) : P b := by
  obtain ⟨⟨l⟩, hl⟩ := b
  simp only [List.size_toArray] at hl
  match l, hl with
  | [r0, r1, r2, r3, r4, r5, r6, r7, r8, r9, r10, r11, r12, r13, r14, r15], _ => exact h ..

/-- a panic stays a panic, a result is encoded -/
def enc {α β} (f : α → β) (o : Outcome α) : Outcome β := o.map f

@[simp] theorem bind_ok {α β} (a : α) (f : α → Outcome β) : (Outcome.ok a >>= f) = f a := rfl
@[simp] theorem bind_panic {α β} (f : α → Outcome β) : (Outcome.panic >>= f) = Outcome.panic := rfl
@[simp] theorem bind_err {α β} (e : Err) (f : α → Outcome β) : (Outcome.err e >>= f) = Outcome.err e := rfl
@[simp] theorem pure_ok {α} (a : α) : (pure a : Outcome α) = Outcome.ok a := rfl

/-! ## `generate_helper_block` -/

theorem gen_helper_eq (data : Bytes) (first : UInt8) (fcnt : UInt32) (res : Block) :
    Outcome.ofOption (Gen.CodecFn.generate_helper_block (ints data) (toI first) (fcnt.toNat : Int) (ints res.toList))
      = (generateHelperBlock data first fcnt res).map (fun b => ints b.toList) := by
  revert res
  apply block_cases
  intro r0 r1 r2 r3 r4 r5 r6 r7 r8 r9 r10 r11 r12 r13 r14 r15
  match data with
  | [] => simp [Gen.CodecFn.generate_helper_block, generateHelperBlock, ints, Rt.setIdx, Rt.idx, getByte, Outcome.ofOption, Outcome.map]
  | [d0] => simp [Gen.CodecFn.generate_helper_block, generateHelperBlock, ints, Rt.setIdx, Rt.idx, Rt.slice, getByte, slice, Outcome.ofOption, Outcome.map, dir_bit]
  | [d0, d1] => simp [Gen.CodecFn.generate_helper_block, generateHelperBlock, ints, Rt.setIdx, Rt.idx, Rt.slice, getByte, slice, Outcome.ofOption, Outcome.map, dir_bit]
  | [d0, d1, d2] => simp [Gen.CodecFn.generate_helper_block, generateHelperBlock, ints, Rt.setIdx, Rt.idx, Rt.slice, getByte, slice, Outcome.ofOption, Outcome.map, dir_bit]
  | [d0, d1, d2, d3] => simp [Gen.CodecFn.generate_helper_block, generateHelperBlock, ints, Rt.setIdx, Rt.idx, Rt.slice, getByte, slice, Outcome.ofOption, Outcome.map, dir_bit]
  | d0 :: d1 :: d2 :: d3 :: d4 :: rest =>
    simp [Gen.CodecFn.generate_helper_block, generateHelperBlock, ints, Rt.setIdx, Rt.idx, Rt.slice, Rt.copyFromSlice, getByte, slice, Outcome.ofOption, Outcome.map, dir_bit,
      shr_u32_8, shr_u32_16, shr_u32_24, fcnt_b0, fcnt_b1, fcnt_b2, fcnt_b3]
    rw [if_pos (by omega)]
    simp


/-! ## Int-indexed forms of the primitives (the generated text carries `Int` literals) -/

theorem setIdx_ints' (l : Bytes) (i : Int) (v : UInt8) (hi : 0 ≤ i) :
    Rt.setIdx (ints l) i (toI v) = if i.toNat < l.length then some (ints (l.set i.toNat v)) else none := by
  obtain ⟨k, rfl⟩ := Int.eq_ofNat_of_zero_le hi
  simpa using setIdx_ints l k v

theorem idx_ints' (l : Bytes) (i : Int) (hi : 0 ≤ i) : Rt.idx (ints l) i = (l[i.toNat]?).map toI := by
  obtain ⟨k, rfl⟩ := Int.eq_ofNat_of_zero_le hi
  simpa using idx_ints l k

theorem slice_ints' (l : Bytes) (a b : Int) (ha : 0 ≤ a) (hb : 0 ≤ b) :
    Rt.slice (ints l) a b = if a.toNat ≤ b.toNat ∧ b.toNat ≤ l.length then some (ints ((l.take b.toNat).drop a.toNat)) else none := by
  obtain ⟨k, rfl⟩ := Int.eq_ofNat_of_zero_le ha
  obtain ⟨m, rfl⟩ := Int.eq_ofNat_of_zero_le hb
  simpa using slice_ints l k m

theorem copyFromSlice_ints' (l src : Bytes) (a b : Int) (ha : 0 ≤ a) (hb : 0 ≤ b) :
    Rt.copyFromSlice (ints l) a b (ints src)
      = if a.toNat ≤ b.toNat ∧ b.toNat ≤ l.length ∧ src.length = b.toNat - a.toNat then
          some (ints (l.take a.toNat ++ src ++ l.drop b.toNat)) else none := by
  obtain ⟨k, rfl⟩ := Int.eq_ofNat_of_zero_le ha
  obtain ⟨m, rfl⟩ := Int.eq_ofNat_of_zero_le hb
  simpa using copyFromSlice_ints l src k m

/-- `Outcome` ↦ `Option` (a panic is `none`) -/
def optOf {α} : Outcome α → Option α
  | .ok a => some a
  | _ => none

theorem opt_of_eq {α} {o : Option α} {m : Outcome α} (h : Outcome.ofOption o = m) : o = optOf m := by
  cases o <;> simp [← h, optOf, Outcome.ofOption]

theorem not_err_of_eq {α} {o : Option α} {m : Outcome α} {e : Err} (h : Outcome.ofOption o = m) : m ≠ .err e := by
  cases o <;> simp [← h, Outcome.ofOption]

theorem zero_block_ints : List.replicate (Int.toNat 16) (0 : Int) = ints Block.zero.toList := by decide

theorem len_as_u8 (data : Bytes) : Rt.wrap .u8 (Int.ofNat (ints data).length) = toI (UInt8.ofNat data.length) := by
  simp only [Rt.wrap, Rt.ITy.bits, Rt.ITy.signed, Bool.false_eq_true, if_false, toI, ints_length, UInt8.toNat_ofNat']
  simp only [Int.ofNat_eq_natCast]
  omega

theorem len_as_u8' (n : Nat) : Rt.wrap .u8 (n : Int) = toI (UInt8.ofNat n) := by
  simp only [Rt.wrap, Rt.ITy.bits, Rt.ITy.signed, Bool.false_eq_true, if_false, toI, UInt8.toNat_ofNat']
  omega

/-! ## `calculate_data_mic`, `calculate_mic` -/

theorem calc_data_mic_eq (cr : Crypto) (data : Bytes) (fcnt : UInt32) :
    Outcome.ofOption ((Gen.CodecFn.calculate_data_mic (ints data) (genCrypto cr) (fcnt.toNat : Int)).map (·._0))
      = (calculateDataMic cr data fcnt).map ints := by
  have hg := gen_helper_eq data 0x49 fcnt Block.zero
  have hne := fun e => not_err_of_eq (e := e) hg
  have ho := opt_of_eq hg
  simp only [Gen.CodecFn.calculate_data_mic, calculateDataMic, zero_block_ints]
  rw [slice_ints' _ _ _ (by omega) (by omega)]
  simp only [show (73 : Int) = toI 0x49 from rfl]
  have hz : (List.take 16 Block.zero.toList).drop 0 = Block.zero.toList := by decide
  simp only [Vector.length_toList, show Int.toNat 16 = 16 from rfl, show Int.toNat 0 = 0 from rfl, Nat.zero_le,
    Nat.le_refl, and_self, if_true, Option.bind_eq_bind, Option.bind_some]
  rw [hz, ho]
  cases hm : generateHelperBlock data 73 fcnt Block.zero with
  | panic => simp [optOf, Outcome.map, Outcome.ofOption, Outcome.bind]
  | err e => exact absurd (by rw [hm]; rfl) (hne e)
  | ok b =>
    have hb : b.toList.length = 16 := Vector.length_toList ..
    have hd : List.drop 16 Block.zero.toList = [] := by decide
    simp [optOf, Outcome.map, Outcome.ofOption, Outcome.bind, copyFromSlice_ints', len_as_u8, len_as_u8', setIdx_ints', hb, hd, genCrypto, Vector.toList_set]

/-- `calculate_mic(data, crypto)` -/
theorem calc_mic_eq (cr : Crypto) (data : Bytes) :
    (Gen.CodecFn.calculate_mic (ints data) (genCrypto cr))._0 = ints (calculateMic cr data) := by
  simp [Gen.CodecFn.calculate_mic, calculateMic, genCrypto, show bytes ([] : List Int) = [] from rfl]

end TieA.Codec

/-! ## The named tie-A theorems -/
namespace C01
open Lora Lora.Codec TieA.Codec

/-- **Tie A.** `generate_helper_block` regenerated from `securityhelpers.rs` = the hand model's `generateHelperBlock`, for
every frame, first octet, counter and scratch block: the same sixteen octets, or a panic on both sides. -/
theorem tieA_generate_helper_block (data : Bytes) (first : UInt8) (fcnt : UInt32) (res : Block) :
    Outcome.ofOption (Gen.CodecFn.generate_helper_block (ints data) (toI first) (fcnt.toNat : Int) (ints res.toList))
      = (generateHelperBlock data first fcnt res).map (fun b => ints b.toList) :=
  gen_helper_eq data first fcnt res

/-- **Tie A.** `calculate_data_mic` regenerated = the hand model's `calculateDataMic`, for every frame, counter, cipher
and key (`genCrypto cr` is the trait object `&dyn Crypto` answering as the model's `cr` does). -/
theorem tieA_calculate_data_mic (cr : Crypto) (data : Bytes) (fcnt : UInt32) :
    Outcome.ofOption ((Gen.CodecFn.calculate_data_mic (ints data) (genCrypto cr) (fcnt.toNat : Int)).map (·._0))
      = (calculateDataMic cr data fcnt).map ints :=
  calc_data_mic_eq cr data fcnt

/-- **Tie A.** `calculate_mic` (join messages) regenerated = the hand model's `calculateMic`. -/
theorem tieA_calculate_mic (cr : Crypto) (data : Bytes) :
    (Gen.CodecFn.calculate_mic (ints data) (genCrypto cr))._0 = ints (calculateMic cr data) :=
  calc_mic_eq cr data

/-- non-vacuity: on a concrete downlink header both sides of `tieA_generate_helper_block` are a block (not a panic) -/
example : (generateHelperBlock [0x60, 1, 2, 3, 4, 0, 7, 0] 0x49 0x01020304 Block.zero).map (fun b => ints b.toList)
    = .ok [73, 0, 0, 0, 0, 1, 1, 2, 3, 4, 4, 3, 2, 1, 0, 0] := by decide
example : Gen.CodecFn.generate_helper_block (ints [0x60, 1, 2, 3, 4, 0, 7, 0]) (toI 0x49) ((0x01020304 : UInt32).toNat : Int)
    (ints Block.zero.toList) = some [73, 0, 0, 0, 0, 1, 1, 2, 3, 4, 4, 3, 2, 1, 0, 0] := by decide

end C01

namespace C02
open Lora Lora.Codec TieA.Codec
/-- the parser's `validate_mic` calls the same `calculate_data_mic` -/
theorem tieA_calculate_data_mic (cr : Crypto) (data : Bytes) (fcnt : UInt32) :
    Outcome.ofOption ((Gen.CodecFn.calculate_data_mic (ints data) (genCrypto cr) (fcnt.toNat : Int)).map (·._0))
      = (calculateDataMic cr data fcnt).map ints :=
  C01.tieA_calculate_data_mic cr data fcnt
/-- the join messages' `validate_mic` calls the same `calculate_mic` -/
theorem tieA_calculate_mic (cr : Crypto) (data : Bytes) :
    (Gen.CodecFn.calculate_mic (ints data) (genCrypto cr))._0 = ints (calculateMic cr data) :=
  C01.tieA_calculate_mic cr data
end C02
