import LoraVerif.Props.TieA.Basic
import LoraVerif.Gen.RegionDispatch
import LoraVerif.Gen.NextLowerDr
/-!
# Tie A for the region wiring (builder H)

`Gen.RegionDispatch` is `region_dispatch!` of `lorawan-device/src/region/mod.rs`, expanded by the translator with
the macro's own rules for every dispatched `Configuration` method and followed arm by arm:
`State::V(state) => state.m(..)` / `state.0.m(..)` → the payload type of `State::V` (the plan type `State::new`
constructs for the `Region`) → the plan's `RegionHandler` impl → the region type's function / constant / table.
`Gen.NextLowerDr` is the loop of `next_lower_datarate` (mac/session.rs) over the dispatched `get_datarate`.

The hand model's region → table mappings (`Model/Region.lean`: `rxDatarate`, `rx2Frequency`, `getDatarate`,
`datarates`, `txPowerAdjust`, `rx1DrOffsetValidate`, `RegionId.isFixed`; `Model/Mac.lean`: `nextLowerDatarate`) are
proved EQUAL to these regenerated functions for all nine regions and every argument.
-/
set_option linter.unusedSimpArgs false
open Model TieA

namespace C10

/-- `Configuration::get_rx_datarate` through `region_dispatch!`: the model's `rxDatarate`, for every region, TX data
rate, RX1DROffset (every `u8` and beyond) and window -/
theorem tieA_region_get_rx_datarate (r : RegionId) (txDr : Gen.Region.DR) (off : Nat) (w : Gen.Region.Window) :
    rxDatarate r txDr off w =
      ofGen "get_rx_datarate" (Gen.RegionDispatch.Configuration.get_rx_datarate (toGen r) txDr (off : Int) w) := by
  cases r <;> rfl

/-- `Configuration::get_rx2_frequency` through `region_dispatch!`: the model's `rx2Frequency` -/
theorem tieA_region_get_rx2_frequency (r : RegionId) :
    (rx2Frequency r : Int) = Gen.RegionDispatch.Configuration.get_rx2_frequency (toGen r) := by
  cases r <;> rfl

/-- `Configuration::rx1_dr_offset_validate` through `region_dispatch!`: the macro reaches the same per-region method
the `State::new` wiring of `Gen.RegionStatic` reaches (which `C10.tieA_rx1DrOffsetValidate` ties to the model) -/
theorem tieA_region_rx1_dr_offset_validate (g : Gen.RegionStatic.Region) (v : Int) :
    Gen.RegionDispatch.Configuration.rx1_dr_offset_validate g v = Gen.RegionStatic.rx1_dr_offset_validate g v := by
  cases g <;> rfl

/-- `Configuration::get_default_datarate` through `region_dispatch!` = the `State::new` wiring's (used by
`C10.tieA_initConfiguration`) -/
theorem tieA_region_get_default_datarate (g : Gen.RegionStatic.Region) :
    Gen.RegionDispatch.Configuration.get_default_datarate g = Gen.RegionStatic.get_default_datarate g := by
  cases g <;> rfl

example : rxDatarate .US915 Gen.Region.DR._4 1 Gen.Region.Window._1 = .ok Gen.Region.DR._13 := by rfl
example : Gen.RegionDispatch.Configuration.get_rx2_frequency (toGen .EU868) = 869525000 := by decide

#print axioms tieA_region_get_rx_datarate
#print axioms tieA_region_get_rx2_frequency
#print axioms tieA_region_rx1_dr_offset_validate
#print axioms tieA_region_get_default_datarate
end C10

namespace C09

/-- `Configuration::get_datarate` through `region_dispatch!` (`R::datarates().get(dr as usize)?.as_ref()` with the
table `R::datarates()` returns resolved from the region type's impl): the model's `getDatarate`, hence the model's
region → table mapping `datarates`, for every region and every data rate index (every `u8` and beyond) -/
theorem tieA_region_get_datarate (r : RegionId) (dr : Nat) :
    getDatarate r dr = Gen.RegionDispatch.Configuration.get_datarate (toGen r) (dr : Int) := by
  cases r <;> simp only [getDatarate, datarates, toGen, Gen.RegionDispatch.Configuration.get_datarate, Int.toNat_natCast] <;> rfl

/-- `Configuration::has_fixed_channel_plan` through `region_dispatch!`: the model's `RegionId.isFixed` -/
theorem tieA_region_has_fixed_channel_plan (r : RegionId) :
    r.isFixed = Gen.RegionDispatch.Configuration.has_fixed_channel_plan (toGen r) := by
  cases r <;> rfl

private theorem check_tx_power_aux (t : Option (Option Int)) :
    (do let v ← ofGen "tx_power_adjust" t; pure (v.map Int.toNat) : M (Option Nat)) =
      (ofGen "tx_power_adjust" (t.map (fun x => x.map some))).map (fun o => (o.bind id).map Int.toNat) := by
  cases t with
  | none => rfl
  | some x => cases x <;> rfl

/-- `Configuration::check_tx_power` = `region_dispatch!(self, check_tx_power, p).map(Some)`: the model's
`txPowerAdjust` (`Some(Some(v))` ↦ `some v`, `None` ↦ `none`, a panic in the region's `tx_power_adjust` ↦ the fault) -/
theorem tieA_region_check_tx_power (r : RegionId) (p : Nat) :
    txPowerAdjust r p =
      (ofGen "tx_power_adjust" (Gen.RegionDispatch.Configuration.check_tx_power (toGen r) (p : Int))).map
        (fun o => (o.bind id).map Int.toNat) := by
  cases r <;> exact check_tx_power_aux _

/-- `Configuration::is_uplink_datarate` through `region_dispatch!` (fixed plans: `dr <= F::MAX_UPLINK_DR &&
self.get_datarate(dr).is_some()`, dynamic plans: the trait's default body): the model's `isUplinkDatarate`, for every
region and every data rate index -/
theorem tieA_region_is_uplink_datarate (r : RegionId) (dr : Nat) :
    isUplinkDatarate r dr = Gen.RegionDispatch.Configuration.is_uplink_datarate (toGen r) (dr : Int) := by
  cases r <;>
    simp only [isUplinkDatarate, RegionId.isFixed, getDatarate, datarates, toGen,
      Gen.RegionDispatch.Configuration.is_uplink_datarate, Int.toNat_natCast, Bool.true_and, if_true, if_false,
      Bool.false_eq_true, Gen.RegionStatic.AU915Region.MAX_UPLINK_DR, Gen.RegionStatic.US915Region.MAX_UPLINK_DR] <;>
    first
      | rfl
      | (congr 1; rw [Bool.eq_iff_iff]; simp only [maxUplinkDr]; constructor <;> intro h <;> (have h2 := of_decide_eq_true h; apply decide_eq_true; omega))

example : isUplinkDatarate .US915 4 = true ∧ isUplinkDatarate .US915 8 = false ∧ isUplinkDatarate .AU915 6 = true := by decide

/-- the region type → table wiring (`§9.15`: "not reached"): the constant `<R as ChannelRegion>::datarates()` returns, and
for the fixed plans `<F as FixedChannelRegion>::uplink_channels()` / `downlink_channels()`, resolved from the impl of the
region type `State::new` wires to each `Region`, are the tables the hand model maps the region to -/
theorem tieA_region_tables (r : RegionId) :
    datarates r = Gen.RegionDispatch.datarates (toGen r) ∧
    (r.isFixed = true → Gen.RegionDispatch.uplink_channels (toGen r) = some (uplinkChannels r) ∧
      Gen.RegionDispatch.downlink_channels (toGen r) = some (downlinkChannels r)) ∧
    (r.isFixed = false → Gen.RegionDispatch.uplink_channels (toGen r) = none ∧
      Gen.RegionDispatch.downlink_channels (toGen r) = none) := by
  cases r <;> refine ⟨rfl, ?_, ?_⟩ <;> intro h <;> first | exact ⟨rfl, rfl⟩ | exact absurd h (by decide)

example : RegionId.isFixed .AU915 = true ∧ (uplinkChannels .AU915)[64]? = some 915900000 := by decide

example : getDatarate .US915 8 = Gen.RegionDispatch.Configuration.get_datarate .US915 8 ∧ (getDatarate .US915 8).isSome ∧
    (getDatarate .US915 5).isNone ∧ (getDatarate .US915 200).isNone := by decide
example : txPowerAdjust .EU868 3 = .ok (some 10) := by rfl

#print axioms tieA_region_get_datarate
#print axioms tieA_region_has_fixed_channel_plan
#print axioms tieA_region_check_tx_power
#print axioms tieA_region_is_uplink_datarate
#print axioms tieA_region_tables
end C09

namespace C12

/-- `next_lower_datarate(region, current)` regenerated (the reversed-range loop over the dispatched
`Configuration::get_datarate`, `DR::from`): it never panics and its result is the model's `nextLowerDatarate`, for
every region and every current data rate (a finite table: 9 regions × 16 data rates, both sides evaluated) -/
theorem tieA_next_lower_datarate (r : RegionId) (cur : Gen.Region.DR) :
    Gen.NextLowerDr.next_lower_datarate (toGen r) cur =
      some ((nextLowerDatarate r cur.toInt.toNat).bind (fun n => Gen.Region.u8.into_DR (n : Int))) ∧
    ((Gen.NextLowerDr.next_lower_datarate (toGen r) cur).map (fun o => o.map (fun d => d.toInt.toNat))) =
      some (nextLowerDatarate r cur.toInt.toNat) := by
  cases r <;> cases cur <;> decide

example : Gen.NextLowerDr.next_lower_datarate .US915 Gen.Region.DR._8 = some (some Gen.Region.DR._4) ∧
    nextLowerDatarate .US915 8 = some 4 ∧ nextLowerDatarate .EU868 0 = none := by decide

#print axioms tieA_next_lower_datarate
end C12
