import LoraVerif.Props.TieA.PlanSelectLemmas
import LoraVerif.Props.C09
/-!
# Tie A for the channel selection (C09): `DynamicChannelPlan::select_tx_channel`

`Gen/PlanSelectFn.lean` is the state-passing translation of the CURRENT source of
`DynamicChannelPlan::select_tx_channel` with `get_random_in_range` and the "never spin" fallback.  The random
generator is abstract (`RngCore RNG`), the redraw loops run on a fuel (`Rt.loopM LoopFuel.fuel`).

`C09.tieA_dynamic_select_tx_channel`: for every plan (16 slots, 9 mask octets), data rate, frame kind, generator
and stream the regenerated method — instantiated with the model's `draw` and fuel `loopFuel` — is the model's
`selectTxChannel`: same TxChannel, same plan afterwards, same stream state; it fails (panic or fuel used up) iff
the model does (`Except.toOption` forgets which of the two).
-/
set_option linter.unusedSimpArgs false
set_option linter.unusedVariables false
namespace C09
open Model Gen.Region TieA.Select TieA.CMask

theorem rposition_eq {α} (q : α → Bool) (l : List α) (f : Nat → Bool) (h : ∀ i, f i = (l[i]?).any q) :
    Rt.rposition q l = (((List.range l.length).filter f).getLast?).map Int.ofNat := by
  have : f = fun i => (l[i]?).any q := funext h
  subst this
  unfold Rt.rposition
  congr 3

/-- (stated apart: a `simp` step that leaves `Rt.ck .usize _` to a definitional check makes the kernel unfold the bound `2^64 - 1`) -/
theorem ck_succ (i : Nat) (hi : i < 16) : Rt.ck .usize ((i : Int) + 1) = some (((i + 1 : Nat)) : Int) := by
  rw [Rt.ck_usize (by omega) (by omega)]; congr 1

/-- `rposition(is_some).unwrap() + 1` -/
theorem range_tie (p : Gen.PlanSelectFn.DynamicChannelPlan) (hw : p.channels.length = 16) :
    ((Rt.rposition (fun x => x.isSome) p.channels).bind fun t1 => Rt.ck .usize (t1 + 1))
      = ((planOf p).range.toOption).map Int.ofNat := by
  rw [rposition_eq _ _ (fun i => (p.channels[i]?).any (fun x => x.isSome)) (fun _ => rfl)]
  unfold DynPlan.range
  simp only [planOf, List.length_map]
  split
  · rename_i i heq
    rw [List.filter_congr (q := fun i => (p.channels[i]?).any (fun x => x.isSome))
      (by intro i _; rw [List.getElem?_map]; cases p.channels[i]? with | none => rfl | some a => cases a <;> rfl)] at heq
    rw [heq]
    have hm := List.mem_of_getLast? heq
    have hi : i < 16 := by
      have := (List.mem_filter.mp hm).1
      rw [List.mem_range] at this; omega
    rw [Option.map_some, Option.bind_some, show Int.ofNat i = (i : Int) from rfl, ck_succ i hi]
    rfl
  · rename_i heq
    rw [List.filter_congr (q := fun i => (p.channels[i]?).any (fun x => x.isSome))
      (by intro i _; rw [List.getElem?_map]; cases p.channels[i]? with | none => rfl | some a => cases a <;> rfl)] at heq
    rw [heq]
    simp [Except.toOption, Model.panic]

theorem range_le (p : Gen.PlanSelectFn.DynamicChannelPlan) (hw : p.channels.length = 16) (r : Nat)
    (h : (planOf p).range = .ok r) : r ≤ 16 := by
  unfold DynPlan.range planOf at h
  simp only [List.length_map] at h
  split at h
  · rename_i i hl
    have hm := List.mem_of_getLast? hl
    have := (List.mem_filter.mp hm).1
    rw [List.mem_range] at this
    cases h; omega
  · cases h

/-- `get_random_in_range` -/
theorem random_tie {σ} (g : Rng σ) (p : Gen.PlanSelectFn.DynamicChannelPlan) (hw : p.channels.length = 16) (s : σ) :
    @Gen.PlanSelectFn.DynamicChannelPlan.get_random_in_range σ (rngOf g) p s
      = (((planOf p).randomInRange g s).toOption).map (fun o => ((o.1 : Int), o.2)) := by
  unfold Gen.PlanSelectFn.DynamicChannelPlan.get_random_in_range DynPlan.randomInRange
  have hr := range_tie p hw
  simp only [Option.bind_eq_bind] at hr ⊢
  rw [← Option.bind_assoc, hr]
  cases hrg : (planOf p).range with
  | error e => rfl
  | ok r =>
    have hle := range_le p hw r hrg
    simp only [Except.toOption, Option.map_some, Option.bind_some, bind, Except.bind, pure, Except.pure, Int.ofNat_eq_natCast]
    by_cases h16 : r > 16
    · omega
    · by_cases h8 : r > 8
      · have h8' : (r : Int) > 8 := by omega
        have h16' : ¬ (r : Int) > 16 := by omega
        simp [h16, h8, h8', h16', andI_15, next_rngOf]
      · have h8' : ¬ (r : Int) > 8 := by omega
        have h16' : ¬ (r : Int) > 16 := by omega
        simp [h16, h8, h8', h16', andI_7, next_rngOf]

theorem idx_datarates (r : RegionId) (dr : DR) :
    Rt.idx (datarates r) (Rt.wrap .usize (DR.toInt dr)) = (datarates r)[dr.toInt.toNat]? := by
  have h : Rt.wrap .usize (DR.toInt dr) = ((dr.toInt.toNat : Nat) : Int) := by cases dr <;> rfl
  rw [h, idx_nat]

theorem indexDatarate_opt (r : RegionId) (n : Nat) : (indexDatarate r n).toOption = (datarates r)[n]? := by
  unfold indexDatarate; cases (datarates r)[n]? <;> rfl

theorem unwrap_opt (site : String) (o : Option Datarate) : (unwrapDatarate site o).toOption = o := by
  cases o <;> rfl

/-- the join request of a dynamic plan -/
theorem dyn_join_tie {σ} (g : Rng σ) (rs : RegionState) (p : Gen.PlanSelectFn.DynamicChannelPlan)
    (hplan : rs.plan = .dyn (planOf p)) (hw : PlanWF p) (dr : DR) (s : σ) :
    (@Gen.PlanSelectFn.DynamicChannelPlan.select_tx_channel (regOf rs.id) σ (rngOf g) (fuelOf loopFuel) p s dr .Join).map
        (fun o => (txOf o.1, { rs with plan := .dyn (planOf o.2.1) }, o.2.2))
      = (selectTxChannel g rs dr .join s).toOption := by
  unfold Gen.PlanSelectFn.DynamicChannelPlan.select_tx_channel selectTxChannel
  simp only [hplan, next_rngOf, fuel_fuelOf, andI_3, Option.bind_eq_bind, Option.pure_def]
  rw [wrap_u8_nat _ (by omega), joinLoop_tie g (numJoinChannels rs.id)]
  · rw [toOption_bind, indexDatarate_opt, show (regOf rs.id).datarates = datarates rs.id from rfl, idx_datarates]
    cases hl : dynJoinLoop g (numJoinChannels rs.id) loopFuel s with
    | error e => cases (datarates rs.id)[dr.toInt.toNat]? <;> rfl
    | ok o =>
      obtain ⟨i, s1⟩ := o
      simp only [Except.toOption, Option.map_some, Option.bind_some, idx_nat, bind, Except.bind, planOf, List.getElem?_map]
      cases hc : p.channels[i]? with
      | none => cases (datarates rs.id)[dr.toInt.toNat]? <;> rfl
      | some oc =>
        cases oc with
        | none => cases (datarates rs.id)[dr.toInt.toNat]? <;> rfl
        | some c =>
          cases hdv : (datarates rs.id)[dr.toInt.toNat]? with
          | none => rfl
          | some od =>
            cases od with
            | none => rfl
            | some d =>
              simp only [Option.bind_some, Option.map_some, unwrapDatarate, pure, Except.pure, txOf, chanOf,
                Gen.PlanSelectFn.Channel.ul_frequency, Gen.PlanSelectFn.Channel.rx1_frequency, Channel.rx1Frequency]
              have hrs : ({ id := rs.id, plan := Plan.dyn { channels := List.map (Option.map chanOf) p.channels, mask := natsOf p.channel_mask._0 } } : RegionState) = rs := by
                cases rs; simp_all [planOf]
              rw [hrs]
              cases hdl : c.dl_frequency <;> rfl
  · intro s i
    simp (disch := omega) only [next_rngOf, andI_3, wrap_u8_nat, regOf, ge_iff_le, Int.ofNat_le, decide_eq_true_eq]

end C09
