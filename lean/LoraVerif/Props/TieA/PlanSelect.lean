import LoraVerif.Props.TieA.PlanSelectLemmas
import LoraVerif.Props.C09
/-!
# Tie A for the channel selection (C09): `DynamicChannelPlan::select_tx_channel`

`Gen/PlanSelectFn.lean` is the state-passing translation of the CURRENT source of
`DynamicChannelPlan::select_tx_channel` with `get_random_in_range` and the "never spin" fallback.  The random
generator is abstract (`RngCore RNG`), the redraw loops run on a fuel (`Rt.loopM LoopFuel.fuel`).

`C09.tieA_dynamic_select_tx_channel`: for every plan (16 slots, 9 mask octets), data rate, frame kind, generator
and stream the regenerated method — instantiated with the model's `draw` and fuel `loopFuel` — is the model's
`selectTxChannel`: same TxChannel, same plan afterwards, same stream state; it fails (panic or fuel used up) iff
the model does (`Except.toOption` forgets which of the two).
-/
set_option linter.unusedSimpArgs false
set_option linter.unusedVariables false
namespace C09
open Model Gen.Region TieA.Select TieA.CMask

theorem rposition_eq {α} (q : α → Bool) (l : List α) (f : Nat → Bool) (h : ∀ i, f i = (l[i]?).any q) :
    Rt.rposition q l = (((List.range l.length).filter f).getLast?).map Int.ofNat := by
  have : f = fun i => (l[i]?).any q := funext h
  subst this
  unfold Rt.rposition
  congr 3

/-- (stated apart: a `simp` step that leaves `Rt.ck .usize _` to a definitional check makes the kernel unfold the bound `2^64 - 1`) -/
theorem ck_succ (i : Nat) (hi : i < 16) : Rt.ck .usize ((i : Int) + 1) = some (((i + 1 : Nat)) : Int) := by
  rw [Rt.ck_usize (by omega) (by omega)]; congr 1

/-- `rposition(is_some).unwrap() + 1` -/
theorem range_tie (p : Gen.PlanSelectFn.DynamicChannelPlan) (hw : p.channels.length = 16) :
    ((Rt.rposition (fun x => x.isSome) p.channels).bind fun t1 => Rt.ck .usize (t1 + 1))
      = ((planOf p).range.toOption).map Int.ofNat := by
  rw [rposition_eq _ _ (fun i => (p.channels[i]?).any (fun x => x.isSome)) (fun _ => rfl)]
  unfold DynPlan.range
  simp only [planOf, List.length_map]
  split
  · rename_i i heq
    rw [List.filter_congr (q := fun i => (p.channels[i]?).any (fun x => x.isSome))
      (by intro i _; rw [List.getElem?_map]; cases p.channels[i]? with | none => rfl | some a => cases a <;> rfl)] at heq
    rw [heq]
    have hm := List.mem_of_getLast? heq
    have hi : i < 16 := by
      have := (List.mem_filter.mp hm).1
      rw [List.mem_range] at this; omega
    rw [Option.map_some, Option.bind_some, show Int.ofNat i = (i : Int) from rfl, ck_succ i hi]
    rfl
  · rename_i heq
    rw [List.filter_congr (q := fun i => (p.channels[i]?).any (fun x => x.isSome))
      (by intro i _; rw [List.getElem?_map]; cases p.channels[i]? with | none => rfl | some a => cases a <;> rfl)] at heq
    rw [heq]
    simp [Except.toOption, Model.panic]

theorem range_le (p : Gen.PlanSelectFn.DynamicChannelPlan) (hw : p.channels.length = 16) (r : Nat)
    (h : (planOf p).range = .ok r) : r ≤ 16 := by
  unfold DynPlan.range planOf at h
  simp only [List.length_map] at h
  split at h
  · rename_i i hl
    have hm := List.mem_of_getLast? hl
    have := (List.mem_filter.mp hm).1
    rw [List.mem_range] at this
    cases h; omega
  · cases h

/-- `get_random_in_range` -/
theorem random_tie {σ} (g : Rng σ) (p : Gen.PlanSelectFn.DynamicChannelPlan) (hw : p.channels.length = 16) (s : σ) :
    @Gen.PlanSelectFn.DynamicChannelPlan.get_random_in_range σ (rngOf g) p s
      = (((planOf p).randomInRange g s).toOption).map (fun o => ((o.1 : Int), o.2)) := by
  unfold Gen.PlanSelectFn.DynamicChannelPlan.get_random_in_range DynPlan.randomInRange
  have hr := range_tie p hw
  simp only [Option.bind_eq_bind] at hr ⊢
  rw [← Option.bind_assoc, hr]
  cases hrg : (planOf p).range with
  | error e => rfl
  | ok r =>
    have hle := range_le p hw r hrg
    simp only [Except.toOption, Option.map_some, Option.bind_some, bind, Except.bind, pure, Except.pure, Int.ofNat_eq_natCast]
    have hnot16 : ¬ r > 16 := by omega
    have hnot16' : ¬ (r : Int) > 16 := by omega
    have hle16 : (r : Int) ≤ 16 := by omega
    by_cases h8 : r > 8
    · have h8' : (r : Int) > 8 := by omega
      have h8'' : ¬ (r : Int) ≤ 8 := by omega
      simp [hnot16, hnot16', hle16, h8, h8', h8'', andI_15, andI_15', next_rngOf]
    · have h8' : ¬ (r : Int) > 8 := by omega
      have h8'' : (r : Int) ≤ 8 := by omega
      simp [hnot16, hnot16', hle16, h8, h8', h8'', andI_7, andI_7', next_rngOf]

theorem idx_datarates (r : RegionId) (dr : DR) :
    Rt.idx (datarates r) (Rt.wrap .usize (DR.toInt dr)) = (datarates r)[dr.toInt.toNat]? := by
  have h : Rt.wrap .usize (DR.toInt dr) = ((dr.toInt.toNat : Nat) : Int) := by cases dr <;> rfl
  rw [h, idx_nat]

theorem indexDatarate_opt (r : RegionId) (n : Nat) : (indexDatarate r n).toOption = (datarates r)[n]? := by
  unfold indexDatarate; cases (datarates r)[n]? <;> rfl

theorem unwrap_opt (site : String) (o : Option Datarate) : (unwrapDatarate site o).toOption = o := by
  cases o <;> rfl

/-- the join request of a dynamic plan -/
theorem dyn_join_tie {σ} (g : Rng σ) (rs : RegionState) (p : Gen.PlanSelectFn.DynamicChannelPlan)
    (hplan : rs.plan = .dyn (planOf p)) (hw : PlanWF p) (dr : DR) (s : σ) :
    (@Gen.PlanSelectFn.DynamicChannelPlan.select_tx_channel (regOf rs.id) σ (rngOf g) (fuelOf loopFuel) p s dr .Join).map
        (fun o => (txOf o.1, { rs with plan := .dyn (planOf o.2.1) }, o.2.2))
      = (selectTxChannel g rs dr .join s).toOption := by
  unfold Gen.PlanSelectFn.DynamicChannelPlan.select_tx_channel selectTxChannel
  simp only [hplan, next_rngOf, fuel_fuelOf, andI_3, andI_3', remC_u32_4, Option.bind_eq_bind, Option.pure_def, Option.bind_some]
  rw [wrap_u8_nat _ (by omega), joinLoop_tie g (numJoinChannels rs.id)]
  · rw [toOption_bind, indexDatarate_opt, show (regOf rs.id).datarates = datarates rs.id from rfl, idx_datarates]
    cases hl : dynJoinLoop g (numJoinChannels rs.id) loopFuel s with
    | error e => cases (datarates rs.id)[dr.toInt.toNat]? <;> rfl
    | ok o =>
      obtain ⟨i, s1⟩ := o
      simp only [Except.toOption, Option.map_some, Option.bind_some, idx_nat, bind, Except.bind, planOf, List.getElem?_map]
      cases hc : p.channels[i]? with
      | none => cases (datarates rs.id)[dr.toInt.toNat]? <;> rfl
      | some oc =>
        cases oc with
        | none => cases (datarates rs.id)[dr.toInt.toNat]? <;> rfl
        | some c =>
          cases hdv : (datarates rs.id)[dr.toInt.toNat]? with
          | none => rfl
          | some od =>
            cases od with
            | none => rfl
            | some d =>
              simp only [Option.bind_some, Option.map_some, unwrapDatarate, pure, Except.pure, txOf, chanOf,
                Gen.PlanSelectFn.Channel.ul_frequency, Gen.PlanSelectFn.Channel.rx1_frequency, Channel.rx1Frequency]
              have hrs : ({ id := rs.id, plan := Plan.dyn { channels := List.map (Option.map chanOf) p.channels, mask := natsOf p.channel_mask._0 } } : RegionState) = rs := by
                cases rs; simp_all [planOf]
              rw [hrs]
              cases hdl : c.dl_frequency <;> rfl
  · intro s i
    have hw8 := wrap_u8_nat ((draw g s).1 % 4) (by omega)
    have hw8' : Rt.wrap .u8 (((draw g s).1 : Int) % 4) = ((draw g s).1 : Int) % 4 := Rt.wrap_id_u8 (by omega) (by omega)
    by_cases h : numJoinChannels rs.id ≤ i
    · have h1 : ¬ i < numJoinChannels rs.id := by omega
      have h2 : ((numJoinChannels rs.id : Nat) : Int) ≤ (i : Int) := by omega
      have h3 : ¬ ((i : Int) < ((numJoinChannels rs.id : Nat) : Int)) := by omega
      simp [next_rngOf, andI_3, andI_3', remC_u32_4, hw8, hw8', regOf, h, h1, h2, h3]
    · have h1 : i < numJoinChannels rs.id := by omega
      have h2 : ¬ ((numJoinChannels rs.id : Nat) : Int) ≤ (i : Int) := by omega
      have h3 : ((i : Int) < ((numJoinChannels rs.id : Nat) : Int)) := by omega
      simp [next_rngOf, andI_3, andI_3', remC_u32_4, hw8, hw8', regOf, h, h1, h2, h3]

/-- a data frame on a dynamic plan -/
theorem dyn_data_tie {σ} (g : Rng σ) (rs : RegionState) (p : Gen.PlanSelectFn.DynamicChannelPlan)
    (hplan : rs.plan = .dyn (planOf p)) (hw : PlanWF p) (dr : DR) (s : σ) :
    (@Gen.PlanSelectFn.DynamicChannelPlan.select_tx_channel (regOf rs.id) σ (rngOf g) (fuelOf loopFuel) p s dr .Data).map
        (fun o => (txOf o.1, { rs with plan := .dyn (planOf o.2.1) }, o.2.2))
      = (selectTxChannel g rs dr .data s).toOption := by
  obtain ⟨hc, hml, hoct, hfr⟩ := hw
  unfold Gen.PlanSelectFn.DynamicChannelPlan.select_tx_channel selectTxChannel
  simp only [hplan, fuel_fuelOf, Option.bind_eq_bind, Option.pure_def]
  rw [show Gen.Region.NUM_CHANNELS_DYNAMIC = ((16 : Nat) : Int) from rfl]
  rw [rangeAny_tie (f' := fun i => do pure (← (planOf p).usable i).isSome) 16]
  · rw [toOption_bind, indexDatarate_opt]
    cases hA : anyM (fun i => do pure (← (planOf p).usable i).isSome) (List.range 16) with
    | error e =>
      simp only [hA, Except.toOption, bind, Except.bind, Option.bind_none, Option.map_none]
      cases (datarates rs.id)[dr.toInt.toNat]? <;> rfl
    | ok b =>
      simp only [Except.toOption, Option.bind_some, bind, Except.bind]
      -- the plan the fallback leaves
      generalize hSg : (ite ((!b) = true) _ (some p) : Option Gen.PlanSelectFn.DynamicChannelPlan) = Sg
      generalize hSm : (ite (b = true) (pure (planOf p)) _ : M DynPlan) = Sm
      have hS : Sg.map planOf = Sm.toOption ∧ ∀ q, Sg = some q → PlanWF q := by
        cases b with
        | true =>
          simp only [Bool.not_true, Bool.false_eq_true, if_false, if_true] at hSg hSm
          subst hSg; subst hSm
          exact ⟨rfl, by intro q hq; cases hq; exact ⟨hc, hml, hoct, hfr⟩⟩
        | false =>
          simp only [Bool.not_false, if_true, Bool.false_eq_true, if_false] at hSg hSm
          have h2 : (Sg.map (fun q => natsOf q.channel_mask._0)
                = ((List.range (numJoinChannels rs.id)).foldlM (fun m i => Mask.setChannel m i true) (natsOf p.channel_mask._0)).toOption) ∧
              (∀ s', Sg = some s' → (PlanWF s' ∧ s'.channels = p.channels)) := by
            rw [← hSg]
            refine forRange_tie (fun q => natsOf q.channel_mask._0) (fun q => PlanWF q ∧ q.channels = p.channels)
              (numJoinChannels rs.id) p ⟨⟨hc, hml, hoct, hfr⟩, rfl⟩ ?_
            intro j q hj hq
            obtain ⟨⟨hqc, hqm, hqo, hqf⟩, hqe⟩ := hq
            have hj3 : j < 3 := by
              have : numJoinChannels rs.id ≤ 3 := by cases rs.id <;> decide
              omega
            have h1 := set_channel_nat9 q.channel_mask hqo j (by omega) true
            try dsimp only
            cases hsc : Gen.ChannelMaskFn.ChannelMask.set_channel q.channel_mask (j : Int) true with
            | none =>
              rw [hsc] at h1
              exact ⟨by simpa using h1, by intro s' h; simp at h⟩
            | some m' =>
              rw [hsc] at h1
              obtain ⟨ho, hl⟩ := set_channel_octets q.channel_mask m' hqo (j : Int) (by omega) (by omega) true hsc
              refine ⟨by simpa using h1, ?_⟩
              intro s' h
              simp only [Option.bind_some, Option.some.injEq] at h
              subst h
              exact ⟨⟨hqc, by rw [hl]; exact hqm, ho, hqf⟩, hqe⟩
          subst hSm
          obtain ⟨h2a, h2b⟩ := h2
          refine ⟨?_, fun q hq => (h2b q hq).1⟩
          rw [show (planOf p).mask = natsOf p.channel_mask._0 from rfl]
          generalize List.foldlM (fun m i => Mask.setChannel m i true) (natsOf p.channel_mask._0) (List.range (numJoinChannels rs.id)) = X at h2a ⊢
          cases hq : Sg with
          | none =>
            rw [hq] at h2a
            cases X with
            | error e => rfl
            | ok v => simp [Except.toOption] at h2a
          | some q =>
            rw [hq] at h2a
            have hqc := (h2b q hq).2
            cases X with
            | error e => simp [Except.toOption] at h2a
            | ok v =>
              simp [Except.toOption] at h2a
              simp [Except.toOption, planOf, pure, Except.pure, hqc, h2a]
      clear hSg hSm hA
      obtain ⟨hS1, hS2⟩ := hS
      cases hq : Sg with
      | none =>
        rw [hq] at hS1
        cases Sm with
        | ok v => simp [Except.toOption] at hS1
        | error e =>
          simp only [Option.bind_none, Option.map_none]
          cases (datarates rs.id)[dr.toInt.toNat]? <;> rfl
      | some q =>
        rw [hq] at hS1
        obtain ⟨hqc, hqm, hqo, hqf⟩ := hS2 q hq
        cases Sm with
        | error e => simp [Except.toOption] at hS1
        | ok v =>
          have hv : v = planOf q := by simpa [Except.toOption] using hS1.symm
          subst hv
          simp only [Option.bind_some]
          rw [dataLoop_tie g (planOf q) q (fun s => @Gen.PlanSelectFn.DynamicChannelPlan.get_random_in_range σ (rngOf g) q s) (random_tie g q hqc)
            (fun c s' => (((datarates rs.id)[dr.toInt.toNat]?).bind id).map (fun d =>
              (({ datarate := d, dr := dr, frequency := (c.freq : Int), rx1_frequency := (c.rx1Frequency : Int) } : Gen.PlanSelectFn.TxChannel), q, s')))
            _ ?hstep _ _ loopFuel ?hK]
          case hK => intro c s1; rfl
          case hstep =>
            intro s' i
            dsimp only
            rw [bind_bind_id, is_enabled_nat9 _ hqo hqm]
            unfold DynPlan.usable
            simp only [planOf]
            cases hen : Mask.isEnabled (natsOf q.channel_mask._0) i with
            | error e => rfl
            | ok bb =>
              cases bb
              · simp only [Except.toOption, Option.bind_some, Bool.false_eq_true, if_false, bind, Except.bind, pure, Except.pure]
                cases (@Gen.PlanSelectFn.DynamicChannelPlan.get_random_in_range σ (rngOf g) q s') <;> rfl
              · simp only [Except.toOption, Option.bind_some, if_true, idx_nat, bind, Except.bind, List.getElem?_map]
                cases hch : q.channels[i]? with
                | none => rfl
                | some oc =>
                  cases oc with
                  | none =>
                    simp only [Option.map_some, Option.map_none, Option.bind_some, pure, Except.pure]
                    cases (@Gen.PlanSelectFn.DynamicChannelPlan.get_random_in_range σ (rngOf g) q s') <;> rfl
                  | some ch =>
                    obtain ⟨hf0, hf1⟩ := hqf ch (List.mem_of_getElem? hch)
                    simp only [Option.map_some, Option.bind_some, pure, Except.pure]
                    rw [show (regOf rs.id).datarates = datarates rs.id from rfl, idx_datarates]
                    have e1 : ch.frequency = (((chanOf ch).freq : Nat) : Int) := by
                      simp only [chanOf]; omega
                    have e0 : ch.ul_frequency = ch.frequency := rfl
                    have e2 : ch.rx1_frequency = (((chanOf ch).rx1Frequency : Nat) : Int) := by
                      simp only [Gen.PlanSelectFn.Channel.rx1_frequency, chanOf, Channel.rx1Frequency]
                      cases hdl : ch.dl_frequency with
                      | none => simp only [Option.map_none]; omega
                      | some f => have := hf1 f hdl; simp only [Option.map_some]; omega
                    simp only [e0, e2]
                    rw [e1]
                    cases (datarates rs.id)[dr.toInt.toNat]? with
                    | none => rfl
                    | some od => cases od <;> rfl
          cases hL : dynDataLoop g (planOf q) loopFuel s with
          | error e =>
            simp only [Except.toOption, Option.bind_none, Option.map_none]
            cases (datarates rs.id)[dr.toInt.toNat]? <;> rfl
          | ok o =>
            obtain ⟨c, s1⟩ := o
            cases (datarates rs.id)[dr.toInt.toNat]? with
            | none => rfl
            | some od =>
              cases od with
              | none => rfl
              | some d => simp [Except.toOption, unwrapDatarate, pure, Except.pure, txOf]
  · intro j hj
    show _ = _
    rw [bind_bind_id, is_enabled_nat9 _ hoct hml]
    unfold DynPlan.usable
    simp only [planOf]
    cases hen : Mask.isEnabled (natsOf p.channel_mask._0) j with
    | error e => rfl
    | ok b =>
      cases b
      · rfl
      · simp only [Except.toOption, Option.bind_some, if_true, idx_nat, bind, Except.bind, List.getElem?_map]
        cases p.channels[j]? with
        | none => rfl
        | some oc => cases oc <;> rfl

/-- **`DynamicChannelPlan::select_tx_channel` as the current source has it is the model's `selectTxChannel`** on a
dynamic plan: for every plan (16 slots, 9 mask octets), data rate, frame kind, generator and stream — the same
TxChannel, the same plan afterwards (the "never spin" fallback included), the same stream state; a failure
(panic, or the redraw loops using up `loopFuel` draws) on one side iff on the other -/
theorem tieA_dynamic_select_tx_channel {σ} (g : Rng σ) (rs : RegionState) (p : Gen.PlanSelectFn.DynamicChannelPlan)
    (hplan : rs.plan = .dyn (planOf p)) (hw : PlanWF p) (dr : DR) (frame : Gen.PlanSelectFn.Frame) (s : σ) :
    (@Gen.PlanSelectFn.DynamicChannelPlan.select_tx_channel (regOf rs.id) σ (rngOf g) (fuelOf loopFuel) p s dr frame).map
        (fun o => (txOf o.1, { rs with plan := .dyn (planOf o.2.1) }, o.2.2))
      = (selectTxChannel g rs dr (frameOf frame) s).toOption := by
  cases frame
  · exact dyn_join_tie g rs p hplan hw dr s
  · exact dyn_data_tie g rs p hplan hw dr s

#print axioms tieA_dynamic_select_tx_channel

theorem toOption_eq_some {α} {x : M α} {a : α} (h : x.toOption = some a) : x = .ok a := by
  cases x with
  | error e => cases h
  | ok b => cases h; rfl

/-- **`C09.selectTxChannel_legal` carried over to the regenerated method**: whatever the current source of
`DynamicChannelPlan::select_tx_channel` returns — for every well-formed plan, data rate, frame kind, generator and
stream — carries the region's data-rate entry for `tx.dr` and the frequency of a DEFINED channel of the plan it
leaves: a join channel for a join request, an ENABLED channel for a data frame; an uplink data rate stays one -/
theorem tieA_select_tx_channel_legal {σ} (g : Rng σ) (rs : RegionState) (p p' : Gen.PlanSelectFn.DynamicChannelPlan)
    (hplan : rs.plan = .dyn (planOf p)) (hw : PlanWF p) (hwf : regionWF rs = true) (dr : DR)
    (frame : Gen.PlanSelectFn.Frame) (s s' : σ) (tx : Gen.PlanSelectFn.TxChannel)
    (hsel : @Gen.PlanSelectFn.DynamicChannelPlan.select_tx_channel (regOf rs.id) σ (rngOf g) (fuelOf loopFuel) p s dr frame
      = some (tx, p', s')) :
    getDatarate rs.id tx.dr.toInt.toNat = some tx.datarate ∧
    ChannelLegal { rs with plan := .dyn (planOf p') } (frameOf frame) (txOf tx) ∧
    (isUplinkDatarate rs.id dr.toInt.toNat = true → isUplinkDatarate rs.id tx.dr.toInt.toNat = true) := by
  have h := tieA_dynamic_select_tx_channel g rs p hplan hw dr frame s
  rw [hsel, Option.map_some] at h
  have hm := toOption_eq_some h.symm
  obtain ⟨_, h2, h3, h4⟩ := selectTxChannel_legal g rs _ dr (frameOf frame) s s' (txOf tx) hwf hm
  exact ⟨h2, h3, h4⟩

/-! ## non-vacuity: EU868 with the three default channels, evaluated through the REGENERATED code -/

/-- a generator that counts: the k-th draw is k -/
def exGen : Rng Nat := fun n => (n, n + 1)

def exChan (f : Int) : Option Gen.PlanSelectFn.Channel := some { frequency := f, _datarates := ⟨0x50⟩, dl_frequency := none }

def exPlan : Gen.PlanSelectFn.DynamicChannelPlan :=
  { channels := [exChan 868100000, exChan 868300000, exChan 868500000] ++ List.replicate 13 none,
    channel_mask := ⟨List.replicate 9 255⟩ }

/-- the same plan with every channel masked off: the fallback re-enables the three default channels -/
def exPlanOff : Gen.PlanSelectFn.DynamicChannelPlan := { exPlan with channel_mask := ⟨List.replicate 9 0⟩ }

theorem exPlan_wf : PlanWF exPlan ∧ PlanWF exPlanOff := by
  refine ⟨⟨rfl, rfl, ?_, ?_⟩, ⟨rfl, rfl, ?_, ?_⟩⟩
  · intro x hx; have := (List.mem_replicate.mp hx).2; omega
  · intro c hc
    simp [exPlan, exChan] at hc
    rcases hc with h | h | h <;> subst h <;> exact ⟨by decide, by intro f hf; cases hf⟩
  · intro x hx; have := (List.mem_replicate.mp hx).2; omega
  · intro c hc
    simp [exPlanOff, exPlan, exChan] at hc
    rcases hc with h | h | h <;> subst h <;> exact ⟨by decide, by intro f hf; cases hf⟩

/-- join: draws 0,1,2,.. → index 0 → 868.1 MHz; data from draw 5: 5 & 7 = 5 undefined, 6, 7 undefined, 8 & 7 = 0 → 868.1 MHz
after four draws; all channels masked off: the mask afterwards has the three default channels (byte 0 = 7) -/
example :
    (@Gen.PlanSelectFn.DynamicChannelPlan.select_tx_channel (regOf .EU868) Nat (rngOf exGen) (fuelOf loopFuel) exPlan 0 DR._0 .Join).map
        (fun o => (o.1.frequency, o.2.2)) = some (868100000, 1) ∧
    (@Gen.PlanSelectFn.DynamicChannelPlan.select_tx_channel (regOf .EU868) Nat (rngOf exGen) (fuelOf loopFuel) exPlan 5 DR._3 .Data).map
        (fun o => (o.1.frequency, o.2.2)) = some (868100000, 9) ∧
    (@Gen.PlanSelectFn.DynamicChannelPlan.select_tx_channel (regOf .EU868) Nat (rngOf exGen) (fuelOf loopFuel) exPlanOff 1 DR._3 .Data).map
        (fun o => (o.1.frequency, o.2.1.channel_mask._0, o.2.2)) = some (868300000, [7, 0, 0, 0, 0, 0, 0, 0, 0], 2) ∧
    -- data rate 15 is not defined: the table lookup panics
    (@Gen.PlanSelectFn.DynamicChannelPlan.select_tx_channel (regOf .EU868) Nat (rngOf exGen) (fuelOf loopFuel) exPlan 0 DR._15 .Data) = none ∧
    -- a fuel of 3 steps is used up before the fourth draw (8 & 7 = 0) is looked at
    (@Gen.PlanSelectFn.DynamicChannelPlan.select_tx_channel (regOf .EU868) Nat (rngOf exGen) (fuelOf 3) exPlan 5 DR._3 .Data) = none := by
  decide +kernel

/-- the hypotheses of `tieA_select_tx_channel_legal` hold of the EU868 plan as `State::new` builds it -/
example : (RegionState.init .EU868).plan = .dyn (planOf exPlan) ∧ regionWF (RegionState.init .EU868) = true := by
  decide +kernel

#print axioms tieA_select_tx_channel_legal

/-- **never spins, on the regenerated code**: in every well-formed state and for every uplink data rate there is a
draw value (below 64) under which the CURRENT source of `DynamicChannelPlan::select_tx_channel` — both frame kinds,
the fallback to the default channels included — returns: no panic, and the redraw loops do not use up their fuel
(`C09.select_accept_nonempty` carried over) -/
theorem tieA_select_accept_nonempty (rs : RegionState) (p : Gen.PlanSelectFn.DynamicChannelPlan)
    (hplan : rs.plan = .dyn (planOf p)) (hw : PlanWF p) (hwf : regionWF rs = true) (dr : DR)
    (hdr : isUplinkDatarate rs.id dr.toInt.toNat = true) (frame : Gen.PlanSelectFn.Frame) :
    ∃ v, v < 64 ∧ ∀ {σ : Type} (s : σ),
      (@Gen.PlanSelectFn.DynamicChannelPlan.select_tx_channel (regOf rs.id) σ (rngOf (constGen v)) (fuelOf loopFuel) p s dr frame).isSome = true := by
  obtain ⟨v, hv, h⟩ := select_accept_nonempty rs dr (frameOf frame) hwf hdr
  refine ⟨v, hv, ?_⟩
  intro σ s
  obtain ⟨a, ha, _⟩ := h (σ := σ) s
  have ht := tieA_dynamic_select_tx_channel (constGen v) rs p hplan hw dr frame s
  rw [ha] at ht
  cases hsel : @Gen.PlanSelectFn.DynamicChannelPlan.select_tx_channel (regOf rs.id) σ (rngOf (constGen v)) (fuelOf loopFuel) p s dr frame with
  | none => rw [hsel] at ht; cases ht
  | some o => rfl

#print axioms tieA_select_accept_nonempty

end C09
