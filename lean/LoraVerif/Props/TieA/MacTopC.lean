import LoraVerif.Props.TieA.MacTop
/-!
# C04 / C07 / C11 — the dispatch of the MAC's state machine, regenerated (tie A)

The named theorems of `Props/TieA/MacTop.lean`.  Those that go through a `Session` / `Otaa` method carry the
hypothesis `Sim ops` (the record of operations behaves like the model's functions) and are therefore named
`…_partial`; the full statement — `ops` INSTANTIATED with the model's functions — is kept beside each.  What is
missing for it is a right inverse of `cfgM` on the configurations the model's functions return (the generated
configuration holds the data rate as the enum `DR`, the model's as a number: `cfgM` is not onto).
-/
set_option linter.unusedVariables false
open Model TieA.MacTop

namespace C07

/- Full statement (not proved): for `ops := modelOps` (the model's `sessionHandleRx`, `otaaAccept`, … carried back to
   the generated configuration), `Mac.handle_rx modelOps D g buf dl snr rf` mapped by `macM` = `macHandleRx (macM g) …`. -/
/-- **Tie A.**  `Mac::handle_rx` as the current source has it = the model's `macHandleRx` in a Class A window, for
every state, buffer (decoded view), downlink queue, SNR and window size: joined → the session's `handle_rx` with
`ignore_mac = false` on region, configuration and queue, the session written back; joining → the join step, and
`Joined(session)` with `JoinSuccess` iff it yields a session, else `NoUpdate` with the join state kept; unjoined →
`NoUpdate`, nothing changed.  A panic on one side iff on the other. -/
theorem tieA_mac_handle_rx_partial (ops : GOps) (h : Sim ops) (D : Int) (g : GMac) (buf : RxView)
    (dl : List (Nat × List Nat)) (snr : Int) (rf : Gen.MacTopFn.RfConfig) :
    (Gen.MacTopFn.Mac.handle_rx ops D g buf dl snr rf).map (fun (r, g', _, dl') => (r, macM g', dl'))
      = (macHandleRx (macM g) buf rf.max_payload_len.toNat snr false).toOption.bind
          (fun (o, m') => o.map (fun o => (respG o.resp, m', dl ++ o.downlink.toList))) :=
  handle_rx_tie ops h D g buf dl snr rf

/-- **Tie A.**  `Mac::handle_rxc` = the model's `macHandleRx` with `classC = true`: joined → the session's
`handle_rx` with `ignore_mac = true`; joining or unjoined → `Err(NotJoined)` (`none`) and NOTHING changed, whatever
was received. -/
theorem tieA_mac_handle_rxc_partial (ops : GOps) (h : Sim ops) (D : Int) (g : GMac) (buf : RxView)
    (dl : List (Nat × List Nat)) (snr : Int) (rf : Gen.MacTopFn.RfConfig) :
    (Gen.MacTopFn.Mac.handle_rxc ops D g buf dl snr rf).map (fun (r, g', _, dl') => (r, macM g', dl'))
      = (macHandleRx (macM g) buf rf.max_payload_len.toNat snr true).toOption.map
          (fun (o, m') => (o.map (fun o => respG o.resp), m', dl ++ (o.bind (·.downlink)).toList)) :=
  handle_rxc_tie ops h D g buf dl snr rf

/-- the hypothesis-free half of `handle_rxc`: without a session the regenerated method answers `Err(NotJoined)` and
returns the `Mac`, the buffer and the queue it was given — for EVERY record of operations -/
theorem tieA_mac_handle_rxc_not_joined (ops : GOps) (D : Int) (g : GMac) (buf : RxView) (dl : List (Nat × List Nat))
    (snr : Int) (rf : Gen.MacTopFn.RfConfig) (hn : Gen.MacTopFn.Mac.is_joined g = false) :
    Gen.MacTopFn.Mac.handle_rxc ops D g buf dl snr rf = some (none, g, buf, dl) := by
  obtain ⟨cfg, reg, eirp, st⟩ := g
  cases st with
  | Joined s => simp [Gen.MacTopFn.Mac.is_joined] at hn
  | Otaa o => rfl
  | Unjoined => rfl

end C07

namespace C04

/-- **Tie A.**  `Mac::rx2_complete` = the model's `macRx2Complete`: joined → the session's `rx2_complete` (session and
configuration written back); joining → `NoJoinAccept`, state kept; unjoined → `NoUpdate`. -/
theorem tieA_mac_rx2_complete_partial (ops : GOps) (h : Sim ops) (g : GMac) :
    (Gen.MacTopFn.Mac.rx2_complete ops g).map (fun (r, g') => (r, macM g'))
      = some (let (r, m') := macRx2Complete (macM g); (respG r, m')) :=
  rx2_complete_tie ops h g

/-- **Tie A.**  `Mac::get_fcnt_up`: the session's uplink counter iff joined -/
theorem tieA_mac_get_fcnt_up (g : GMac) :
    Gen.MacTopFn.Mac.get_fcnt_up g = (match (macM g).st with | .joined s => some (s.fcntUp : Int) | _ => none) :=
  get_fcnt_up_tie g

end C04

namespace C11

/-- **Tie A.**  `Mac::join_abp` = the model's `macJoinAbp`: from ANY state (also a joined one) the state becomes
`Joined(Session::new(..))`; configuration and region untouched. -/
theorem tieA_mac_join_abp_partial (ops : GOps) (h : Sim ops) (g : GMac) (nwk app addr : Nat) :
    macM (Gen.MacTopFn.Mac.join_abp ops g nwk app addr) = macJoinAbp (macM g) addr nwk app :=
  join_abp_tie ops h g nwk app addr

/-- **Tie A.**  `Mac::is_joined`: true exactly in `State::Joined` -/
theorem tieA_mac_is_joined (g : GMac) :
    Gen.MacTopFn.Mac.is_joined g = (match (macM g).st with | .joined _ => true | _ => false) :=
  is_joined_tie g

end C11

/-! Non-vacuity: the regenerated dispatch evaluated on a concrete record of operations (every session operation
answers `RxComplete` and bumps the counter; the join step yields a fresh session). -/
namespace TieA.MacTop.Example
def cfg0 : Gen.MacTopFn.Configuration :=
  { data_rate := ._0, rx1_delay := 1000, join_accept_delay1 := 5000, join_accept_delay2 := 6000, tx_power := none,
    rx1_dr_offset := 0, rx2_data_rate := none, rx2_frequency := none, adr_enabled := true }
def reg0 : RegionState := (MacState.init (Model.RegionState.init .EU868) 14 0).region
def ops0 : GOps :=
  { session_new := fun nwk app addr => Session.new addr nwk app
    session_prepare_buffer := fun s _ b _ _ => some ((s.fcntUp : Int), s, b)
    session_handle_rx := fun s r c b dl _ _ _ => some (.RxComplete, { s with fcntUp := s.fcntUp + 1 }, r, c, b, dl)
    session_rx2_complete := fun s c _ => some (.RxComplete, { s with fcntUp := s.fcntUp + 1 }, c)
    otaa_new := fun _ => { devNonce := 0 }
    otaa_prepare_buffer := fun o (r : Nat) b => some (7, { devNonce := 7 }, (r + 1 : Nat), b)
    otaa_handle_rx := fun o r c b => some (some (Session.new 1 2 3), o, r, c, b)
    otaa_rx2_complete := fun o => (.NoJoinAccept, o)
    create_tx_config := fun _ _ _ _ => none
    adjust_power := fun t _ _ => some t
    rx_windows := fun _ _ _ => none }
def g0 : GMac := { configuration := cfg0, region := reg0, board_eirp := ⟨14, 0⟩, state := .Unjoined }

example : (Gen.MacTopFn.Mac.handle_rxc ops0 8 g0 .garbage [] 0 ⟨51⟩).map (·.1) = some none := rfl
example : Gen.MacTopFn.Mac.is_joined (Gen.MacTopFn.Mac.join_abp ops0 g0 (2 : Nat) (3 : Nat) (1 : Nat)) = true := rfl
example : ((Gen.MacTopFn.Mac.rx2_complete ops0 (Gen.MacTopFn.Mac.join_abp ops0 g0 (2 : Nat) (3 : Nat) (1 : Nat))).map
    (fun x => Gen.MacTopFn.Mac.get_fcnt_up x.2)) = some (some 1) := rfl
example : ((Gen.MacTopFn.Mac.handle_rx ops0 8 { g0 with state := .Otaa ⟨5⟩ } .garbage [] 0 ⟨51⟩).map
    (fun x => (x.1, Gen.MacTopFn.Mac.is_joined x.2.1))) = some (.JoinSuccess, true) := rfl
end TieA.MacTop.Example

#print axioms C07.tieA_mac_handle_rx_partial
#print axioms C07.tieA_mac_handle_rxc_partial
#print axioms C07.tieA_mac_handle_rxc_not_joined
#print axioms C04.tieA_mac_rx2_complete_partial
#print axioms C04.tieA_mac_get_fcnt_up
#print axioms C11.tieA_mac_join_abp_partial
#print axioms C11.tieA_mac_is_joined
