import LoraVerif.Props.TieA.HandleMacsLoop
/-!
# Tie A: `Session::handle_rx` with the REGENERATED `handle_downlink_macs` (builder S)

`Props/TieA/HandleRx.lean` (builder N) proves the regenerated `Session::handle_rx` equal to the model's
`sessionHandleRx` for any `MacOps` whose `handle_downlink_macs` simulates the model's (`MacsOk`).  Here `MacOps` is
instantiated with the regenerated method itself (`Gen/SessionMacs.lean`) run on the commands the iterator yields for
the byte string (`iterOf`: the decoded commands of the well-formed prefix), and `MacsOk` is a THEOREM for every
command stream of octets (`genOps_ok`, from `C08.tieA_handle_downlink_macs`).  `handle_rx_full` is then
`tieA_handle_rx_accept` with no simulation hypothesis.

Still abstract: `next_lower_datarate` (the model's), the region's methods (the model's), the iterator
(`parse_downlink_mac_commands` = `parseDownlinkCmds` + `decCmd`: a command is what its payload accessors yield; the
byte-level parser is C03's subject), parsing / MIC / decryption of the frame (inputs).
-/
set_option linter.unusedSimpArgs false
set_option linter.unusedVariables false
namespace TieA.Rx.Full
open Model Gen.Region TieA.Rx TieA.Macs

/-- every command stream: octets, shorter than `i32::MAX` bytes (the loop counts LinkADRReq commands in an `i32`) -/
def Stream (bytes : List Int) : Prop := (∀ b ∈ bytes, 0 ≤ b ∧ b ≤ 255) ∧ bytes.length < 2147483647

/-- what `parse_downlink_mac_commands(bytes).filter_map(Result::ok)` yields: the decoded commands of the well-formed prefix -/
def iterOf (bytes : List Int) : List (Option Gen.SessionMacs.DownlinkMacCommand) :=
  (parseDownlinkCmds (bytes.length + 1) (natsOf bytes)).map (some ∘ decCmd)

/-- `MacOps` with the regenerated `handle_downlink_macs`; `next_lower_datarate` from the model's tables -/
@[instance_reducible] def genOps : Gen.SessionRx.MacOps RegionState where
  next_lower rs dr := (nextLowerDatarate rs.id dr.toInt.toNat).map drOfNatT
  handle_downlink_macs gs g rs b snr full := Gen.SessionMacs.Session.handle_downlink_macs gs g rs (iterOf b.bytes) snr full

/-- the commands of the well-formed prefix of a stream of octets are well-formed, and not more than the bytes -/
theorem parse_wf : ∀ (fuel : Nat) (l : List Nat), (∀ b ∈ l, b < 256) →
    (∀ x ∈ parseDownlinkCmds fuel l, WfCmd x) ∧ (parseDownlinkCmds fuel l).length ≤ l.length := by
  intro fuel
  induction fuel with
  | zero => intro l _; simp [parseDownlinkCmds]
  | succ fuel ih =>
    intro l ho
    match l, ho with
    | [], _ => simp [parseDownlinkCmds]
    | cid :: rest, ho =>
      simp only [parseDownlinkCmds]
      cases hc : downlinkCmdLen cid with
      | none => simp
      | some n =>
        simp only []
        by_cases hlt : rest.length < n
        · simp [hlt]
        · simp only [hlt, if_false]
          have hd : ∀ b ∈ rest.drop n, b < 256 := fun b hb => ho b (by simp [List.mem_of_mem_drop hb])
          obtain ⟨h1, h2⟩ := ih (rest.drop n) hd
          refine ⟨?_, ?_⟩
          · intro x hx
            simp only [List.mem_cons] at hx
            rcases hx with rfl | hx
            · refine ⟨?_, ?_⟩
              · simp only [hc, List.length_take]; congr 1; omega
              · intro b hb; exact ho b (by simp [List.mem_of_mem_take hb])
            · exact h1 x hx
          · simp only [List.length_cons, List.length_drop] at h2 ⊢
            omega

theorem natsOf_lt (bytes : List Int) (h : ∀ b ∈ bytes, 0 ≤ b ∧ b ≤ 255) : ∀ b ∈ natsOf bytes, b < 256 := by
  intro b hb
  simp only [natsOf, List.mem_map] at hb
  obtain ⟨a, ha, rfl⟩ := hb
  have := h a ha
  omega

/-- builder S — `MacsOk` is a theorem for the regenerated `handle_downlink_macs` on every command stream of octets -/
theorem genOps_ok : @NextLowerOk genOps ∧ @MacsOk genOps Stream := by
  refine ⟨fun _ _ => rfl, ?_⟩
  intro gs g rs bytes snr full hS hq
  obtain ⟨ho, hlen⟩ := hS
  have hl : (natsOf bytes).length = bytes.length := by simp [natsOf]
  obtain ⟨hw, hn⟩ := parse_wf (bytes.length + 1) (natsOf bytes) (natsOf_lt bytes ho)
  have h := handle_macs_tie snr (parseDownlinkCmds (bytes.length + 1) (natsOf bytes)) hw gs g rs full hq (by omega)
  simp only [handleDownlinkMacs, hl]
  exact h

/-- builder S — `Session::handle_rx` with the regenerated `handle_downlink_macs` inside is the model's
`sessionHandleRx`: `tieA_handle_rx_accept` with `S` := every command stream and NO simulation hypothesis (builder X: for a downlink-typed
frame, `hup`; uplink-typed frames: `TieA.Rx.handle_rx_uplink_typed`, instance-independent; builder Y: carrying the
session's DevAddr if it fits, `haddr`; frames addressed to another device: `TieA.Rx.handle_rx_other_devaddr`, instance-independent) -/
theorem handle_rx_full (D : Int) (gs : Gen.SessionRx.Session) (rs : RegionState) (g : Gen.SessionRx.Configuration)
    (rx : Gen.SessionRx.RadioBuffer) (dl : List Gen.SessionRx.Downlink) (maxp snr : Int) (ign : Bool)
    (e : Gen.SessionRx.EncryptedDataPayload)
    (hparse : rx.as_mut_for_read.parse = some e) (hup : e.is_uplink = false)
    (haddr : ¬ (e.as_bytes.length : Int) > maxp + 5 → e.fhdr.dev_addr = gs.devaddr)
    (hw : SessWF gs) (hmax : 0 ≤ maxp ∧ maxp ≤ 255) (hwire : 0 ≤ e.fhdr.fcnt)
    (hdec : ∀ f, Gen.SessionRx.next_fcnt_down gs.fcnt_down e.fhdr.fcnt = some f → e.validate_mic (nwkOf gs) f = true →
      ∃ d, rx.as_mut_for_read.decrypt_in_place (some (nwkOf gs)) (some (appOf gs)) f = some d ∧ DecWF Stream d) :
    (@Gen.SessionRx.Session.handle_rx RegionState genOps D gs rs g rx dl maxp snr ign).bind
        (fun out => (respOf out.1).map (fun r => (r, sessOf out.2.1, out.2.2.1, cfgOf out.2.2.2.1, out.2.2.2.2.2.map dlOf)))
      = (sessionHandleRx (sessOf gs) (cfgOf g) rs (dataOf gs e (decOf gs rx e)) maxp.toNat snr ign).toOption.map (expect dl D) :=
  @tieA_handle_rx_accept genOps Stream genOps_ok.1 genOps_ok.2 D gs rs g rx dl maxp snr ign e hparse hup haddr hw hmax hwire hdec

/-! ## non-vacuity: a frame whose FOpts carry a LinkADRReq (mask 0x0007, DR5, power 1) and a DevStatusReq -/

def exEnc : Gen.SessionRx.EncryptedDataPayload :=
  ⟨List.replicate 22 0, true, ⟨5, [3, 0x51, 0x07, 0x00, 0x00, 6], ⟨99⟩⟩, fun c f => c.key.id == 11 && f == 5, false⟩
def exDec : Gen.SessionRx.DecryptedDataPayload := ⟨⟨5, [3, 0x51, 0x07, 0x00, 0x00, 6], ⟨99⟩⟩, some 7, .Data [1, 2, 3]⟩
def exRx : Gen.SessionRx.RadioBuffer := ⟨⟨some exEnc, fun _ _ f => if f = 5 then some exDec else none⟩⟩

/-- the regenerated `handle_rx` with the regenerated `handle_downlink_macs` on the model's EU868 region: the frame is
accepted, the old answer is replaced by `LinkADRAns(0b111)` and `DevStatusAns(255, 3)`, DR5 and 14 dBm are in force -/
example :
    (@Gen.SessionRx.Session.handle_rx RegionState genOps 4 exSess (RegionState.init .EU868) exCfg exRx [] 250 3 false).map
      (fun out => (out.1, out.2.1.uplink.pending, out.2.2.2.1.data_rate, out.2.2.2.1.tx_power))
      = some (.DownlinkReceived 5, [3, 7, 6, 255, 3], DR._5, some 14) := by
  rfl

/-- every hypothesis of `handle_rx_full` holds on that input -/
example :
    (@Gen.SessionRx.Session.handle_rx RegionState genOps 4 exSess (RegionState.init .EU868) exCfg exRx [] 250 3 false).bind
        (fun out => (respOf out.1).map (fun r => (r, sessOf out.2.1, out.2.2.1, cfgOf out.2.2.2.1, out.2.2.2.2.2.map dlOf)))
      = (sessionHandleRx (sessOf exSess) (cfgOf exCfg) (RegionState.init .EU868) (dataOf exSess exEnc (decOf exSess exRx exEnc))
          (250 : Int).toNat 3 false).toOption.map (expect [] 4) := by
  have hf5 : Gen.SessionRx.next_fcnt_down exSess.fcnt_down exEnc.fhdr.fcnt = some 5 := by decide
  refine handle_rx_full 4 exSess (RegionState.init .EU868) exCfg exRx [] 250 3 false exEnc rfl rfl (fun _ => rfl) ?_ (by omega) (by decide) ?_
  · refine ⟨by decide, by decide, by decide, by decide, ?_⟩
    intro f hf
    have : f = 4 := by simpa [exSess] using hf.symm
    omega
  · intro f hf _
    rw [hf5] at hf
    obtain rfl : (5 : Int) = f := by simpa using hf
    refine ⟨exDec, rfl, ?_, ⟨?_, by decide⟩, [1, 2, 3], by decide, ?_, rfl⟩
    · intro p hp
      have : p = 7 := by simpa [exDec] using hp.symm
      omega
    · intro b hb
      simp [exDec] at hb
      omega
    · intro h; simp [exDec] at h

#print axioms genOps_ok
#print axioms handle_rx_full
end TieA.Rx.Full
