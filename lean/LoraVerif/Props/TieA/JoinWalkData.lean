import LoraVerif.Props.TieA.JoinWalk
set_option linter.unusedSimpArgs false
set_option linter.unusedVariables false
namespace C09
open Model Gen.Region Gen.Modulation TieA.Select TieA.CMask

/-- **a data frame of a fixed plan after the bias, preferred sub-band usable** (PARTIAL of `tieA_fixed_select_data`): no bias
in force, `first_data_channel` proposes a channel, the mask enables it and the requested data rate is a 125 kHz one:
the regenerated method (regenerated walk plugged in, not called on this path) is the model's — that channel at the
requested data rate, bias cleared.  Missing for the full statement: the two bandwidth groups (re-enabling + redraw). -/
theorem tieA_fixed_select_data_pref_partial {σ} (g : Rng σ) (rs : RegionState) (p : Gen.PlanSelectFn.FixedChannelPlan)
    (hplan : rs.plan = .fix (fixOf p)) (hj : JcWF p.join_channels) (hm : MaskWF p) (dr : DR) (s : σ)
    (hb : (jcOf p.join_channels).hasBiasAndNotExhausted = false)
    (ch : Nat) (jc' : JoinChannels) (s1 : σ) (d : Datarate)
    (hfd : (jcOf p.join_channels).firstDataChannel g s = (some ch, jc', s1))
    (hen : Mask.isEnabled (natsOf p.channel_mask._0) ch = .ok true)
    (hd : (datarates rs.id)[dr.toInt.toNat]? = some (some d)) (hbw : d.bandwidth = Bandwidth._125KHz) :
    (@Gen.PlanSelectFn.FixedChannelPlan.select_tx_channel σ (rngOf g) (fuelOf loopFuel) (fregOf rs.id) (walkOps g) p s dr .Data).map
        (fun o => (txOf o.1, { rs with plan := .fix (fixOf o.2.1) }, o.2.2))
      = (selectTxChannel g rs dr .data s).toOption := by
  obtain ⟨hml, hoct⟩ := hm
  have hb' := tieA_has_bias_and_not_exhausted p.join_channels hj
  rw [hb] at hb'
  obtain ⟨o, ho, hoe, hob, hojw, hoa⟩ := tieA_first_data_channel g p.join_channels hj s
  rw [hfd] at hoe
  obtain ⟨o1, o2, o3⟩ := o
  simp only [Prod.mk.injEq] at hoe
  obtain ⟨e1, e2, e3⟩ := hoe
  cases o1 with
  | none => simp at e1
  | some c =>
    simp only [Option.map_some, Option.some.injEq] at e1
    obtain ⟨c0, c1⟩ := hob c rfl
    have hcn : c = ((ch : Nat) : Int) := by omega
    subst hcn
    have hie := is_enabled_nat9 p.channel_mask hoct hml ch
    unfold Gen.PlanSelectFn.FixedChannelPlan.select_tx_channel selectTxChannel
    simp only [hplan, Option.bind_eq_bind, Option.pure_def, fixOf, hb, hb', Bool.false_eq_true, if_false, ho, Option.bind_some,
      bind_bind_id, hie, hen, toOption_ok, hfd]
    simp only [if_true, show (fregOf rs.id).datarates = datarates rs.id from rfl, idx_datarates, hd, Option.bind_some,
      Option.map_some, hbw, beq_self_eq_true]
    have hidx : indexDatarate rs.id dr.toInt.toNat = .ok (some d) :=
      toOption_eq_some (by rw [indexDatarate_opt]; exact hd)
    subst e3
    subst e2
    simp only [pure, Except.pure, ok_bind, hidx, unwrapDatarate, hfd, hen, hbw, beq_self_eq_true, Bool.and_self, id,
      Option.bind_some, show (fregOf rs.id).uplink_channels = uplinkChannels rs.id from rfl,
      show (fregOf rs.id).downlink_channels = downlinkChannels rs.id from rfl, idx_nat, rem8_u8 _ c0 (by omega), Int.toNat_natCast]
    cases (uplinkChannels rs.id)[ch]? with
    | none => rfl
    | some f =>
      cases (downlinkChannels rs.id)[ch % 8]? with
      | none => rfl
      | some f1 => rfl

/-- the hypotheses are satisfiable: US915 after a biased join on channel 13 (bias exhausted: one try of one), stream at 6:
`first_data_channel` proposes channel 14 of the same sub-band, the default mask enables it, DR0 is a 125 kHz rate -/
example :
    (jcOf (exJc 1 13)).hasBiasAndNotExhausted = false ∧
    (jcOf (exJc 1 13)).firstDataChannel exGen 6 = (some 14, (jcOf (exJc 1 13)).clearBias, 7) ∧
    (Mask.isEnabled (natsOf (List.replicate 9 255)) 14).toOption = some true ∧
    (((datarates .US915)[DR._0.toInt.toNat]?).bind id).map (fun d => d.bandwidth) = some Bandwidth._125KHz := by
  refine ⟨?_, ?_, ?_, ?_⟩ <;> decide +kernel

#print axioms tieA_fixed_select_data_pref_partial

/-- legality of whatever a regenerated fixed-plan selection returns, from its tie to the model (`C09.selectTxChannel_legal`) -/
theorem fixed_legal_of_tie {σ} (g : Rng σ) (rs : RegionState) (dr : DR) (fk : FrameKind) (s s' : σ)
    (tx : Gen.PlanSelectFn.TxChannel) (p' : Gen.PlanSelectFn.FixedChannelPlan)
    (x : Option (Gen.PlanSelectFn.TxChannel × Gen.PlanSelectFn.FixedChannelPlan × σ))
    (h : x.map (fun o => (txOf o.1, { rs with plan := .fix (fixOf o.2.1) }, o.2.2)) = (selectTxChannel g rs dr fk s).toOption)
    (hwf : regionWF rs = true) (hsel : x = some (tx, p', s')) :
    getDatarate rs.id tx.dr.toInt.toNat = some tx.datarate ∧
    ChannelLegal { rs with plan := .fix (fixOf p') } fk (txOf tx) ∧
    (isUplinkDatarate rs.id dr.toInt.toNat = true → isUplinkDatarate rs.id tx.dr.toInt.toNat = true) := by
  rw [hsel, Option.map_some] at h
  have hm := toOption_eq_some h.symm
  obtain ⟨_, h2, h3, h4⟩ := selectTxChannel_legal g rs _ dr fk s s' (txOf tx) hwf hm
  exact ⟨h2, h3, h4⟩

/-- **C09's legality carried over to the regenerated fixed-plan method, data frames** (PARTIAL: the two cases tied so
far — under the bias with the biased channel enabled; after the bias with the preferred channel usable) -/
theorem tieA_fixed_select_data_legal_partial {σ} (g : Rng σ) (rs : RegionState) (p p' : Gen.PlanSelectFn.FixedChannelPlan)
    (hplan : rs.plan = .fix (fixOf p)) (hw : WalkWF p.join_channels) (hm : MaskWF p) (hwf : regionWF rs = true) (dr : DR)
    (s s' : σ) (tx : Gen.PlanSelectFn.TxChannel)
    (hcase :
      ((jcOf p.join_channels).hasBiasAndNotExhausted = true ∧
        ∀ ch jc' s1, (jcOf p.join_channels).getNextChannel g s = .ok (ch, jc', s1) →
          Mask.isEnabled (natsOf p.channel_mask._0) ch ≠ .ok false) ∨
      ((jcOf p.join_channels).hasBiasAndNotExhausted = false ∧
        ∃ ch jc' s1 d, (jcOf p.join_channels).firstDataChannel g s = (some ch, jc', s1) ∧
          Mask.isEnabled (natsOf p.channel_mask._0) ch = .ok true ∧
          (datarates rs.id)[dr.toInt.toNat]? = some (some d) ∧ d.bandwidth = Bandwidth._125KHz))
    (hsel : @Gen.PlanSelectFn.FixedChannelPlan.select_tx_channel σ (rngOf g) (fuelOf loopFuel) (fregOf rs.id) (walkOps g) p s dr .Data
      = some (tx, p', s')) :
    getDatarate rs.id tx.dr.toInt.toNat = some tx.datarate ∧
    ChannelLegal { rs with plan := .fix (fixOf p') } .data (txOf tx) ∧
    (isUplinkDatarate rs.id dr.toInt.toNat = true → isUplinkDatarate rs.id tx.dr.toInt.toNat = true) := by
  rcases hcase with ⟨hb, hen⟩ | ⟨hb, ch, jc', s1, d, hfd, hen, hd, hbw⟩
  · exact fixed_legal_of_tie g rs dr .data s s' tx p' _ (tieA_fixed_select_data_biased g rs p hplan hw hm dr s hb hen) hwf hsel
  · exact fixed_legal_of_tie g rs dr .data s s' tx p' _
      (tieA_fixed_select_data_pref_partial g rs p hplan hw.1 hm dr s hb ch jc' s1 d hfd hen hd hbw) hwf hsel

#print axioms tieA_fixed_select_data_legal_partial

end C09
