import LoraVerif.Props.TieA.MacRf
import LoraVerif.Props.C05Size
/-!
# C05 / C10 — the RF configuration of the receive windows, regenerated (tie A)

The named theorems of `Props/TieA/MacRf.lean`, and `C05.window_limit_rp002` transported to the regenerated
`Mac::build_rf_config`: whatever window the CURRENT source hands out, its size limit is RP002's maximum for the
spreading factor and bandwidth the window is opened at.
-/
set_option linter.unusedVariables false
open Model Gen.Modulation Gen.Region TieA.MacRf

namespace C05

/-- **Tie A.**  `Mac::build_rf_config` as the current source has it = the model's `buildRfConfig`, for every state
related by `Rel` (region = the model's lookups, configuration mapped by the total map `cfgM`), every frequency,
data rates and window: the data rate's entry, else the fallback to the RX2 rate computed with the stored
RX1DROffset, else the `unwrap` panic — a panic on one side iff on the other; frequency, SF, bandwidth and size
limit of the result equal. -/
theorem tieA_build_rf_config (g : Gen.MacRfFn.Mac) (m : MacState) (cr : CodingRate) (h : Rel g m cr)
    (freq : Int) (dr txdr : DR) (w : Window) :
    (Gen.MacRfFn.Mac.build_rf_config g freq dr txdr w).map rfM = (buildRfConfig m freq.toNat dr txdr).toOption :=
  build_tie g m cr h freq dr txdr w

/-- **Tie A.**  `Mac::rx2_rf_config` = the model's `rx2RfConfig`: the stored RX2 frequency / data rate when set
(RXParamSetupReq, join accept), else the region's default frequency and the region's RX2 rate for the uplink's
data rate (looked up only then). -/
theorem tieA_rx2_rf_config (g : Gen.MacRfFn.Mac) (m : MacState) (cr : CodingRate) (h : Rel g m cr) (txdr : DR) :
    (Gen.MacRfFn.Mac.rx2_rf_config g txdr).map rfM = (rx2RfConfig m txdr).toOption :=
  rx2_tie g m cr h txdr

/-- **Tie A.**  `Mac::get_rxc_config` = the model's `macRxcConfig`: the RX2 configuration for the current data
rate, continuous mode. -/
theorem tieA_get_rxc_config (g : Gen.MacRfFn.Mac) (m : MacState) (cr : CodingRate) (h : Rel g m cr) :
    (Gen.MacRfFn.Mac.get_rxc_config g).map (fun c => (rfM c.rf, c.mode))
      = (macRxcConfig m).toOption.map (fun r => (r, .Continuous)) :=
  rxc_tie g m cr h

/-- `window_limit_rp002` of the REGENERATED function: every window `Mac::build_rf_config` hands out is limited to
RP002's maximum MACPayload size for the spreading factor and bandwidth it is opened at -/
theorem tieA_window_limit_rp002 (g : Gen.MacRfFn.Mac) (m : MacState) (cr : CodingRate) (h : Rel g m cr)
    (freq : Int) (dr txdr : DR) (w : Window) (r : Gen.MacRfFn.RfConfig)
    (hr : Gen.MacRfFn.Mac.build_rf_config g freq dr txdr w = some r) :
    Spec.Regional.maxM (specName m.region.id) r.bb.sf.factor r.bb.bw.hz = some r.max_payload_len := by
  have := tieA_build_rf_config g m cr h freq dr txdr w
  rw [hr] at this
  cases hb : buildRfConfig m freq.toNat dr txdr with
  | error e => rw [hb] at this; simp [Except.toOption] at this
  | ok r' =>
    rw [hb] at this
    simp only [Option.map_some, Except.toOption, Option.some.injEq] at this
    have := window_limit_rp002 m freq.toNat dr txdr r' hb
    subst_vars
    exact this

/-- **Tie A.**  `Mac::rx_windows` = the model's `rxWindows`: RX1 on the frequency paired with the channel actually
transmitted on, at the region's RX1 rate for the uplink's data rate and the stored RX1DROffset; RX2 by
`rx2_rf_config`. -/
theorem tieA_rx_windows (g : Gen.MacRfFn.Mac) (m : MacState) (cr : CodingRate) (h : Rel g m cr) (t : Gen.MacRfFn.TxChannel) :
    (Gen.MacRfFn.Mac.rx_windows g t).map (fun w => (rfM w.rx1, rfM w.rx2)) = (rxWindows m (txM t)).toOption :=
  windows_tie g m cr h t

/-! ## non-vacuity -/

/-- a freshly initialised EU868 device, as the generated methods see it -/
def exMac : Gen.MacRfFn.Mac :=
  { configuration :=
      { data_rate := DR._0, rx1_delay := 1000, join_accept_delay1 := 5000, join_accept_delay2 := 6000,
        tx_power := none, rx1_dr_offset := 0, rx2_data_rate := none, rx2_frequency := none, adr_enabled := true },
    region := regOf RegionId.EU868 CodingRate._4_5 }

example : Rel exMac (MacState.init (RegionState.init .EU868) 22 0) CodingRate._4_5 := ⟨rfl, rfl⟩

/-- RX1 at DR5 on 868.1 MHz: SF7/125 kHz, 250 octets; DR8 is undefined in EU868: the fallback to the RX2 rate DR0
(SF12, 59 octets); RX2 default: 869.525 MHz at DR0; with the overrides of an RXParamSetupReq: 868.5 MHz at DR3 -/
example :
    (Gen.MacRfFn.Mac.build_rf_config exMac 868100000 ._5 ._5 ._1).map rfM = some ⟨868100000, 7, 125000, 250⟩ ∧
    (Gen.MacRfFn.Mac.build_rf_config exMac 868100000 ._8 ._5 ._1).map rfM = some ⟨868100000, 12, 125000, 59⟩ ∧
    (Gen.MacRfFn.Mac.rx2_rf_config exMac ._5).map rfM = some ⟨869525000, 12, 125000, 59⟩ ∧
    (Gen.MacRfFn.Mac.rx2_rf_config { exMac with configuration := { exMac.configuration with
        rx2_data_rate := some ._3, rx2_frequency := some 868500000 } } ._5).map rfM = some ⟨868500000, 9, 125000, 123⟩ ∧
    (Gen.MacRfFn.Mac.get_rxc_config exMac).map (fun c => (rfM c.rf, c.mode)) = some (⟨869525000, 12, 125000, 59⟩, .Continuous) ∧
    (Gen.MacRfFn.Mac.rx_windows exMac ⟨⟨._125KHz, ._7, 250, 250⟩, ._5, 868300000, 868300000⟩).map (fun w => (rfM w.rx1, rfM w.rx2))
      = some (⟨868300000, 7, 125000, 250⟩, ⟨869525000, 12, 125000, 59⟩) := by
  decide

end C05

#print axioms C05.tieA_build_rf_config
#print axioms C05.tieA_rx2_rf_config
#print axioms C05.tieA_get_rxc_config
#print axioms C05.tieA_window_limit_rp002
#print axioms C05.tieA_rx_windows
