import LoraVerif.Props.TieA.HandleMacs
import LoraVerif.Props.TieA.PlanMask
/-!
# The region method of `handle_downlink_macs` is the regenerated one (C08)

`C08.tieA_handle_downlink_macs` (`Props/TieA/HandleMacsLoop.lean`) is proved with the region's methods abstract,
instantiated with the model's (`TieA.Macs.modelOps`).  For `channel_mask_update` — the method each LinkADRReq of a
block calls on the working copy of the mask — that instance IS the regenerated code: the regenerated
`FixedChannelPlan::channel_mask_update` on a region with a fixed plan, the regenerated
`DynamicChannelPlan::channel_mask_update` on a region with a dynamic plan (the `region_dispatch!` macro that selects
the plan by the region stays trusted through the correspondence).
-/
set_option linter.unusedVariables false
namespace C08
open Model TieA.CMask TieA.Macs
open Gen.ChannelMaskFn Gen.PlanMaskFn

theorem tieA_region_channel_mask_update (rs : RegionState) (m : Gen.SessionMacs.ChannelMask) (hm : Octets m.bytes)
    (cntl : Int) (hc0 : 0 ≤ cntl) (hc1 : cntl ≤ 255)
    (b0 b1 : Int) (hb0 : 0 ≤ b0 ∧ b0 ≤ 255) (hb1 : 0 ≤ b1 ∧ b1 ≤ 255) :
    Gen.SessionMacs.MacRegionOps.channel_mask_update rs m cntl ⟨[b0, b1]⟩
      = (match rs.plan with
          | .fix _ => FixedChannelPlan.channel_mask_update ⟨⟩ ⟨m.bytes⟩ cntl ⟨[b0, b1]⟩
          | .dyn _ => DynamicChannelPlan.channel_mask_update ⟨⟩ ⟨m.bytes⟩ cntl ⟨[b0, b1]⟩).map
        fun (r : Option Unit × ChannelMask) => (r.1, (⟨r.2._0⟩ : Gen.SessionMacs.ChannelMask)) := by
  have hpost : ∀ r : Option Mask,
      (match r with | some m' => (some (), maskOf m') | none => (none, m) : Option Unit × Gen.SessionMacs.ChannelMask)
        = (fun r : Option Unit × ChannelMask => (r.1, (⟨r.2._0⟩ : Gen.SessionMacs.ChannelMask)))
            (match r with | some m' => (some (), (⟨m'.map Int.ofNat⟩ : ChannelMask)) | none => (none, ⟨m.bytes⟩)) := by
    intro r; cases r <;> rfl
  cases hp : rs.plan with
  | fix p =>
    simp only []
    rw [C11.tieA_fixed_channel_mask_update rs p hp ⟨⟩ ⟨m.bytes⟩ hm cntl hc0 hc1 b0 b1 hb0 hb1, Option.map_map]
    show (channelMaskUpdate rs (TieA.Rx.natsOf m.bytes) cntl.toNat b0.toNat b1.toNat).toOption.map _ = _
    congr 1
    funext r
    exact hpost r
  | dyn p =>
    simp only []
    rw [C11.tieA_dynamic_channel_mask_update rs p hp ⟨⟩ ⟨m.bytes⟩ hm cntl hc0 hc1 b0 b1 hb0 hb1, Option.map_map]
    show (channelMaskUpdate rs (TieA.Rx.natsOf m.bytes) cntl.toNat b0.toNat b1.toNat).toOption.map _ = _
    congr 1
    funext r
    exact hpost r

#print axioms tieA_region_channel_mask_update
end C08
