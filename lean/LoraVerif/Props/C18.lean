import LoraVerif.Model.PhyRx
import LoraVerif.Spec.RxFetch
/-!
# C18 — reading a received packet never overruns the caller's buffer

Theorems about `Model.PhyRx` (the hand model of `get_rx_payload` of both drivers, of `RadioBuffer`
and of the adapter's hand-over), tied to the code by the C18 correspondence suite.
All statements quantify over every chip report (status, length, offset, memory content), every
caller buffer (any size, any content), both header modes and an I/O fault at any step.
-/
open Model.PhyRx

namespace C18

/-! ### what the chip clocks out -/

theorem chipRead_length (mem : Nat → UInt8) (off n : Nat) : (chipRead mem off n).length = n := by
  simp [chipRead]

/-- byte `i` of a chip read is the chip memory at `off + i`, wrapping at 256 -/
theorem chipRead_getElem? (mem : Nat → UInt8) (off n i : Nat) :
    (chipRead mem off n)[i]? = if i < n then some (mem ((off + i) % 256)) else none := by
  simp only [chipRead, List.getElem?_map]
  by_cases h : i < n <;> simp [h]

/-- the post-condition the property demands of a fetch into `buf` of the `n` bytes at `off` of `mem` -/
structure Fetched (mem : Nat → UInt8) (off n : Nat) (buf : Bytes) (r : Res) : Prop where
  /-- the function returns, it does not panic -/
  no_panic : ∀ s, r.out ≠ .panic s
  /-- `Ok(m)`: `m` is the reported length, it fits, the first `m` bytes are the chip's, the rest is untouched -/
  ok : ∀ m, r.out = .ok m →
    m = n ∧ m ≤ buf.length ∧ r.buf.take m = chipRead mem off m ∧ r.buf.drop m = buf.drop m
  /-- in every case (also `Err`) the caller's slice is either untouched or holds exactly the fetched image -/
  image : r.buf = buf ∨ (n ≤ buf.length ∧ r.buf = chipRead mem off n ++ buf.drop n)

theorem Fetched.same_length {mem off n buf r} (h : Fetched mem off n buf r) : r.buf.length = buf.length := by
  rcases h.image with h | ⟨hle, h⟩
  · rw [h]
  · rw [h]; simp [chipRead_length]; omega

/-- an early `return Err(..)` before anything was read -/
private theorem fetched_early (mem : Nat → UInt8) (off n : Nat) (buf : Bytes) (e : RadioErr) :
    Fetched mem off n buf ⟨.err e, buf⟩ := ⟨by simp, by simp, .inl rfl⟩

private theorem take_read (mem : Nat → UInt8) (off n : Nat) (rest : Bytes) :
    (chipRead mem off n ++ rest).take n = chipRead mem off n :=
  List.take_left' (chipRead_length mem off n)

private theorem drop_read (mem : Nat → UInt8) (off n : Nat) (rest : Bytes) :
    (chipRead mem off n ++ rest).drop n = rest :=
  List.drop_left' (chipRead_length mem off n)

/-- the guarded burst read: when the length check passed, the slice expression cannot panic and the
bytes land in the first `n` positions only -/
theorem readInto_fetched (mem : Nat → UInt8) (off n : Nat) (fault : Option Nat) (s : Nat) (site : String)
    (buf : Bytes) (h : n ≤ buf.length) : Fetched mem off n buf (readInto mem off n fault s site buf) := by
  unfold readInto
  simp only [sliceTo, h, if_true]
  split
  · exact fetched_early ..
  · split
    · exact ⟨by simp, by simp, .inr ⟨h, rfl⟩⟩
    · exact ⟨by simp, by intro m hm; simp at hm; subst hm; simp [take_read, drop_read, h], .inr ⟨h, rfl⟩⟩

/-- without the length check the same read panics: the check is what the property rests on -/
theorem readInto_unguarded_panics (mem : Nat → UInt8) (off n : Nat) (fault : Option Nat) (s : Nat) (site : String)
    (buf : Bytes) (h : buf.length < n) : (readInto mem off n fault s site buf).out = .panic site := by
  simp [readInto, sliceTo, Nat.not_le.mpr h]

/-! ### SX126x -/

/-- the length the SX126x driver uses: the chip's payload-length register in implicit-header mode -/
def len126 (c : Chip126) (implicit : Bool) : Nat := if implicit then c.regPayloadLen.toNat else c.rxLen.toNat

/-- **C18, SX126x.**  Whatever status, length, offset and memory content the chip reports, whatever
the caller's buffer, header mode and I/O fault: no panic; `Ok(n)` ⇒ `n` = reported (implicit header:
configured) length ≤ buffer size, the first `n` bytes are the chip's bytes at the reported position
(wrapping at 256) and the rest of the buffer is untouched. -/
theorem get_rx_payload_safe_sx126x (c : Chip126) (implicit : Bool) (fault : Option Nat) (buf : Bytes) :
    Fetched c.buffer c.rxStart.toNat (len126 c implicit) buf (getRxPayload126 c implicit fault buf) := by
  cases implicit <;> simp only [getRxPayload126, len126, Bool.false_eq_true, if_false, if_true]
  · split
    · exact fetched_early ..
    · split
      · exact fetched_early ..
      · split
        · exact fetched_early ..
        · exact readInto_fetched _ _ _ _ _ _ _ (Nat.le_of_not_gt ‹_›)
  · split
    · exact fetched_early ..
    · split
      · exact fetched_early ..
      · split
        · exact fetched_early ..
        · split
          · exact fetched_early ..
          · exact readInto_fetched _ _ _ _ _ _ _ (Nat.le_of_not_gt ‹_›)

/-- a chip whose memory holds its own addresses; packet of 3 bytes at 254 (wraps), register 0x0702 = 9 -/
def exChip126 (len : UInt8) : Chip126 :=
  { status := 0x04, rxLen := len, rxStart := 254, regPayloadLen := 9, buffer := fun i => UInt8.ofNat i }

example : (getRxPayload126 (exChip126 3) false none [7, 7, 7, 7, 7]).out = .ok 3 := by decide
example : (getRxPayload126 (exChip126 3) false none [7, 7, 7, 7, 7]).buf = [254, 255, 0, 7, 7] := by decide
example : (getRxPayload126 (exChip126 6) false none [7, 7, 7, 7, 7]).out = .err (.payloadSizeMismatch 6 5) := by decide
example : (getRxPayload126 (exChip126 6) true none [7, 7, 7, 7, 7]).out = .err (.payloadSizeMismatch 9 5) := by decide

/-! ### SX127x -/

def len127 (c : Chip127) (implicit : Bool) (cfgLen : UInt8) : Nat :=
  if implicit then cfgLen.toNat else c.regRxNbBytes.toNat

/-- **C18, SX127x.**  Same statement; the position is `RegFifoRxCurrentAddr`, the length
`RegRxNbBytes` (implicit header: the configured `payload_length`). -/
theorem get_rx_payload_safe_sx127x (c : Chip127) (implicit : Bool) (cfgLen : UInt8) (fault : Option Nat) (buf : Bytes) :
    Fetched c.fifo c.regFifoRxCurrentAddr.toNat (len127 c implicit cfgLen) buf
      (getRxPayload127 c implicit cfgLen fault buf).res := by
  have key : ∀ (n s : Nat), ¬ n > buf.length →
      Fetched c.fifo c.regFifoRxCurrentAddr.toNat n buf
        (match ioRead fault s with
          | some e => (⟨⟨.err e, buf⟩, c.fifoPtr⟩ : Res127)
          | none =>
            match failsAt fault (s + 2) .spi with
            | some e => ⟨⟨.err e, buf⟩, c.fifoPtr⟩
            | none =>
              match failsAt fault (s + 3) .busy with
              | some e => ⟨⟨.err e, buf⟩, c.regFifoRxCurrentAddr⟩
              | none =>
                let r := readInto c.fifo c.regFifoRxCurrentAddr.toNat n fault (s + 4)
                  "sx127x get_rx_payload: receiving_buffer[0..payload_length]" buf
                let clocked : Bool := (sliceTo buf n).isSome && (failsAt fault (s + 4) .spi).isNone
                let ptr' : UInt8 := if clocked then UInt8.ofNat ((c.regFifoRxCurrentAddr.toNat + n) % 256) else c.regFifoRxCurrentAddr
                match r.out with
                | .ok _ =>
                  match failsAt fault (s + 6) .spi with
                  | some e => ⟨⟨.err e, r.buf⟩, ptr'⟩
                  | none =>
                    match failsAt fault (s + 7) .busy with
                    | some e => ⟨⟨.err e, r.buf⟩, 0⟩
                    | none => ⟨r, 0⟩
                | _ => ⟨r, ptr'⟩).res := by
    intro n s hn
    have hr := readInto_fetched c.fifo c.regFifoRxCurrentAddr.toNat n fault (s + 4)
      "sx127x get_rx_payload: receiving_buffer[0..payload_length]" buf (Nat.le_of_not_gt hn)
    split
    · exact fetched_early ..
    · split
      · exact fetched_early ..
      · split
        · exact fetched_early ..
        · simp only
          split
          · split
            · exact ⟨by simp, by simp, hr.image⟩
            · split
              · exact ⟨by simp, by simp, hr.image⟩
              · exact hr
          · exact hr
  cases implicit <;> simp only [getRxPayload127, len127, Bool.false_eq_true, if_false, if_true]
  · split
    · exact fetched_early ..
    · split
      · exact fetched_early ..
      · exact key _ _ ‹_›
  · split
    · exact fetched_early ..
    · exact key _ _ ‹_›

def exChip127 : Chip127 :=
  { regRxNbBytes := 4, regFifoRxCurrentAddr := 253, fifoPtr := 0, fifo := fun i => UInt8.ofNat i }

example : (getRxPayload127 exChip127 false 0 none [9, 9, 9, 9, 9]).res.buf = [253, 254, 255, 0, 9] := by decide
example : (getRxPayload127 exChip127 true 2 none [9, 9, 9, 9, 9]).res.out = .ok 2 := by decide
example : (getRxPayload127 exChip127 false 0 (some 5) [9, 9, 9, 9, 9]).res.out = .err .busy := by decide

/-- **C18 as one statement** (the brief's `get_rx_payload_safe`): for both chips, a result `Ok(n)`
means `n ≤ buf.size`, `buf'.take n` = the chip's bytes at the reported position, `buf'.drop n =
buf.drop n`; otherwise the result is an `Err`; a panic is impossible. -/
theorem get_rx_payload_safe :
    (∀ (c : Chip126) (implicit : Bool) (fault : Option Nat) (buf : Bytes),
      let r := getRxPayload126 c implicit fault buf
      (∃ e, r.out = .err e) ∨
      (∃ n, r.out = .ok n ∧ n = len126 c implicit ∧ n ≤ buf.length ∧
        r.buf.take n = chipRead c.buffer c.rxStart.toNat n ∧ r.buf.drop n = buf.drop n)) ∧
    (∀ (c : Chip127) (implicit : Bool) (cfgLen : UInt8) (fault : Option Nat) (buf : Bytes),
      let r := (getRxPayload127 c implicit cfgLen fault buf).res
      (∃ e, r.out = .err e) ∨
      (∃ n, r.out = .ok n ∧ n = len127 c implicit cfgLen ∧ n ≤ buf.length ∧
        r.buf.take n = chipRead c.fifo c.regFifoRxCurrentAddr.toNat n ∧ r.buf.drop n = buf.drop n)) := by
  constructor
  · intro c implicit fault buf
    have h := get_rx_payload_safe_sx126x c implicit fault buf
    generalize getRxPayload126 c implicit fault buf = r at h
    intro r'; show _ ∨ _
    cases ho : r.out with
    | ok n => exact .inr ⟨n, rfl, h.ok n ho⟩
    | err e => exact .inl ⟨e, rfl⟩
    | panic s => exact absurd ho (h.no_panic s)
  · intro c implicit cfgLen fault buf
    have h := get_rx_payload_safe_sx127x c implicit cfgLen fault buf
    generalize (getRxPayload127 c implicit cfgLen fault buf).res = r at h
    intro r'; show _ ∨ _
    cases ho : r.out with
    | ok n => exact .inr ⟨n, rfl, h.ok n ho⟩
    | err e => exact .inl ⟨e, rfl⟩
    | panic s => exact absurd ho (h.no_panic s)

/-! ### the model agrees with the independent specification (fault-free runs) -/

theorem is_error_eq_spec (s : UInt8) : isError s = Spec.RxFetch.statusIsError s.toNat := by
  have h : ∀ n, n < 256 → isError (UInt8.ofNat n) = Spec.RxFetch.statusIsError (UInt8.ofNat n).toNat := by decide +kernel
  have := h s.toNat s.toNat_lt
  simpa using this

/-- the spec's index-wise image is the model's "chip bytes, then the old tail" -/
theorem image_eq (mem : Nat → UInt8) (off n : Nat) (buf : Bytes) (h : n ≤ buf.length) :
    Spec.RxFetch.image mem off n buf = chipRead mem off n ++ buf.drop n := by
  apply List.ext_getElem?
  intro i
  simp only [Spec.RxFetch.image, List.getElem?_map, List.getElem?_zipIdx, Nat.zero_add]
  by_cases hi : i < n
  · have hib : i < buf.length := by omega
    rw [List.getElem?_append_left (by simpa [chipRead_length] using hi), chipRead_getElem?]
    simp [hi, List.getElem?_eq_getElem hib]
  · rw [List.getElem?_append_right (by simpa [chipRead_length] using Nat.le_of_not_gt hi)]
    simp only [chipRead_length, List.getElem?_drop]
    have : n + (i - n) = i := by omega
    rw [this]
    cases buf[i]? <;> simp [hi]

/-- the caller-visible result in the spec's vocabulary -/
def verdictOf (r : Res) : Option Spec.RxFetch.Verdict :=
  match r.out with
  | .ok n => some (.fetched n r.buf)
  | .err (.opError s) => some (.refusedStatus s.toNat)
  | .err (.payloadSizeMismatch n size) => some (.refusedTooLong n size)
  | _ => none

theorem get_rx_payload_eq_spec_sx126x (c : Chip126) (implicit : Bool) (buf : Bytes) :
    verdictOf (getRxPayload126 c implicit none buf)
      = some (Spec.RxFetch.fetch c.buffer (some c.status.toNat) (len126 c implicit) c.rxStart.toNat buf) := by
  cases implicit <;>
  · simp only [getRxPayload126, len126, ioRead, failsAt, Spec.RxFetch.fetch, is_error_eq_spec,
      Bool.false_eq_true, if_false, if_true, reduceCtorEq]
    split
    · rfl
    · split
      · rfl
      · rename_i h
        have h := Nat.le_of_not_gt h
        simp [readInto, sliceTo, h, failsAt, verdictOf, image_eq _ _ _ _ h]

theorem get_rx_payload_eq_spec_sx127x (c : Chip127) (implicit : Bool) (cfgLen : UInt8) (buf : Bytes) :
    verdictOf (getRxPayload127 c implicit cfgLen none buf).res
      = some (Spec.RxFetch.fetch c.fifo none (len127 c implicit cfgLen) c.regFifoRxCurrentAddr.toNat buf) := by
  cases implicit <;>
  · simp only [getRxPayload127, len127, ioRead, failsAt, Spec.RxFetch.fetch,
      Bool.false_eq_true, if_false, if_true, reduceCtorEq]
    split
    · rfl
    · rename_i h
      have h := Nat.le_of_not_gt h
      simp [readInto, sliceTo, h, failsAt, verdictOf, image_eq _ _ _ _ h]

/-! ### `RadioBuffer` and the adapter's hand-over to the MAC -/

/-- `set_pos(p)` then `as_mut_for_read()` / `as_ref_for_read()` is in bounds exactly when `p ≤ N`,
and then yields the first `p` bytes -/
theorem radio_buffer_read_in_bounds (b : RadioBuffer) (p : Nat) :
    (p ≤ b.packet.length → (b.setPos p).asMutForRead = some (b.packet.take p)
        ∧ (b.setPos p).asRefForRead = some (b.packet.take p)) ∧
    (b.packet.length < p → (b.setPos p).asMutForRead = none) := by
  constructor
  · intro h; simp [RadioBuffer.setPos, RadioBuffer.asMutForRead, RadioBuffer.asRefForRead, sliceTo, h]
  · intro h; simp [RadioBuffer.setPos, RadioBuffer.asMutForRead, sliceTo, Nat.not_le.mpr h]

example : ((RadioBuffer.new 4).setPos 5).asMutForRead = none := by decide
example : ((RadioBuffer.new 4).setPos 4).asMutForRead = some [0, 0, 0, 0] := by decide

/-- `extend_from_slice` never panics and never moves `pos` beyond the array -/
theorem radio_buffer_extend_safe (b : RadioBuffer) (src : Bytes) :
    (∀ s, b.extendFromSlice src ≠ .panic s) ∧
    (∀ b', b.extendFromSlice src = .ok (some b') →
        b'.packet.length = b.packet.length ∧ b'.pos = b.pos + src.length ∧ b'.pos < b'.packet.length) := by
  unfold RadioBuffer.extendFromSlice
  constructor
  · intro s; split
    · rw [if_pos (by omega)]; simp
    · simp
  · intro b'; split
    · rename_i h
      rw [if_pos (by omega)]
      intro hb; simp only [Outcome.ok.injEq, Option.some.injEq] at hb; subst hb
      simp; omega
    · simp

/-- **The adapter hands the MAC exactly the received bytes.**  For any `RadioBuffer` (any `N`), if
`get_rx_payload` was given the whole array (`as_mut()`, what `Device` passes to `rx_single` /
`rx_continuous`) and satisfied the C18 post-condition, then `set_pos(n)` + `as_mut_for_read()`
cannot panic and yields exactly the `n` chip bytes. -/
theorem adapter_delivers_exact (b : RadioBuffer) (mem : Nat → UInt8) (off n : Nat) (r : Res)
    (h : Fetched mem off n b.asMut r) :
    (∀ s, adapterDeliver b r ≠ .panic s) ∧
    (∀ bytes, adapterDeliver b r = .ok bytes → bytes = chipRead mem off n ∧ bytes.length = n) := by
  have hl := h.same_length
  unfold adapterDeliver
  cases ho : r.out with
  | panic s => exact absurd ho (h.no_panic s)
  | err e => simp
  | ok m =>
    obtain ⟨rfl, hm, ht, _⟩ := h.ok m ho
    have hm' : m ≤ r.buf.length := by rw [hl]; exact hm
    simp [RadioBuffer.setPos, RadioBuffer.asMutForRead, sliceTo, hm', ht, chipRead_length]

/-- instantiated for both drivers: what `LorawanRadio::rx_single` leaves for the MAC -/
theorem adapter_delivers_exact_sx126x (b : RadioBuffer) (c : Chip126) (fault : Option Nat) :
    let r := getRxPayload126 c false fault b.asMut
    (∀ s, adapterDeliver b r ≠ .panic s) ∧
    (∀ bytes, adapterDeliver b r = .ok bytes → bytes = chipRead c.buffer c.rxStart.toNat c.rxLen.toNat) := by
  intro r
  have h := adapter_delivers_exact b _ _ _ _ (get_rx_payload_safe_sx126x c false fault b.asMut)
  exact ⟨h.1, fun bytes hb => (h.2 bytes hb).1⟩

theorem adapter_delivers_exact_sx127x (b : RadioBuffer) (c : Chip127) (cfgLen : UInt8) (fault : Option Nat) :
    let r := (getRxPayload127 c false cfgLen fault b.asMut).res
    (∀ s, adapterDeliver b r ≠ .panic s) ∧
    (∀ bytes, adapterDeliver b r = .ok bytes →
        bytes = chipRead c.fifo c.regFifoRxCurrentAddr.toNat c.regRxNbBytes.toNat) := by
  intro r
  have h := adapter_delivers_exact b _ _ _ _ (get_rx_payload_safe_sx127x c false cfgLen fault b.asMut)
  exact ⟨h.1, fun bytes hb => (h.2 bytes hb).1⟩

example : adapterDeliver (RadioBuffer.new 6) (getRxPayload126 (exChip126 3) false none (RadioBuffer.new 6).asMut)
    = .ok [254, 255, 0] := by decide

end C18

#print axioms C18.get_rx_payload_safe
#print axioms C18.get_rx_payload_safe_sx126x
#print axioms C18.get_rx_payload_safe_sx127x
#print axioms C18.get_rx_payload_eq_spec_sx126x
#print axioms C18.get_rx_payload_eq_spec_sx127x
#print axioms C18.radio_buffer_read_in_bounds
#print axioms C18.adapter_delivers_exact
