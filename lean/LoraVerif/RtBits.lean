/-!
# Runtime for the generated code: bit counting (builder F)

`uN::count_ones()` of an unsigned value.  Kept apart from `Rt.lean` (import-free, core only) so that only the units
that use it depend on it.
-/
namespace Rt

/-- number of one bits of `n`, reading at most `fuel` binary digits (stops at the last one bit, so evaluation is as
deep as `n` is long) -/
def countOnesNat : Nat → Nat → Nat
  | 0, _ => 0
  | fuel + 1, n => if n = 0 then 0 else n % 2 + countOnesNat fuel (n / 2)

/-- `uN::count_ones` (`N ≤ 128`) of a value of an unsigned type (non-negative by typing) -/
def countOnes (x : Int) : Int := (countOnesNat 128 x.toNat : Nat)

/-- `uN::to_le_bytes()` of an `n`-octet unsigned value: least significant octet first -/
def leBytes : Nat → Int → List Int
  | 0, _ => []
  | n + 1, x => (x % 256) :: leBytes n (x / 256)

end Rt

-- (the generated units `open` the last component of every import)
namespace RtBits
end RtBits
