-- GENERATED stub: translation of /repo/lorawan-device/src/mac/otaa.rs failed:
-- fn Otaa.handle_rx: call of unknown function DecryptedJoinAcceptPayload::decrypt_in_place
-- Every theorem importing this module fails until the translator supports the construct
-- (the check then falls back to the correspondence harness and the search).
namespace Gen.OtaaFn
def TRANSLATION_FAILED : String := "fn Otaa.handle_rx: call of unknown function DecryptedJoinAcceptPayload::decrypt_in_place"
end Gen.OtaaFn
