import Driver.Util
import Driver.Mac
import Driver.Dev
import Driver.Nb
/-! Suite C07: twin runs on the model (see `Driver.Mac.runTwin`). -/
namespace Driver.C07

def handle (ws : List String) : String :=
  match ws with
  | "mac" :: rest => s!"{Driver.Mac.runTwin rest}|-"
  | "nbdev" :: rest => s!"{Driver.Nb.run rest} ## oracle=ok|-"
  | "adev" :: rest => s!"{Driver.Dev.run rest} ## oracle=ok|-"
  | _ => "bad-op"

end Driver.C07
