import Driver.Util
/-! Suite C07: line-protocol handlers (stub — replaced when the property's model is built). -/
namespace Driver.C07

def handle (_ws : List String) : String := "bad-op"

end Driver.C07
