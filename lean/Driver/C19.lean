import Driver.Util
/-! Suite C19: line-protocol handlers (stub — replaced when the property's model is built). -/
namespace Driver.C19

def handle (_ws : List String) : String := "bad-op"

end Driver.C19
