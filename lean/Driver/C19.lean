import LoraVerif.Gen.CmdTables
import LoraVerif.Model.MacCmdCreators
import LoraVerif.Model.HexText
import LoraVerif.Spec.MacCmdSpec
import LoraVerif.Spec.HexTextSpec
import Driver.Util
import Driver.C03
/-! Suite C19: command builders → bytes → parsers/accessors; command sequences through
`build_mac_commands`; text forms.  Model = creators/iterators/accessors as coded over the generated
tables; spec = field layouts of the specifications (`Spec.MacCmd.build/decode`), MSB-first hex. -/
open MacCmd
namespace Driver.C19
open Driver.C03 (hexOrDash natsOfHex? toyCipher toyEnc toyDec tableOf? showItem showSpecAccessors joinItems)

/-- `name=arg`: decimal (possibly negative), `x<hex>` (octets), `<id>:x<hex>` (push) -/
def parseArg (ty setter : String) (s : String) : Option Arg :=
  if s.startsWith "x" then (natsOfHex? (let h := (s.drop 1).toString; if h.isEmpty then "-" else h)).map Arg.bytes
  else match s.splitOn ":x" with
    | [id, h] => match id.toNat?, natsOfHex? (if h.isEmpty then "-" else h) with
      | some i, some b => some (.item i b)
      | _, _ => none
    | _ =>
      match parseInt? s with
      | some v => if ty == "DevStatusAnsPayload" && setter == "set_margin" then some (.i v) else some (.n v.toNat)
      | none => none

def parseCalls (ty : String) (s : String) : Option (List (String × Arg)) :=
  if s == "-" then some []
  else (s.splitOn ";").mapM (fun c =>
    match c.splitOn "=" with
    | [n, a] => (parseArg ty n a).map (fun a => (n, a))
    | _ => none)

def specArg : Arg → Spec.MacCmd.Arg
  | .n v => .n v
  | .i v => .i v
  | .bytes b => .bytes b
  | .item i a => .item i a

def showRes (rs : List SetRes) : String :=
  if rs.isEmpty then "-" else ",".intercalate (rs.map (fun r => match r with | .ok => "ok" | .err e => "ERR:" ++ e))

def showSpecRes (rs : List (Option String)) : String :=
  if rs.isEmpty then "-" else ",".intercalate (rs.map (fun r => match r with | none => "ok" | some e => "ERR:" ++ e))

/-- the spec's view of a stream: like `Driver.C03.specIter` but with the specification's own decode of every field
(no exception for DeviceTimeAns: C19 is where that disagreement is judged) -/
def specParse (T : List Spec.MacCmd.Cmd) (data : List Nat) : String :=
  let (items, rest) := Spec.MacCmd.splitAll T data
  let showI : Spec.MacCmd.Item → String
    | .cmd c p => s!"{Driver.C03.hex2 c.cid}:{c.name}:{hexOrDash p}" ++ "{" ++ showSpecAccessors (Spec.MacCmd.decode toyEnc (c.name ++ "Payload") p) ++ "}"
    | .unknown cid => s!"ERR:unknown:{Driver.C03.hex2 cid}"
    | .truncated cid => s!"ERR:trunc:{Driver.C03.hex2 cid}"
  s!"{joinItems (items.map showI)} rest={hexOrDash rest}"

def modelCmd (T : Table) (variant callsS : String) : String :=
  match T.find? (fun e => e.variant == variant) with
  | none => "bad-op"
  | some e =>
    match parseCalls e.payload callsS with
    | none => "bad-op"
    | some calls =>
      match buildWith toyCipher e calls with
      | .panic _ => "PANIC"
      | .ok (rs, b) => s!"r={showRes rs} bytes={hexOrDash b} parse={Driver.C03.modelIter T b}"

def specCmd (S : List Spec.MacCmd.Cmd) (variant ty callsS : String) : String :=
  match S.find? (fun c => c.name == variant) with
  | none => "bad-op"
  | some c =>
    match parseCalls ty callsS with
    | none => "bad-op"
    | some calls =>
      match Spec.MacCmd.build toyDec c (calls.map (fun (n, a) => (n, specArg a))) with
      | none => "bad-op"
      | some (rs, b) => s!"r={showSpecRes rs} bytes={hexOrDash b} parse={specParse S b}"

/-- `Cmd@calls` words of a `seq` op -/
def parseSeqWord (w : String) : Option (String × String) :=
  match w.splitOn "@" with
  | [v, c] => some (v, c)
  | _ => none

def modelSeq (T : Table) (cap : Nat) (ws : List String) : String :=
  let built := ws.mapM (fun w => do
    let (v, cs) ← parseSeqWord w
    let e ← T.find? (fun e => e.variant == v)
    let calls ← parseCalls e.payload cs
    match buildWith toyCipher e calls with
    | .ok (_, b) => some b
    | .panic _ => none)
  match built with
  | none => "PANIC"
  | some cmds =>
    match buildMacCommands cmds (List.replicate cap 0) with
    | .panic _ => "PANIC"
    | .ok none => "ERR:BufferTooShort"
    | .ok (some (buf, n)) => s!"n={n} bytes={hexOrDash (buf.take n)} parse={Driver.C03.modelIter T (buf.take n)}"

def specSeq (S : List Spec.MacCmd.Cmd) (T : Table) (cap : Nat) (ws : List String) : String :=
  let built := ws.mapM (fun w => do
    let (v, cs) ← parseSeqWord w
    let c ← S.find? (fun c => c.name == v)
    let e ← T.find? (fun e => e.variant == v)
    let calls ← parseCalls e.payload cs
    let (_, b) ← Spec.MacCmd.build toyDec c (calls.map (fun (n, a) => (n, specArg a)))
    some b)
  match built with
  | none => "bad-op"
  | some cmds =>
    match Spec.MacCmd.buildSeq cmds cap with
    | none => "ERR:BufferTooShort"
    | some all => s!"n={all.length} bytes={hexOrDash all} parse={specParse S all}"

/-! ### text forms -/

/-- (kind, octets, backing integer bits) per type name -/
def textKind : String → Option (String × Nat × Nat)
  | "DevAddr" => some ("newtype", 4, 32) | "McAddr" => some ("newtype", 4, 32)
  | "PDevEui" => some ("newtype", 8, 64) | "JoinEui" => some ("newtype", 8, 64)
  | "DevNonce" => some ("newtype", 2, 16)
  | "JoinNonce" => some ("newtype", 3, 32) | "NetId" => some ("newtype", 3, 32)
  | "AppKey" => some ("key", 16, 0) | "NwkSKey" => some ("key", 16, 0) | "AppSKey" => some ("key", 16, 0)
  | "McRootKey" => some ("key", 16, 0) | "McKEKey" => some ("key", 16, 0) | "McNetSKey" => some ("key", 16, 0)
  | "McAppSKey" => some ("key", 16, 0) | "GenAppKey" => some ("key", 16, 0) | "McKey" => some ("key", 16, 0)
  | "KDevEui" => some ("eui", 8, 0) | "AppEui" => some ("eui", 8, 0)
  | _ => none

def hexErrName : HexText.HexErr → String
  | .OddLength => "OddLength" | .InvalidStringLength => "InvalidStringLength" | .InvalidHexCharacter => "InvalidHexCharacter"

def modelToString (kind : String) (b : List Nat) : List Char :=
  if kind == "newtype" then HexText.newtypeToString b
  else if kind == "key" then HexText.keyToString b
  else HexText.euiToString b

def modelFromStr (kind : String) (n bits : Nat) (s : List Char) : String :=
  if kind == "newtype" then (match HexText.newtypeFromStr n bits s with | some b => hexOrDash b | none => "ERR")
  else if kind == "key" then (match HexText.keyFromStr s with | .ok b => hexOrDash b | .error e => "ERR:" ++ hexErrName e)
  else (match HexText.euiFromStr s with | .ok b => hexOrDash b | .error e => "ERR:" ++ hexErrName e)

def specToString (kind : String) (b : List Nat) : List Char :=
  if kind == "key" then Spec.HexText.ofKey b else Spec.HexText.ofWireLe b

def specFromStr (kind : String) (n : Nat) (s : List Char) : Option (List Nat) :=
  if kind == "key" then Spec.HexText.toKey n s else Spec.HexText.toWireLe n s

def textAnswer (ty : String) (b : List Nat) : Option (String × String) :=
  match textKind ty with
  | none => none
  | some (kind, n, bits) =>
    if b.length ≠ n then none
    else
      let ms := modelToString kind b
      let ss := specToString kind b
      let sback := match specFromStr kind n ss with | some r => hexOrDash r | none => "ERR"
      some (s!"s={String.ofList ms} back={modelFromStr kind n bits ms}", s!"s={String.ofList ss} back={sback}")

def isCanonical (n : Nat) (s : List Char) : Bool :=
  s.length == 2 * n && s.all (fun c => (Spec.HexText.nibbleVal? c).isSome)

def fnvStr (h : Fnv) (s : String) : Fnv := (s.toUTF8.foldl (fun h b => h.byte b) h).byte 10

/-- substitute `{a}` and `{b}` in a template -/
def subst (t : String) (a b : Nat) : String := (t.replace "{a}" (toString a)).replace "{b}" (toString b)

def handle (ws : List String) : String :=
  match ws with
  | ["cmd", set, variant, calls] =>
    match tableOf? set, Spec.MacCmd.setByName set with
    | some T, some S =>
      let ty := (T.find? (fun e => e.variant == variant)).map (·.payload) |>.getD ""
      s!"{modelCmd T variant calls}|{specCmd S variant ty calls}"
    | _, _ => "bad-op"
  | ["cmd_digest", set, variant, tmpl, na, nb] =>
    match tableOf? set, Spec.MacCmd.setByName set, na.toNat?, nb.toNat? with
    | some T, some S, some na, some nb =>
      let ty := (T.find? (fun e => e.variant == variant)).map (·.payload) |>.getD ""
      Id.run do
        let mut hm : Fnv := {}
        let mut hs : Fnv := {}
        for a in [0:na] do
          for b in [0:nb] do
            let c := subst tmpl a b
            hm := fnvStr hm (modelCmd T variant c)
            hs := fnvStr hs (specCmd S variant ty c)
        return s!"{hex64 hm.h}|{hex64 hs.h}"
    | _, _, _, _ => "bad-op"
  | "seq" :: set :: cap :: cmds =>
    match tableOf? set, Spec.MacCmd.setByName set, cap.toNat? with
    | some T, some S, some cap => s!"{modelSeq T cap cmds}|{specSeq S T cap cmds}"
    | _, _, _ => "bad-op"
  | ["text", ty, hex] =>
    match natsOfHex? hex with
    | some b => match textAnswer ty b with
      | some (m, s) => s!"{m}|{s}"
      | none => "bad-op"
    | none => "bad-op"
  | ["text_digest", ty, pre] =>
    -- all values whose leading wire octets are `pre` followed by one free octet
    match natsOfHex? pre, textKind ty with
    | some p, some (_, n, _) =>
      if p.length + 1 ≠ n then "bad-op"
      else Id.run do
        let mut hm : Fnv := {}
        let mut hs : Fnv := {}
        for x in [0:256] do
          match textAnswer ty (p ++ [x]) with
          | some (m, s) => hm := fnvStr hm m; hs := fnvStr hs s
          | none => pure ()
        return s!"{hex64 hm.h}|{hex64 hs.h}"
    | _, _ => "bad-op"
  | ["textparse", ty, str] =>
    match textKind ty with
    | some (kind, n, bits) =>
      let s := if str == "-" then [] else str.toList
      let m := modelFromStr kind n bits s
      let sp := if isCanonical n s then (match specFromStr kind n s with | some r => hexOrDash r | none => "ERR") else "-"
      s!"{m}|{sp}"
    | none => "bad-op"
  | _ => "bad-op"

end Driver.C19
