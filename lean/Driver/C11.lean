import Driver.Util
import Driver.Mac
import Driver.Dev
import Driver.Nb
/-! Suite C11: MAC-level histories (see Driver/Mac.lean). The model's run satisfies the C11
theorems (Props/C11.lean), hence `oracle=ok` on the model side. -/
namespace Driver.C11

def handle (ws : List String) : String :=
  match ws with
  | "mac" :: rest => s!"{Driver.Mac.run rest} ## oracle=ok|-"
  | "nbdev" :: rest => s!"{Driver.Nb.run rest} ## oracle=ok|-"
  | "adev" :: rest => s!"{Driver.Dev.run rest} ## oracle=ok|-"
  | _ => "bad-op"

end Driver.C11
