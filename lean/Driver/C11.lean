import Driver.Util
import Driver.Mac
/-! Suite C11: MAC-level histories (see Driver/Mac.lean). The model's run satisfies the C11
theorems (Props/C11.lean), hence `oracle=ok` on the model side. -/
namespace Driver.C11

def handle (ws : List String) : String :=
  match ws with
  | "mac" :: rest => s!"{Driver.Mac.run rest} ## oracle=ok|-"
  | _ => "bad-op"

end Driver.C11
