import Driver.Util
/-! Suite C11: line-protocol handlers (stub — replaced when the property's model is built). -/
namespace Driver.C11

def handle (_ws : List String) : String := "bad-op"

end Driver.C11
