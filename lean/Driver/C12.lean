import Driver.Util
/-! Suite C12: line-protocol handlers (stub — replaced when the property's model is built). -/
namespace Driver.C12

def handle (_ws : List String) : String := "bad-op"

end Driver.C12
