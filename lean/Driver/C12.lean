import Driver.Util
import Driver.Mac
import Driver.Dev
import Driver.Nb
/-! Suite C12: MAC-level histories (see Driver/Mac.lean). The model's run satisfies the C12
theorems (Props/C12.lean), hence `oracle=ok` on the model side. -/
namespace Driver.C12

def handle (ws : List String) : String :=
  match ws with
  | "mac" :: rest => s!"{Driver.Mac.run rest} ## oracle=ok|-"
  | "nbdev" :: rest => s!"{Driver.Nb.run rest} ## oracle=ok|-"
  | "adev" :: rest => s!"{Driver.Dev.run rest} ## oracle=ok|-"
  | _ => "bad-op"

end Driver.C12
