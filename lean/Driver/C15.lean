import Driver.Util
/-! Suite C15: line-protocol handlers (stub — replaced when the property's model is built). -/
namespace Driver.C15

def handle (_ws : List String) : String := "bad-op"

end Driver.C15
