import LoraVerif.Gen.Modulation
import LoraVerif.Spec.Airtime
import LoraVerif.Spec.SemtechArith
import LoraVerif.Model.PhyArith
import Driver.Util
/-! Suite C15: LDRO decision of the airtime calculator and of every radio driver, and the bit the
driver programs.  `<model>|<spec>`: model = generated `BaseBandModulationParams::new` resp.
`Model.PhyArith.createModParams` + `ldroByte` decoded with the datasheet position of the flag;
spec = the symbol-time rule on the PHYSICAL bandwidth of the setting (`Spec.Airtime.ldroPhys`, the
specification's own table — not the code's `hz()` constants) for pairs the chip supports, `ERR` otherwise. -/
open Gen.Modulation
open Spec.Semtech (Chip)
namespace Driver.C15

def sfOf? (n : Int) : Option SpreadingFactor := SpreadingFactor.all.find? (fun s => s.factor == n)
def bwOf? (n : Int) : Option Bandwidth :=
  -- op lines name a bandwidth by the datasheet's figure in Hz (the C13 harness's own table, legacy replays)
  -- or by the crate's current `hz()`
  match n with
  | 7810 => some ._7KHz | 10420 => some ._10KHz | 15630 => some ._15KHz | 20830 => some ._20KHz
  | 31250 => some ._31KHz | 41670 => some ._41KHz | 62500 => some ._62KHz | 125000 => some ._125KHz
  | 250000 => some ._250KHz | 500000 => some ._500KHz
  | _ => Bandwidth.all.find? (fun b => b.hz == n)
def crOf? (n : Int) : Option CodingRate := CodingRate.all.find? (fun c => c.denom == n)
def chipOf? (s : String) : Option Chip := Chip.all.find? (fun c => c.name == s)

def b01 (b : Bool) : String := if b then "1" else "0"

def handleBase (ws : List String) : String :=
  match ws with
  | ["mod", sf, bw] =>
    match parseInt? sf >>= sfOf?, parseInt? bw >>= bwOf? with
    | some sf, some bw =>
      let m := match BaseBandModulationParams.new sf bw ._4_5 with
        | some p => b01 p.ldro
        | none => "PANIC"
      s!"{m}|{b01 (Spec.Airtime.ldroPhys sf.factor (Model.PhyArith.specBw bw))}"
    | _, _ => "bad-op"
  | ["ldro", chip, sf, bw, cr, rf, prior] =>
    match chipOf? chip, parseInt? sf >>= sfOf?, parseInt? bw >>= bwOf?, parseInt? cr >>= crOf?, parseInt? rf, parseInt? prior with
    | some c, some sf, some bw, some cr, some rf, some prior =>
      let m := match Model.PhyArith.createModParams c sf bw cr rf with
        | .ok f =>
          let byte := Model.PhyArith.ldroByte c f.toNat prior.toNat (Model.PhyArith.sx1272BwCode bw) (Model.PhyArith.crCode cr)
          s!"{f},{Spec.Semtech.ldroBit c byte}"
        | .err => "ERR"
        | .panic => "PANIC"
      let s := if Spec.Semtech.supports c sf.factor (Model.PhyArith.specBw bw) rf then
          let x := b01 (Spec.Semtech.ldro sf.factor (Model.PhyArith.specBw bw))
          s!"{x},{x}"
        else "ERR"
      s!"{m}|{s}"
    | _, _, _, _, _, _ => "bad-op"
  | _ => "bad-op"

def handle (ws : List String) : String :=
  match ws with
  | ["flow", chip, sf, bw, cr, rf, prior, _pp] =>
    -- the packet-parameter write that follows in a TX/RX preparation leaves the flag alone
    -- (SX126x/LR11xx: a different command; SX1276: another register; SX1272: same register, the
    -- read-modify-write keeps bit 0): the answer is that of `ldro`
    handleBase ["ldro", chip, sf, bw, cr, rf, prior]
  | _ => handleBase ws

end Driver.C15
