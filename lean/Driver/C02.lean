import Driver.Util
import Driver.C01
import LoraVerif.Model.Aes
import LoraVerif.Model.Codec
import LoraVerif.Spec.LoRaWAN
import LoraVerif.Spec.LoRaWANBridge
/-! Suite C02: parsers, MIC validation, in-place decryption. Model = `Codec.*` (transliteration of
parser.rs), spec = `Spec.decode*` / `Spec.dataAuthentic` / `Spec.decryptData`, with the Lean AES. -/
open Lora
namespace Driver.C02
open Driver.C01 (key? optKey? vec?)

def hx (b : Bytes) : String := if b.isEmpty then "-" else hexOfBytes b
def b01 (b : Bool) : String := if b then "1" else "0"
def ftNum : FType → String
  | .unconfirmedUp => "0" | .unconfirmedDown => "1" | .confirmedUp => "2" | .confirmedDown => "3"
def optPort : Option UInt8 → String
  | some p => toString p.toNat
  | none => "-"

def showModelView (v : Codec.DataView) : String :=
  s!"D ft={ftNum v.frameType} up={b01 v.isUplink} cf={b01 v.isConfirmed} addr={hx v.devAddr} fctrl={hexByte v.fctrlRaw} adr={b01 v.adr} req={b01 v.adrAckReq} ack={b01 v.ack} pend={b01 v.fPending} flen={v.fOptsLen} fcnt={v.fcnt.toNat} fopts={hx v.fOpts} port={optPort v.fPort} frm={hx v.frm} mic={hx v.mic}"

def showSpecView (v : Spec.DataView) (frm : Bytes) : String :=
  s!"D ft={ftNum v.ftype} up={b01 v.uplink} cf={b01 v.confirmed} addr={hx (Spec.le 4 v.devAddr.toNat)} fctrl={hexByte v.fctrl} adr={b01 v.adr} req={b01 v.adrAckReq} ack={b01 v.ack} pend={b01 v.fPending} flen={v.foptsLen} fcnt={v.fcnt16.toNat} fopts={hx v.fopts} port={optPort v.port} frm={hx frm} mic={hx v.mic}"

def showErr (e : Err) : String := "ERR:" ++ e.name

def outStr {α} (f : α → String) : Outcome α → String
  | .ok a => f a
  | .err e => showErr e
  | .panic => "PANIC"

def exStr {α} (f : α → String) : Except Err α → String
  | .ok a => f a
  | .error e => showErr e

def showJrModel (v : Codec.JoinRequestView) : String :=
  s!"JR je={hx v.joinEui} de={hx v.devEui} dn={hx v.devNonce} mic={hx v.mic}"
def showJrSpec (v : Spec.JoinRequestView) : String :=
  s!"JR je={hx (Spec.le 8 v.joinEui.toNat)} de={hx (Spec.le 8 v.devEui.toNat)} dn={hx (Spec.le 2 v.devNonce.toNat)} mic={hx v.mic}"

def modelDataView (b : Bytes) : Outcome Codec.DataView := (Codec.parseData b).bind Codec.DataPayload.view

def kindModel : Codec.FrmPayload → String
  | .none => "N -" | .macCommands b => "M " ++ hx b | .data b => "A " ++ hx b
def kindSpec (v : Spec.DataView) (plain : Bytes) : String :=
  match v.port with
  | none => "N -"
  | some p => if p = 0 then "M " ++ hx plain else "A " ++ hx plain

/-- result of an in-place data operation: `OK <kind> <plaintext> <view>` or the error; then the buffer -/
def showInPlaceModel (r : Codec.InPlace Codec.DataPayload) : String :=
  let res := match r.1 with
    | .ok p => (match p.frmPayload, p.view with
        | .ok k, .ok v => s!"OK {kindModel k} {showModelView v}"
        | _, _ => "PANIC")
    | .err e => showErr e
    | .panic => "PANIC"
  s!"{res};{hx r.2}"

def showCfModel : Option Codec.CfListView → String
  | none => "-"
  | some (.dynamicChannel fs) => "D" ++ String.join (fs.map hexOfBytes)
  | some (.fixedChannel m) => "F" ++ hexOfBytes m
def showCfSpec : Option Spec.CfListView → String
  | none => "-"
  | some (.dynamic fs) => "D" ++ String.join (fs.map fun f => hexOfBytes (Spec.le 3 f))
  | some (.fixed m) => "F" ++ hexOfBytes (Spec.le 9 m)

def handle (ws : List String) : String :=
  match ws with
  | ["parse", h] =>
    match bytesOfHex? h with
    | some b =>
      let m := match Codec.parse b with
        | .ok (.joinRequest bytes) => outStr showJrModel (Codec.joinRequestView bytes)
        | .ok (.joinAccept bytes) => s!"JA len={bytes.length}"
        | .ok (.data p) => outStr showModelView p.view
        | .err e => showErr e
        | .panic => "PANIC"
      let s := match Spec.decode b with
        | .ok (.joinRequest v) => showJrSpec v
        | .ok (.joinAccept bytes) => s!"JA len={bytes.length}"
        | .ok (.data v) => showSpecView v v.frm
        | .error e => showErr e
      s!"{m}|{s}"
    | none => "bad-op"
  | ["parsedata", h] =>
    match bytesOfHex? h with
    | some b => s!"{outStr showModelView (modelDataView b)}|{exStr (fun v => showSpecView v v.frm) (Spec.decodeData b)}"
    | none => "bad-op"
  | ["parsejr", h] =>
    match bytesOfHex? h with
    | some b =>
      s!"{outStr showJrModel ((Codec.parseJoinRequest b).bind Codec.joinRequestView)}|{exStr showJrSpec (Spec.decodeJoinRequest b)}"
    | none => "bad-op"
  | ["parseja", h] =>
    match bytesOfHex? h with
    | some b =>
      s!"{outStr (fun x => s!"JA len={x.length}") (Codec.parseJoinAccept b)}|{exStr (fun _ => s!"JA len={b.length}") (Spec.checkJoinAccept b)}"
    | none => "bad-op"
  | ["mic", h, k, fcnt] =>
    match bytesOfHex? h, key? k, fcnt.toNat? with
    | some b, some k, some n =>
      let n := UInt32.ofNat n
      let m := outStr b01 ((Codec.parseData b).bind fun p => p.validateMic ⟨aes, k⟩ n)
      let s := exStr (fun v => b01 (Spec.dataAuthentic aes k n b v)) (Spec.decodeData b)
      s!"{m}|{s}"
    | _, _, _ => "bad-op"
  | ["decrypt", h, nwk, app, fcnt] =>
    match bytesOfHex? h, optKey? nwk, optKey? app, fcnt.toNat? with
    | some b, some nwk, some app, some n =>
      let n := UInt32.ofNat n
      let m := showInPlaceModel (Codec.decryptInPlace aes b nwk app n)
      let s := match Spec.decryptData aes nwk app n b with
        | .ok (v, plain) => s!"OK {kindSpec v plain} {showSpecView v plain};{hx (Spec.withPayload b v plain)}"
        | .error e => s!"{showErr e};{hx b}"
      s!"{m}|{s}"
    | _, _, _, _ => "bad-op"
  | ["checkdec", h, nwk, app, fcnt] =>
    match bytesOfHex? h, key? nwk, optKey? app, fcnt.toNat? with
    | some b, some nwk, some app, some n =>
      let n := UInt32.ofNat n
      let m := showInPlaceModel (Codec.checkMicAndDecryptInPlace aes b nwk app n)
      let s := match Spec.decodeData b with
        | .error e => s!"{showErr e};{hx b}"
        | .ok v0 =>
          if !Spec.dataAuthentic aes nwk n b v0 then s!"ERR:InvalidMic;{hx b}"
          else match Spec.decryptData aes (some nwk) app n b with
            | .ok (v, plain) => s!"OK {kindSpec v plain} {showSpecView v plain};{hx (Spec.withPayload b v plain)}"
            | .error e => s!"{showErr e};{hx b}"
      s!"{m}|{s}"
    | _, _, _, _ => "bad-op"
  | ["dd", h, nwk, app, fcnt] =>
    -- decrypt twice: the caller's buffer is back to what was received
    match bytesOfHex? h, optKey? nwk, optKey? app, fcnt.toNat? with
    | some b, some nwk, some app, some n =>
      let n := UInt32.ofNat n
      let m := match Codec.decryptInPlace aes b nwk app n with
        | (.ok _, b1) => (match Codec.decryptInPlace aes b1 nwk app n with
            | (.ok _, b2) => hx b2
            | (.err e, _) => "SECOND-" ++ showErr e
            | (.panic, _) => "PANIC")
        | (.err e, _) => showErr e
        | (.panic, _) => "PANIC"
      let s := match Spec.decryptData aes nwk app n b with
        | .ok _ => hx b
        | .error e => showErr e
      s!"{m}|{s}"
    | _, _, _, _ => "bad-op"
  | ["jrmic", h, k] =>
    match bytesOfHex? h, key? k with
    | some b, some k =>
      let m := outStr b01 ((Codec.parseJoinRequest b).bind fun bytes => Codec.joinRequestValidateMic bytes ⟨aes, k⟩)
      let s := exStr (fun v => b01 (Spec.joinRequestAuthentic aes k b v)) (Spec.decodeJoinRequest b)
      s!"{m}|{s}"
    | _, _ => "bad-op"
  | ["ja", h, k, dn] =>
    match bytesOfHex? h, key? k, vec? 2 dn with
    | some b, some k, some dn =>
      let cr : Codec.Crypto := ⟨aes, k⟩
      let m := match Codec.joinAcceptDecryptInPlace b cr with
        | (.ok dec, buf) =>
          (match Codec.joinAcceptValidateMic dec cr, Codec.joinAcceptView dec, Codec.deriveSessionKey dec 0x01 dn cr,
                 Codec.deriveSessionKey dec 0x02 dn cr, Codec.joinAcceptCheckMicAndDecryptInPlace b cr with
          | .ok ok, .ok v, .ok nk, .ok ak, chk =>
            let chkS := match chk.1 with | .ok _ => "OK" | .err e => showErr e | .panic => "PANIC"
            s!"OK mic={b01 ok} chk={chkS} chkbuf={hx chk.2} jn={hx v.joinNonce} ni={hx v.netId} addr={hx v.devAddr} dl={hexByte v.dlSettings} rx={v.rxDelay.toNat} cfl={showCfModel v.cFList} micb={hx v.mic} nwk={hx nk} app={hx ak};{hx buf}"
          | _, _, _, _, _ => "PANIC")
        | (.err e, buf) => s!"{showErr e};{hx buf}"
        | (.panic, _) => "PANIC"
      let s := match Spec.decodeJoinAccept aes k b with
        | .ok (clear, v, ok) =>
          let chkS := if ok then "OK" else "ERR:InvalidMic"
          let nk := Spec.sessionKey aes k 0x01 v.joinNonce v.netId (Spec.fromLe dn.toList)
          let ak := Spec.sessionKey aes k 0x02 v.joinNonce v.netId (Spec.fromLe dn.toList)
          s!"OK mic={b01 ok} chk={chkS} chkbuf={hx clear} jn={hx (Spec.le 3 v.joinNonce)} ni={hx (Spec.le 3 v.netId)} addr={hx (Spec.le 4 v.devAddr.toNat)} dl={hexByte v.dlSettings} rx={v.rxDelay.toNat} cfl={showCfSpec v.cfList} micb={hx v.mic} nwk={hx nk.toList} app={hx ak.toList};{hx clear}"
        | .error e => s!"{showErr e};{hx b}"
      s!"{m}|{s}"
    | _, _, _ => "bad-op"
  | "rt" :: ft :: addr :: flags :: fcnt :: fopts :: port :: pld :: nwk :: app :: [] =>
    -- build, then check MIC and decrypt what was built, with the same keys and counter
    match C01.ftype? ft, vec? 4 addr, flags.toNat?, fcnt.toNat?, bytesOfHex? fopts, bytesOfHex? pld, key? nwk, optKey? app with
    | some ft, some addr, some fl, some fcnt, some fopts, some pld, some nwk, some app =>
      match C01.payload? port pld with
      | some payload =>
        let d : Codec.DataFrame :=
          { frameType := ft, devAddr := addr, adr := fl &&& 8 ≠ 0, adrAckReq := fl &&& 4 ≠ 0, ack := fl &&& 2 ≠ 0,
            fPending := fl &&& 1 ≠ 0, fcnt := UInt32.ofNat fcnt, fOpts := fopts, payload := payload }
        let m := match d.buildInto aes (List.replicate 300 0) nwk app with
          | .ok frame => "RT " ++ showInPlaceModel (Codec.checkMicAndDecryptInPlace aes frame nwk app d.fcnt)
          | .err e => "RT " ++ showErr e
          | .panic => "PANIC"
        -- the specification: the frame decodes to the normalised description (MIC = the one the encoder computed)
        let s := match Spec.encodeData aes nwk app d.toSpec 300 with
          | .error e => "RT " ++ showErr e
          | .ok frame =>
            let n := d.toSpec.norm
            let plain := match n.body with | some (_, p) => p | none => []
            let v : Spec.DataView :=
              { ftype := n.ftype, uplink := n.ftype.isUplink, confirmed := n.ftype.isConfirmed, devAddr := n.devAddr,
                fctrl := Spec.fctrl n, adr := n.adr, adrAckReq := n.adrAckReq, ack := n.ack, fPending := n.fPending,
                foptsLen := n.fopts.length, fcnt16 := UInt16.ofNat (n.fcnt.toNat % 65536), fopts := n.fopts,
                port := n.body.map (fun (x : UInt8 × Bytes) => x.1), frm := plain, mic := frame.drop (frame.length - 4) }
            s!"RT OK {kindSpec v plain} {showSpecView v plain};{hx (frame.take (frame.length - 4 - plain.length) ++ plain ++ v.mic)}"
        s!"{m}|{s}"
      | none => "bad-op"
    | _, _, _, _, _, _, _, _ => "bad-op"
  | _ => "bad-op"

end Driver.C02
