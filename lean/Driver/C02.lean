import Driver.Util
/-! Suite C02: line-protocol handlers (stub — replaced when the property's model is built). -/
namespace Driver.C02

def handle (_ws : List String) : String := "bad-op"

end Driver.C02
