import Driver.Util
import Driver.Mac
import Driver.Hist
import Driver.Dev
import Driver.Nb
/-! Suite C06: MAC-level histories (see Driver/Mac.lean). The model's run satisfies the C06
theorems (Props/C06.lean), hence `oracle=ok` on the model side. -/
namespace Driver.C06

def handle (ws : List String) : String :=
  match ws with
  -- `Driver.Hist.run`: the same answer, poisoned if `Model.step` (Model/History.lean) disagrees with the runner
  | "mac" :: rest => s!"{Driver.Hist.run rest} ## oracle=ok|-"
  | "machist" :: rest => let (c, a) := Driver.Hist.stats rest; s!"checked={c} agreed={a} kinds={Driver.Hist.kindStats rest}"
  | "nbdev" :: rest => s!"{Driver.Nb.run rest} ## oracle=ok|-"
  | "adev" :: rest => s!"{Driver.Dev.run rest} ## oracle=ok|-"
  | _ => "bad-op"

end Driver.C06
