import Driver.Util
/-! Suite C06: line-protocol handlers (stub — replaced when the property's model is built). -/
namespace Driver.C06

def handle (_ws : List String) : String := "bad-op"

end Driver.C06
