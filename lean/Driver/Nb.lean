import LoraVerif.Model.NbDevice
import Driver.Mac
/-!
History runner for the non-blocking front-end model.

Op line: `<suite> nbdev <region> <seed> <forced|-> <offset> <duration> ; ev [| script] ; …`
Events:  `abp <devaddr>` | `njoin` | `nsend <port> <conf> <hex|->` | `nradio txdone <ts>` |
         `nradio rx <snr> <hex> <view…>` | `ntimeout` | `adr b` | `dr n` | `snap`
Script:  what the radio answers to the calls of this event: `O` default, `E` error, `D<ts>` TxDone at once, `I` Idle.
-/
open Model Driver.Mac
namespace Driver.Nb

def showCall : NbCall → String
  | .txRequest t len => s!"txreq({showRf t.rf},{t.pw},{len})"
  | .rxRequest rf => s!"rxreq({showRf rf})"
  | .cancelRx => "cancel"
  | .phy => "phy"

def parseItem? (t : String) : Option NbItem :=
  if t = "O" then some .dflt
  else if t = "E" then some .err
  else if t = "I" then some .idle
  else if t.startsWith "D" then (t.drop 1).toString.toNat?.map .txDoneNow
  else none

def showResp : NbResp → String
  | .mac r => Driver.Mac.showResp r
  | .timeoutRequest t => s!"TimeoutRequest({t})"
  | .uplinkSending n => s!"UplinkSending({n})"
  | .errRadio => "Err(Radio)"
  | .errState s => s!"Err(State:{s})"
  | .errMac => "Err(Mac)"

structure Run where
  /-- `hold`: the application does not collect downlinks after every call (they stay queued until `take`) -/
  hold : Bool := false
  r : NbRun
  rng : RngSt
  cfg : NbCfg

def showDls (l : List (Nat × List Nat)) : String :=
  if l.isEmpty then "-" else String.intercalate "," (l.reverse.map (fun (p, d) => s!"{p}:{hexNat d}"))

inductive EvOut where
  | out (s : String) (r : Run)
  | fault (s : String)
  | bad

def doStep (run : Run) (items : List NbItem) (ev : NbEvent) (up : String) : EvOut :=
  let r0 : NbRun := { run.r with script := items, calls := [], downlinks := (if run.hold then run.r.downlinks else []) }
  match nbStep rngNext run.cfg r0 ev run.rng with
  | .ok (resp, r, g) =>
    let calls := String.intercalate ";" (r.calls.reverse.map showCall)
    let hasTx := r.calls.any (fun c => match c with | .txRequest _ _ => true | _ => false)
    .out s!"calls={calls} => {showResp resp} {if hasTx then up else "up=-"} dls={if run.hold then "-" else showDls r.downlinks}" { run with r := r, rng := g }
  | .error f => .fault (showFault f)

def stepEvent (run : Run) (ev : String) : EvOut :=
  let (cmd, script) := match ev.splitOn "|" with
    | [a, b] => (a, b)
    | [a] => (a, "")
    | _ => (ev, "")
  let ws := Driver.splitWords cmd
  match (Driver.splitWords script).mapM parseItem? with
  | none => .bad
  | some items =>
  match ws with
  | ["abp", da] =>
    match parseNat? da with
    | some da => .out "ok" { run with r := { run.r with m := macJoinAbp run.r.m da 1 2 } }
    | none => .bad
  | ["njoin"] => doStep run items .join "up=join"
  | ["nsend", port, conf, data] =>
    match parseNat? port, Driver.parseBool? conf, natsOfHex? data with
    | some port, some conf, some data =>
      let up : String := match run.r.st with
        | .idle => (match macSend rngNext run.r.m data port conf run.rng with
          | .ok (some o, _, _) => showUp o.frame
          | _ => "up=-")
        | _ => "up=-"
      doStep run items (.send data port conf) up
    | _, _, _ => .bad
  | ["nradio", "txdone", ts] =>
    match parseNat? ts with
    | some ts => doStep run items (.radio (.txDone ts)) "up=-"
    | none => .bad
  | "nradio" :: "rx" :: snr :: _hex :: view =>
    match Driver.parseInt? snr, parseView? view with
    | some snr, some v => doStep run items (.radio (.rx snr v)) "up=-"
    | _, _ => .bad
  | ["ntimeout"] => doStep run items .timeout "up=-"
  | ["sess", da, up, down] =>
    match parseNat? da, parseNat? up, optNat? down with
    | some da, some up, some down =>
      let s : Session := { Session.new da 1 2 with fcntUp := up, fcntDown := down }
      .out "ok" { run with r := { run.r with m := { run.r.m with st := .joined s } } }
    | _, _, _ => .bad
  -- the same with the stored `confirmed` flag and ADR counter (a session saved after a confirmed uplink)
  | ["sess", da, up, down, conf, cnt] =>
    match parseNat? da, parseNat? up, optNat? down, Driver.parseBool? conf, parseNat? cnt with
    | some da, some up, some down, some conf, some cnt =>
      let s : Session := { Session.new da 1 2 with fcntUp := up, fcntDown := down, confirmed := conf, adrAckCnt := cnt }
      .out "ok" { run with r := { run.r with m := { run.r.m with st := .joined s } } }
    | _, _, _, _, _ => .bad
  | ["adr", b] =>
    match Driver.parseBool? b with
    | some b => .out "ok" { run with r := { run.r with m := macSetAdr run.r.m b } }
    | none => .bad
  | ["dr", n] =>
    match parseNat? n with
    | some n => .out "ok" { run with r := { run.r with m := macSetDatarate run.r.m n } }
    | none => .bad
  | ["hold"] => .out "ok" { run with hold := true }
  | ["take"] => .out s!"dls={showDls run.r.downlinks}" { run with r := { run.r with downlinks := [] } }
  | ["snap"] => .out (showSnap run.r.m) run
  | _ => .bad

def runEvents : List String → Run → List String → List String
  | [], _, acc => acc.reverse
  | ev :: rest, r, acc =>
    match stepEvent r ev with
    | .out s r' => runEvents rest r' (s :: acc)
    | .fault s => (s :: acc).reverse
    | .bad => ("bad-op" :: acc).reverse

def parseHeader? (ws : List String) : Option Run :=
  match ws with
  | [region, seed, forced, offset, duration] => do
    let rid ← RegionId.ofName? region
    let seed ← parseNat? seed
    let forced ← (if forced = "-" then some [] else (forced.splitOn ",").mapM parseNat?)
    let offset ← Driver.parseInt? offset
    let duration ← parseNat? duration
    pure { r := { m := MacState.init (RegionState.init rid) 20 0, st := .idle, script := [], calls := [], downlinks := [] },
           rng := { forced := forced, x := seed.toUInt64 }, cfg := { offset := offset, duration := duration } }
  | _ => none

def run (line : List String) : String :=
  let segs := (String.intercalate " " line).splitOn ";"
  match segs with
  | hd :: evs =>
    match parseHeader? (Driver.splitWords hd) with
    | some r => String.intercalate " ; " (runEvents (evs.map (fun e => e.trimAscii.toString)) r [])
    | none => "bad-op"
  | [] => "bad-op"

end Driver.Nb
