/-! Line-protocol helpers shared by all suites (import-free). -/
namespace Driver

def splitWords (s : String) : List String :=
  (s.trimAscii.toString.splitOn " ").filter (· ≠ "")

def parseInt? (s : String) : Option Int :=
  if s.startsWith "-" then (s.drop 1).toString.toNat?.map (fun n => -(n : Int))
  else s.toNat?.map (fun n => (n : Int))

def parseBool? (s : String) : Option Bool :=
  if s = "1" || s = "true" then some true else if s = "0" || s = "false" then some false else none

def showOptInt : Option Int → String
  | some v => toString v
  | none => "PANIC"

/-- FNV-1a 64 over a stream of 64-bit words (each result is fed as 8 little-endian bytes). -/
structure Fnv where
  h : UInt64 := 0xcbf29ce484222325

@[inline] def Fnv.byte (f : Fnv) (b : UInt8) : Fnv := { h := (f.h ^^^ b.toUInt64) * 0x100000001b3 }

@[inline] def Fnv.word (f : Fnv) (w : UInt64) : Fnv := Id.run do
  let mut f := f
  let mut w := w
  for _ in [0:8] do
    f := f.byte (w &&& 0xff).toUInt8
    w := w >>> 8
  return f

/-- encode an optional integer result as one word: PANIC = 0xFFFF_FFFF_FFFF_FFFF, value = two's complement -/
@[inline] def optWord : Option Int → UInt64
  | none => 0xFFFFFFFFFFFFFFFF
  | some v => (Int.toNat (v % 18446744073709551616)).toUInt64

def hex64 (w : UInt64) : String :=
  let ds := (Nat.toDigits 16 w.toNat)
  String.ofList (List.replicate (16 - ds.length) '0' ++ ds)

def hexByte (b : UInt8) : String :=
  let ds := Nat.toDigits 16 b.toNat
  String.ofList (List.replicate (2 - ds.length) '0' ++ ds)

def hexOfBytes (bs : List UInt8) : String := String.join (bs.map hexByte)

def hexDigit? (c : Char) : Option Nat :=
  if '0' ≤ c ∧ c ≤ '9' then some (c.toNat - '0'.toNat)
  else if 'a' ≤ c ∧ c ≤ 'f' then some (c.toNat - 'a'.toNat + 10)
  else if 'A' ≤ c ∧ c ≤ 'F' then some (c.toNat - 'A'.toNat + 10)
  else none

def bytesOfHex? (s : String) : Option (List UInt8) :=
  let rec go : List Char → List UInt8 → Option (List UInt8)
    | [], acc => some acc.reverse
    | [_], _ => none
    | a :: b :: rest, acc =>
      match hexDigit? a, hexDigit? b with
      | some x, some y => go rest ((x * 16 + y).toUInt8 :: acc)
      | _, _ => none
  if s = "-" then some [] else go s.toList []

end Driver
