import Driver.Util
import Driver.Mac
import Driver.Dev
import Driver.Nb
import LoraVerif.Gen.Session
/-! Suite C05: `next_fcnt_down` (generated from session.rs) and MAC histories. -/
namespace Driver.C05
open Driver

def showOpt : Option Int → String
  | some v => toString v
  | none => "none"

def next (last : Option Int) (wire : Int) : Option Int := Gen.Session.next_fcnt_down last wire

/-- the arithmetic specification of C05, executable: the unique N ≡ wire (mod 2^16) with
last < N ≤ last + 16384 and N < 2^32; any wire value when there is no last -/
def specNext (last : Option Int) (wire : Int) : Option Int :=
  match last with
  | none => some wire
  | some l =>
    -- candidates: same epoch and next epoch
    let base := l - l % 65536
    let c1 := base + wire
    let c2 := base + 65536 + wire
    let ok (n : Int) : Bool := decide (l < n) && decide (n ≤ l + 16384) && decide (n < 4294967296)
    if ok c1 then some c1 else if ok c2 then some c2 else none

def digest (f : Int → Option Int) : UInt64 := Id.run do
  let mut h : Fnv := {}
  for w in [0:65536] do
    h := h.word (optWord (f (w : Int)))
  return h.h

def handle (ws : List String) : String :=
  match ws with
  | "mac" :: rest => s!"{Driver.Mac.run rest} ## oracle=ok|-"
  | "nbdev" :: rest => s!"{Driver.Nb.run rest} ## oracle=ok|-"
  | "adev" :: rest => s!"{Driver.Dev.run rest} ## oracle=ok|-"
  | ["next", last, wire] =>
    match parseInt? wire with
    | some w =>
      let l : Option Int := parseInt? last
      s!"{showOpt (next l w)}|{showOpt (specNext l w)}"
    | none => "bad-op"
  | ["next_digest", last] =>
    let l : Option Int := parseInt? last
    s!"{hex64 (digest (next l))}|{hex64 (digest (specNext l))}"
  | _ => "bad-op"

end Driver.C05
