import Driver.Util
/-! Suite C05: line-protocol handlers (stub — replaced when the property's model is built). -/
namespace Driver.C05

def handle (_ws : List String) : String := "bad-op"

end Driver.C05
