import LoraVerif.Model.History
import Driver.Mac
/-!
Ties `Model/History.lean` (the step function the history theorems of C04/C06/C09 are about) to the
event-by-event history runner of the correspondence (`Driver/Mac.lean`, whose answers are compared
with the real code on every run).

The op line's events are finer than the history events (`send ; rx1 … ; rx2 … ; timeout`).  The events
are grouped: a group is a head event (`send`, `otaa`, `abp`, `adr`, `dr`, `rxc`) plus the receive-window
events that follow it.  When the group has the shape of the Class A procedure (every window but the
last answers `NoUpdate`; the procedure ends with a response or with the timeout) it IS one history
event; then `Model.step` is run from the runner's current state and must end in exactly the state,
generator state and transmit configuration the runner reaches event by event.  Any difference poisons
the model's answer, which makes the check report `impl!=model`.  Groups of another shape (the MAC-level
harness may call the handlers in any order) are left to the event-by-event comparison alone.
-/
open Model
namespace Driver.Hist
open Driver.Mac

def isProbe (ws : List String) : Bool :=
  match ws with
  | ["snap"] | ["delays"] | ["persist"] => true
  | _ => false

def isWindowEv (ws : List String) : Bool :=
  match ws with
  | w :: _ => w = "rx1" || w = "rx2" || w = "timeout"
  | [] => false

/-- split into groups: a head event with the window/probe events that follow it -/
def groups : List (List String) → List (List (List String)) → List (List (List String))
  | [], acc => acc.reverse.map List.reverse
  | ev :: rest, acc =>
    if isWindowEv ev || isProbe ev then
      match acc with
      | g :: gs => groups rest ((ev :: g) :: gs)
      | [] => groups rest [[ev]]
    else groups rest ([ev] :: acc)

inductive WinEv where
  | rx (second : Bool) (v : RxView) (snr : Int)
  | timeout

def parseWin (ws : List String) : Option WinEv :=
  match ws with
  | ["timeout"] => some .timeout
  | w :: snr :: _hex :: view =>
    if w = "rx1" || w = "rx2" then do
      let s ← parseInt? snr
      let v ← parseView? view
      pure (.rx (w = "rx2") v s)
    else none
  | _ => none

/-- run events the runner's way; `none` = a fault or a malformed event occurred; also the outputs -/
def applyEvents (r : Run) : List (List String) → List String → Option (Run × List String)
  | [], acc => some (r, acc.reverse)
  | ev :: rest, acc =>
    match stepEvent r ev with
    | .out s r' => applyEvents r' rest (s :: acc)
    | _ => none

def rngEq (a b : RngSt) : Bool := a.forced == b.forced && a.x == b.x

/-- the shape of the Class A procedure: optional RX1 frame, optional RX2 frame, optional timeout, in
this order; `outs` = the runner's answers to these events -/
def procedure (wins : List WinEv) (outs : List String) :
    Option (Option (RxView × Int) × Option (RxView × Int)) :=
  let noUpd (s : String) : Bool := s.startsWith "resp=NoUpdate" || s.startsWith "resp=NotJoined"
  match wins, outs with
  | [.timeout], [_] => some (none, none)
  | [.rx false v s], [o] => if noUpd o then none else some (some (v, s), none)
  | [.rx false v s, .timeout], [o, _] => if noUpd o then some (some (v, s), none) else none
  | [.rx false v s, .rx true v2 s2], [o, o2] => if noUpd o && !noUpd o2 then some (some (v, s), some (v2, s2)) else none
  | [.rx false v s, .rx true v2 s2, .timeout], [o, o2, _] => if noUpd o && noUpd o2 then some (some (v, s), some (v2, s2)) else none
  | [.rx true v2 s2], [o2] => if noUpd o2 then none else some (none, some (v2, s2))
  | [.rx true v2 s2, .timeout], [o2, _] => if noUpd o2 then some (none, some (v2, s2)) else none
  | _, _ => none

/-- cross-check one group; `none` = not a history event (left to the event-by-event comparison) -/
def checkGroup (r : Run) (grp : List (List String)) : Option Bool :=
  let core := grp.filter (fun e => !isProbe e)
  match core with
  | [] => none
  | head :: tail =>
    match tail.mapM parseWin with
    | none => none
    | some wins =>
      match applyEvents r core [] with
      | none => none
      | some (r', outs) =>
        let agree (res : M ((MacState × RngSt) × Out)) : Bool :=
          match res with
          | .ok ((m, g), _) => m == r'.m && rngEq g r'.rng
          | .error _ => false
        match head with
        | ["abp", da] =>
          match da.toNat?, wins with
          | some da, [] => some (agree (step rngNext (r.m, r.rng) (.joinAbp da 1 2)))
          | _, _ => none
        | ["adr", b] =>
          match parseBool? b, wins with
          | some b, [] => some (agree (step rngNext (r.m, r.rng) (.setAdr b)))
          | _, _ => none
        | ["dr", n] =>
          match n.toNat?, wins with
          | some n, [] => some (agree (step rngNext (r.m, r.rng) (.setDr n)))
          | _, _ => none
        | "rxc" :: snr :: _hex :: view =>
          match parseInt? snr, parseView? view, wins, macRxcConfig r.m with
          | some snr, some v, [], .ok rf => some (agree (step rngNext (r.m, r.rng) (.rxc v snr rf.maxPayload.toNat)))
          | _, _, _, _ => none
        | ["send", port, conf, data] =>
          match port.toNat?, parseBool? conf, natsOfHex? data with
          | some port, some conf, some data =>
            match macSend rngNext r.m data port conf r.rng with
            | .ok (some o, _, _) =>
              match procedure wins (outs.drop 1) with
              | some (rx1, rx2) =>
                let res := step rngNext (r.m, r.rng) (.uplink data port conf none rx1 rx2 o.tx.rx1.maxPayload.toNat o.tx.rx2.maxPayload.toNat)
                let txOk := match res with
                  | .ok (_, .up o' _ _) => o' == o
                  | _ => false
                some (agree res && txOk)
              | none => none
            | .ok (none, _, _) =>
              if wins.isEmpty then some (agree (step rngNext (r.m, r.rng) (.uplink data port conf none none none 0 0))) else none
            | .error _ => none
          | _, _, _ => none
        | "otaa" :: _ =>
          match macJoinOtaa rngNext r.m r.rng with
          | .ok (o, _, _) =>
            match procedure wins (outs.drop 1) with
            | some (rx1, rx2) =>
              let res := step rngNext (r.m, r.rng) (.joinOtaa none rx1 rx2 o.tx.rx1.maxPayload.toNat o.tx.rx2.maxPayload.toNat)
              let txOk := match res with
                | .ok (_, .join o' _) => o' == o
                | _ => false
              some (agree res && txOk)
            | none => none
          | .error _ => none
        | _ => none

def headKind (g : List (List String)) : Nat :=
  match g.filter (fun e => !isProbe e) with
  | ("send" :: _) :: _ => 0
  | ("otaa" :: _) :: _ => 1
  | ("rxc" :: _) :: _ => 2
  | _ => 3

/-- how many checked groups are uplinks / joins / Class C receptions / configuration calls -/
def kinds (r : Run) : List (List (List String)) → List Nat → List Nat
  | [], acc => acc
  | g :: gs, acc =>
    let acc := match checkGroup r g with
      | some _ => acc.set (headKind g) ((acc.getD (headKind g) 0) + 1)
      | none => acc
    match applyEvents r g [] with
    | some (r', _) => kinds r' gs acc
    | none => acc

def kindStats (line : List String) : List Nat :=
  let segs := (String.intercalate " " line).splitOn ";"
  match segs with
  | hd :: evs =>
    match parseHeader? (splitWords hd) with
    | some r => kinds r (groups (evs.map splitWords) []) [0, 0, 0, 0]
    | none => [0, 0, 0, 0]
  | [] => [0, 0, 0, 0]

/-- walk the groups with the runner's state; (checked, agreed) -/
def walk (r : Run) : List (List (List String)) → Nat → Nat → Nat × Nat
  | [], c, a => (c, a)
  | g :: gs, c, a =>
    let (c, a) := match checkGroup r g with
      | some true => (c + 1, a + 1)
      | some false => (c + 1, a)
      | none => (c, a)
    match applyEvents r g [] with
    | some (r', _) => walk r' gs c a
    | none => (c, a)

def stats (line : List String) : Nat × Nat :=
  let segs := (String.intercalate " " line).splitOn ";"
  match segs with
  | hd :: evs =>
    match parseHeader? (splitWords hd) with
    | some r => walk r (groups (evs.map splitWords) []) 0 0
    | none => (0, 0)
  | [] => (0, 0)

/-- the runner's answer; poisoned when a history event and the runner disagree -/
def run (line : List String) : String :=
  let (c, a) := stats line
  if c == a then Driver.Mac.run line else s!"HISTORY-STEP-MISMATCH({a}/{c}) ; {Driver.Mac.run line}"

end Driver.Hist
