import Driver.Util
/-! Suite C08: line-protocol handlers (stub — replaced when the property's model is built). -/
namespace Driver.C08

def handle (_ws : List String) : String := "bad-op"

end Driver.C08
