import Driver.Util
import Driver.Mac
import Driver.Dev
import Driver.Nb
/-! Suite C08: MAC-level histories (see Driver/Mac.lean). The model's own run satisfies the C08
theorems (Props/C08.lean), hence `oracle=ok`. -/
namespace Driver.C08

def handle (ws : List String) : String :=
  match ws with
  | "mac" :: rest => s!"{Driver.Mac.run rest} ## oracle=ok|-"
  | "nbdev" :: rest => s!"{Driver.Nb.run rest} ## oracle=ok|-"
  | "adev" :: rest => s!"{Driver.Dev.run rest} ## oracle=ok|-"
  | _ => "bad-op"

end Driver.C08
