import Driver.Util
/-! Suite C13: line-protocol handlers (stub — replaced when the property's model is built). -/
namespace Driver.C13

def handle (_ws : List String) : String := "bad-op"

end Driver.C13
