import LoraVerif.Model.PhySpi
import LoraVerif.Spec.SemtechSpi
import Driver.Util
/-! Suite C13: model = `Model.Phy.Sx126x` / `Sx127x` (transliteration of lora-phy), spec =
`Spec.Semtech` (transcription of SWL2001).  Op lines: see `harness/src/c13.rs`. -/
open Model.Phy
namespace Driver.C13

def regInit (seed a : Nat) : UInt8 :=
  UInt8.ofNat ((((a * 2654435761 + seed * 40503) % 4294967296) / 8192) % 256)

def hexNat? (s : String) : Option Nat :=
  s.toList.foldl (fun acc c => match acc, hexDigit? c with
    | some a, some d => some (a * 16 + d)
    | _, _ => none) (some 0)

def parsePokes (s : String) : Option (List (Nat × UInt8)) :=
  if s = "-" then some [] else
  (s.splitOn ",").foldr (fun p acc =>
    match acc, p.splitOn "=" with
    | some l, [a, v] =>
      match hexNat? a, hexNat? v with
      | some a, some v => some ((a, UInt8.ofNat v) :: l)
      | _, _ => none
    | _, _ => none) (some [])

inductive Variant where
  | sx1261 | sx1262 | wlhp | wllp | sx1276 | sx1272
  deriving DecidableEq

structure ChipCfg where
  variant : Variant
  dcdc : Bool := false
  boost : Bool := false
  tcxo : Option Nat := none
  tcxoUsed : Bool := false
  txBoost : Bool := false

def parseFlags : List Char → ChipCfg → Option ChipCfg
  | [], c => some c
  | 'd' :: r, c => parseFlags r { c with dcdc := true }
  | 'b' :: r, c => parseFlags r { c with boost := true }
  | 'c' :: r, c => parseFlags r { c with tcxoUsed := true }
  | 'x' :: r, c => parseFlags r { c with txBoost := true }
  | 't' :: k :: r, c =>
    if '0' ≤ k ∧ k ≤ '7' then parseFlags r { c with tcxo := some (k.toNat - '0'.toNat) } else none
  | _, _ => none

def parseChip (tok : String) : Option ChipCfg :=
  let (v, flags) := match tok.splitOn "/" with
    | [v] => (v, "")
    | [v, f] => (v, f)
    | _ => ("", "")
  let variant : Option Variant := match v with
    | "1261" => some .sx1261 | "1262" => some .sx1262 | "wlhp" => some .wlhp | "wllp" => some .wllp
    | "1276" => some .sx1276 | "1272" => some .sx1272 | _ => none
  variant.bind (fun v => parseFlags flags.toList { variant := v })

def is126 : Variant → Bool
  | .sx1276 | .sx1272 => false
  | _ => true

def mkChip (cfg : ChipCfg) (seed : Nat) (pokes : List (Nat × UInt8)) : Chip :=
  let base : Nat → UInt8 := fun a => regInit seed a
  let regs := pokes.foldl (fun f (a, v) => setAt f a v) base
  { kind := if is126 cfg.variant then .sx126x else .sx127x,
    regs := regs,
    buffer := fun a => regInit (seed ^^^ 0x5555) (0x10000 + a) }

/-! ### rendering -/

def showErr : RadioError → String
  | .SPI => "SPI" | .Reset => "Reset" | .RfSwitchRx => "RfSwitchRx" | .RfSwitchTx => "RfSwitchTx"
  | .Busy => "Busy" | .Irq => "Irq" | .DIO1 => "DIO1" | .InvalidConfiguration => "InvalidConfiguration"
  | .InvalidRadioMode => "InvalidRadioMode" | .InvalidSyncWord => "InvalidSyncWord"
  | .OpError s => s!"OpError({s.toNat})"
  | .InvalidBaseAddress a b => s!"InvalidBaseAddress({a},{b})"
  | .PayloadSizeUnexpected n => s!"PayloadSizeUnexpected({n})"
  | .PayloadSizeMismatch a b => s!"PayloadSizeMismatch({a},{b})"
  | .UnavailableSpreadingFactor => "UnavailableSpreadingFactor"
  | .UnavailableBandwidth => "UnavailableBandwidth"
  | .InvalidBandwidthForFrequency => "InvalidBandwidthForFrequency"
  | .InvalidSF6ExplicitHeaderRequest => "InvalidSF6ExplicitHeaderRequest"
  | .InvalidOutputPowerForFrequency => "InvalidOutputPowerForFrequency"
  | .TransmitTimeout => "TransmitTimeout" | .ReceiveTimeout => "ReceiveTimeout"
  | .DutyCycleUnsupported => "DutyCycleUnsupported" | .RngUnsupported => "RngUnsupported"

def showEv (e : Ev) : String :=
  let base := match e.req with
    | .spi w r => "s" ++ hexOfBytes w ++ (if r > 0 then s!"/{r}" else "")
    | .busy => "B" | .irq => "I" | .rfRx => "Rx" | .rfTx => "Tx" | .rfOff => "Off" | .reset => "Rst"
    | .delay ms => s!"D{ms}"
  match e.mark with
  | .done => base
  | .failed => base ++ "!"
  | .pending => base ++ "~"

def showLog (log : List Ev) : String :=
  if log.isEmpty then "-" else String.intercalate "," (log.map showEv)

def showMosi (t : List Bytes) : String :=
  if t.isEmpty then "-" else String.intercalate "," (t.map hexOfBytes)

def showOut {α : Type} (f : α → String) : Out α → String
  | .ok a => f a
  | .err e => "err:" ++ showErr e
  | .panic _ => "PANIC"
  | .dropped => "DROPPED"

/-! ### parsing of operation arguments -/

def rxModeOf? (s : String) : Option RxMode :=
  if s = "rxc" then some .continuous
  else if s.startsWith "rxs" then (s.drop 3).toString.toNat?.map .single
  else if s.startsWith "rxd" then
    match (s.drop 3).toString.splitOn ":" with
    | [a, b] => match a.toNat?, b.toNat? with
      | some a, some b => some (.dutyCycle a b)
      | _, _ => none
    | _ => none
  else none

def modeOf? (s : String) : Option RadioMode :=
  match s with
  | "sleep" => some .sleep | "standby" => some .standby | "fs" => some .frequencySynthesis
  | "tx" => some .transmit | "listen" => some .listen | "cad" => some .cad
  | _ => (rxModeOf? s).map .receive

namespace S126
open Gen.PhyCodes126 Model.Phy.Sx126x

def sfOf? (n : Nat) : Option SpreadingFactor :=
  if n = 5 then some ._5 else if n = 6 then some ._6 else if n = 7 then some ._7 else if n = 8 then some ._8
  else if n = 9 then some ._9 else if n = 10 then some ._10 else if n = 11 then some ._11
  else if n = 12 then some ._12 else none
def bwOf? (hz : Nat) : Option Bandwidth :=
  -- op lines name a bandwidth by the datasheet's figure in Hz (the C13 harness's own table, legacy replays)
  -- or by the crate's current `hz()`
  match hz with
  | 7810 => some ._7KHz | 10420 => some ._10KHz | 15630 => some ._15KHz | 20830 => some ._20KHz
  | 31250 => some ._31KHz | 41670 => some ._41KHz | 62500 => some ._62KHz | 125000 => some ._125KHz
  | 250000 => some ._250KHz | 500000 => some ._500KHz
  | _ => Bandwidth.all.find? (fun b => b.hz == (hz : Int))
def crOf? (d : Nat) : Option CodingRate :=
  if d = 5 then some ._4_5 else if d = 6 then some ._4_6 else if d = 7 then some ._4_7 else if d = 8 then some ._4_8 else none
def tcxoOf? (k : Nat) : Option TcxoCtrlVoltage := TcxoCtrlVoltage.all.find? (fun t => t.value == (k : Int))

def config (c : ChipCfg) : Option Config :=
  let chip : Sx126x.Variant := match c.variant with
    | .sx1261 => .sx1261 | .sx1262 => .sx1262 | .wlhp => .stm32wl true | _ => .stm32wl false
  match c.tcxo with
  | none => some { chip := chip, tcxo := none, useDcdc := c.dcdc, rxBoost := c.boost }
  | some k => (tcxoOf? k).map (fun t => { chip := chip, tcxo := some t, useDcdc := c.dcdc, rxBoost := c.boost })

/-- a model operation with its result rendered, the chip being prepared first when the op asks for it -/
structure Run where
  prep : Chip → Chip := id
  prog : Prog String

def unitP (p : Prog Unit) : Prog String := do p; pure "ok"

def irqS (v : Option IrqState × Option Bool) : String :=
  let a := match v.1 with | none => "None" | some .done => "Done" | some .preambleReceived => "PreambleReceived"
  let b := match v.2 with | none => "-" | some false => "0" | some true => "1"
  s!"ok:{a},{b}"

def model (cfg : Config) (ws : List String) : Option Run :=
  match ws with
  | ["sleep", warm] => (parseBool? warm).map (fun w => ⟨id, unitP (setSleep w)⟩)
  | ["standby"] => some ⟨id, unitP setStandby⟩
  | ["channel", hz] => hz.toNat?.map (fun f => ⟨id, unitP (setChannel f)⟩)
  | ["modparams", sf, bw, cr, ldro, hz] => do
    let sf ← sf.toNat? >>= sfOf?
    let bw ← bw.toNat? >>= bwOf?
    let cr ← cr.toNat? >>= crOf?
    let ldro ← ldro.toNat?
    let hz ← hz.toNat?
    if ldro < 256 then some ⟨id, unitP (setModulationParams { sf := sf, bw := bw, cr := cr, ldro := UInt8.ofNat ldro, freq := hz })⟩ else none
  | ["pktparams", pre, implicit, len, crc, iq] => do
    let pre ← pre.toNat?
    let implicit ← parseBool? implicit
    let len ← len.toNat?
    let crc ← parseBool? crc
    let iq ← parseBool? iq
    if pre < 65536 ∧ len < 256 then
      some ⟨id, unitP (setPacketParams { preambleLength := pre, implicitHeader := implicit, payloadLength := len, crcOn := crc, iqInverted := iq })⟩
    else none
  | ["syncword", w] => w.toNat?.bind (fun w => if w < 65536 then some ⟨id, unitP (setLoraSyncWord w)⟩ else none)
  | ["bufbase", tx, rx] => do
    let tx ← tx.toNat?
    let rx ← rx.toNat?
    some ⟨id, unitP (setTxRxBufferBaseAddress tx rx)⟩
  | ["payload", h] => (bytesOfHex? h).map (fun p => ⟨id, unitP (setPayload p)⟩)
  | ["txpower", dbm, hz, prep] => do
    let dbm ← parseInt? dbm
    let prep ← parseBool? prep
    let f : Option Nat ← (if hz = "-" then some none else hz.toNat?.map some)
    some ⟨id, unitP (setTxPowerAndRampTime cfg dbm f prep)⟩
  | ["irqparams", mode] =>
    if mode = "none" then some ⟨id, unitP (setIrqParams none)⟩
    else (modeOf? mode).map (fun m => ⟨id, unitP (setIrqParams (some m))⟩)
  | ["dotx"] => some ⟨id, unitP doTx⟩
  | ["dorx", mode] => (rxModeOf? mode).map (fun m => ⟨id, unitP (doRx cfg m)⟩)
  | ["docad", sf] => do
    let sf ← sf.toNat? >>= sfOf?
    some ⟨id, unitP (doCad cfg { sf := sf, bw := ._125KHz, cr := ._4_5, ldro := 0, freq := 868100000 })⟩
  | ["calimg", hz] => hz.toNat?.map (fun f => ⟨id, unitP (calibrateImage f)⟩)
  | ["wake", mode] => (modeOf? mode).map (fun m => ⟨id, unitP (ensureReady m)⟩)
  | ["clearirq"] => some ⟨id, unitP clearIrqStatus⟩
  | ["txcw"] => some ⟨id, unitP setTxContinuousWaveMode⟩
  | ["initlora", w] => w.toNat?.bind (fun w => if w < 65536 then some ⟨id, unitP (initLora cfg w)⟩ else none)
  | ["irqevent", mode, flags, clear, cad] => do
    let m ← modeOf? mode
    let flags ← flags.toNat?
    let clear ← parseBool? clear
    let cad ← parseBool? cad
    some ⟨fun c => { c with irqDefault := flags },
          do let v ← processIrqEvent m (if cad then some false else none) clear; pure (irqS v)⟩
  | ["pktstatus", a, b, c] => do
    let a ← a.toNat?
    let b ← b.toNat?
    let c ← c.toNat?
    some ⟨fun ch => { ch with pktStatus := fun i => UInt8.ofNat (if i = 0 then a else if i = 1 then b else c) },
          do let _ ← getRxPacketStatus; pure "ok"⟩
  | ["rssi", a] => a.toNat?.map (fun a => ⟨fun ch => { ch with rssiInst := UInt8.ofNat a }, do let _ ← getRssi; pure "ok"⟩)
  | _ => none

open Spec.Semtech.S126 in
/-- the reference calls realising the operation; `none` = the reference has no counterpart -/
def spec (c : ChipCfg) (cfg : Config) (ws : List String) : Option (Prog Unit) :=
  match ws with
  | ["sleep", warm] => (parseBool? warm).map Ref.sleep
  | ["standby"] => some Ref.standby
  | ["channel", hz] => hz.toNat?.map Ref.rfFrequency
  | ["modparams", sf, bw, cr, ldro, _] => do
    let sf ← sf.toNat?
    let bw ← bw.toNat?
    let cr ← cr.toNat?
    let ldro ← ldro.toNat?
    Ref.modulation sf bw cr (UInt8.ofNat ldro)
  | ["pktparams", pre, implicit, len, crc, iq] => do
    let pre ← pre.toNat?
    let implicit ← parseBool? implicit
    let len ← len.toNat?
    let crc ← parseBool? crc
    let iq ← parseBool? iq
    some (Ref.packet pre implicit len crc iq)
  | ["syncword", w] => w.toNat?.map (fun w => Ref.syncWord (UInt8.ofNat (((w / 256) &&& 0xF0) ||| ((w / 16) &&& 0x0F))))
  | ["bufbase", tx, rx] => do
    let tx ← tx.toNat?
    let rx ← rx.toNat?
    if tx < 256 ∧ rx < 256 then some (Ref.bufferBase (UInt8.ofNat tx) (UInt8.ofNat rx)) else none
  | ["payload", h] => (bytesOfHex? h).map Ref.fifoWrite
  | ["txpower", dbm, hz, prep] => do
    let dbm ← parseInt? dbm
    let prep ← parseBool? prep
    let f : Option Nat ← (if hz = "-" then some none else hz.toNat?.map some)
    -- the SX1261 refuses >= 15 dBm below 400 MHz without touching the bus
    let refused := !cfg.chip.highPower && decide (dbm ≥ 15) && (match f with | some f => decide (f < 400000000) | none => false)
    if refused then none else
    -- the PA row comes from the variant's table (C17 decides its values); here: its framing
    let (e, txp) ← cfg.chip.paTable.lookup dbm
    some (Ref.txPower cfg.chip.highPower e.duty e.hpMax txp prep)
  | ["irqparams", mode] =>
    -- mask policy: TX = TxDone|Timeout, CAD = CadDone|CadDetected, RX and standby = all sixteen bits, else none
    let m : Nat := if mode = "standby" then 0xFFFF else if mode = "tx" then 0x0201 else if mode = "cad" then 0x0180
      else if mode.startsWith "rx" then 0xFFFF else 0
    some (Ref.irqMasks m m)
  | ["dotx"] => some Ref.startTx
  | ["dorx", mode] => (rxModeOf? mode).map (fun m => Ref.startRx c.boost (match m with
      | .single n => .single n | .continuous => .continuous | .dutyCycle a b => .dutyCycle a b))
  | ["docad", sf] => sf.toNat?.map (Ref.startCad c.boost)
  | ["calimg", hz] => hz.toNat?.map Ref.imageCalibration
  | ["wake", mode] => (modeOf? mode).map (fun m => match m with
      | .sleep => Ref.wake
      | .receive (.dutyCycle _ _) => Ref.wake
      | _ => pure ())
  | ["clearirq"] => some Ref.clearIrq
  | ["txcw"] => some Ref.txContinuousWave
  | ["initlora", w] =>
    -- with a TCXO, lora-phy clocks ClearDeviceErrors as 07 00 00 00 (read_with_status with a 2-byte
    -- buffer) where the reference sends 07 00 00: bring-up is not among the operations C13 lists,
    -- the difference is reported as an observation and the TCXO variant is compared model-only
    if c.tcxo.isSome then none else
    w.toNat?.map (fun w =>
      Ref.init c.dcdc cfg.chip.dio2AsRfSwitch (c.tcxo.map (fun k => UInt8.ofNat k))
        (UInt8.ofNat (((w / 256) &&& 0xF0) ||| ((w / 16) &&& 0x0F))))
  | ["irqevent", mode, flags, clear, _] => do
    let m ← modeOf? mode
    let flags ← flags.toNat?
    let clear ← parseBool? clear
    let rxDone := (flags / 2) % 2 == 1
    some (Ref.irqService (if clear then some 0xFFFF else none)
      (match m with | .receive (.single _) => rxDone | _ => false))
  | ["retention", a] => (hexNat? a).map (fun a => do let _ ← Spec.Semtech.S126.addRegisterToRetentionList a; pure ())
  | _ => none

end S126

namespace S127
open Gen.PhyCodes127 Model.Phy.Sx127x

def sfOf? (n : Nat) : Option SpreadingFactor :=
  if n = 5 then some ._5 else if n = 6 then some ._6 else if n = 7 then some ._7 else if n = 8 then some ._8
  else if n = 9 then some ._9 else if n = 10 then some ._10 else if n = 11 then some ._11
  else if n = 12 then some ._12 else none
def bwOf? (hz : Nat) : Option Bandwidth :=
  -- op lines name a bandwidth by the datasheet's figure in Hz (the C13 harness's own table, legacy replays)
  -- or by the crate's current `hz()`
  match hz with
  | 7810 => some ._7KHz | 10420 => some ._10KHz | 15630 => some ._15KHz | 20830 => some ._20KHz
  | 31250 => some ._31KHz | 41670 => some ._41KHz | 62500 => some ._62KHz | 125000 => some ._125KHz
  | 250000 => some ._250KHz | 500000 => some ._500KHz
  | _ => Bandwidth.all.find? (fun b => b.hz == (hz : Int))
def crOf? (d : Nat) : Option CodingRate :=
  if d = 5 then some ._4_5 else if d = 6 then some ._4_6 else if d = 7 then some ._4_7 else if d = 8 then some ._4_8 else none

def config (c : ChipCfg) : Config :=
  { chip := if c.variant = .sx1272 then .sx1272 else .sx1276, tcxoUsed := c.tcxoUsed, txBoost := c.txBoost, rxBoost := c.boost }

def modParams? (sf bw cr ldro hz : String) : Option ModulationParams := do
  let sf ← sf.toNat? >>= sfOf?
  let bw ← bw.toNat? >>= bwOf?
  let cr ← cr.toNat? >>= crOf?
  let ldro ← ldro.toNat?
  let hz ← hz.toNat?
  if ldro < 256 then some { sf := sf, bw := bw, cr := cr, ldro := UInt8.ofNat ldro, freq := hz } else none

def model (cfg : Config) (ws : List String) : Option S126.Run :=
  let unitP := S126.unitP
  match ws with
  | ["sleep", _] => some ⟨id, unitP setSleep⟩
  | ["standby"] => some ⟨id, unitP setStandby⟩
  | ["channel", hz] => hz.toNat?.map (fun f => ⟨id, unitP (setChannel f)⟩)
  | ["modparams", sf, bw, cr, ldro, hz] => (modParams? sf bw cr ldro hz).map (fun m => ⟨id, unitP (setModulationParams cfg {} m)⟩)
  | ["initmod", w, sf, bw, cr, ldro, hz] => do
    let w ← w.toNat?
    let m ← modParams? sf bw cr ldro hz
    some ⟨id, unitP (do let d ← initLora cfg {} w; setModulationParams cfg d m)⟩
  | ["pktparams", pre, implicit, len, crc, iq] => do
    let pre ← pre.toNat?
    let implicit ← parseBool? implicit
    let len ← len.toNat?
    let crc ← parseBool? crc
    let iq ← parseBool? iq
    if pre < 65536 ∧ len < 256 then
      some ⟨id, unitP (setPacketParams cfg { preambleLength := pre, implicitHeader := implicit, payloadLength := len, crcOn := crc, iqInverted := iq })⟩
    else none
  | ["syncword", w] => w.toNat?.bind (fun w => if w < 65536 then some ⟨id, unitP (setLoraSyncWord w)⟩ else none)
  | ["bufbase", tx, rx] => do
    let tx ← tx.toNat?
    let rx ← rx.toNat?
    some ⟨id, unitP (setTxRxBufferBaseAddress tx rx)⟩
  | ["payload", h] => (bytesOfHex? h).map (fun p => ⟨id, unitP (setPayload p)⟩)
  | ["txpower", dbm, _, prep] => do
    let dbm ← parseInt? dbm
    let prep ← parseBool? prep
    some ⟨id, unitP (setTxPowerAndRampTime cfg dbm prep)⟩
  | ["irqparams", mode] =>
    if mode = "none" then some ⟨id, unitP (setIrqParams none)⟩
    else (modeOf? mode).map (fun m => ⟨id, unitP (setIrqParams (some m))⟩)
  | ["dotx"] => some ⟨id, unitP doTx⟩
  | ["dorx", mode] => (rxModeOf? mode).map (fun m => ⟨id, unitP (doRx cfg m)⟩)
  | ["docad", _] => some ⟨id, unitP (doCad cfg)⟩
  | ["calimg", hz] => hz.toNat?.map (fun f => ⟨id, unitP (calibrateImage f)⟩)
  | ["wake", mode] => (modeOf? mode).map (fun m => ⟨id, unitP (ensureReady m)⟩)
  | ["clearirq"] => some ⟨id, unitP clearIrqStatus⟩
  | ["txcw"] => some ⟨id, unitP (setTxContinuousWaveMode cfg)⟩
  | ["initlora", w] => w.toNat?.bind (fun w => if w < 65536 then some ⟨id, unitP (do let _ ← initLora cfg {} w; pure ())⟩ else none)
  | ["irqevent", mode, flags, clear, cad] => do
    let m ← modeOf? mode
    let flags ← flags.toNat?
    let clear ← parseBool? clear
    let cad ← parseBool? cad
    some ⟨fun c => { c with irqDefault := flags },
          do let v ← processIrqEvent m (if cad then some false else none) clear; pure (S126.irqS v)⟩
  | ["pktstatus", a, b, _] => do
    let a ← a.toNat?
    let b ← b.toNat?
    some ⟨fun ch => { ch with regs := setAt (setAt ch.regs 0x19 (UInt8.ofNat b)) 0x1a (UInt8.ofNat a) },
          do let _ ← getRxPacketStatus cfg; pure "ok"⟩
  | ["rssi", a] => a.toNat?.map (fun a => ⟨fun ch => { ch with regs := setAt ch.regs 0x1b (UInt8.ofNat a) },
      do let _ ← getRssi cfg; pure "ok"⟩)
  | _ => none

open Spec.Semtech.S127 in
/-- the reference calls realising an operation on the SX127x -/
def spec (cfg : Config) (ws : List String) : Option (Prog Unit) :=
  match ws with
  | ["sleep", _] => some Spec.Semtech.S127.setSleep
  | ["standby"] => some Spec.Semtech.S127.setStandby
  | ["channel", hz] => hz.toNat?.map setRfFreq
  | ["syncword", w] => w.toNat?.map (fun w => Spec.Semtech.S127.setLoraSyncWord (UInt8.ofNat (((w / 256) &&& 0xF0) ||| ((w / 16) &&& 0x0F))))
  | ["dorx", mode] => match rxModeOf? mode with
    | some (.single n) => some (setLoraSyncTimeout n)
    | _ => none
  | ["modparams", sf, bw, cr, ldro, _] => do
    let sf ← sf.toNat?
    let bw ← bw.toNat?
    let cr ← cr.toNat?
    let ldro ← ldro.toNat?
    modulation (cfg.chip == .sx1272) sf bw cr (UInt8.ofNat ldro)
  | ["pktparams", pre, implicit, len, crc, _iq] => do
    let pre ← pre.toNat?
    let implicit ← parseBool? implicit
    let len ← len.toNat?
    let crc ← parseBool? crc
    if pre < 65536 ∧ len < 256 then some (setLoraPktParams (cfg.chip == .sx1272) pre implicit (UInt8.ofNat len) crc) else none
  | ["irqparams", mode] =>
    let m : Nat := if mode = "tx" then 0x0001 else if mode = "cad" then 0x0180
      else if mode.startsWith "rx" then 0x0252 else 0
    some (setIrqMask m)
  | ["txpower", dbm, _, prep] => do
    let p ← parseInt? dbm
    let prep ← parseBool? prep
    let is1272 := cfg.chip == .sx1272
    -- the caller of the reference clamps the power to the range of the selected output
    let (lo, hi) : Int × Int :=
      if is1272 then (if cfg.txBoost then (if p > 17 then (5, 20) else (2, 17)) else (-1, 14))
      else (if cfg.txBoost then (2, 20) else (-4, 14))
    let pc := max lo (min hi p)
    some (setTxParams is1272 cfg.txBoost (cfg.txBoost && decide (pc > 17)) pc (if prep then 9 else 4))
  | ["payload", h] => do
    let data ← bytesOfHex? h
    if data.length > 255 then none else
    let len := UInt8.ofNat data.length
    some (do setLoraPktParams (cfg.chip == .sx1272) 8 false len true; writeBuffer len data)
  | _ => none

def effMask (cfg : Config) (ws : List String) (a : Nat) : UInt8 :=
  match ws.head? with
  | some "modparams" => if a = 0x1d ∨ a = 0x1e ∨ a = 0x37 then 0xff else if a = 0x26 then 0xfb else if a = 0x31 then 0x07 else 0
  | some "dorx" => if a = 0x1e ∨ a = 0x1f then 0xff else 0
  | some "pktparams" =>
    if a = 0x1d ∨ a = 0x1e ∨ a = 0x20 ∨ a = 0x21 then 0xff
    else if a = 0x22 then (if ws[2]? = some "1" then 0xff else 0) else 0
  | some "irqparams" => if a = 0x11 then 0xff else 0
  | some "txpower" =>
    if a = 0x09 then (if cfg.chip != .sx1272 && !cfg.txBoost then 0xff else 0x8f)
    else if a = 0x0a then 0x0f
    else if a = 0x4d then (if cfg.chip != .sx1272 then 0x07 else 0)
    else if a = 0x5a then (if cfg.chip == .sx1272 then 0x07 else 0)
    else 0
  | some "payload" => if a = 0x22 ∨ a = 0x0d then 0xff else 0
  | _ => 0xff

def effect (cfg : Config) (ws : List String) (c : Chip) : String :=
  let regs := (List.range 127).map (fun i => c.regs (i + 1) &&& effMask cfg ws (i + 1))
  let fifo := match ws with
    | ["payload", h] => (List.range (min (h.length / 2) 256)).map c.buffer
    | _ => []
  hexOfBytes (regs ++ fifo)

end S127

/-- sync word: lora-phy writes both bytes without the reference's read — compare the writes -/
def dropRegReads (t : List Bytes) : List Bytes := t.filter (fun b => b.take 3 != [0x1D, 0x07, 0x40])

def handle (ws : List String) : String :=
  match ws with
  | kind :: chip :: seed :: pokes :: rest =>
    match parseChip chip, seed.toNat?, parsePokes pokes with
    | some c, some seed, some pokes =>
      if is126 c.variant then
        match S126.config c with
        | none => "bad-op"
        | some cfg =>
          let chip0 := mkChip c seed pokes
          let isSync := rest.head? == some "syncword" || rest.head? == some "initlora"
          let canon (t : List Bytes) : String := showMosi (if isSync then dropRegReads t else t)
          match kind with
          | "op" =>
            match S126.model cfg rest with
            | none => "bad-op"
            | some r =>
              let m := canon (spiTrace r.prog (r.prep chip0))
              let s := match S126.spec c cfg rest with
                | some p => canon (spiTrace p (r.prep chip0))
                | none => "-"
              s!"{m}|{s}"
          | "res" =>
            match S126.model cfg rest with
            | none => "bad-op"
            | some r =>
              let (o, w) := run r.prog { chip := r.prep chip0 }
              s!"{showOut id o} {showLog w.log}|-"
          | "ref" =>
            match S126.spec c cfg rest with
            | some p => s!"{showMosi (spiTrace p chip0)}|-"
            | none => "bad-op"
          | _ => "bad-op"
      else
        let cfg := S127.config c
        let chip0 := mkChip c seed pokes
        match kind with
        | "op" =>
          match S127.model cfg rest with
          | none => "bad-op"
          | some r => s!"{showMosi (spiTrace r.prog (r.prep chip0))}|-"
        | "res" =>
          match S127.model cfg rest with
          | none => "bad-op"
          | some r =>
            let (o, w) := run r.prog { chip := r.prep chip0 }
            s!"{showOut id o} {showLog w.log}|-"
        | "eff" =>
          match S127.model cfg rest with
          | none => "bad-op"
          | some r =>
            let m := S127.effect cfg rest (trace r.prog (r.prep chip0)).2.1
            let s := match S127.spec cfg rest with
              | some p => S127.effect cfg rest (trace p (r.prep chip0)).2.1
              | none => "-"
            s!"{m}|{s}"
        | "efr" =>
          match S127.spec cfg rest with
          | some p => s!"{S127.effect cfg rest (trace p chip0).2.1}|-"
          | none => "bad-op"
        | _ => "bad-op"
    | _, _, _ => "bad-op"
  | _ => "bad-op"

end Driver.C13
