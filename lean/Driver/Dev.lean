import LoraVerif.Model.Device
import Driver.Mac
/-!
Device-level history runner (async front-end model).

Op line: `<suite> adev <region> <seed> <forced|-> <lead> <buffer> <classC> <txms> ; ev ; …`
Events:  `abp <devaddr>` | `asend <port> <conf> <hex|-> | <script>` | `ajoin | <script>` | `adr b` | `dr n` | `snap`
Script:  items `O` (ok / nothing heard), `E` (radio error), `R<snr>/<hex>/<view tokens joined by '/'>`;
         the k-th radio call of the operation takes the k-th item.
-/
open Model Driver.Mac
namespace Driver.Dev

def showCall : Call → String
  | .tx t len => s!"tx({showRf t.rf},{t.pw},{len})"
  | .reset => "reset"
  | .at ms => s!"at({ms})"
  | .lowPower => "lp"
  | .setupRx rf (some ms) => s!"srx({showRf rf},s{ms})"
  | .setupRx rf none => s!"srx({showRf rf},c)"
  | .rxSingle => "rxs"
  | .rxContinuous => "rxc"

def parseItem? (t : String) : Option ScriptItem :=
  if t = "O" then some .ok
  else if t = "E" then some .err
  else if t.startsWith "R" then
    match ((t.drop 1).toString.splitOn "/") with
    | snr :: _hex :: view => do
      let snr ← Driver.parseInt? snr
      let v ← parseView? view
      pure (.frame snr v)
    | _ => none
  else none

structure Run where
  /-- `hold`: the application does not collect downlinks after every call (they stay queued until `take`) -/
  hold : Bool := false
  r : DevRun
  rng : RngSt
  cfg : DevCfg

def showDls (l : List (Nat × List Nat)) : String :=
  if l.isEmpty then "-" else String.intercalate "," (l.reverse.map (fun (p, d) => s!"{p}:{hexNat d}"))

def showResult : DevResult → String
  | .ok r => s!"Ok({showResp r})"
  | .errRadio => "Err(Radio)"
  | .errMac => "Err(Mac)"

def lastTxFrameDesc (calls : List Call) : Bool := calls.any (fun c => match c with | .tx _ _ => true | _ => false)

inductive EvOut where
  | out (s : String) (r : Run)
  | fault (s : String)
  | bad

def stepEvent (run : Run) (ev : String) : EvOut :=
  let (cmd, script) := match ev.splitOn "|" with
    | [a, b] => (a, b)
    | [a] => (a, "")
    | _ => (ev, "")
  let ws := Driver.splitWords cmd
  match (Driver.splitWords script).mapM parseItem? with
  | none => .bad
  | some items =>
  match ws with
  | ["abp", da] =>
    match parseNat? da with
    | some da => .out "ok" { run with r := { run.r with m := macJoinAbp run.r.m da 1 2 } }
    | none => .bad
  | ["asend", port, conf, data] =>
    match parseNat? port, Driver.parseBool? conf, natsOfHex? data with
    | some port, some conf, some data =>
      let r0 : DevRun := { run.r with script := items, calls := [], downlinks := (if run.hold then run.r.downlinks else []) }
      -- the uplink description is recomputed from the model for display
      let desc : Option UplinkDesc := match macSend rngNext r0.m data port conf run.rng with
        | .ok (some o, _, _) => some o.frame
        | _ => none
      match asyncSend rngNext run.cfg r0 data port conf run.rng with
      | .ok (res, r, g) =>
        let calls := String.intercalate ";" (r.calls.reverse.map showCall)
        let up := if lastTxFrameDesc r.calls then (match desc with | some d => showUp d | none => "up=-") else "up=-"
        .out s!"calls={calls} => {showResult res} {up} dls={if run.hold then "-" else showDls r.downlinks}" { run with r := r, rng := g }
      | .error f => .fault (showFault f)
    | _, _, _ => .bad
  | ["ajoin"] =>
    let r0 : DevRun := { run.r with script := items, calls := [], downlinks := (if run.hold then run.r.downlinks else []) }
    match asyncJoin rngNext run.cfg r0 run.rng with
    | .ok (res, r, g) =>
      let calls := String.intercalate ";" (r.calls.reverse.map showCall)
      .out s!"calls={calls} => {showResult res} dls={if run.hold then "-" else showDls r.downlinks}" { run with r := r, rng := g }
    | .error f => .fault (showFault f)
  | ["alisten"] =>
    let r0 : DevRun := { run.r with script := items, calls := [], downlinks := (if run.hold then run.r.downlinks else []) }
    match asyncListen r0 with
    | .ok (res, r) =>
      let calls := String.intercalate ";" (r.calls.reverse.map showCall)
      let sres := match res with
        | .ok resp => showResult (.ok resp)
        | .errRadio => showResult .errRadio
        | .errMac => showResult .errMac
        | .listening => "Listening"
      .out s!"calls={calls} => {sres} dls={if run.hold then "-" else showDls r.downlinks}" { run with r := r }
    | .error f => .fault (showFault f)
  | ["sess", da, up, down] =>
    match parseNat? da, parseNat? up, optNat? down with
    | some da, some up, some down =>
      let s : Session := { Session.new da 1 2 with fcntUp := up, fcntDown := down }
      .out "ok" { run with r := { run.r with m := { run.r.m with st := .joined s } } }
    | _, _, _ => .bad
  -- the same with the stored `confirmed` flag and ADR counter (a session saved after a confirmed uplink)
  | ["sess", da, up, down, conf, cnt] =>
    match parseNat? da, parseNat? up, optNat? down, Driver.parseBool? conf, parseNat? cnt with
    | some da, some up, some down, some conf, some cnt =>
      let s : Session := { Session.new da 1 2 with fcntUp := up, fcntDown := down, confirmed := conf, adrAckCnt := cnt }
      .out "ok" { run with r := { run.r with m := { run.r.m with st := .joined s } } }
    | _, _, _, _, _ => .bad
  | ["adr", b] =>
    match Driver.parseBool? b with
    | some b => .out "ok" { run with r := { run.r with m := macSetAdr run.r.m b } }
    | none => .bad
  | ["dr", n] =>
    match parseNat? n with
    | some n => .out "ok" { run with r := { run.r with m := macSetDatarate run.r.m n } }
    | none => .bad
  | ["classc", b] =>
    -- `enable_class_c` / `disable_class_c` between calls
    match Driver.parseBool? b with
    | some b => .out "ok" { run with cfg := { run.cfg with classC := b } }
    | none => .bad
  | ["hold"] => .out "ok" { run with hold := true }
  | ["take"] => .out s!"dls={showDls run.r.downlinks}" { run with r := { run.r with downlinks := [] } }
  | ["snap"] => .out (showSnap run.r.m) run
  | _ => .bad

def runEvents : List String → Run → List String → List String
  | [], _, acc => acc.reverse
  | ev :: rest, r, acc =>
    match stepEvent r ev with
    | .out s r' => runEvents rest r' (s :: acc)
    | .fault s => (s :: acc).reverse
    | .bad => ("bad-op" :: acc).reverse

def parseHeader? (ws : List String) : Option Run :=
  match ws with
  | [region, seed, forced, lead, buffer, classC, txms] => do
    let rid ← RegionId.ofName? region
    let seed ← parseNat? seed
    let forced ← (if forced = "-" then some [] else (forced.splitOn ",").mapM parseNat?)
    let lead ← parseNat? lead
    let buffer ← parseNat? buffer
    let cc ← Driver.parseBool? classC
    let txms ← parseNat? txms
    pure { r := { m := MacState.init (RegionState.init rid) 20 0, script := [], calls := [], downlinks := [] },
           rng := { forced := forced, x := seed.toUInt64 },
           cfg := { lead := lead, buffer := buffer, classC := cc, txMs := txms } }
  | _ => none

def run (line : List String) : String :=
  let segs := (String.intercalate " " line).splitOn ";"
  match segs with
  | hd :: evs =>
    match parseHeader? (Driver.splitWords hd) with
    | some r => String.intercalate " ; " (runEvents (evs.map (fun e => e.trimAscii.toString)) r [])
    | none => "bad-op"
  | [] => "bad-op"

end Driver.Dev
