import LoraVerif.Model.PhyRx
import LoraVerif.Spec.RxFetch
import Driver.Util
/-! Suite C18: model = `Model.PhyRx` (get_rx_payload of both drivers, RadioBuffer, the adapter's
delivery), spec = `Spec.RxFetch`.  Op lines: see `harness/src/c18.rs`. -/
open Model.PhyRx
namespace Driver.C18

def chipByte (seed i : Nat) : UInt8 := UInt8.ofNat ((seed + 31 * i) % 256)
def callerByte (i : Nat) : UInt8 := UInt8.ofNat ((0xC3 + 5 * i) % 256)
def callerBuf (n : Nat) : Bytes := (List.range n).map callerByte

def hexOrDash (bs : Bytes) : String := if bs.isEmpty then "-" else hexOfBytes bs

structure Case where
  chip : Nat
  status : Nat
  len : Nat
  off : Nat
  alt : Nat
  bufsize : Nat
  implicit : Bool
  fault : Option Nat
  seed : Nat

def parseCase (ws : List String) : Option Case :=
  match ws with
  | [chip, status, len, off, alt, bufsize, implicit, fault, seed] => do
    let chip ← chip.toNat?
    let status ← status.toNat?
    let len ← len.toNat?
    let off ← off.toNat?
    let alt ← alt.toNat?
    let bufsize ← bufsize.toNat?
    let implicit ← parseBool? implicit
    let fault ← (if fault = "-" then some none else fault.toNat?.map some)
    let seed ← seed.toNat?
    if (chip = 126 ∨ chip = 127) ∧ status < 256 ∧ len < 256 ∧ off < 256 ∧ alt < 256 ∧ bufsize ≤ 4096 then
      some ⟨chip, status, len, off, alt, bufsize, implicit, fault, seed⟩
    else none
  | _ => none

def runModel (c : Case) : Res × Nat :=
  let buf := callerBuf c.bufsize
  if c.chip = 126 then
    (getRxPayload126 { status := UInt8.ofNat c.status, rxLen := UInt8.ofNat c.len, rxStart := UInt8.ofNat c.off,
                       regPayloadLen := UInt8.ofNat c.alt, buffer := chipByte c.seed } c.implicit c.fault buf, 0)
  else
    let r := getRxPayload127 { regRxNbBytes := UInt8.ofNat c.len, regFifoRxCurrentAddr := UInt8.ofNat c.off,
                               fifoPtr := 0x77, fifo := chipByte c.seed } c.implicit (UInt8.ofNat c.alt) c.fault buf
    (r.res, r.ptr.toNat)

def showErr : RadioErr → String
  | .spi => "SPI"
  | .busy => "Busy"
  | .opError s => s!"OpError({s.toNat})"
  | .payloadSizeMismatch n size => s!"PayloadSizeMismatch({n}, {size})"

def showOut : Outcome Nat → String
  | .ok n => s!"ok:{n}"
  | .err e => s!"err:{showErr e}"
  | .panic _ => "PANIC"

def codeOf : Outcome Nat → UInt64
  | .ok n => n.toUInt64
  | .err (.opError s) => 0x1000 + s.toUInt64
  | .err (.payloadSizeMismatch n _) => 0x2000 + n.toUInt64
  | .err .spi => 0x3000
  | .err .busy => 0x3001
  | .panic _ => 0xFFFFFFFFFFFFFFFF

/-- the specification's verdict for a fault-free case, in the same notation -/
def runSpec (c : Case) : Outcome Nat × Bytes :=
  let buf := callerBuf c.bufsize
  let n := if c.chip = 126 then (if c.implicit then c.alt else c.len) else (if c.implicit then c.alt else c.len)
  let status : Option Nat := if c.chip = 126 then some c.status else none
  match Spec.RxFetch.fetch (chipByte c.seed) status n c.off buf with
  | .fetched n b => (.ok n, b)
  | .refusedStatus s => (.err (.opError (UInt8.ofNat s)), buf)
  | .refusedTooLong n size => (.err (.payloadSizeMismatch n size), buf)

def feed (h : Fnv) (o : Outcome Nat) (buf : Bytes) : Fnv :=
  let h := h.word (codeOf o)
  let h := buf.foldl (fun h b => h.byte b) h
  h.byte 1

def digest (chip status bufsize : Nat) (implicit : Bool) (seed : Nat) (spec : Bool) : UInt64 := Id.run do
  let mut h : Fnv := {}
  for a in [0:256] do
    for off in [0:256] do
      let (len, alt) := if implicit then (a ^^^ 0x5a, a) else (a, a ^^^ 0x5a)
      let c : Case := ⟨chip, status, len, off, alt, bufsize, implicit, none, seed⟩
      if spec then
        let (o, b) := runSpec c
        h := feed h o b
      else
        let (r, _) := runModel c
        h := feed h r.out r.buf
  return h.h

def rbModel (n pos : Nat) : String :=
  let b := (RadioBuffer.new n).setPos pos
  match b.asMutForRead, b.asRefForRead with
  | some m, some r => s!"ok:{m.length},{r.length},{b.asMut.length}"
  | _, _ => "PANIC"

def rbSpec (n pos : Nat) : String := if pos ≤ n then s!"ok:{pos},{pos},{n}" else "PANIC"

def rbExt (n pos len : Nat) : String :=
  let b : RadioBuffer := { packet := callerBuf n, pos := pos }
  match b.extendFromSlice ((List.range len).map (chipByte 7)) with
  | .ok (some b') =>
    match b'.asRefForRead with
    | some r => s!"ok:{r.length} {hexOrDash b'.packet}"
    | none => "PANIC"
  | .ok none => s!"full {hexOrDash b.packet}"
  | .err _ => "PANIC"
  | .panic _ => "PANIC"

def adapterModel (chip len off seed : Nat) : String :=
  let zeros := (RadioBuffer.new 256)
  let r : Res :=
    if chip = 126 then
      getRxPayload126 { status := 0, rxLen := UInt8.ofNat len, rxStart := UInt8.ofNat off, regPayloadLen := 255,
                        buffer := chipByte seed } false none zeros.asMut
    else
      (getRxPayload127 { regRxNbBytes := UInt8.ofNat len, regFifoRxCurrentAddr := UInt8.ofNat off, fifoPtr := 0,
                         fifo := chipByte seed } false 255 none zeros.asMut).res
  match adapterDeliver zeros r, r.out with
  | .ok bytes, .ok n => s!"ok:{n} {hexOrDash bytes}"
  | .err _, _ => "err"
  | _, _ => "PANIC"

def adapterSpec (len off seed : Nat) : String :=
  -- the MAC must get exactly the `len` bytes the chip holds at `off` (mod 256)
  s!"ok:{len} {hexOrDash ((List.range len).map (fun i => chipByte seed ((off + i) % 256)))}"

def handle (ws : List String) : String :=
  match ws with
  | "rx" :: rest =>
    match parseCase rest with
    | some c =>
      let (r, _) := runModel c
      let m := s!"{showOut r.out} {hexOrDash r.buf} canary-ok"
      let s := match c.fault with
        | some _ => "-"
        | none => let (o, b) := runSpec c; s!"{showOut o} {hexOrDash b} canary-ok"
      s!"{m}|{s}"
    | none => "bad-op"
  | "lora" :: entry :: rest =>
    -- the fetch through LoRa::complete_rx / LoRa::get_rx_result must be the driver's own answer
    if entry = "complete_rx" ∨ entry = "get_rx_result" then
      match parseCase rest with
      | some c =>
        match c.fault with
        | some _ => "bad-op"
        | none =>
          let (r, _) := runModel c
          let (o, b) := runSpec c
          s!"{showOut r.out} {hexOrDash r.buf} canary-ok|{showOut o} {hexOrDash b} canary-ok"
      | none => "bad-op"
    else "bad-op"
  | "rxp" :: rest =>
    match parseCase rest with
    | some c => if c.chip = 127 then let (r, p) := runModel c; s!"{showOut r.out} ptr={p}|-" else "bad-op"
    | none => "bad-op"
  | ["rx_digest", chip, status, bufsize, implicit, seed] =>
    match chip.toNat?, status.toNat?, bufsize.toNat?, parseBool? implicit, seed.toNat? with
    | some chip, some status, some bufsize, some implicit, some seed =>
      if (chip = 126 ∨ chip = 127) ∧ status < 256 ∧ bufsize ≤ 4096 then
        s!"{hex64 (digest chip status bufsize implicit seed false)}|{hex64 (digest chip status bufsize implicit seed true)}"
      else "bad-op"
    | _, _, _, _, _ => "bad-op"
  | ["rb", n, pos] =>
    match n.toNat?, pos.toNat? with
    | some n, some pos => if n = 1 ∨ n = 16 ∨ n = 255 ∨ n = 256 then s!"{rbModel n pos}|{rbSpec n pos}" else "bad-op"
    | _, _ => "bad-op"
  | ["rbext", n, pos, len] =>
    match n.toNat?, pos.toNat?, len.toNat? with
    | some n, some pos, some len =>
      if (n = 1 ∨ n = 16 ∨ n = 255 ∨ n = 256) ∧ len ≤ 600 then s!"{rbExt n pos len}|-" else "bad-op"
    | _, _, _ => "bad-op"
  | [kind, chip, len, off, seed] =>
    -- `adapter`: LorawanRadio::rx_single; `adapterc`: LorawanRadio::rx_continuous (the Class C path).
    -- Both fetch through the same driver call; the rest of the caller's buffer stays as it was.
    if kind = "adapter" ∨ kind = "adapterc" then
      match chip.toNat?, len.toNat?, off.toNat?, seed.toNat? with
      | some chip, some len, some off, some seed =>
        if (chip = 126 ∨ chip = 127) ∧ len < 256 ∧ off < 256 then
          let m := adapterModel chip len off seed
          let m := if m.startsWith "ok:" then m ++ " tail-ok" else m
          s!"{m}|{adapterSpec len off seed} tail-ok"
        else "bad-op"
      | _, _, _, _ => "bad-op"
    else "bad-op"
  | _ => "bad-op"

end Driver.C18
