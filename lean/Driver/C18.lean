import Driver.Util
/-! Suite C18: line-protocol handlers (stub — replaced when the property's model is built). -/
namespace Driver.C18

def handle (_ws : List String) : String := "bad-op"

end Driver.C18
