import LoraVerif.Model.Mac
import Driver.Util
/-!
History runner for the MAC model (shared by the suites C04–C12, C20).

Op line:  `<suite> mac <region> <maxPower> <gain> <seed> <forced draws csv|-> <bias: -|sb:retries> ; ev ; ev ; …`
Events:   `abp <devaddr>` | `sess <devaddr> <fcntUp> <fcntDown|-> <adrAckCnt> <confirmed> <pending hex|-> <ackOwed>`
          | `otaa` | `send <port> <confirmed> <hex|->` | `rx1|rx2|rxc <snr> <hex> <view…>` | `timeout`
          | `adr <0|1>` | `dr <n>` | `snap`
View:     `g` | `d <len> <conf> <fcnt16> <micFcnt|-> <fopts hex|-> <port|-> <payload hex|->`
          | `j <micOk> <devaddr> <dlsettings> <rxdelay> <cf: -|d:f1,f2,f3,f4,f5|f:maskhex>`
Answer:   one field per event joined by ` ; `; after the first PANIC/HANG the run stops.
-/
open Model Gen.Region
namespace Driver.Mac

/-- the harness RNG: 64-bit LCG, output = high 32 bits; optional forced leading draws -/
structure RngSt where
  forced : List Nat
  x : UInt64

def rngNext : Rng RngSt := fun s =>
  match s.forced with
  | f :: rest => (f, { s with forced := rest })
  | [] =>
    let x := s.x * 6364136223846793005 + 1442695040888963407
    ((x >>> 32).toNat, { s with x := x })

def hexNat (l : List Nat) : String :=
  if l.isEmpty then "-" else hexOfBytes (l.map (fun n => n.toUInt8))

def natsOfHex? (s : String) : Option (List Nat) := (bytesOfHex? s).map (fun l => l.map (·.toNat))

def parseNat? (s : String) : Option Nat := s.toNat?

def optNat? (s : String) : Option (Option Nat) := if s = "-" then some none else (s.toNat?).map some

def showOptNat : Option Nat → String
  | some n => toString n
  | none => "-"

def showRf (r : RfConfig) : String := s!"{r.frequency},{r.sf},{r.bwHz},{r.maxPayload}"

def showTx (t : TxOut) : String := s!"f={showRf t.rf} pw={t.pw} rx1={showRf t.rx1} rx2={showRf t.rx2}"

def b2s (b : Bool) : String := if b then "1" else "0"

def showUp (u : UplinkDesc) : String :=
  s!"up={b2s u.confirmed},{u.devAddr},{b2s u.adr},{b2s u.adrAckReq},{b2s u.ack},{u.fcnt},{hexNat u.fopts},{u.fport},{hexNat u.payload}"

def showResp : Response → String
  | .noAck => "NoAck" | .sessionExpired => "SessionExpired" | .downlinkReceived f => s!"DownlinkReceived({f})"
  | .noJoinAccept => "NoJoinAccept" | .joinSuccess => "JoinSuccess" | .noUpdate => "NoUpdate" | .rxComplete => "RxComplete"

def showFault : Fault → String
  | .panic _ => "PANIC"
  | .hang _ => "HANG"

def showMask (m : Mask) : String := hexNat m

def showChan : Option Channel → String
  | none => "_"
  | some c => s!"{c.freq}/{c.drRange}/{showOptNat c.dlFreq}"

def showRegion (r : RegionState) : String :=
  match r.plan with
  | .dyn p => s!"dyn[{String.intercalate " " (p.channels.map showChan)}] mask={showMask p.mask}"
  | .fix p => s!"fix mask={showMask p.mask} jc={p.jc.maxRetries},{p.jc.numRetries},{showOptNat p.jc.preferredSubband},{showMask p.jc.avail},{showOptNat p.jc.availPrev},{p.jc.previousChannel}"

def showSnap (m : MacState) : String :=
  let st := match m.st with | .unjoined => "0" | .otaa _ => "1" | .joined _ => "2"
  let sess := match m.st with
    | .joined s => s!"({s.devAddr},{s.fcntUp},{showOptNat s.fcntDown},{s.adrAckCnt},{b2s s.confirmed},{hexNat s.pending},{b2s s.ackOwed})"
    | _ => "-"
  s!"snap st={st} dr={m.cfg.dataRate} rx1d={m.cfg.rx1Delay} txp={showOptNat m.cfg.txPower} off={m.cfg.rx1DrOffset} rx2dr={showOptNat m.cfg.rx2DataRate} rx2f={showOptNat m.cfg.rx2Frequency} adr={b2s m.cfg.adrEnabled} sess={sess} region={showRegion m.region}"

def parseView? : List String → Option RxView
  | ["g"] => some .garbage
  | ["d", len, conf, f16, mic, fopts, port, pl] => do
    let len ← parseNat? len
    let conf ← parseBool? conf
    let f16 ← parseNat? f16
    let mic ← optNat? mic
    let fopts ← natsOfHex? fopts
    let port ← optNat? port
    let pl ← natsOfHex? pl
    pure (.data { len := len, confirmed := conf, fcnt16 := f16, micFcnt := mic, fopts := fopts, fport := port, payload := pl })
  | ["j", mic, da, dls, rxd, cf] => do
    let mic ← parseBool? mic
    let da ← parseNat? da
    let dls ← parseNat? dls
    let rxd ← parseNat? rxd
    let cf : Option CfList ← (if cf = "-" then some none
      else if cf.startsWith "d:" then do
        let fs ← ((cf.drop 2).toString.splitOn ",").mapM parseNat?
        pure (some (.dynamicChannel fs))
      else if cf.startsWith "f:" then do
        let m ← natsOfHex? (cf.drop 2).toString
        pure (some (.fixedChannel m))
      else none)
    pure (.joinAccept { micOk := mic, devAddr := da, dlSettings := dls, rxDelay := rxd, cfList := cf, nwkKey := 3, appKey := 4 })
  | _ => none

structure Run where
  m : MacState
  rng : RngSt
  /-- max payload of the RX1 / RX2 window of the last transmission -/
  win : Option (Int × Int) := none

inductive EvOut where
  | out (s : String) (r : Run)
  | fault (s : String)
  | bad

def stepEvent (r : Run) (ws : List String) : EvOut :=
  match ws with
  | ["abp", da] =>
    match parseNat? da with
    | some da => .out "ok" { r with m := macJoinAbp r.m da 1 2 }
    | none => .bad
  | ["sess", da, up, down, cnt, conf, pend, ack] =>
    match parseNat? da, parseNat? up, optNat? down, parseNat? cnt, parseBool? conf, natsOfHex? pend, parseBool? ack with
    | some da, some up, some down, some cnt, some conf, some pend, some ack =>
      let s : Session := { pending := pend, ackOwed := ack, confirmed := conf, devAddr := da, fcntUp := up, fcntDown := down,
                           adrAckCnt := cnt, nwkKey := 1, appKey := 2 }
      .out "ok" { r with m := { r.m with st := .joined s } }
    | _, _, _, _, _, _, _ => .bad
  | "otaa" :: _ =>
    match macJoinOtaa rngNext r.m r.rng with
    | .ok (o, m, g) => .out s!"join {showTx o.tx} nonce={o.devNonce} jr=ok" { r with m := m, rng := g, win := some (o.tx.rx1.maxPayload, o.tx.rx2.maxPayload) }
    | .error f => .fault (showFault f)
  | ["send", port, conf, data] =>
    match parseNat? port, parseBool? conf, natsOfHex? data with
    | some port, some conf, some data =>
      match macSend rngNext r.m data port conf r.rng with
      | .ok (some o, m, g) => .out s!"tx {showTx o.tx} {showUp o.frame}" { r with m := m, rng := g, win := some (o.tx.rx1.maxPayload, o.tx.rx2.maxPayload) }
      | .ok (none, m, g) => .out "notjoined" { r with m := m, rng := g }
      | .error f => .fault (showFault f)
    | _, _, _ => .bad
  | w :: snr :: _hex :: view =>
    if w = "rx1" || w = "rx2" || w = "rxc" then
      match parseInt? snr, parseView? view with
      | some snr, some v =>
        let mp : Except Fault Int :=
          if w = "rxc" then (macRxcConfig r.m).map (·.maxPayload)
          else match r.win with
            | some (a, b) => .ok (if w = "rx1" then a else b)
            | none => .ok 255
        match mp with
        | .error f => .fault (showFault f)
        | .ok mp =>
          match macHandleRx r.m v mp.toNat snr (w = "rxc") with
          | .ok (some o, m) =>
            let dl := match o.downlink with | some (p, d) => s!"{p}:{hexNat d}" | none => "-"
            let keys := if o.resp == .joinSuccess then " keys=ok" else ""
            .out s!"resp={showResp o.resp} dl={dl}{keys}" { r with m := m }
          | .ok (none, m) => .out "resp=NotJoined dl=-" { r with m := m }
          | .error f => .fault (showFault f)
      | _, _ => .bad
    else .bad
  | ["timeout"] =>
    let (resp, m) := macRx2Complete r.m
    .out s!"resp={showResp resp}" { r with m := m }
  | ["adr", b] =>
    match parseBool? b with
    | some b => .out "ok" { r with m := macSetAdr r.m b }
    | none => .bad
  | ["dr", n] =>
    match parseNat? n with
    | some n => .out "ok" { r with m := macSetDatarate r.m n }
    | none => .bad
  | ["snap"] => .out (showSnap r.m) r
  | ["delays"] =>
    .out s!"d={macRxDelay r.m false false},{macRxDelay r.m false true},{macRxDelay r.m true false},{macRxDelay r.m true true}" r
  | ["persist"] =>
    -- serialising and restoring a session is the identity on the model (C20: `restore_save`)
    match r.m.st with
    | .joined _ => .out "persist=ok eq=1" r
    | _ => .out "persist=nosession" r
  | _ => .bad

def runEvents : List (List String) → Run → List String → List String
  | [], _, acc => acc.reverse
  | ev :: rest, r, acc =>
    match stepEvent r ev with
    | .out s r' => runEvents rest r' (s :: acc)
    | .fault s => (s :: acc).reverse
    | .bad => ("bad-op" :: acc).reverse

def parseHeader? (ws : List String) : Option Run :=
  match ws with
  | [region, maxPower, gain, seed, forced, bias] => do
    let rid ← RegionId.ofName? region
    let mp ← parseNat? maxPower
    let gain ← parseInt? gain
    let seed ← parseNat? seed
    let forced ← (if forced = "-" then some [] else (forced.splitOn ",").mapM parseNat?)
    let rs := RegionState.init rid
    let rs ← (if bias = "-" then some rs else
      match bias.splitOn ":" with
      | [sb, n] => do pure (rs.setJoinBias (← parseNat? sb) (← parseNat? n))
      | _ => none)
    pure { m := MacState.init rs mp gain, rng := { forced := forced, x := seed.toUInt64 } }
  | _ => none

/-- `mac <header> ; ev ; …` → answer -/
def run (line : List String) : String :=
  let segs := (String.intercalate " " line).splitOn ";"
  match segs with
  | hd :: evs =>
    match parseHeader? (splitWords hd) with
    | some r => String.intercalate " ; " (runEvents (evs.map splitWords) r [])
    | none => "bad-op"
  | [] => "bad-op"

/-- C07: events marked `*` are frames the reference codec rejects. Runs the history with and
without them; answer = outputs of the full run plus the verdict of the twin comparison. -/
def runTwin (line : List String) : String :=
  let segs := (String.intercalate " " line).splitOn ";"
  match segs with
  | hd :: evs =>
    match parseHeader? (splitWords hd) with
    | some r =>
      let evs := evs.map (fun e => e.trimAscii.toString)
      let starred := evs.map (fun e => e.startsWith "*")
      let plain := evs.map (fun e => if e.startsWith "*" then (e.drop 1).toString else e)
      let full := runEvents (plain.map splitWords) r []
      let twinEvs := (plain.zip starred).filterMap (fun (e, st) => if st then none else some e)
      let twin := runEvents (twinEvs.map splitWords) r []
      -- compare
      let rec cmp : List String → List Bool → List String → Bool
        | [], _, _ => true
        | o :: os, st :: sts, tw =>
          if st then (o == "resp=NoUpdate dl=-" || o == "resp=NotJoined dl=-") && cmp os sts tw
          else match tw with
            | t :: tw' => o == t && cmp os sts tw'
            | [] => false
        | _ :: _, [], _ => false
      let faulty := full.any (fun o => o == "PANIC" || o == "HANG")
      let verdict := if !faulty && full.length == evs.length && cmp full starred twin then "ok" else "FAIL:model-twin-differs"
      s!"{String.intercalate " ; " full} ## oracle={verdict}"
    | none => "bad-op"
  | [] => "bad-op"

end Driver.Mac
