import Driver.Util
/-! Suite C04: line-protocol handlers (stub — replaced when the property's model is built). -/
namespace Driver.C04

def handle (_ws : List String) : String := "bad-op"

end Driver.C04
