import Driver.Util
/-! Suite C10: line-protocol handlers (stub — replaced when the property's model is built). -/
namespace Driver.C10

def handle (_ws : List String) : String := "bad-op"

end Driver.C10
