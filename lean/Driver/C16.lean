import LoraVerif.Gen.Modulation
import LoraVerif.Spec.Airtime
import LoraVerif.Model.Bw
import Driver.Util
/-! Suite C16/C15 (lora-modulation): model = generated functions, spec = `Spec.Airtime`. -/
open Gen.Modulation
namespace Driver.C16

def sfOf? (n : Int) : Option SpreadingFactor := SpreadingFactor.all.find? (fun s => s.factor == n)
def bwOf? (n : Int) : Option Bandwidth :=
  -- op lines name a bandwidth by the datasheet's figure in Hz (the C13 harness's own table, legacy replays)
  -- or by the crate's current `hz()`
  match n with
  | 7810 => some ._7KHz | 10420 => some ._10KHz | 15630 => some ._15KHz | 20830 => some ._20KHz
  | 31250 => some ._31KHz | 41670 => some ._41KHz | 62500 => some ._62KHz | 125000 => some ._125KHz
  | 250000 => some ._250KHz | 500000 => some ._500KHz
  | _ => Bandwidth.all.find? (fun b => b.hz == n)
def crOf? (n : Int) : Option CodingRate := CodingRate.all.find? (fun c => c.denom == n)

/-- params as the code builds them (`new`), with the public ldro flag optionally overridden -/
def mkParams (sf : SpreadingFactor) (bw : Bandwidth) (cr : CodingRate) (ldro : Option Bool) : Option BaseBandModulationParams :=
  match BaseBandModulationParams.new sf bw cr with
  | none => none
  | some p => some (match ldro with | some l => { p with ldro := l } | none => p)

def modelToa (sf : SpreadingFactor) (bw : Bandwidth) (cr : CodingRate) (ldro : Option Bool) (pre : Option Int) (hdr : Bool) (len : Int) : Option Int :=
  match mkParams sf bw cr ldro with
  | none => none
  | some p => p.time_on_air_us pre hdr len

def specToa (sf : SpreadingFactor) (bw : Bandwidth) (cr : CodingRate) (ldro : Option Bool) (pre : Option Int) (hdr : Bool) (len : Int) : Option Int :=
  let l := match ldro with | some l => l | none => Spec.Airtime.ldroPhys sf.factor (Model.PhyArith.specBw bw)
  let r := Spec.Airtime.toa sf.factor bw.hz l (!hdr) cr.denom len pre
  -- the specification also demands "never overflows" (u32 result)
  if 0 ≤ r ∧ r ≤ 4294967295 then some r else none

/-- digest over cr × hdr × pre(none,0..255) × len(0..255) for one (sf,bw,ldro) block -/
def digestBlock (f : CodingRate → Option Int → Bool → Int → Option Int) : UInt64 := Id.run do
  let mut h : Fnv := {}
  for cr in CodingRate.all do
    for hdr in [false, true] do
      for pi in [0:257] do
        let pre : Option Int := if pi = 0 then none else some ((pi : Int) - 1)
        for len in [0:256] do
          h := h.word (optWord (f cr pre hdr (len : Int)))
  return h.h

def handle (ws : List String) : String :=
  match ws with
  | ["toa", sf, bw, cr, ldro, pre, hdr, len] =>
    match parseInt? sf >>= sfOf?, parseInt? bw >>= bwOf?, parseInt? cr >>= crOf?, parseBool? hdr, parseInt? len with
    | some sf, some bw, some cr, some hdr, some len =>
      let ldro : Option Bool := parseBool? ldro   -- "-" = as computed by `new`
      let pre : Option Int := parseInt? pre        -- "-" = none
      s!"{showOptInt (modelToa sf bw cr ldro pre hdr len)}|{showOptInt (specToa sf bw cr ldro pre hdr len)}"
    | _, _, _, _, _ => "bad-op"
  | ["toa_digest", sf, bw, ldro] =>
    match parseInt? sf >>= sfOf?, parseInt? bw >>= bwOf? with
    | some sf, some bw =>
      let ldro : Option Bool := parseBool? ldro
      let m := digestBlock (fun cr pre hdr len => modelToa sf bw cr ldro pre hdr len)
      let s := digestBlock (fun cr pre hdr len => specToa sf bw cr ldro pre hdr len)
      s!"{hex64 m}|{hex64 s}"
    | _, _ => "bad-op"
  | ["new", sf, bw] =>
    -- symbol time and LDRO decision of `new` (C15 uses the ldro part)
    match parseInt? sf >>= sfOf?, parseInt? bw >>= bwOf? with
    | some sf, some bw =>
      let m := match BaseBandModulationParams.new sf bw ._4_5 with
        | some p => s!"{p.t_sym_us},{p.ldro}"
        | none => "PANIC"
      let s := s!"{Spec.Airtime.tsym sf.factor bw.hz},{Spec.Airtime.ldroPhys sf.factor (Model.PhyArith.specBw bw)}"
      s!"{m}|{s}"
    | _, _ => "bad-op"
  | ["delay_in_symbols", sf, bw, ms] =>
    match parseInt? sf >>= sfOf?, parseInt? bw >>= bwOf?, parseInt? ms with
    | some sf, some bw, some ms =>
      let m := match BaseBandModulationParams.new sf bw ._4_5 with
        | some p => showOptInt (p.delay_in_symbols ms)
        | none => "PANIC"
      s!"{m}|-"
    | _, _, _ => "bad-op"
  | _ => "bad-op"

end Driver.C16
