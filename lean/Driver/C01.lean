import Driver.Util
import LoraVerif.Model.Aes
import LoraVerif.Model.Codec
import LoraVerif.Spec.LoRaWAN
import LoraVerif.Spec.LoRaWANBridge
/-! Suite C01: frame builders. Model = `Codec.*.buildInto` (transliteration of creator.rs), spec =
`Spec.encode*` on `toSpec` of the same description, both instantiated with the Lean AES. -/
open Lora
namespace Driver.C01

def showOutcome : Outcome Bytes → String
  | .ok b => if b.isEmpty then "-" else hexOfBytes b
  | .err e => "ERR:" ++ e.name
  | .panic => "PANIC"

def showExcept : Except Err Bytes → String
  | .ok b => if b.isEmpty then "-" else hexOfBytes b
  | .error e => "ERR:" ++ e.name

def vec? (n : Nat) (s : String) : Option (Vector UInt8 n) :=
  match bytesOfHex? s with
  | some l => if h : l.length = n then some ⟨l.toArray, by simpa using h⟩ else none
  | none => none

def key? (s : String) : Option Key := vec? 16 s

def optKey? (s : String) : Option (Option Key) :=
  if s = "-" then some none else (key? s).map some

def ftype? : String → Option FType
  | "0" => some .unconfirmedUp | "1" => some .unconfirmedDown | "2" => some .confirmedUp | "3" => some .confirmedDown
  | _ => none

def payload? (port : String) (bytes : Bytes) : Option Codec.Payload :=
  if port = "-" then some .none
  else match port.toNat? with
    | some 0 => some (.macCommands bytes)
    | some n =>
      if h : n < 256 ∧ (UInt8.ofNat n) ≠ 0 then some (.data (UInt8.ofNat n) h.2 bytes) else none
    | none => none

def cflist? (s : String) : Option (Option Codec.CfList) :=
  if s = "-" then some none
  else if s.startsWith "D" then
    match bytesOfHex? (s.drop 1).toString with
    | some l =>
      match vec? 3 (hexOfBytes (l.take 3)), vec? 3 (hexOfBytes ((l.drop 3).take 3)), vec? 3 (hexOfBytes ((l.drop 6).take 3)),
            vec? 3 (hexOfBytes ((l.drop 9).take 3)), vec? 3 (hexOfBytes ((l.drop 12).take 3)) with
      | some a, some b, some c, some d, some e => if l.length = 15 then some (some (.dynamicChannel #v[a, b, c, d, e])) else none
      | _, _, _, _, _ => none
    | none => none
  else if s.startsWith "F" then (vec? 9 (s.drop 1).toString).map fun m => some (.fixedChannel m)
  else none

def fillBuf (n : String) (fill : String) : Option Bytes :=
  match n.toNat?, bytesOfHex? fill with
  | some n, some [f] => some (List.replicate n f)
  | _, _ => none

def handle (ws : List String) : String :=
  match ws with
  | ["data", ft, addr, flags, fcnt, fopts, port, pld, nwk, app, buflen, fill, _variant] =>
    match ftype? ft, vec? 4 addr, flags.toNat?, fcnt.toNat?, bytesOfHex? fopts, bytesOfHex? pld, key? nwk, optKey? app,
          fillBuf buflen fill with
    | some ft, some addr, some fl, some fcnt, some fopts, some pld, some nwk, some app, some buf =>
      match payload? port pld with
      | some payload =>
        let d : Codec.DataFrame :=
          { frameType := ft, devAddr := addr, adr := fl &&& 8 ≠ 0, adrAckReq := fl &&& 4 ≠ 0, ack := fl &&& 2 ≠ 0,
            fPending := fl &&& 1 ≠ 0, fcnt := UInt32.ofNat fcnt, fOpts := fopts, payload := payload }
        let m := d.buildInto aes buf nwk app
        let s := Spec.encodeData aes nwk app d.toSpec buf.length
        s!"{showOutcome m}|{showExcept s}"
      | none => "bad-op"
    | _, _, _, _, _, _, _, _, _ => "bad-op"
  | ["jr", jeui, deui, nonce, key, buflen, fill, _variant] =>
    match vec? 8 jeui, vec? 8 deui, vec? 2 nonce, key? key, fillBuf buflen fill with
    | some j, some d, some n, some k, some buf =>
      let jr : Codec.JoinRequest := { joinEui := j, devEui := d, devNonce := n }
      s!"{showOutcome (jr.buildInto buf ⟨aes, k⟩)}|{showExcept (Spec.encodeJoinRequest aes k jr.toSpec buf.length)}"
    | _, _, _, _, _ => "bad-op"
  | ["ja", jn, nid, addr, dl, rxd, cfl, key, buflen, fill] =>
    match vec? 3 jn, vec? 3 nid, vec? 4 addr, bytesOfHex? dl, rxd.toNat?, cflist? cfl, key? key, fillBuf buflen fill with
    | some jn, some nid, some addr, some [dl], some rxd, some cfl, some k, some buf =>
      let ja : Codec.JoinAccept := { joinNonce := jn, netId := nid, devAddr := addr, dlSettings := dl,
                                     rxDelay := UInt8.ofNat rxd, cFList := cfl }
      s!"{showOutcome (ja.buildInto buf ⟨aes, k⟩)}|{showExcept (Spec.encodeJoinAccept aes k ja.toSpec buf.length)}"
    | _, _, _, _, _, _, _, _ => "bad-op"
  -- the Lean AES against the `aes` / `cmac` crates (no second specification: the KATs are in Props/C01)
  | ["aes_enc", k, b] =>
    match key? k, key? b with
    | some k, some b => s!"{hexOfBytes (Aes.encrypt k b).toList}|-"
    | _, _ => "bad-op"
  | ["aes_dec", k, b] =>
    match key? k, key? b with
    | some k, some b => s!"{hexOfBytes (Aes.decrypt k b).toList}|-"
    | _, _ => "bad-op"
  | ["cmac", k, m] =>
    match key? k, bytesOfHex? m with
    | some k, some m => s!"{hexOfBytes (Aes.cmac k m).toList}|-"
    | _, _ => "bad-op"
  | _ => "bad-op"

end Driver.C01
