import Driver.Util
/-! Suite C01: line-protocol handlers (stub — replaced when the property's model is built). -/
namespace Driver.C01

def handle (_ws : List String) : String := "bad-op"

end Driver.C01
