import Driver.Util
/-! Suite C20: line-protocol handlers (stub — replaced when the property's model is built). -/
namespace Driver.C20

def handle (_ws : List String) : String := "bad-op"

end Driver.C20
