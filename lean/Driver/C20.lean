import Driver.Util
import Driver.Mac
import Driver.Dev
import Driver.Nb
/-! Suite C20: histories with `persist` events (identity on the model) and mutated documents
(the serde layer is not modelled: the harness' verdict on the implementation stands alone). -/
namespace Driver.C20

def handle (ws : List String) : String :=
  match ws with
  | "mac" :: rest => s!"{Driver.Mac.run rest} ## oracle=ok|-"
  | "doc" :: _ => "doc-handled ## oracle=ok|-"
  -- a well-formed document with arbitrary key / address / counter values: must restore and
  -- re-serialise to itself (judged on the Rust side; the model's persist is the identity)
  | "docrt" :: _ => "doc-handled ## oracle=ok|-"
  -- a device constructed around / handed a restored session (`sess` events of the front-ends)
  | "nbdev" :: rest => s!"{Driver.Nb.run rest} ## oracle=ok|-"
  | "adev" :: rest => s!"{Driver.Dev.run rest} ## oracle=ok|-"
  | _ => "bad-op"

end Driver.C20
