import Driver.Util
/-! Suite C09: line-protocol handlers (stub — replaced when the property's model is built). -/
namespace Driver.C09

def handle (_ws : List String) : String := "bad-op"

end Driver.C09
