import LoraVerif.Model.PhyState
import LoraVerif.Model.Chip
import LoraVerif.Model.ChipIrq
import Driver.C13
/-! Suite C14: model = `Model.Phy` (`LoRa<RK>` over the SX126x / SX127x models); the "spec" column is
the verdict of the invariants I1–I5 evaluated on the run (`-` = all hold).  Op lines:
  C14 seq        <chip> ; <call>@<irq words>@<fault>@<pend> ; …      verbose answer
  C14 seqh <chip> ; …                                           transcripts hashed
see `harness/src/c14.rs`. -/
open Model.Phy
namespace Driver.C14

open Driver.C13 (ChipCfg parseChip is126 mkChip showErr showLog)

def splitOn' (s : String) (sep : String) : List String := (s.splitOn sep).map (fun x => x.trimAscii.toString)

def natList? (s : String) : Option (List Nat) :=
  if s = "-" then some [] else (s.splitOn ",").foldr (fun x acc => match acc, x.toNat? with
    | some l, some n => some (n :: l) | _, _ => none) (some [])

def optNat? (s : String) : Option (Option Nat) := if s = "-" then some none else s.toNat?.map some

def showMode : RadioMode → String
  | .sleep => "Sleep" | .standby => "Standby" | .frequencySynthesis => "FrequencySynthesis"
  | .transmit => "Transmit" | .listen => "Listen" | .cad => "ChannelActivityDetection"
  | .receive (.single n) => s!"Receive(Single({n}))"
  | .receive .continuous => "Receive(Continuous)"
  | .receive (.dutyCycle a b) => s!"Receive(DutyCycle({a},{b}))"

def showRes : Out ApiResult → String
  | .ok .unit => "ok"
  | .ok (.received n bytes) => s!"ok:rx({n},{if bytes.isEmpty then "-" else hexOfBytes bytes})"
  | .ok (.cadDetected b) => s!"ok:cad({if b then 1 else 0})"
  | .err e => "err:" ++ showErr e
  | .panic _ => "PANIC"
  | .dropped => "DROPPED"

def fnvStr (s : String) : String :=
  let h := s.toUTF8.foldl (fun (h : Fnv) b => h.byte b) ({} : Fnv)
  hex64 h.h

/-- the fixed parameters of the calls (the harness uses the same) -/
def FREQ : Nat := 868100000
def FREQ2 : Nat := 868300000
def txPkt : PacketParams := { preambleLength := 8, implicitHeader := false, payloadLength := 0, crcOn := true, iqInverted := false }
def rxPkt : PacketParams := { preambleLength := 8, implicitHeader := false, payloadLength := 255, crcOn := true, iqInverted := true }

def rxModeOfTok? (s : String) : Option RxMode :=
  match s with
  | "s" => some (.single 13) | "c" => some .continuous | "d" => some (.dutyCycle 1000 2000) | _ => none

def parseCall? {μ : Type} (m : μ) (lm : Except RadioError μ) (tok : String) : Option (ApiCall μ) :=
  match tok.splitOn ":" with
  | ["init"] => some .init
  | ["sleep", w] => (parseBool? w).map .sleep
  | ["ptx"] => some (.prepareForTx m txPkt 14 [1, 2, 3])
  | ["tx"] => some .tx
  | ["prx", k] => (rxModeOfTok? k).map (fun mode => .prepareForRx mode m rxPkt)
  | ["srx"] => some .startRx
  | ["crx"] => some (.completeRx rxPkt 255)
  | ["rx"] => some (.rx rxPkt 255)
  | ["rsc"] => some (.rxSwitchChannel FREQ2)
  | ["listen"] => some (.listen FREQ lm)
  | ["pcad"] => some (.prepareForCad m)
  | ["cad"] => some (.cad m)
  | ["sync", w] => w.toNat?.map .setLoraSyncWord
  | _ => none

structure Step (μ : Type) where
  call : ApiCall μ
  env : Env

def parseStep? {μ : Type} (m : μ) (lm : Except RadioError μ) (irqDefault : Nat) (s : String) : Option (Step μ) :=
  match s.splitOn "@" with
  | [c, irq, f, p] => do
    let call ← parseCall? m lm c
    let irq ← natList? irq
    let f ← optNat? f
    let p ← optNat? p
    some ⟨call, { irq := irq, irqDefault := irqDefault, fault := f, pendAt := p }⟩
  | _ => none

structure Verdict where
  bad : Option String := none

def isInvalidMode : Out ApiResult → Bool
  | .err .InvalidRadioMode => true
  | _ => false

def radioReported : Out ApiResult → Bool
  | .err .TransmitTimeout => true
  | .err .ReceiveTimeout => true
  | _ => false

/-- run a sequence: per call the line to print, and the first invariant that fails -/
def runSeq {σ μ : Type} (rk : RadioKindOps σ μ) (kind : Kind) (needs : Needs) (digest : Bool)
    (steps : List (Step μ)) (s0 : DriverState σ × World) (t0 : ChipTrack) (it0 : IrqTrack := {}) : List String × Option String := Id.run do
  let mut s := s0
  let mut t := t0
  let mut it := it0
  let mut out : List String := []
  let mut bad : Option String := none
  let mut i := 0
  for st in steps do
    i := i + 1
    let before := s.1.radioMode
    let (o, s') := apiStep rk st.call st.env s
    let log := s'.2.log
    let t' := track kind needs t log
    -- the IRQ routing programmed last (Model/ChipIrq.lean); `listen` starts an RSSI-only reception
    -- of which no IRQ routing is required
    let it1 := irqTrack kind it log
    let it' : IrqTrack := match st.call with
      | .listen _ _ => { it1 with rxStartedWrongIrq := it.rxStartedWrongIrq }
      | _ => it1
    let tr := showLog log
    out := out ++ [s!"{showRes o} {if digest then fnvStr tr else tr} {showMode s'.1.radioMode},{s'.1.coldStart},{s'.1.calibrateImage}"]
    if bad.isNone then
      -- I1: no command reached a chip that may be asleep without the wake-up
      if t'.commandedAsleep then bad := some s!"I1-commanded-asleep@call{i}"
      -- I3: nothing was started with a required item unprogrammed since the last loss
      else if t'.startedUnprogrammed then bad := some s!"I3-started-unprogrammed@call{i}"
      -- I3 (mode-specific): the IRQ routing programmed last was the one for the operation started
      else if it'.startedWrongIrq || it'.rxStartedWrongIrq then
        bad := some s!"I3-started-with-irq-mask-of-another-operation@call{i}"
      -- I2: configuration lost (bring-up items missing) => the driver knows (cold_start)
      else if !(t'.items.covers { needs.rx with modulation := false, frequency := false }) && !s'.1.coldStart then
        bad := some s!"I2-config-lost-but-not-cold_start@call{i}"
      -- I4: a radio-reported failure leaves chip and driver in standby (continuous RX exempt, as coded)
      else if radioReported o && before != .receive .continuous && !(t'.mode == .standby && s'.1.radioMode == .standby) then
        bad := some s!"I4-not-standby-after-failure@call{i}"
      -- I5: a call in the wrong mode is refused without touching the chip
      else if isInvalidMode o && !log.isEmpty then bad := some s!"I5-chip-commanded-by-refused-call@call{i}"
    s := s'
    t := t'
    it := it'
    -- a panic or a dropped non-droppable future ends the scenario
    match o with
    | .panic _ => break
    | _ => pure ()
  return (out, bad)

/-! ### the LoRaWAN adapter -/

def parseAdp? {μ : Type} (m : μ) (tok : String) : Option (AdapterCall μ) :=
  match tok.splitOn ":" with
  | ["atx"] => some (.tx m txPkt 14 [1, 2, 3])
  | ["asetup", k] => match k with
    | "s" => some (.setupRx (.single 13) m rxPkt)
    | "c" => some (.setupRx .continuous m rxPkt)
    | _ => none
  | ["arxs"] => some (.rxSingle 255)
  | ["arxc"] => some (.rxContinuous 255)
  | ["alp"] => some .lowPower
  | _ => none

def showAdp : Out (AdapterResult × AdapterState) → String
  | .ok (.unit, _) => "ok"
  | .ok (.rx n bytes, _) => s!"ok:rx({n},{if bytes.isEmpty then "-" else hexOfBytes bytes})"
  | .ok (.rxTimeout, _) => "ok:timeout"
  | .ok (.noRxParams, _) => "err:NoRxParams"
  | .err e => "err:" ++ showErr e
  | .panic _ => "PANIC"
  | .dropped => "DROPPED"

def runAdp {σ μ : Type} (rk : RadioKindOps σ μ) (m : μ) (irqDefault : Nat) (calls : List String)
    (s0 : DriverState σ × World) : Option String := do
  let mut s := s0
  let mut a : AdapterState := {}
  let mut out : List String := []
  for tok in calls do
    match tok.splitOn "@" with
    | [c, irq, f, p] =>
      let call ← parseAdp? m c
      let irq ← natList? irq
      let f ← optNat? f
      let p ← optNat? p
      let (o, s') := adapterStep rk a call { irq := irq, irqDefault := irqDefault, fault := f, pendAt := p } s
      out := out ++ [s!"{showAdp o} {fnvStr (showLog s'.2.log)}"]
      s := s'
      match o with
      | .ok (_, a') => a := a'
      | .panic _ => break
      | _ => pure ()
    | _ => none
  some (String.intercalate " ; " out)

def handleAdp (rest : String) : String :=
  match splitOn' rest ";" with
  | chip :: calls =>
    match parseChip chip with
    | none => "bad-op"
    | some c =>
      let chip0 := mkChip c 1 (if is126 c.variant then [(0x29f, 0)] else [])
      if is126 c.variant then
        match Driver.C13.S126.config c with
        | none => "bad-op"
        | some cfg =>
          let m : Sx126x.ModulationParams := { sf := ._7, bw := ._125KHz, cr := ._4_5, ldro := 0, freq := FREQ }
          let rk := sx126xOps cfg
          let s0 : DriverState Unit × World := ({ rk := (), syncWord := 0x3444 }, { chip := chip0 })
          let (o0, s1) := apiStep rk .init {} s0
          match o0, runAdp rk m 0x0283 calls s1 with
          | .ok _, some r => s!"{r}|-"
          | _, _ => "bad-op"
      else
        let cfg := Driver.C13.S127.config c
        let m : Sx127x.ModulationParams := { sf := ._7, bw := ._125KHz, cr := ._4_5, ldro := 0, freq := FREQ }
        let rk := sx127xOps cfg
        let s0 : DriverState Sx127x.Data × World := ({ rk := {}, syncWord := 0x3444 }, { chip := chip0 })
        let (o0, s1) := apiStep rk .init {} s0
        match o0, runAdp rk m 0x4c calls s1 with
        | .ok _, some r => s!"{r}|-"
        | _, _ => "bad-op"
  | _ => "bad-op"

def irqDefaultOf (kind : Kind) : Nat := if kind = .sx126x then 0x0283 else 0x4c

def handleSeq (digest : Bool) (rest : String) (inv : Bool := false) : String :=
  match splitOn' rest ";" with
  | chip :: calls =>
    match parseChip chip with
    | none => "bad-op"
    | some c =>
      let chip0 := mkChip c 1 (if is126 c.variant then [(0x29f, 0)] else [])
      if is126 c.variant then
        match Driver.C13.S126.config c with
        | none => "bad-op"
        | some cfg =>
          let m : Sx126x.ModulationParams := { sf := ._7, bw := ._125KHz, cr := ._4_5, ldro := 0, freq := FREQ }
          let rk := sx126xOps cfg
          let needs := needsFor c.dcdc c.tcxo.isSome
          match calls.mapM (parseStep? m (.ok m) (irqDefaultOf .sx126x)) with
          | none => "bad-op"
          | some steps =>
            -- `LoRa::new(radio_kind, true, delay)`: the constructor runs `init`
            let s0 : DriverState Unit × World := ({ rk := (), syncWord := 0x3444 }, { chip := chip0 })
            let (o0, s1) := apiStep rk .init {} s0
            let t1 := track .sx126x needs {} s1.2.log
            match o0 with
            | .ok _ =>
              let (lines, bad) := runSeq rk .sx126x needs digest steps s1 t1 (irqTrack .sx126x {} s1.2.log)
              if inv then s!"{match bad with | some b => b | none => "ok"}|ok" else
              s!"{String.intercalate " ; " lines}|{match bad with | some b => b | none => "-"}"
            | _ => "new-failed|-"
      else
        let cfg := Driver.C13.S127.config c
        let m : Sx127x.ModulationParams := { sf := ._7, bw := ._125KHz, cr := ._4_5, ldro := 0, freq := FREQ }
        let rk := sx127xOps cfg
        let needs := needsFor false false
        match calls.mapM (parseStep? m (.ok m) (irqDefaultOf .sx127x)) with
        | none => "bad-op"
        | some steps =>
          let s0 : DriverState Sx127x.Data × World := ({ rk := {}, syncWord := 0x3444 }, { chip := chip0 })
          let (o0, s1) := apiStep rk .init {} s0
          let t1 := track .sx127x needs {} s1.2.log
          match o0 with
          | .ok _ =>
            let (lines, bad) := runSeq rk .sx127x needs digest steps s1 t1 (irqTrack .sx127x {} s1.2.log)
            if inv then s!"{match bad with | some b => b | none => "ok"}|ok" else
            s!"{String.intercalate " ; " lines}|{match bad with | some b => b | none => "-"}"
          | _ => "new-failed|-"
  | _ => "bad-op"

def handle (ws : List String) : String :=
  match ws with
  | "seq" :: rest => handleSeq false (String.intercalate " " rest)
  | "seqh" :: rest => handleSeq true (String.intercalate " " rest)
  | "inv" :: rest => handleSeq true (String.intercalate " " rest) true
  | "adp" :: rest => handleAdp (String.intercalate " " rest)
  | _ => "bad-op"

end Driver.C14
