import Driver.Util
/-! Suite C14: line-protocol handlers (stub — replaced when the property's model is built). -/
namespace Driver.C14

def handle (_ws : List String) : String := "bad-op"

end Driver.C14
