import Driver.Util
import Driver.C01
import Driver.C02
import Driver.C03
import Driver.C04
import Driver.C05
import Driver.C06
import Driver.C07
import Driver.C08
import Driver.C09
import Driver.C10
import Driver.C11
import Driver.C12
import Driver.C13
import Driver.C14
import Driver.C15
import Driver.C16
import Driver.C17
import Driver.C18
import Driver.C19
import Driver.C20
/-! `lvdriver`: one request per line on stdin (`<suite> <op> <args…>`), one answer line on stdout
(`<model>|<spec>`, spec `-` when there is no independent spec for the op).  Unknown requests answer
`bad-op` — never a default value. -/
open Driver

def dispatch (line : String) : String :=
  match splitWords line with
  | "C01" :: rest => Driver.C01.handle rest
  | "C02" :: rest => Driver.C02.handle rest
  | "C03" :: rest => Driver.C03.handle rest
  | "C04" :: rest => Driver.C04.handle rest
  | "C05" :: rest => Driver.C05.handle rest
  | "C06" :: rest => Driver.C06.handle rest
  | "C07" :: rest => Driver.C07.handle rest
  | "C08" :: rest => Driver.C08.handle rest
  | "C09" :: rest => Driver.C09.handle rest
  | "C10" :: rest => Driver.C10.handle rest
  | "C11" :: rest => Driver.C11.handle rest
  | "C12" :: rest => Driver.C12.handle rest
  | "C13" :: rest => Driver.C13.handle rest
  | "C14" :: rest => Driver.C14.handle rest
  | "C15" :: rest => Driver.C15.handle rest
  | "C16" :: rest => Driver.C16.handle rest
  | "C17" :: rest => Driver.C17.handle rest
  | "C18" :: rest => Driver.C18.handle rest
  | "C19" :: rest => Driver.C19.handle rest
  | "C20" :: rest => Driver.C20.handle rest
  | _ => "bad-op"

partial def loop (h : IO.FS.Stream) (out : IO.FS.Stream) : IO Unit := do
  let line ← h.getLine
  if line.isEmpty then return ()
  out.putStrLn (dispatch line)
  loop h out

def main : IO Unit := do
  let out ← IO.getStdout
  loop (← IO.getStdin) out
  out.flush
