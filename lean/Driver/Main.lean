import Driver.Util
import Driver.C16
/-! `lvdriver`: one request per line on stdin (`<suite> <op> <args…>`), one answer line on stdout
(`<model>|<spec>`).  Unknown requests answer `bad-op` — never a default value. -/
open Driver

def dispatch (line : String) : String :=
  match splitWords line with
  | "C16" :: rest => Driver.C16.handle rest
  | _ => "bad-op"

partial def loop (h : IO.FS.Stream) (out : IO.FS.Stream) : IO Unit := do
  let line ← h.getLine
  if line.isEmpty then return ()
  out.putStrLn (dispatch line)
  loop h out

def main : IO Unit := do
  let out ← IO.getStdout
  loop (← IO.getStdin) out
  out.flush
