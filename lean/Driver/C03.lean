import Driver.Util
/-! Suite C03: line-protocol handlers (stub — replaced when the property's model is built). -/
namespace Driver.C03

def handle (_ws : List String) : String := "bad-op"

end Driver.C03
