import LoraVerif.Gen.CmdTables
import LoraVerif.Model.MacCmdFields
import LoraVerif.Spec.MacCmdSpec
import Driver.Util
/-! Suite C03: command-stream iterators of the six generated tables (model = `MacCmd.run` over the
table regenerated from the source, spec = `Spec.MacCmd.splitAll` over the specification's tables),
payload accessors, checked payload constructors. -/
open MacCmd
namespace Driver.C03

def hexOrDash (bs : List Nat) : String :=
  if bs.isEmpty then "-" else hexOfBytes (bs.map (fun n => n.toUInt8))

def natsOfHex? (s : String) : Option (List Nat) := (bytesOfHex? s).map (fun l => l.map (·.toNat))

def hex2 (n : Nat) : String := hexByte n.toUInt8

/-- the toy block cipher the harness plugs into the multicast key accessors
(`encrypt_block`: add 1 to every octet, then rotate left by one; `decrypt_block` is its inverse) -/
def toyEnc (b : List Nat) : List Nat := (b.map (fun x => (x + 1) % 256)).rotateLeft 1
def toyDec (b : List Nat) : List Nat := (b.rotateRight 1).map (fun x => (x + 255) % 256)
def toyCipher : Cipher := { enc := toyEnc, dec := toyDec }

def showItems (l : List (Nat × List Nat)) : String :=
  if l.isEmpty then "-" else "/".intercalate (l.map (fun (id, a) => s!"{id}:{hexOrDash a}"))

def showVal : Val → String
  | .n v => toString v
  | .i v => toString v
  | .b v => if v then "1" else "0"
  | .hex v => hexOrDash v
  | .err e => "ERR:" ++ e
  | .none => "none"
  | .items l => showItems l

def showSpecVal : Spec.MacCmd.Val → String
  | .n v => toString v
  | .i v => toString v
  | .b v => if v then "1" else "0"
  | .hex v => hexOrDash v
  | .err e => "ERR:" ++ e
  | .none => "none"
  | .items l => showItems l

def showAccessors (l : List (String × Outcome Val)) : String :=
  ",".intercalate (l.map (fun (n, v) => n ++ "=" ++ (match v with | .ok v => showVal v | .panic _ => "PANIC")))

def showSpecAccessors (l : List (String × Spec.MacCmd.Val)) : String :=
  ",".intercalate (l.map (fun (n, v) => n ++ "=" ++ showSpecVal v))

def tableOf? (set : String) : Option Table :=
  (Gen.CmdTables.allSets.find? (fun p => p.1 == set)).map (fun p => Table.ofRows p.2)

def showItem : Item → String
  | .cmd c => s!"{hex2 c.cid}:{c.variant}:{hexOrDash c.payload}" ++ "{" ++ showAccessors (accessors toyCipher c.payloadTy c.payload) ++ "}"
  | .err (.unknownCid cid) => s!"ERR:unknown:{hex2 cid}"
  | .err (.truncated cid) => s!"ERR:trunc:{hex2 cid}"

/-- C03 judges totality, not field values: the one field on which the code is known to contradict the
specification (DeviceTimeAns seconds are read MSB-first, known finding C19-devicetime-seconds, reported by
`./check C19`) is printed here as the code reads it, so that C03 does not report the C19 finding again. -/
def specDecodeC03 (ty : String) (p : List Nat) : List (String × Spec.MacCmd.Val) :=
  (Spec.MacCmd.decode toyEnc ty p).map (fun (n, v) =>
    if ty == "DeviceTimeAnsPayload" && n == "seconds" then (n, .n (Spec.MacCmd.leValue (p.take 4).reverse)) else (n, v))

def showSpecItem : Spec.MacCmd.Item → String
  | .cmd c p => s!"{hex2 c.cid}:{c.name}:{hexOrDash p}" ++ "{" ++ showSpecAccessors (specDecodeC03 (c.name ++ "Payload") p) ++ "}"
  | .unknown cid => s!"ERR:unknown:{hex2 cid}"
  | .truncated cid => s!"ERR:trunc:{hex2 cid}"

def joinItems (l : List String) : String := if l.isEmpty then "-" else ";".intercalate l

def modelIter (T : Table) (data : List Nat) : String :=
  match run T varLen data with
  | .panic _ => "PANIC"
  | .ok r => if r.hang then "HANG" else s!"{joinItems (r.items.map showItem)} rest={hexOrDash r.final.data}"

def specIter (T : List Spec.MacCmd.Cmd) (data : List Nat) : String :=
  let (items, rest) := Spec.MacCmd.splitAll T data
  s!"{joinItems (items.map showSpecItem)} rest={hexOrDash rest}"

def fnvStr (h : Fnv) (s : String) : Fnv := (s.toUTF8.foldl (fun h b => h.byte b) h).byte 10

/-- digest over all strings `prefix ++ s`, `s` ranging over the `256^k` strings of length `k`, in lexicographic order -/
partial def digestAll (f : List Nat → String) (pre : List Nat) (k : Nat) (h : Fnv) : Fnv :=
  if k = 0 then fnvStr h (f pre)
  else Id.run do
    let mut h := h
    for b in [0:256] do
      h := digestAll f (pre ++ [b]) (k - 1) h
    return h

def modelNew (T : Table) (ty : String) (data : List Nat) : String :=
  match newPayload T ty data with
  | .panic _ => "PANIC"
  | .ok (.error e) => "ERR:" ++ e
  | .ok (.ok p) => s!"{hexOrDash p}" ++ "{" ++ showAccessors (accessors toyCipher ty p) ++ "}"

def specNew (T : List Spec.MacCmd.Cmd) (ty : String) (data : List Nat) : String :=
  let name := if ty.endsWith "Payload" then (ty.dropEnd 7).toString else ty
  match Spec.MacCmd.newPayload T name data with
  | .error e => "ERR:" ++ e
  | .ok p => s!"{hexOrDash p}" ++ "{" ++ showSpecAccessors (specDecodeC03 ty p) ++ "}"

def handle (ws : List String) : String :=
  match ws with
  | ["iter", set, hex] =>
    match tableOf? set, Spec.MacCmd.setByName set, natsOfHex? hex with
    | some T, some S, some d => s!"{modelIter T d}|{specIter S d}"
    | _, _, _ => "bad-op"
  | ["iter_digest", set, pre, k] =>
    match tableOf? set, Spec.MacCmd.setByName set, natsOfHex? pre, k.toNat? with
    | some T, some S, some p, some k =>
      if k > 3 then "bad-op"
      else s!"{hex64 (digestAll (modelIter T) p k {}).h}|{hex64 (digestAll (specIter S) p k {}).h}"
    | _, _, _, _ => "bad-op"
  | ["new", set, ty, hex] =>
    match tableOf? set, Spec.MacCmd.setByName set, natsOfHex? hex with
    | some T, some S, some d => s!"{modelNew T ty d}|{specNew S ty d}"
    | _, _, _ => "bad-op"
  | _ => "bad-op"

end Driver.C03
