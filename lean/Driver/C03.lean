import LoraVerif.Gen.CmdTables
import LoraVerif.Model.MacCmdFields
import LoraVerif.Spec.MacCmdSpec
import LoraVerif.Model.FrameShape
import LoraVerif.Spec.FrameSpec
import Driver.Util
/-! Suite C03: command-stream iterators of the six generated tables (model = `MacCmd.run` over the
table regenerated from the source, spec = `Spec.MacCmd.splitAll` over the specification's tables),
payload accessors, checked payload constructors. -/
open MacCmd
namespace Driver.C03

def hexOrDash (bs : List Nat) : String :=
  if bs.isEmpty then "-" else hexOfBytes (bs.map (fun n => n.toUInt8))

def natsOfHex? (s : String) : Option (List Nat) := (bytesOfHex? s).map (fun l => l.map (·.toNat))

def hex2 (n : Nat) : String := hexByte n.toUInt8

/-- the toy block cipher the harness plugs into the multicast key accessors
(`encrypt_block`: add 1 to every octet, then rotate left by one; `decrypt_block` is its inverse) -/
def toyEnc (b : List Nat) : List Nat := (b.map (fun x => (x + 1) % 256)).rotateLeft 1
def toyDec (b : List Nat) : List Nat := (b.rotateRight 1).map (fun x => (x + 255) % 256)
def toyCipher : Cipher := { enc := toyEnc, dec := toyDec }

def showItems (l : List (Nat × List Nat)) : String :=
  if l.isEmpty then "-" else "/".intercalate (l.map (fun (id, a) => s!"{id}:{hexOrDash a}"))

def showVal : Val → String
  | .n v => toString v
  | .i v => toString v
  | .b v => if v then "1" else "0"
  | .hex v => hexOrDash v
  | .err e => "ERR:" ++ e
  | .none => "none"
  | .items l => showItems l

def showSpecVal : Spec.MacCmd.Val → String
  | .n v => toString v
  | .i v => toString v
  | .b v => if v then "1" else "0"
  | .hex v => hexOrDash v
  | .err e => "ERR:" ++ e
  | .none => "none"
  | .items l => showItems l

def showAccessors (l : List (String × Outcome Val)) : String :=
  ",".intercalate (l.map (fun (n, v) => n ++ "=" ++ (match v with | .ok v => showVal v | .panic _ => "PANIC")))

def showSpecAccessors (l : List (String × Spec.MacCmd.Val)) : String :=
  ",".intercalate (l.map (fun (n, v) => n ++ "=" ++ showSpecVal v))

def tableOf? (set : String) : Option Table :=
  (Gen.CmdTables.allSets.find? (fun p => p.1 == set)).map (fun p => Table.ofRows p.2)

def showItem : Item → String
  | .cmd c => s!"{hex2 c.cid}:{c.variant}:{hexOrDash c.payload}" ++ "{" ++ showAccessors (accessors toyCipher c.payloadTy c.payload) ++ "}"
  | .err (.unknownCid cid) => s!"ERR:unknown:{hex2 cid}"
  | .err (.truncated cid) => s!"ERR:trunc:{hex2 cid}"

/-- C03 judges totality, not field values: the one field on which the code is known to contradict the
specification (DeviceTimeAns seconds are read MSB-first, known finding C19-devicetime-seconds, reported by
`./check C19`) is printed here as the code reads it, so that C03 does not report the C19 finding again. -/
def specDecodeC03 (ty : String) (p : List Nat) : List (String × Spec.MacCmd.Val) :=
  (Spec.MacCmd.decode toyEnc ty p).map (fun (n, v) =>
    if ty == "DeviceTimeAnsPayload" && n == "seconds" then (n, .n (Spec.MacCmd.leValue (p.take 4).reverse)) else (n, v))

def showSpecItem : Spec.MacCmd.Item → String
  | .cmd c p => s!"{hex2 c.cid}:{c.name}:{hexOrDash p}" ++ "{" ++ showSpecAccessors (specDecodeC03 (c.name ++ "Payload") p) ++ "}"
  | .unknown cid => s!"ERR:unknown:{hex2 cid}"
  | .truncated cid => s!"ERR:trunc:{hex2 cid}"

def joinItems (l : List String) : String := if l.isEmpty then "-" else ";".intercalate l

def modelIter (T : Table) (data : List Nat) : String :=
  match run T varLen data with
  | .panic _ => "PANIC"
  | .ok r => if r.hang then "HANG" else s!"{joinItems (r.items.map showItem)} rest={hexOrDash r.final.data}"

def specIter (T : List Spec.MacCmd.Cmd) (data : List Nat) : String :=
  let (items, rest) := Spec.MacCmd.splitAll T data
  s!"{joinItems (items.map showSpecItem)} rest={hexOrDash rest}"

def fnvStr (h : Fnv) (s : String) : Fnv := (s.toUTF8.foldl (fun h b => h.byte b) h).byte 10

/-- digest over all strings `prefix ++ s`, `s` ranging over the `256^k` strings of length `k`, in lexicographic order -/
partial def digestAll (f : List Nat → String) (pre : List Nat) (k : Nat) (h : Fnv) : Fnv :=
  if k = 0 then fnvStr h (f pre)
  else Id.run do
    let mut h := h
    for b in [0:256] do
      h := digestAll f (pre ++ [b]) (k - 1) h
    return h

def modelNew (T : Table) (ty : String) (data : List Nat) : String :=
  match newPayload T ty data with
  | .panic _ => "PANIC"
  | .ok (.error e) => "ERR:" ++ e
  | .ok (.ok p) => s!"{hexOrDash p}" ++ "{" ++ showAccessors (accessors toyCipher ty p) ++ "}"

def specNew (T : List Spec.MacCmd.Cmd) (ty : String) (data : List Nat) : String :=
  let name := if ty.endsWith "Payload" then (ty.dropEnd 7).toString else ty
  match Spec.MacCmd.newPayload T name data with
  | .error e => "ERR:" ++ e
  | .ok p => s!"{hexOrDash p}" ++ "{" ++ showSpecAccessors (specDecodeC03 ty p) ++ "}"


/-! ### frame parsers: `C03 frame <hex>` answers
`parse=<P> data=<D> dec=<11>/<10>/<01>/<00> jr=<J> ja=<A> jad=<AD>` (see harness/src/c03_frames.rs) -/
section Frames
open FrameShape

def bstr (b : Bool) : String := if b then "1" else "0"
def optNat : Option Nat → String
  | none => "none"
  | some n => toString n

def showDataView (v : DataView) : String :=
  let up := v.frameType == 2 || v.frameType == 4
  let conf := v.frameType == 4 || v.frameType == 5
  let c := v.fctrl
  "{" ++ s!"t={v.frameType},up={bstr up},conf={bstr conf},addr={hexOrDash v.devAddr},fctrl={c},adr={bstr (c &&& 0x80 != 0)},adrackreq={bstr (up && c &&& 0x40 != 0)},ack={bstr (c &&& 0x20 != 0)},fpending={bstr (!up && c &&& 0x10 != 0)},foptslen={c &&& 0x0f},fcnt={v.fcnt},fopts={hexOrDash v.fOpts},fport={optNat v.fPort},mic={hexOrDash v.mic},vmic={bstr (v.mic == [0, 0, 0, 0])}" ++ "}"

def modelData (b : List Nat) : String :=
  match validate b with
  | .panic _ => "PANIC"
  | .ok (.error e) => "ERR:" ++ e.name
  | .ok (.ok l) =>
    match dataAccessors b l with
    | .panic _ => "PANIC"
    | .ok v => showDataView v

def modelDec (b : List Nat) (nwk app : Bool) : String :=
  match decryptData b nwk app with
  | .panic _ => "PANIC"
  | .ok (.error e) => "ERR:" ++ e.name
  | .ok (.ok l) =>
    -- accessors of the returned view (its bytes differ from `b` only inside the FRMPayload range)
    match dataAccessors b l with
    | .panic _ => "PANIC"
    | .ok v =>
      let kind := match v.fPort with | none => "N" | some 0 => "M" | some _ => "D"
      "{" ++ s!"fport={optNat v.fPort},kind={kind},len={v.frm.length},outside=1" ++ "}"

def showCf : CfList → String
  | .absent => "none"
  | .rfu => "none"
  | .dynamic fs => "dyn:" ++ "/".intercalate (fs.map hexOrDash)
  | .fixed m => "fixed:" ++ hexOrDash m

def modelJr (b : List Nat) : String :=
  match parseJoinRequest b with
  | .error e => "ERR:" ++ e.name
  | .ok () =>
    match joinRequestAccessors b with
    | .panic _ => "PANIC"
    | .ok v => "{" ++ s!"join_eui={hexOrDash v.joinEui},dev_eui={hexOrDash v.devEui},dev_nonce={hexOrDash v.devNonce},mic={hexOrDash v.mic},vmic={bstr (v.mic == [0, 0, 0, 0])}" ++ "}"

def modelJa (b : List Nat) : String :=
  match validateJoinAccept b with
  | .error e => "ERR:" ++ e.name
  | .ok () => "ok"

def modelJad (b : List Nat) : String :=
  match decryptJoinAccept toyCipher b with
  | .panic _ => "PANIC"
  | .ok (.error e) => "ERR:" ++ e.name
  | .ok (.ok p) =>
    match joinAcceptAccessors p with
    | .panic _ => "PANIC"
    | .ok v => "{" ++ s!"join_nonce={hexOrDash v.joinNonce},net_id={hexOrDash v.netId},dev_addr={hexOrDash v.devAddr},dl={v.dlSettings},rxdelay={v.rxDelay},cflist={showCf v.cfList},mic={hexOrDash v.mic},vmic={bstr (v.mic == [0, 0, 0, 0])},keys=ok" ++ "}"

def modelParse (b : List Nat) : String :=
  match parse b with
  | .panic _ => "PANIC"
  | .ok (.error e) => "ERR:" ++ e.name
  | .ok (.ok .joinRequest) => "JR"
  | .ok (.ok .joinAccept) => "JA"
  | .ok (.ok (.data _)) => "DATA"

def modelFrame (b : List Nat) : String :=
  s!"parse={modelParse b} data={modelData b} dec={modelDec b true true}/{modelDec b true false}/{modelDec b false true}/{modelDec b false false} jr={modelJr b} ja={modelJa b} jad={modelJad b}"

open Spec.Frame in
def specShowData (d : Spec.Frame.Data) : String :=
  let up := d.mtype = 2 ∨ d.mtype = 4
  let conf := d.mtype = 4 ∨ d.mtype = 5
  let c := d.fctrl
  let bit (k : Nat) : Bool := c / 2 ^ k % 2 = 1
  "{" ++ s!"t={d.mtype},up={bstr up},conf={bstr conf},addr={hexOrDash d.devAddr},fctrl={c},adr={bstr (bit 7)},adrackreq={bstr (up && bit 6)},ack={bstr (bit 5)},fpending={bstr (!up && bit 4)},foptslen={c % 16},fcnt={d.fcnt},fopts={hexOrDash d.fopts},fport={optNat d.fport},mic={hexOrDash d.mic},vmic={bstr (d.mic == [0, 0, 0, 0])}" ++ "}"

def specData (b : List Nat) : String :=
  match Spec.Frame.parseData b with
  | .error e => "ERR:" ++ e
  | .ok d => specShowData d

/-- decrypt_in_place needs the key selected by the FPort only when there is an FRMPayload to decrypt -/
def specDec (b : List Nat) (nwk app : Bool) : String :=
  match Spec.Frame.parseData b with
  | .error e => "ERR:" ++ e
  | .ok d =>
    let needApp : Bool := match d.fport with | some p => p != 0 | none => false
    if d.frmLen > 0 ∧ ¬ (if needApp then app else nwk) then "ERR:MissingKey"
    else
      let kind := match d.fport with | none => "N" | some 0 => "M" | some _ => "D"
      "{" ++ s!"fport={optNat d.fport},kind={kind},len={d.frmLen},outside=1" ++ "}"

def specShowCf : Spec.Frame.CfList → String
  | .absent => "none"
  | .rfu => "none"
  | .dynamic fs => "dyn:" ++ "/".intercalate (fs.map hexOrDash)
  | .fixed m => "fixed:" ++ hexOrDash m

def specJr (b : List Nat) : String :=
  match Spec.Frame.parseJoinRequest b with
  | .error e => "ERR:" ++ e
  | .ok () =>
    let mic := Spec.Frame.sub b 19 4
    "{" ++ s!"join_eui={hexOrDash (Spec.Frame.sub b 1 8)},dev_eui={hexOrDash (Spec.Frame.sub b 9 8)},dev_nonce={hexOrDash (Spec.Frame.sub b 17 2)},mic={hexOrDash mic},vmic={bstr (mic == [0, 0, 0, 0])}" ++ "}"

def specJa (b : List Nat) : String :=
  match Spec.Frame.parseJoinAccept b with
  | .error e => "ERR:" ++ e
  | .ok () => "ok"

def specJad (b : List Nat) : String :=
  match Spec.Frame.parseJoinAccept b with
  | .error e => "ERR:" ++ e
  | .ok () =>
    let p := b.take 1 ++ Spec.Frame.unwrapBlocks toyEnc 3 (b.drop 1)
    let v := Spec.Frame.joinAcceptFields p
    "{" ++ s!"join_nonce={hexOrDash v.joinNonce},net_id={hexOrDash v.netId},dev_addr={hexOrDash v.devAddr},dl={v.dlSettings},rxdelay={v.rxDelay},cflist={specShowCf v.cfList},mic={hexOrDash v.mic},vmic={bstr (v.mic == [0, 0, 0, 0])},keys=ok" ++ "}"

def specFrame (b : List Nat) : String :=
  s!"parse={Spec.Frame.classify b} data={specData b} dec={specDec b true true}/{specDec b true false}/{specDec b false true}/{specDec b false false} jr={specJr b} ja={specJa b} jad={specJad b}"

end Frames

def handle (ws : List String) : String :=
  match ws with
  | ["iter", set, hex] =>
    match tableOf? set, Spec.MacCmd.setByName set, natsOfHex? hex with
    | some T, some S, some d => s!"{modelIter T d}|{specIter S d}"
    | _, _, _ => "bad-op"
  | ["iter_digest", set, pre, k] =>
    match tableOf? set, Spec.MacCmd.setByName set, natsOfHex? pre, k.toNat? with
    | some T, some S, some p, some k =>
      if k > 3 then "bad-op"
      else s!"{hex64 (digestAll (modelIter T) p k {}).h}|{hex64 (digestAll (specIter S) p k {}).h}"
    | _, _, _, _ => "bad-op"
  | ["frame", hex] =>
    match natsOfHex? hex with
    | some d => s!"{modelFrame d}|{specFrame d}"
    | none => "bad-op"
  | ["frame_digest", pre, k] =>
    match natsOfHex? pre, k.toNat? with
    | some p, some k =>
      if k > 2 then "bad-op"
      else s!"{hex64 (digestAll modelFrame p k {}).h}|{hex64 (digestAll specFrame p k {}).h}"
    | _, _ => "bad-op"
  | ["new", set, ty, hex] =>
    match tableOf? set, Spec.MacCmd.setByName set, natsOfHex? hex with
    | some T, some S, some d => s!"{modelNew T ty d}|{specNew S ty d}"
    | _, _, _ => "bad-op"
  | _ => "bad-op"

end Driver.C03
