import LoraVerif.Gen.Modulation
import LoraVerif.Gen.PhyArith
import LoraVerif.Spec.SemtechArith
import LoraVerif.Model.PhyArith
import Driver.Util
/-! Suite C17.  `<model>|<spec>`.  Functional requirements (`pll…`): spec = the datasheet value.
Relational requirements: the op line ends with the implementation's observation `obs`; the model
side prints the model's observation in the same format, the spec side echoes `obs` when `obs`
satisfies the requirement of `Spec.Semtech` and prints `SPEC-VIOLATION` otherwise.  Digest ops fold
the model values; their spec digest folds the model value where the requirement holds and a
marker where it does not. -/
open Gen.Modulation Gen.PhyArith
open Spec.Semtech (Chip)
open Model.PhyArith
namespace Driver.C17

def sfOf? (n : Int) : Option SpreadingFactor := SpreadingFactor.all.find? (fun s => s.factor == n)
def bwOf? (n : Int) : Option Bandwidth :=
  -- op lines name a bandwidth by the datasheet's figure in Hz (the C13 harness's own table, legacy replays)
  -- or by the crate's current `hz()`
  match n with
  | 7810 => some ._7KHz | 10420 => some ._10KHz | 15630 => some ._15KHz | 20830 => some ._20KHz
  | 31250 => some ._31KHz | 41670 => some ._41KHz | 62500 => some ._62KHz | 125000 => some ._125KHz
  | 250000 => some ._250KHz | 500000 => some ._500KHz
  | _ => Bandwidth.all.find? (fun b => b.hz == n)

/-- `a,b,-,c` → `[some a, some b, none, some c]`; `none` if a field is neither `-` nor an integer -/
def parseObs (s : String) : Option (List (Option Int)) :=
  (s.splitOn ",").mapM (fun w => if w = "-" then some none else (parseInt? w).map some)

def showO : Option Int → String
  | some v => toString v
  | none => "-"

def joinC (l : List String) : String := ",".intercalate l

def inRange (f : Int) : Bool := 137000000 ≤ f && f ≤ 1020000000

def viol : String := "SPEC-VIOLATION"

/-- variant name → (chip, high-power PA selected) -/
def variantOf? (s : String) : Option (Chip × Bool) :=
  if s = "sx1261" then some (.sx1261, false)
  else if s = "sx1262" then some (.sx1262, true)
  else if s = "stm32wl-lp" then some (.stm32wl, false)
  else if s = "stm32wl-hp" then some (.stm32wl, true)
  else none

def chip127? (s : String) : Option Chip :=
  if s = "sx1276" then some .sx1276 else if s = "sx1272" then some .sx1272 else none

def pack2 : Option (Int × Int) → Option Int
  | some (r, s) => some (r * 65536 + s)
  | none => none

/-- FNV-1a over the 8 little-endian bytes of a word, unrolled on unboxed `UInt64`
(same function as `Driver.Fnv.word`; the sweep over 1.8·10^9 cases spends its time here) -/
@[inline] def fnvByte (h b : UInt64) : UInt64 := (h ^^^ b) * 0x100000001b3
@[inline] def fnvWord (h w : UInt64) : UInt64 :=
  let h := fnvByte h (w &&& 0xff)
  let h := fnvByte h ((w >>> 8) &&& 0xff)
  let h := fnvByte h ((w >>> 16) &&& 0xff)
  let h := fnvByte h ((w >>> 24) &&& 0xff)
  let h := fnvByte h ((w >>> 32) &&& 0xff)
  let h := fnvByte h ((w >>> 40) &&& 0xff)
  let h := fnvByte h ((w >>> 48) &&& 0xff)
  fnvByte h (w >>> 56)

/-- `Driver.optWord` with a fast path for small non-negative values (the general path reduces
modulo the bignum 2^64) -/
@[inline] def optWordFast : Option Int → UInt64
  | none => 0xFFFFFFFFFFFFFFFF
  | some v => if 0 ≤ v ∧ v < 4611686018427387904 then v.toNat.toUInt64 else optWord (some v)

/-- model digest and spec digest of one block in a single pass -/
def digestRange2 (lo n : Nat) (model : Int → Option Int) (spec : Int → Option Int → Option Int) : UInt64 × UInt64 := Id.run do
  let mut hm : UInt64 := 0xcbf29ce484222325
  let mut hs : UInt64 := 0xcbf29ce484222325
  for i in [0:n] do
    let f : Int := (((lo + i) % 4294967296 : Nat) : Int)
    let m := model f
    hm := fnvWord hm (optWordFast m)
    hs := fnvWord hs (optWordFast (spec f m))
  return (hm, hs)

def marker : Option Int := some 0x5BADBADBAD

def handle1 (ws : List String) : String :=
  match ws with
  | ["pll126", f] =>
    match parseInt? f with
    | some f =>
      let s := if inRange f then toString (Spec.Semtech.sx126xPll f) else "-"
      s!"{showOptInt (sx126xSetChannel f)}|{s}"
    | none => "bad-op"
  | ["pll127", f] =>
    match parseInt? f with
    | some f =>
      let s := if inRange f then toString (Spec.Semtech.sx127xPll f) else "-"
      s!"{showOptInt (sx127xSetChannel f)}|{s}"
    | none => "bad-op"
  | ["pll126_digest", lo, n] =>
    match lo.toNat?, n.toNat? with
    | some lo, some n =>
      let (m, s) := digestRange2 lo n sx126xSetChannel (fun f mv => if inRange f then some (Spec.Semtech.sx126xPll f) else mv)
      s!"{hex64 m}|{hex64 s}"
    | _, _ => "bad-op"
  | ["pll127_digest", lo, n] =>
    match lo.toNat?, n.toNat? with
    | some lo, some n =>
      let (m, s) := digestRange2 lo n sx127xSetChannel (fun f mv => if inRange f then some (Spec.Semtech.sx127xPll f) else mv)
      s!"{hex64 m}|{hex64 s}"
    | _, _ => "bad-op"
  | ["pa126", variant, req, rf, obs] =>
    match variantOf? variant, parseInt? req with
    | some (c, hp), some req =>
      let rf : Option Int := parseInt? rf
      let m := match sx126xSetTxPower c hp req rf with
        | .ok (d, h, s, p) => joinC [toString d, toString h, toString s, toString p]
        | .err => "ERR"
        | .panic => "PANIC"
      let o : Option (Option (Nat × Nat × Nat × Int)) :=
        if obs = "ERR" then some none
        else match parseObs obs with
          | some [some d, some h, some s, some p] => if d ≥ 0 ∧ h ≥ 0 ∧ s ≥ 0 then some (some (d.toNat, h.toNat, s.toNat, p)) else none
          | _ => none
      let s := match o with
        | some o => if Spec.Semtech.PaOk126x c (isHighPower c hp) req rf o then obs else viol
        | none => viol
      s!"{m}|{s}"
    | _, _ => "bad-op"
  | ["pa127", chip, boost, req, obs] =>
    match chip127? chip, parseBool? boost, parseInt? req with
    | some c, some boost, some req =>
      let m := match c with
        | .sx1272 => (match sx1272SetTxPower req boost with
            | some (cfg, dac) => joinC [toString cfg, toString dac, "-"]
            | none => "PANIC")
        | _ => (match sx1276SetTxPower req boost with
            | some (cfg, dac, ocp) => joinC [toString cfg, toString dac, toString ocp]
            | none => "PANIC")
      let s := match parseObs obs with
        | some [some cfg, some dac, _] =>
          if cfg ≥ 0 ∧ dac ≥ 0 ∧ Spec.Semtech.PaOk127x c boost req cfg.toNat dac.toNat then obs else viol
        | _ => viol
      s!"{m}|{s}"
    | _, _, _ => "bad-op"
  | ["symb126", n, obs] =>
    match parseInt? n with
    | some n =>
      let m := match sx126xSymbTimeout n with
        | some (cmd, reg) => joinC [toString cmd, showO reg]
        | none => "PANIC"
      let s := match parseObs obs with
        | some [some cmd, reg] =>
          if cmd ≥ 0 ∧ (reg.all (· ≥ 0)) ∧ Spec.Semtech.SymbOk126x n.toNat cmd.toNat (reg.map Int.toNat) then obs else viol
        | _ => viol
      s!"{m}|{s}"
    | none => "bad-op"
  | ["symb127", chip, n, prior, obs] =>
    match chip127? chip, parseInt? n, parseInt? prior with
    | some _, some n, some prior =>
      let m := match sx127xSymbTimeout n prior with
        | some (cfg2, lsb) => joinC [toString cfg2, toString lsb]
        | none => "PANIC"
      let s := match parseObs obs with
        | some [some cfg2, some lsb] =>
          if cfg2 ≥ 0 ∧ lsb ≥ 0 ∧ Spec.Semtech.SymbOk127x n.toNat cfg2.toNat lsb.toNat then obs else viol
        | _ => viol
      s!"{m}|{s}"
    | _, _, _ => "bad-op"
  | ["rxsym", sf, bw, ms, obs] =>
    match parseInt? sf >>= sfOf?, parseInt? bw >>= bwOf?, parseInt? ms with
    | some sf, some bw, some ms =>
      let m := showOptInt (rxModeSymbols sf bw ms)
      let s := match parseInt? obs with
        | some n => if Spec.Semtech.WindowCovers sf.factor bw.hz ms n then obs else viol
        | none => viol
      s!"{m}|{s}"
    | _, _, _ => "bad-op"
  | ["pkt126", b0, b1, _b2, obs] =>
    match parseInt? b0, parseInt? b1 with
    | some b0, some b1 =>
      let m := match sx126xPktStatus b0 b1 with
        | some (r, s) => joinC [toString r, toString s]
        | none => "PANIC"
      let s := match parseObs obs with
        | some [some r, some sn] => if Spec.Semtech.PktOk126x b0.toNat b1.toNat r sn then obs else viol
        | _ => viol
      s!"{m}|{s}"
    | _, _ => "bad-op"
  | ["pkt126_digest", b0] =>
    match parseInt? b0 with
    | some b0 => Id.run do
      let mut hm : Fnv := {}
      let mut hs : Fnv := {}
      for b1 in [0:256] do
        let v := sx126xPktStatus b0 (b1 : Int)
        let ok := match v with
          | some (r, s) => Spec.Semtech.PktOk126x b0.toNat b1 r s
          | none => false
        let wm := optWord (pack2 v)
        let wsp := if ok then wm else optWord marker
        for _ in [0:256] do
          hm := hm.word wm
          hs := hs.word wsp
      return s!"{hex64 hm.h}|{hex64 hs.h}"
    | none => "bad-op"
  | ["rssi126", b0, obs] =>
    match parseInt? b0 with
    | some b0 =>
      let s := match parseInt? obs with
        | some r => if Spec.Semtech.RssiOk126x b0.toNat r then obs else viol
        | none => viol
      s!"{showOptInt (sx126xRssi b0)}|{s}"
    | none => "bad-op"
  | ["pkt127", chip, snr, rssi, frf, obs] =>
    match chip127? chip, parseInt? snr, parseInt? rssi, parseInt? frf with
    | some c, some snr, some rssi, some frf =>
      let m := match sx127xPktStatus c snr rssi frf with
        | some (r, s) => joinC [toString r, toString s]
        | none => "PANIC"
      let s := match parseObs obs with
        | some [some r, some sn] => if Spec.Semtech.PktOk127x c frf.toNat rssi.toNat snr.toNat r sn then obs else viol
        | _ => viol
      s!"{m}|{s}"
    | _, _, _, _ => "bad-op"
  | ["pkt127_digest", chip, frf] =>
    match chip127? chip, parseInt? frf with
    | some c, some frf => Id.run do
      let mut hm : Fnv := {}
      let mut hs : Fnv := {}
      for snr in [0:256] do
        for rssi in [0:256] do
          let v := sx127xPktStatus c (snr : Int) (rssi : Int) frf
          let ok := match v with
            | some (r, s) => Spec.Semtech.PktOk127x c frf.toNat rssi snr r s
            | none => false
          let wm := optWord (pack2 v)
          hm := hm.word wm
          hs := hs.word (if ok then wm else optWord marker)
      return s!"{hex64 hm.h}|{hex64 hs.h}"
    | _, _ => "bad-op"
  | ["rssi127", chip, raw, frf, obs] =>
    match chip127? chip, parseInt? raw, parseInt? frf with
    | some c, some raw, some frf =>
      let s := match parseInt? obs with
        | some r => if Spec.Semtech.RssiOk127x c frf.toNat raw.toNat r then obs else viol
        | none => viol
      s!"{showOptInt (sx127xRssi c raw frf)}|{s}"
    | _, _, _ => "bad-op"
  | _ => "bad-op"

/-- `pa126s variant req rf warm obs`: one driver instance after bring-up and a (cold or warm) sleep;
the observation is what was programmed since the chip last lost its configuration, and the
requirement is that of a fresh driver (`pa126`). -/
def handle (ws : List String) : String :=
  match ws with
  | ["pa126s", variant, req, rf, _warm, obs] => handle1 ["pa126", variant, req, rf, obs]
  | _ => handle1 ws

end Driver.C17
