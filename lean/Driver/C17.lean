import Driver.Util
/-! Suite C17: line-protocol handlers (stub — replaced when the property's model is built). -/
namespace Driver.C17

def handle (_ws : List String) : String := "bad-op"

end Driver.C17
