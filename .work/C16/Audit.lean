import LoraVerif.Props.C16
#print axioms C16.new_spec
#print axioms C16.toa_eq_spec
#print axioms C16.toa_is_formula
#print axioms C16.toa_monotone
#print axioms C16.code_monotone
