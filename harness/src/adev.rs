//! Device-level runner: the REAL `async_device::Device` driven through its public API with a scripted
//! radio, an always-firing timer, the harness RNG and a minimal single-threaded executor.
//! Op-line grammar: see lean/Driver/Dev.lean.
#![allow(dead_code)]
use crate::mac::*;
use crate::util::*;
use lorawan_device::async_device::radio::{PhyRxTx, RxConfig, RxMode, RxQuality, RxStatus, Timer, TxConfig};
use lorawan_device::async_device::{Device, Error as DevError, JoinMode, JoinResponse, ListenResponse, SendResponse, Timings};
use lorawan_device::mac::Session;
use lorawan_device::region;
use lorawan_device::{AppEui, AppKey, AppSKey, DevAddr, DevEui, NwkSKey};
use std::cell::RefCell;
use std::future::Future;
use std::pin::Pin;
use std::rc::Rc;
use std::task::{Context, Poll, RawWaker, RawWakerVTable, Waker};

#[derive(Clone, Debug)]
pub enum Item {
    Ok,
    Err,
    Frame(i8, Vec<u8>),
}

#[derive(Default)]
pub struct Shared {
    pub script: Vec<Item>,
    pub calls: Vec<String>,
    pub last_frame: Vec<u8>,
    pub tx_ms: u32,
    pub lead: u32,
    pub buffer: u32,
}

impl Shared {
    fn next(&mut self) -> Item {
        if self.script.is_empty() {
            Item::Ok
        } else {
            self.script.remove(0)
        }
    }
}

pub struct MockRadio<const P: u8, const G: i8> {
    pub sh: Rc<RefCell<Shared>>,
}

pub struct MockTimer {
    pub sh: Rc<RefCell<Shared>>,
}

/// a future that is pending forever (nothing heard: the timer wins the select)
struct Never;
impl Future for Never {
    type Output = ();
    fn poll(self: Pin<&mut Self>, _: &mut Context<'_>) -> Poll<()> {
        Poll::Pending
    }
}

fn show_rf_cfg(r: &lorawan_device::async_device::radio::RfConfig) -> String {
    format!("{},{},{},{}", r.frequency, r.bb.sf.factor(), r.bb.bw.hz(), r.max_payload_len)
}

impl<const P: u8, const G: i8> PhyRxTx for MockRadio<P, G> {
    type PhyError = ();
    const ANTENNA_GAIN: i8 = G;
    const MAX_RADIO_POWER: u8 = P;

    async fn tx(&mut self, config: TxConfig, buf: &[u8]) -> Result<u32, ()> {
        let mut sh = self.sh.borrow_mut();
        sh.calls.push(format!("tx({},{},{})", show_rf_cfg(&config.rf), config.pw, buf.len()));
        sh.last_frame = buf.to_vec();
        match sh.next() {
            Item::Err => Err(()),
            _ => Ok(sh.tx_ms),
        }
    }
    async fn setup_rx(&mut self, config: RxConfig) -> Result<(), ()> {
        let mut sh = self.sh.borrow_mut();
        let mode = match config.mode {
            RxMode::Continuous => "c".to_string(),
            RxMode::Single { ms } => format!("s{}", ms),
        };
        sh.calls.push(format!("srx({},{})", show_rf_cfg(&config.rf), mode));
        match sh.next() {
            Item::Err => Err(()),
            _ => Ok(()),
        }
    }
    async fn rx_continuous(&mut self, rx_buf: &mut [u8]) -> Result<(usize, RxQuality), ()> {
        let item = {
            let mut sh = self.sh.borrow_mut();
            sh.calls.push("rxc".into());
            sh.next()
        };
        match item {
            Item::Err => Err(()),
            Item::Frame(snr, b) => {
                let n = b.len().min(rx_buf.len());
                rx_buf[..n].copy_from_slice(&b[..n]);
                Ok((n, RxQuality::new(-80, snr)))
            }
            Item::Ok => {
                Never.await;
                unreachable!()
            }
        }
    }
    async fn rx_single(&mut self, buf: &mut [u8]) -> Result<RxStatus, ()> {
        let item = {
            let mut sh = self.sh.borrow_mut();
            sh.calls.push("rxs".into());
            sh.next()
        };
        match item {
            Item::Err => Err(()),
            Item::Frame(snr, b) => {
                let n = b.len().min(buf.len());
                buf[..n].copy_from_slice(&b[..n]);
                Ok(RxStatus::Rx(n, RxQuality::new(-80, snr)))
            }
            Item::Ok => Ok(RxStatus::RxTimeout),
        }
    }
    async fn low_power(&mut self) -> Result<(), ()> {
        let mut sh = self.sh.borrow_mut();
        sh.calls.push("lp".into());
        match sh.next() {
            Item::Err => Err(()),
            _ => Ok(()),
        }
    }
}

impl<const P: u8, const G: i8> Timings for MockRadio<P, G> {
    fn get_rx_window_lead_time_ms(&self) -> u32 {
        self.sh.borrow().lead
    }
    fn get_rx_window_buffer(&self) -> u32 {
        self.sh.borrow().buffer
    }
}

impl Timer for MockTimer {
    fn reset(&mut self) {
        self.sh.borrow_mut().calls.push("reset".into());
    }
    async fn at(&mut self, millis: u64) {
        self.sh.borrow_mut().calls.push(format!("at({})", millis));
    }
    async fn delay_ms(&mut self, millis: u64) {
        self.sh.borrow_mut().calls.push(format!("delay({})", millis));
    }
}

fn noop_waker() -> Waker {
    fn clone(_: *const ()) -> RawWaker {
        RawWaker::new(std::ptr::null(), &VTABLE)
    }
    fn noop(_: *const ()) {}
    static VTABLE: RawWakerVTable = RawWakerVTable::new(clone, noop, noop, noop);
    unsafe { Waker::from_raw(RawWaker::new(std::ptr::null(), &VTABLE)) }
}

/// poll to completion; `None` = the future stayed pending (would wait forever)
pub fn block_on<F: Future>(f: F) -> Option<F::Output> {
    let waker = noop_waker();
    let mut cx = Context::from_waker(&waker);
    let mut f = Box::pin(f);
    for _ in 0..10_000 {
        if let Poll::Ready(v) = f.as_mut().poll(&mut cx) {
            return Some(v);
        }
    }
    None
}

type Dev = Device<MockRadio<20, 0>, MockTimer, HRng, 256, 8>;

pub struct ARunner {
    pub dev: Dev,
    pub sh: Rc<RefCell<Shared>>,
    pub nwk: [u8; 16],
    pub app: [u8; 16],
    /// header fields, kept to rebuild the device around a restored session
    pub hdr: (lorawan_device::region::Region, u64, Vec<u32>, bool),
    /// the application leaves downlinks in the device's queue until `take`
    pub hold: bool,
}

fn parse_item(t: &str) -> Option<Item> {
    if t == "O" {
        return Some(Item::Ok);
    }
    if t == "E" {
        return Some(Item::Err);
    }
    let rest = t.strip_prefix('R')?;
    let mut it = rest.split('/');
    let snr: i8 = it.next()?.parse().ok()?;
    let bytes = unhex(it.next()?);
    Some(Item::Frame(snr, bytes))
}

fn parse_header(hd: &str) -> Option<(ARunner, Option<String>)> {
    // <suite> adev <region> <seed> <forced|-> <lead> <buffer> <classC> <txms>
    let w: Vec<&str> = hd.split_whitespace().collect();
    if w.len() != 9 || w[1] != "adev" {
        return None;
    }
    let reg = region_of(w[2])?;
    let seed: u64 = w[3].parse().ok()?;
    let forced: Vec<u32> = if w[4] == "-" { vec![] } else { w[4].split(',').map(|x| x.parse().ok()).collect::<Option<Vec<u32>>>()? };
    let sh = Rc::new(RefCell::new(Shared { lead: w[5].parse().ok()?, buffer: w[6].parse().ok()?, tx_ms: w[8].parse().ok()?, ..Default::default() }));
    let mut dev: Dev = Device::new(region::Configuration::new(reg), MockRadio { sh: sh.clone() }, MockTimer { sh: sh.clone() }, HRng::new(seed, forced));
    if w[7] == "1" {
        dev.enable_class_c();
    }
    let forced2: Vec<u32> = if w[4] == "-" { vec![] } else { w[4].split(',').map(|x| x.parse().unwrap_or(0)).collect() };
    Some((ARunner { dev, sh, nwk: NWK_KEY, app: APP_KEY, hdr: (reg, seed, forced2, w[7] == "1"), hold: false }, None))
}

impl ARunner {
    fn take_calls(&mut self) -> String {
        let c = std::mem::take(&mut self.sh.borrow_mut().calls);
        c.join(";")
    }
    fn take_dls(&mut self) -> String {
        if self.hold {
            return "-".into();
        }
        self.take_dls_now()
    }
    fn take_dls_now(&mut self) -> String {
        let mut v = vec![];
        while let Some(d) = self.dev.take_downlink() {
            v.push(format!("{}:{}", d.fport, hex(&d.data)));
        }
        v.reverse(); // take_downlink pops the most recent first
        if v.is_empty() {
            "-".into()
        } else {
            v.join(",")
        }
    }
    fn set_script(&mut self, toks: &[&str]) -> Option<()> {
        let mut s = vec![];
        for t in toks {
            s.push(parse_item(t)?);
        }
        self.sh.borrow_mut().script = s;
        Some(())
    }
    pub fn step(&mut self, ev: &str) -> Option<String> {
        let (cmd, script) = match ev.split_once('|') {
            Some((a, b)) => (a.trim(), b.trim()),
            None => (ev.trim(), ""),
        };
        let w: Vec<&str> = cmd.split_whitespace().collect();
        let st: Vec<&str> = script.split_whitespace().collect();
        self.dev.rng.refill();
        match w.as_slice() {
            ["abp", da] => {
                let da: u32 = da.parse().ok()?;
                self.nwk = NWK_KEY;
                self.app = APP_KEY;
                let r = block_on(self.dev.join(&JoinMode::ABP { nwkskey: NwkSKey::from(NWK_KEY), appskey: AppSKey::from(APP_KEY), devaddr: DevAddr::from_value(da) }));
                match r {
                    Some(Ok(JoinResponse::JoinSuccess)) => Some("ok".into()),
                    _ => Some("abp-failed".into()),
                }
            }
            ["sess", da, up, down, rest @ ..] if rest.is_empty() || rest.len() == 2 => {
                // a device constructed around a stored session (`new_with_session`)
                let da: u32 = da.parse().ok()?;
                let base = lorawan_device::mac::Session::new(NwkSKey::from(NWK_KEY), AppSKey::from(APP_KEY), DevAddr::from_value(da));
                let mut j = serde_json::to_value(&base).unwrap();
                j["fcnt_up"] = serde_json::json!(up.parse::<u32>().ok()?);
                j["fcnt_down"] = if *down == "-" { serde_json::json!(null) } else { serde_json::json!(down.parse::<u32>().ok()?) };
                if rest.len() == 2 {
                    // the stored `confirmed` flag and ADR counter of a session saved after a confirmed uplink
                    j["confirmed"] = serde_json::json!(rest[0] == "1");
                    j["adr_ack_cnt"] = serde_json::json!(rest[1].parse::<u32>().ok()?);
                }
                let sess: lorawan_device::mac::Session = serde_json::from_value(j).ok()?;
                let (reg, seed, forced, cc) = self.hdr.clone();
                let mut dev: Dev = Device::new_with_session(
                    region::Configuration::new(reg),
                    MockRadio { sh: self.sh.clone() },
                    MockTimer { sh: self.sh.clone() },
                    HRng::new(seed, forced),
                    Some(sess),
                );
                if cc {
                    dev.enable_class_c();
                }
                self.dev = dev;
                self.nwk = NWK_KEY;
                self.app = APP_KEY;
                Some("ok".into())
            }
            ["asend", port, conf, data] => {
                self.set_script(&st)?;
                let port: u8 = port.parse().ok()?;
                let data = unhex(data);
                let fcnt = self.dev.verif_snapshot().session.map(|s| s.fcnt_up);
                let r = block_on(self.dev.send(&data, port, *conf == "1"));
                let res = match r {
                    None => "STUCK".to_string(),
                    Some(Ok(SendResponse::DownlinkReceived(f))) => format!("Ok(DownlinkReceived({}))", f),
                    Some(Ok(SendResponse::SessionExpired)) => "Ok(SessionExpired)".into(),
                    Some(Ok(SendResponse::NoAck)) => "Ok(NoAck)".into(),
                    Some(Ok(SendResponse::RxComplete)) => "Ok(RxComplete)".into(),
                    Some(Err(DevError::Radio(_))) => "Err(Radio)".into(),
                    Some(Err(DevError::Mac(_))) => "Err(Mac)".into(),
                };
                let calls = self.take_calls();
                let up = if calls.starts_with("tx(") {
                    let frame = self.sh.borrow().last_frame.clone();
                    show_uplink(&frame, &self.nwk, &self.app, fcnt.unwrap_or(0))
                } else {
                    "up=-".into()
                };
                let dls = self.take_dls();
                Some(format!("calls={} => {} {} dls={}", calls, res, up, dls))
            }
            ["alisten"] => {
                // `Device::rxc_listen`: what a Class C application awaits while it is not sending
                self.set_script(&st)?;
                let r = block_on(self.dev.rxc_listen());
                let res = match r {
                    // nothing (more) was heard: the future is still pending and is dropped here
                    None => "Listening".to_string(),
                    Some(Ok(ListenResponse::DownlinkReceived(f))) => format!("Ok(DownlinkReceived({}))", f),
                    Some(Ok(ListenResponse::SessionExpired)) => "Ok(SessionExpired)".into(),
                    Some(Err(DevError::Radio(_))) => "Err(Radio)".into(),
                    Some(Err(DevError::Mac(_))) => "Err(Mac)".into(),
                };
                let calls = self.take_calls();
                let dls = self.take_dls();
                Some(format!("calls={} => {} dls={}", calls, res, dls))
            }
            ["ajoin"] => {
                self.set_script(&st)?;
                let r = block_on(self.dev.join(&JoinMode::OTAA { deveui: DevEui::from([0x0b; 8]), appeui: AppEui::from([0x0a; 8]), appkey: AppKey::from(ROOT_KEY) }));
                let res = match r {
                    None => "STUCK".to_string(),
                    Some(Ok(JoinResponse::JoinSuccess)) => "Ok(JoinSuccess)".into(),
                    Some(Ok(JoinResponse::NoJoinAccept)) => "Ok(NoJoinAccept)".into(),
                    Some(Err(DevError::Radio(_))) => "Err(Radio)".into(),
                    Some(Err(DevError::Mac(_))) => "Err(Mac)".into(),
                };
                // the device may be joined even when a later radio call of join() failed
                {
                    if let Some(s) = self.dev.verif_snapshot().session {
                        self.nwk = s.nwkskey;
                        self.app = s.appskey;
                    }
                }
                let calls = self.take_calls();
                let dls = self.take_dls();
                Some(format!("calls={} => {} dls={}", calls, res, dls))
            }
            ["adr", b] => {
                self.dev.set_adr(*b == "1");
                Some("ok".into())
            }
            ["dr", n] => {
                self.dev.set_datarate(lorawan_device::region::DR::from(n.parse::<u8>().ok()?));
                Some("ok".into())
            }
            ["classc", b] => {
                if *b == "1" {
                    self.dev.enable_class_c();
                } else {
                    self.dev.disable_class_c();
                }
                self.hdr.3 = *b == "1";
                Some("ok".into())
            }
            ["hold"] => {
                self.hold = true;
                Some("ok".into())
            }
            ["take"] => Some(format!("dls={}", self.take_dls_now())),
            ["snap"] => Some(show_snap(&self.dev.verif_snapshot())),
            _ => None,
        }
    }
}

pub fn run_history(op: &str) -> Vec<String> {
    let mut segs = op.split(';');
    let hd = segs.next().unwrap_or("");
    let evs: Vec<String> = segs.map(|s| s.trim().to_string()).collect();
    let (runner, _) = match parse_header(hd) {
        Some(r) => r,
        None => return vec!["bad-op".into()],
    };
    let mut out: Vec<String> = vec![];
    let mut runner = std::panic::AssertUnwindSafe(runner);
    for ev in evs {
        crate::mac::reset_hang();
        let r = std::panic::catch_unwind(std::panic::AssertUnwindSafe(|| runner.step(&ev)));
        match r {
            Ok(Some(s)) => out.push(s),
            Ok(None) => {
                out.push("bad-op".into());
                break;
            }
            Err(_) => {
                out.push(if crate::mac::was_hang() { "HANG".into() } else { "PANIC".into() });
                break;
            }
        }
    }
    out
}
