//! Generators and oracles for device-level (async front-end) histories.
#![allow(dead_code)]
use crate::adev::*;
use crate::mac::*;
use crate::macgen::*;
use crate::oracle::*;
use crate::util::*;

pub struct AHist {
    pub line: String,
    pub last_down: Option<u32>,
    pub devaddr: u32,
    pub nwk: [u8; 16],
    pub app: [u8; 16],
}

impl AHist {
    pub fn new(suite: &str, region: &str, seed: u64, lead: u32, buffer: u32, class_c: bool, txms: u32) -> Self {
        AHist { line: format!("{} adev {} {} - {} {} {} {}", suite, region, seed, lead, buffer, class_c as u8, txms), last_down: None, devaddr: DEVADDR, nwk: NWK_KEY, app: APP_KEY }
    }
    pub fn ev(&mut self, e: &str) -> &mut Self {
        self.line.push_str(" ; ");
        self.line.push_str(e);
        self
    }
    pub fn abp(&mut self) -> &mut Self {
        let e = format!("abp {}", self.devaddr);
        self.ev(&e)
    }
    /// script item carrying a frame
    pub fn frame_item(&self, snr: i8, bytes: &[u8], hint: Option<u32>) -> String {
        let view = view_of(bytes, Some(self.devaddr), &self.nwk, &self.app, &ROOT_KEY, hint).replace(' ', "/");
        format!("R{}/{}/{}", snr, hex(bytes), view)
    }
    pub fn auth_item(&mut self, snr: i8, gap: u32, confirmed: bool, fopts: &[u8], fport: Option<u8>, payload: &[u8]) -> String {
        let fcnt = match self.last_down {
            None => gap.saturating_sub(1),
            Some(l) => l.wrapping_add(gap),
        };
        let mut d = DownDesc::new(self.devaddr, fcnt);
        d.nwk = self.nwk;
        d.app = self.app;
        d.confirmed = confirmed;
        d.fopts = fopts.to_vec();
        d.fport = fport;
        // a LoRa PHY payload has at most 255 bytes: MHDR + FHDR(7 + FOpts) + FPort + FRMPayload + MIC
        let room = 255usize.saturating_sub(1 + 7 + fopts.len() + 1 + 4);
        d.payload = payload[..payload.len().min(room)].to_vec();
        let bytes = d.build().expect("downlink build");
        self.last_down = Some(fcnt);
        self.frame_item(snr, &bytes, Some(fcnt))
    }
    pub fn asend(&mut self, port: u8, conf: bool, data: &[u8], script: &[String]) -> &mut Self {
        let e = format!("asend {} {} {} | {}", port, conf as u8, hex(data), script.join(" "));
        self.ev(&e)
    }
    pub fn done(&self) -> String {
        self.line.clone()
    }
}

pub fn eval(op: &str, oracle: fn(&str, &[String]) -> String) -> String {
    let outs = crate::adev::run_history(op);
    format!("{} ## oracle={}", outs.join(" ; "), oracle(op, &outs))
}

fn fcnt_of_up(out: &str) -> Option<u32> {
    let up = out.split(" up=").nth(1)?.split_whitespace().next()?;
    let f: Vec<&str> = up.split(',').collect();
    if f.len() == 9 {
        f[5].parse().ok()
    } else {
        None
    }
}

/// C06 at device level: the counters of the frames handed to the radio strictly increase, whatever
/// radio call fails; a frame handed to the radio must decode under its full counter
pub fn oracle_c06_dev(_op: &str, outs: &[String]) -> String {
    let mut last: Option<u32> = None;
    let mut expired = false;
    for o in outs {
        if o == "PANIC" || o == "HANG" || o.contains("STUCK") {
            return format!("FAIL:{}", o.split_whitespace().next().unwrap_or("?"));
        }
        if o.starts_with("calls=tx(") || o.starts_with("calls=txreq(") {
            if o.contains("up=UNPARSEABLE") || o.contains("up=BADMIC") || o.contains("up=FCNT16MISMATCH") || o.contains("up=UNDECRYPTABLE") {
                return "FAIL:transmitted-frame-does-not-verify-under-the-session-counter".into();
            }
            if let Some(f) = fcnt_of_up(o) {
                if !expired {
                    if let Some(l) = last {
                        if f <= l {
                            return format!("FAIL:uplink-counter-{}-after-{}", f, l);
                        }
                    }
                }
                last = Some(f);
            }
        }
        if o.contains("Ok(SessionExpired)") || o.contains("=> SessionExpired") {
            expired = true;
        }
    }
    "ok".into()
}

/// C04 at device level: every call returns
pub fn oracle_c04_dev(op: &str, outs: &[String]) -> String {
    let n_ev = op.split(';').count() - 1;
    for o in outs {
        if o == "PANIC" || o == "HANG" || o.contains("STUCK") || o == "bad-op" {
            return format!("FAIL:{}", o.split_whitespace().next().unwrap_or("?"));
        }
    }
    if outs.len() != n_ev {
        return "FAIL:history-stopped-early".into();
    }
    "ok".into()
}

/// C10 at device level: window timing and configuration as handed to radio and timer
/// RX1 opens at delay + tx_ms − lead, RX2 one second later (join: 5 s / 6 s); the single-shot
/// windows carry the board's buffer; Class C listening between the windows uses the RX2 parameters
pub fn oracle_c10_dev(op: &str, outs: &[String]) -> String {
    let hd: Vec<&str> = op.split(';').next().unwrap_or("").split_whitespace().collect();
    let (lead, buffer, class_c, txms): (u64, u64, bool, u64) = (hd[5].parse().unwrap_or(0), hd[6].parse().unwrap_or(0), hd[7] == "1", hd[8].parse().unwrap_or(0));
    let evs: Vec<&str> = op.split(';').skip(1).map(|s| s.trim()).collect();
    // RX1 delay in force: known from the last snapshot, unknown after an accepted downlink or a
    // join (either may change it) until the next snapshot
    let mut rx1d: Option<u64> = Some(1000);
    let mut rx1d_next: Option<Option<u64>> = None;
    for (ev, o) in evs.iter().zip(outs.iter()) {
        if o == "PANIC" || o == "HANG" || o.contains("STUCK") {
            return format!("FAIL:{}", o.split_whitespace().next().unwrap_or("?"));
        }
        if let Some(nx) = rx1d_next.take() {
            rx1d = nx;
        }
        if let Some(s) = parse_snap(o) {
            rx1d = Some(s.rx1d as u64);
        } else if o.contains("DownlinkReceived(") || o.contains("JoinSuccess") || ev.contains("|") && ev.split('|').nth(1).map(|sc| sc.split_whitespace().any(|t| t.starts_with('R'))).unwrap_or(false) {
            // a frame was (or may have been) accepted — even when the call then failed on a later
            // radio error; this event's own windows were still scheduled with the old delay
            rx1d_next = Some(None);
        }
        if !o.starts_with("calls=tx(") {
            continue;
        }
        let join = ev.starts_with("ajoin");
        let calls: Vec<&str> = o["calls=".len()..].split(" => ").next().unwrap_or("").split(';').collect();
        let ats: Vec<u64> = calls.iter().filter_map(|c| c.strip_prefix("at(").and_then(|x| x.trim_end_matches(')').parse().ok())).collect();
        let delays = if join { Some((5000, 6000)) } else { rx1d.map(|d| (d, d + 1000)) };
        if let Some((d1, d2)) = delays {
            if let Some(a) = ats.first() {
                if *a != d1 + txms - lead {
                    return format!("FAIL:rx1-timer-{}-expected-{}", a, d1 + txms - lead);
                }
            }
            if let Some(a) = ats.get(1) {
                if *a != d2 + txms - lead {
                    return format!("FAIL:rx2-timer-{}-expected-{}", a, d2 + txms - lead);
                }
            }
        } else if let (Some(a), Some(b)) = (ats.first(), ats.get(1)) {
            // delay unknown: RX2 still opens exactly one second after RX1
            if *b != *a + 1000 {
                return format!("FAIL:rx2-timer-{}-not-one-second-after-rx1-{}", b, a);
            }
        }
        // single-shot windows carry the buffer; continuous ones (Class C) must equal each other = RX2 parameters
        let singles: Vec<&str> = calls.iter().filter(|c| c.starts_with("srx(") && !c.ends_with(",c)")).cloned().collect();
        for s in &singles {
            if !s.ends_with(&format!(",s{})", buffer)) {
                return format!("FAIL:window-buffer-{}", s);
            }
        }
        let conts: Vec<&str> = calls.iter().filter(|c| c.starts_with("srx(") && c.ends_with(",c)")).cloned().collect();
        if !class_c && !conts.is_empty() {
            return "FAIL:continuous-rx-in-class-a".into();
        }
        if class_c {
            if let Some(rx2) = singles.get(1) {
                let rx2_rf = rx2.trim_start_matches("srx(").rsplit_once(',').map(|x| x.0).unwrap_or("");
                // only the listening BEFORE the RX2 window is compared: a frame accepted in a window of
                // this procedure may carry RXParamSetupReq, which applies to the listening after it
                let rx2_pos = calls.iter().position(|c| c == rx2).unwrap_or(calls.len());
                let rx1_accepted = o.contains("DownlinkReceived(");
                let conts: Vec<&str> = if rx1_accepted { vec![] } else { calls[..rx2_pos].iter().filter(|c| c.starts_with("srx(") && c.ends_with(",c)")).cloned().collect() };
                for c in &conts {
                    let rf = c.trim_start_matches("srx(").rsplit_once(',').map(|x| x.0).unwrap_or("");
                    // same frequency and data rate as RX2 when the uplink used the current data rate
                    if rf.split(',').next() != rx2_rf.split(',').next() {
                        return format!("FAIL:class-c-frequency-{}-differs-from-rx2-{}", rf, rx2_rf);
                    }
                }
            }
        }
    }
    "ok".into()
}

/// fault at every radio call index of a two-uplink history, optionally with frames in the windows
pub fn gen_fault_histories(suite: &str, region: &str, rng: &mut Rng, class_c: bool, out: &mut Vec<(String, &'static str)>) {
    let ncalls = if class_c { 14 } else { 9 };
    for variant in 0..4 {
        for k in 0..=ncalls {
            let mut h = AHist::new(suite, region, rng.next() & 0xffff, 15, 40, class_c, 57);
            match (k + variant) % 4 {
                0 => {
                    h.abp();
                }
                1 => {
                    h.ev(&format!("sess {} {} -", DEVADDR, 0xffff_fffeu32));
                }
                3 => {
                    // the fault hits the uplink that uses the last counter of the session
                    h.ev(&format!("sess {} {} -", DEVADDR, 0xffff_ffffu32));
                }
                _ => {
                    h.ev(&format!("sess {} {} 7", DEVADDR, 0xffffu32));
                    h.last_down = Some(7);
                }
            }
            let mut script: Vec<String> = vec![];
            // base script: which calls see frames. Class A order: tx lp srx rxs lp lp srx rxs lp
            let frame_at: Option<usize> = match (variant, class_c) {
                (1, false) => Some(3),
                (2, false) => Some(7),
                (1, true) => Some(5),
                (2, true) => Some(10),
                _ => None,
            };
            for i in 0..ncalls {
                if i == k {
                    script.push("E".into());
                } else if Some(i) == frame_at {
                    script.push(h.auth_item(3, 1, variant == 2, &[0x06], Some(9), &[1, 2]));
                } else if variant == 3 && (i == 3 || i == 5) {
                    let b = rng.bytes(20);
                    script.push(h.frame_item(0, &b, None));
                } else {
                    script.push("O".into());
                }
            }
            h.asend(1, variant == 1, &[0xaa], &script);
            h.ev("snap");
            h.asend(2, false, &[0xbb, 0xcc], &[]);
            h.ev("snap");
            h.asend(3, false, &[0xdd], &[]);
            out.push((h.done(), "fault-at-every-radio-call"));
        }
    }
}

/// an OTAA join at device level: the JoinAccept (or junk, or nothing) is scripted into the windows
pub fn gen_join_history(suite: &str, region: &str, rng: &mut Rng, class_c: bool) -> String {
    let mut h = AHist::new(suite, region, rng.next() & 0xffffff, *rng.pick(&[0u32, 15]), 40, class_c, *rng.pick(&[57u32, 400]));
    let devaddr = 0x0100_0000 + (rng.next() as u32 & 0xffffff);
    let cf = some_cflist(rng, region);
    let acc = build_join_accept(&ROOT_KEY, devaddr, rng.next() as u8, rng.next() as u8 & 0x0f, &cf);
    let bad = build_join_accept(&OTHER_KEY, devaddr, 0, 0, &CfDesc::None);
    let n = 6 + rng.below(8) as usize;
    let mut script = vec![];
    let pos = rng.below(n as u64 + 4) as usize;
    for i in 0..n {
        if i == pos {
            script.push(h.frame_item(4, &acc, None));
        } else {
            match rng.below(14) {
                0 => script.push("E".to_string()),
                1 => script.push(h.frame_item(0, &bad, None)),
                2 => {
                    let nb = rng.below(25) as usize;
                    let b = rng.bytes(nb);
                    script.push(h.frame_item(0, &b, None));
                }
                _ => script.push("O".to_string()),
            }
        }
    }
    let e = format!("ajoin | {}", script.join(" "));
    h.ev(&e).ev("snap");
    // keys are unknown to the generator after a join: only plain uplinks follow
    h.asend(1, false, &[1], &[]).ev("snap");
    h.asend(2, true, &[2, 3], &["O".to_string(), "E".to_string()]).ev("snap");
    h.done()
}

pub fn gen_random_dev_history(suite: &str, region: &str, rng: &mut Rng) -> String {
    let class_c = rng.chance(1, 2);
    let lead = *rng.pick(&[0u32, 15, 100]);
    let mut h = AHist::new(suite, region, rng.next() & 0xffffff, lead, *rng.pick(&[0u32, 40, 300]), class_c, *rng.pick(&[57u32, 1200, 0]));
    h.abp();
    let steps = 2 + rng.below(6);
    let drs = uplink_drs(region);
    // frame sizes around the per-data-rate MACPayload limits (19/59/61/123/133/137/250): which
    // window a frame arrives in decides whether it fits
    let sizes: [usize; 9] = [2, 2, 2, 9, 45, 52, 108, 125, 230];
    for _ in 0..steps {
        if rng.chance(1, 3) {
            let e = format!("dr {}", rng.pick(&drs));
            h.ev(&e);
        }
        let n = rng.below(12) as usize;
        let mut script = vec![];
        for _ in 0..n {
            match rng.below(12) {
                0 => script.push("E".to_string()),
                1 | 2 => {
                    let cmds = if rng.chance(1, 2) { some_cmds(rng, region, 15) } else { vec![] };
                    let len = *rng.pick(&sizes);
                    let payload = rng.bytes(len);
                    script.push(h.auth_item(rng.range(-20, 20) as i8, 1 + rng.below(2) as u32, rng.chance(1, 3), &cmds, Some(1 + rng.below(100) as u8), &payload));
                }
                3 => {
                    let nb = rng.below(30) as usize;
                    let b = rng.bytes(nb);
                    script.push(h.frame_item(0, &b, None));
                }
                4 => {
                    // builder X — an uplink-typed frame of this session (the echo of an uplink): Dir = 0 MIC under
                    // the session key at the next fresh downlink counter; not a frame for an end-device
                    // (builder Y: or a downlink addressed to another DevAddr under the session's own keys)
                    let (b, f) = if rng.chance(1, 2) {
                        uplink_typed_frame(rng, h.devaddr, &h.nwk, &h.app, region, h.last_down)
                    } else {
                        other_devaddr_frame(rng, h.devaddr, &h.nwk, &h.app, region, h.last_down)
                    };
                    script.push(h.frame_item(rng.range(-20, 20) as i8, &b, Some(f)));
                }
                _ => script.push("O".to_string()),
            }
        }
        let port = 1 + rng.below(200) as u8;
        let nb = rng.below(5) as usize;
        let data = rng.bytes(nb);
        h.asend(port, rng.chance(1, 3), &data, &script);
        if rng.chance(1, 2) {
            h.ev("snap");
        }
    }
    h.done()
}


// ------------------------------------------------------------------------------------ nb_device

pub fn eval_nb(op: &str, oracle: fn(&str, &[String]) -> String) -> String {
    let outs = crate::nbdev::run_history(op);
    format!("{} ## oracle={}", outs.join(" ; "), oracle(op, &outs))
}

pub struct NHist {
    pub a: AHist,
    /// the events are executed on the real device while the line is built, to know its state: a radio
    /// cannot report a reception while it is transmitting, so the generator must not script one
    pub live: Option<crate::nbdev::NRunner>,
    pub sending: bool,
    pub dead: bool,
}

impl NHist {
    pub fn new(suite: &str, region: &str, seed: u64, offset: i32, duration: u32) -> Self {
        let mut a = AHist::new(suite, region, seed, 0, 0, false, 0);
        a.line = format!("{} nbdev {} {} - {} {}", suite, region, seed, offset, duration);
        let live = crate::nbdev::parse_header_pub(&a.line);
        NHist { a, live, sending: false, dead: false }
    }
    pub fn ev(&mut self, e: &str) -> &mut Self {
        self.a.ev(e);
        if !self.dead {
            if let Some(r) = self.live.as_mut() {
                match std::panic::catch_unwind(std::panic::AssertUnwindSafe(|| r.step(e))) {
                    Ok(Some(o)) => {
                        if o.contains("UplinkSending(") {
                            self.sending = true;
                        } else if o.contains("TimeoutRequest(") || o.contains("Err(Radio)") && o.contains("txreq(") || o.contains("UnexpectedRadioResponse") {
                            self.sending = false;
                        }
                        // the configuration may have changed: record it for the timing oracle
                        if (o.contains("DownlinkReceived(") || o.contains("JoinSuccess")) && e != "snap" {
                            return self.ev("snap");
                        }
                    }
                    _ => self.dead = true,
                }
            }
        }
        self
    }
    /// may the radio report a reception now?
    pub fn can_rx(&self) -> bool {
        !self.sending && !self.dead
    }
    pub fn rx_auth(&mut self, snr: i8, confirmed: bool, fopts: &[u8], fport: Option<u8>, payload: &[u8]) -> &mut Self {
        if !self.can_rx() {
            return self;
        }
        let item = self.a.auth_item(snr, 1, confirmed, fopts, fport, payload);
        // item = R<snr>/<hex>/<view…> → `nradio rx <snr> <hex> <view…>`
        let parts: Vec<&str> = item[1..].split('/').collect();
        let e = format!("nradio rx {}", parts.join(" "));
        self.ev(&e)
    }
    pub fn rx_bytes(&mut self, snr: i8, bytes: &[u8]) -> &mut Self {
        self.rx_bytes_hint(snr, bytes, None)
    }
    pub fn rx_bytes_hint(&mut self, snr: i8, bytes: &[u8], hint: Option<u32>) -> &mut Self {
        if !self.can_rx() {
            return self;
        }
        let item = self.a.frame_item(snr, bytes, hint);
        let parts: Vec<&str> = item[1..].split('/').collect();
        let e = format!("nradio rx {}", parts.join(" "));
        self.ev(&e)
    }
    pub fn done(&self) -> String {
        self.a.done()
    }
}

/// the full Class A cycle of the non-blocking device with a fault / odd radio answer at call `k`
pub fn gen_nb_fault_histories(suite: &str, region: &str, rng: &mut Rng, out: &mut Vec<(String, &'static str)>) {
    // radio calls of one cycle: txreq, phy(txdone), rxreq(rx1), [phy(rx)], cancel, rxreq(rx2), cancel
    for variant in 0..3 {
        for k in 0..8 {
            for bad in ["E", "I"] {
                if bad == "I" && k == 1 {
                    continue; // an `Idle` answer to the TxDone interrupt is a radio-driver contract violation (the code panics by design)
                }
                let mut h = NHist::new(suite, region, rng.next() & 0xffff, *rng.pick(&[0i32, -20, 35]), *rng.pick(&[100u32, 3000]));
                match (k + variant) % 4 {
                    0 => {
                        h.ev(&format!("abp {}", DEVADDR));
                    }
                    1 => {
                        h.ev(&format!("sess {} {} -", DEVADDR, 0xffff_fffeu32));
                    }
                    3 => {
                        h.ev(&format!("sess {} {} -", DEVADDR, 0xffff_ffffu32));
                    }
                    _ => {
                        h.ev(&format!("sess {} {} 7", DEVADDR, 0xffffu32));
                        h.a.last_down = Some(7);
                    }
                }
                let mut call = 0;
                let mut script_for = |n: usize, call: &mut usize| -> String {
                    let mut items = vec![];
                    for _ in 0..n {
                        items.push(if *call == k { bad.to_string() } else { "O".to_string() });
                        *call += 1;
                    }
                    if items.is_empty() {
                        String::new()
                    } else {
                        format!(" | {}", items.join(" "))
                    }
                };
                let s = script_for(1, &mut call);
                h.ev(&format!("nsend 1 {} aa{}", (variant == 1) as u8, s));
                let s = script_for(1, &mut call);
                h.ev(&format!("nradio txdone 4711{}", s));
                let s = script_for(1, &mut call);
                h.ev(&format!("ntimeout{}", s));
                if variant == 2 && h.can_rx() {
                    let _ = script_for(1, &mut call);
                    let b = rng.bytes(18);
                    h.rx_bytes(0, &b);
                }
                let s = script_for(1, &mut call);
                h.ev(&format!("ntimeout{}", s));
                let s = script_for(1, &mut call);
                h.ev(&format!("ntimeout{}", s));
                if variant == 1 && h.can_rx() {
                    let _ = script_for(1, &mut call);
                    h.rx_auth(2, true, &[0x06], Some(7), &[1]);
                }
                let s = script_for(1, &mut call);
                h.ev(&format!("ntimeout{}", s));
                // whatever happened, drive the machine on and send again twice
                h.ev("ntimeout").ev("ntimeout").ev("ntimeout").ev("snap");
                h.ev("nsend 2 0 bbcc").ev("nradio txdone 9000").ev("ntimeout").ev("ntimeout").ev("ntimeout").ev("ntimeout").ev("snap");
                h.ev("nsend 3 0 dd").ev("snap");
                out.push((h.done(), "nb-fault-at-every-radio-call"));
            }
        }
    }
}

pub fn gen_nb_random_history(suite: &str, region: &str, rng: &mut Rng) -> String {
    let mut h = NHist::new(suite, region, rng.next() & 0xffffff, *rng.pick(&[0i32, -20, 35, 500]), *rng.pick(&[0u32, 100, 3000]));
    if rng.chance(1, 5) {
        h.ev("njoin");
    } else {
        h.ev(&format!("abp {}", DEVADDR));
    }
    let steps = 6 + rng.below(30);
    let mut ts: u32 = 1000;
    for _ in 0..steps {
        let script = match rng.below(12) {
            0 => " | E",
            1 => " | I",
            2 => " | D7000",
            _ => "",
        };
        match rng.below(10) {
            0 | 1 => {
                let nb = rng.below(4) as usize;
                let d = rng.bytes(nb);
                h.ev(&format!("nsend {} {} {}{}", 1 + rng.below(200), rng.below(2), hex(&d), script));
            }
            2 | 3 => {
                ts += rng.below(5000) as u32;
                // an `Idle` answer while transmitting is a radio-driver contract violation (panics by design)
                let script = if script == " | I" && h.sending { "" } else { script };
                h.ev(&format!("nradio txdone {}{}", ts, script));
            }
            4 => {
                let cmds = if rng.chance(1, 2) { some_cmds(rng, region, 15) } else { vec![] };
                // sizes around the per-data-rate MACPayload limits: the window decides whether it fits
                let len = *rng.pick(&[1usize, 1, 1, 9, 45, 52, 108, 125, 230]);
                let payload = rng.bytes(len);
                h.rx_auth(rng.range(-20, 20) as i8, rng.chance(1, 3), &cmds, Some(1 + rng.below(100) as u8), &payload);
            }
            5 => {
                let nb = rng.below(30) as usize;
                let b = rng.bytes(nb);
                h.rx_bytes(0, &b);
            }
            7 if rng.chance(1, 2) => {
                // builder X — an uplink-typed frame of this session (the echo of an uplink)
                // (builder Y: or a downlink addressed to another DevAddr under the session's own keys)
                let (b, f) = if rng.chance(1, 2) {
                    uplink_typed_frame(rng, h.a.devaddr, &h.a.nwk, &h.a.app, region, h.a.last_down)
                } else {
                    other_devaddr_frame(rng, h.a.devaddr, &h.a.nwk, &h.a.app, region, h.a.last_down)
                };
                h.rx_bytes_hint(rng.range(-20, 20) as i8, &b, Some(f));
            }
            6 => {
                if rng.chance(1, 2) {
                    h.ev("njoin");
                } else {
                    let e = format!("dr {}", rng.pick(&uplink_drs(region)));
                    h.ev(&e);
                }
            }
            _ => {
                h.ev(&format!("ntimeout{}", script));
            }
        }
        if rng.chance(1, 6) {
            h.ev("snap");
        }
    }
    h.ev("snap");
    h.done()
}

/// C10 for the non-blocking device: t1 = delay + ts + offset, t2 = t1 + 1000 (join: +1000),
/// window close = start + min(duration, gap)
pub fn oracle_c10_nb(op: &str, outs: &[String]) -> String {
    let hd: Vec<&str> = op.split(';').next().unwrap_or("").split_whitespace().collect();
    let (offset, duration): (i64, i64) = (hd[5].parse().unwrap_or(0), hd[6].parse().unwrap_or(0));
    let evs: Vec<&str> = op.split(';').skip(1).map(|s| s.trim()).collect();
    // RX1 delay in force, known from the last snapshot; unknown (None) between an accepted
    // downlink / join (which may change it) and the next snapshot
    let mut rx1d: Option<i64> = Some(1000);
    let mut join = false;
    let mut expect_open: Option<i64> = None;
    let mut in_rx2 = false;
    for (ev, o) in evs.iter().zip(outs.iter()) {
        if o == "PANIC" || o == "HANG" {
            return format!("FAIL:{}", o);
        }
        if let Some(s) = parse_snap(o) {
            rx1d = Some(s.rx1d as i64);
        } else if o.contains("DownlinkReceived(") || o.contains("JoinSuccess") || ev.starts_with("nradio rx") {
            rx1d = None;
        }
        if ev.starts_with("njoin") && o.contains("txreq(") {
            join = true;
        }
        if ev.starts_with("nsend") && o.contains("txreq(") {
            join = false;
        }
        let tr: Option<i64> = o.split("TimeoutRequest(").nth(1).and_then(|x| x.split(')').next()).and_then(|x| x.parse().ok());
        let ts_now: Option<i64> = if ev.starts_with("nradio txdone") {
            ev.split_whitespace().nth(2).and_then(|x| x.parse().ok())
        } else if ev.starts_with("nsend") || ev.starts_with("njoin") {
            ev.split("| D").nth(1).and_then(|x| x.split_whitespace().next()).and_then(|x| x.parse().ok())
        } else {
            None
        };
        if let (Some(ts), Some(t)) = (ts_now, tr) {
            if o.contains("phy") || o.contains("txreq(") {
                let d1 = if join { Some(5000) } else { rx1d };
                if let Some(d1) = d1 {
                    if t != d1 + ts + offset {
                        return format!("FAIL:rx1-opens-at-{}-expected-{}", t, d1 + ts + offset);
                    }
                }
                expect_open = Some(t);
                in_rx2 = false;
            }
        } else if let Some(t) = tr {
            if o.contains("rxreq(") {
                // window close: RX1 is over no later than RX2 opens (one second after RX1 opened);
                // RX2 may last the board's window duration
                if let Some(open) = expect_open {
                    let latest = if in_rx2 { open + duration.max(1000) } else { open + duration.min(1000) };
                    if t < open || t > latest {
                        return format!("FAIL:window-close-{}-for-open-{}-latest-{}", t, open, latest);
                    }
                }
            } else if o.contains("cancel") {
                if let Some(open) = expect_open {
                    if t != open + 1000 {
                        return format!("FAIL:rx2-opens-at-{}-expected-{}", t, open + 1000);
                    }
                    expect_open = Some(t);
                    in_rx2 = true;
                }
            }
        }
    }
    "ok".into()
}


/// device-level ops inside a MAC-level suite: run on the real front-end (async or non-blocking
/// Device with the scripted radio) and judged by the generic "every call returns" oracle; the
/// step-by-step comparison with the Lean device model is what ties them to the property's model
pub fn eval_dev_any(op: &str) -> Option<String> {
    match op.split_whitespace().nth(1) {
        Some("adev") => Some(eval(op, oracle_dev_all)),
        Some("nbdev") => Some(eval_nb(op, oracle_nb_all)),
        _ => None,
    }
}

/// the device-level classes every MAC property's suite carries: random Class A/C histories on the
/// async front-end, random histories on the non-blocking front-end, OTAA joins
pub fn add_dev_classes(suite: &str, rng: &mut Rng, sink: &mut Sink, thorough: bool, eval: fn(&str) -> String) {
    for region in REGIONS {
        for _ in 0..(if thorough { 300 } else { 20 }) {
            let op = gen_random_dev_history(suite, region, rng);
            sink.case(&op, &eval(&op), "device-random", true);
        }
        for _ in 0..(if thorough { 300 } else { 20 }) {
            let op = gen_nb_random_history(suite, region, rng);
            sink.case(&op, &eval(&op), "nb-random", true);
        }
        for i in 0..(if thorough { 100 } else { 8 }) {
            let op = gen_join_history(suite, region, rng, i % 2 == 0);
            sink.case(&op, &eval(&op), "device-join", true);
        }
        for i in 0..(if thorough { 40 } else { 4 }) {
            let op = if i % 2 == 0 { gen_nb_held_queue(suite, region, rng) } else { gen_dev_held_queue(suite, region, rng, i % 4 == 1) };
            sink.case(&op, &eval(&op), "held-downlink-queue", true);
        }
        for i in 0..(if thorough { 60 } else { 6 }) {
            let op = gen_join_rxc_noise(suite, region, rng, i);
            sink.case(&op, &eval(&op), "join-rxc-noise", true);
        }
        for i in 0..(if thorough { 12 } else { 2 }) {
            let op = gen_dev_adr_silent(suite, region, rng, i % 2 == 0);
            sink.case(&op, &eval(&op), "device-adr-silent-run", true);
        }
        for _ in 0..(if thorough { 60 } else { 6 }) {
            let op = gen_dev_listen(suite, region, rng);
            sink.case(&op, &eval(&op), "device-rxc-listen", true);
        }
    }
}


/// C05 (and the observable half of C07) at device level, async front-end: every frame the radio
/// reported is placed in the window it was heard in (the most recent `srx` of the call trace; script
/// items are consumed one per radio call tx/srx/rxc/rxs/lp) and judged by the reference rule —
/// acted upon iff its MIC verifies under a counter N that is fresh (last < N <= last + 16384; first
/// frame: N < 2^16) and it fits that window's size limit.  Exactly the accepted frames with a
/// port > 0 are delivered, in order; a frame accepted in a Class A window is the response.
pub fn oracle_c05_dev(op: &str, outs: &[String]) -> String {
    let region = op.split(';').next().unwrap_or("").split_whitespace().nth(2).unwrap_or("");
    let evs: Vec<&str> = op.split(';').skip(1).map(|s| s.trim()).collect();
    let mut last: Option<u32> = None;
    let mut joined = false;
    // `hold`: downlinks stay in the device's queue (capacity 8; a downlink accepted on a full queue
    // is dropped, as coded) until `take`
    let mut hold = false;
    let mut queue: Vec<String> = vec![];
    // size limit of the window being listened in: the most recent `srx(..)`; `rxc_listen` goes on
    // listening on what the last `window_complete` configured
    let mut mp: Option<u32> = None;
    let mut lost = false;
    for (ev, o) in evs.iter().zip(outs.iter()) {
        if o == "PANIC" || o == "HANG" || o.contains("STUCK") {
            return format!("FAIL:{}", o.split_whitespace().next().unwrap_or("?"));
        }
        let (cmd, script) = match ev.split_once('|') {
            Some((a, b)) => (a.trim(), b.trim()),
            None => (*ev, ""),
        };
        let w: Vec<&str> = cmd.split_whitespace().collect();
        match w.first().copied() {
            Some("hold") => {
                hold = true;
                continue;
            }
            Some("take") => {
                let got = o.trim_start_matches("dls=").trim();
                let want = if queue.is_empty() { "-".to_string() } else { queue.join(",") };
                if got != want {
                    return format!("FAIL:collected-[{}]-expected-[{}]", got, want);
                }
                queue.clear();
                continue;
            }
            Some("abp") => {
                joined = true;
                last = None;
                lost = false;
                continue;
            }
            Some("sess") => {
                lost = false;
                joined = true;
                last = w.get(3).and_then(|x| x.parse().ok());
                continue;
            }
            Some("asend") | Some("ajoin") | Some("alisten") => {}
            Some("dr") => {
                // the RXC limit in force is no longer the last configured one
                mp = None;
                continue;
            }
            _ => continue,
        }
        let is_join = w[0] == "ajoin";
        if is_join {
            joined = false;
            lost = false;
        }
        if lost {
            // keep the size limit up to date, judge nothing
            if let Some(body) = o.strip_prefix("calls=") {
                for c in body.split(" => ").next().unwrap_or("").split(';') {
                    if c.starts_with("srx(") {
                        let f: Vec<&str> = c.trim_start_matches("srx(").trim_end_matches(')').split(',').collect();
                        mp = ref_mp(region, &f);
                    }
                }
            }
            continue;
        }
        if !o.starts_with("calls=") {
            continue;
        }
        let body = &o["calls=".len()..];
        let (calls_s, rest) = match body.split_once(" => ") {
            Some(x) => x,
            None => continue,
        };
        let items: Vec<&str> = script.split_whitespace().collect();
        let mut it = items.iter();
        let is_listen = w[0] == "alisten";
        let mut stop = false; // `rxc_listen` returns at the first frame it acts upon
        let mut undecided = false;
        let mut expect_dls: Vec<String> = vec![];
        let mut class_a_accept: Option<u32> = None;
        let mut listen_heard = 0usize; // frames `rx_continuous` reported to this `rxc_listen`
        let mut listen_err = false; // … and whether it reported an error before any acceptance
        for c in calls_s.split(';') {
            let radio_call = c.starts_with("tx(") || c.starts_with("srx(") || c == "rxc" || c == "rxs" || c == "lp";
            if !radio_call {
                continue;
            }
            let item = it.next().copied().unwrap_or("O");
            if stop {
                continue;
            }
            if is_listen && c == "rxc" && item.starts_with('R') {
                listen_heard += 1;
            }
            if is_listen && c == "rxc" && item == "E" {
                // a radio error ends `rxc_listen` with Err(Radio); nothing after it is heard
                listen_err = true;
                stop = true;
                continue;
            }
            if c.starts_with("srx(") {
                let f: Vec<&str> = c.trim_start_matches("srx(").trim_end_matches(')').split(',').collect();
                mp = ref_mp(region, &f);
                continue;
            }
            if !(c == "rxc" || c == "rxs") || !item.starts_with('R') {
                continue;
            }
            // R<snr>/<hex>/<view fields…>
            let f: Vec<&str> = item[1..].split('/').collect();
            if f.len() < 3 {
                continue;
            }
            if f[2] == "j" {
                if is_join && c == "rxs" && f.get(3) == Some(&"1") {
                    joined = true;
                    last = None;
                }
                continue;
            }
            if f[2] != "d" || f.len() < 10 || !joined || is_join {
                continue;
            }
            let len: u32 = f[3].parse().unwrap_or(0);
            let f16: u32 = f[5].parse().unwrap_or(0);
            let mic: Option<u32> = f[6].parse().ok();
            let fresh = match (mic, last) {
                (Some(n), None) => n == f16,
                (Some(n), Some(l)) => n % 65536 == f16 && (l as u64) < n as u64 && n as u64 <= l as u64 + 16384,
                (None, _) => false,
            };
            let fits = match mp {
                Some(m) => len <= m + 5,
                None => {
                    // the size limit in force is not known from the trace (a `rxc_listen` before any
                    // window was configured, or after `set_datarate`): this event is not judged
                    undecided = true;
                    continue;
                }
            };
            if fresh && fits {
                let n = mic.unwrap();
                last = Some(n);
                if is_listen {
                    stop = true;
                    if !(rest.contains(&format!("DownlinkReceived({})", n)) || rest.contains("SessionExpired")) {
                        return format!("FAIL:listen-accepted-frame-{}-not-reported: {}", n, rest.split_whitespace().next().unwrap_or(""));
                    }
                }
                if let Ok(p) = f[8].parse::<u8>() {
                    if p > 0 {
                        expect_dls.push(format!("{}:{}", p, if f[9] == "-" { "" } else { f[9] }));
                    }
                }
                if c == "rxs" {
                    class_a_accept = Some(n);
                }
            }
        }
        if is_join {
            continue;
        }
        if undecided {
            // what was heard may or may not have been accepted: the tracker is lost until the next session
            lost = true;
            continue;
        }
        if is_listen {
            // the converse for `rxc_listen` (C05.async_listen_accept_iff): it answers Ok(..) ONLY when a frame
            // heard is authentic, fresh and fits; Err(Mac) iff there is no session and a frame was heard
            let res = rest.split_whitespace().next().unwrap_or("");
            if (res == "Err(Radio)") != listen_err && (joined || listen_heard == 0) {
                return format!("FAIL:listen-answered-{}-radio-error-{}", res, listen_err);
            }
            if res.starts_with("Ok(") && (!stop || listen_err) {
                return format!("FAIL:listen-reported-{}-but-no-frame-was-acceptable", res);
            }
            if res == "Err(Mac)" && (joined || listen_heard == 0) {
                return "FAIL:listen-Err(Mac)-although-joined-or-nothing-heard".into();
            }
            if !joined && listen_heard > 0 && res != "Err(Mac)" {
                return format!("FAIL:listen-without-session-heard-a-frame-and-answered-{}", res);
            }
        }
        // `rxc_listen` at the exhausted uplink counter: the acceptance is answered SessionExpired and
        // nothing is delivered (second disjunct of C05.accept_iff)
        if is_listen && rest.contains("SessionExpired") {
            expect_dls.clear();
        }
        let dls = rest.split(" dls=").nth(1).unwrap_or("-").trim();
        let got: Vec<String> = if dls == "-" { vec![] } else { dls.split(',').map(|x| x.to_string()).collect() };
        // at the exhausted uplink counter every acceptance is answered SessionExpired and nothing is
        // delivered (as coded; the second disjunct of C05.accept_iff)
        if fcnt_of_up(rest) == Some(0xffff_ffff) {
            expect_dls.clear();
        }
        if hold {
            for d in &expect_dls {
                if queue.len() < 8 {
                    queue.push(d.clone());
                }
            }
            if !got.is_empty() {
                return "FAIL:downlink-handed-out-while-the-application-is-not-collecting".into();
            }
        } else if got != expect_dls {
            return format!("FAIL:delivered-[{}]-expected-[{}]", got.join(","), expect_dls.join(","));
        }
        if let Some(n) = class_a_accept {
            // the last Class A acceptance ends the procedure and is what send() reports
            // (SessionExpired replaces it at the end of the counter space)
            if !(rest.contains(&format!("DownlinkReceived({})", n)) || rest.contains("SessionExpired") || rest.contains("Err(")) {
                return format!("FAIL:accepted-frame-{}-not-reported: {}", n, rest.split_whitespace().next().unwrap_or(""));
            }
        } else if rest.contains("DownlinkReceived(") && expect_dls.is_empty() {
            // a Class C acceptance may also be reported; without any acceptable frame nothing may be
            let any_c = false;
            if !any_c && !calls_s.contains("rxc") {
                return "FAIL:downlink-reported-but-no-frame-was-acceptable".into();
            }
        }
    }
    "ok".into()
}

/// C07 twin oracle for `rxc_listen` (C07.async_listen_rejected_invisible): every frame an `alisten` of a
/// device with a session heard whose view is not a data frame, or whose MIC verifies under NO counter
/// (forged, foreign, corrupted — rejected whatever the counters are), is deleted from the script and the
/// history is run again on the real front-end: the listen's answer and deliveries, and every other output,
/// must be identical.
pub fn oracle_c07_listen_twin(op: &str, outs: &[String]) -> String {
    let (hd, evs) = crate::macsuites::split_events(op);
    if evs.iter().any(|e| e.starts_with("ajoin")) || !evs.iter().any(|e| e.starts_with("alisten")) {
        return "ok".into();
    }
    let mut twin_evs = evs.clone();
    let mut touched: Vec<usize> = vec![];
    let mut joined = false;
    for (i, ev) in evs.iter().enumerate() {
        if ev.starts_with("abp") || ev.starts_with("sess") {
            joined = true;
        }
        if !ev.starts_with("alisten") || !joined {
            continue;
        }
        let out = match outs.get(i) {
            Some(o) => o,
            None => break,
        };
        let n_rxc = out.strip_prefix("calls=").and_then(|s| s.split(" => ").next()).unwrap_or("").split(';').filter(|c| *c == "rxc").count();
        let script: Vec<&str> = ev.split_once('|').map(|(_, b)| b.split_whitespace().collect()).unwrap_or_default();
        let mut drop: Vec<usize> = vec![];
        for (k, t) in script.iter().enumerate().take(n_rxc) {
            if !t.starts_with('R') {
                break;
            }
            let f: Vec<&str> = t[1..].split('/').collect();
            let rejected = f.len() < 3 || f[2] != "d" || f.get(6).map(|m| m.parse::<u32>().is_err()).unwrap_or(true);
            if rejected {
                drop.push(k);
            }
        }
        if drop.is_empty() {
            continue;
        }
        let kept: Vec<&str> = script.iter().enumerate().filter(|(k, _)| !drop.contains(k)).map(|(_, t)| *t).collect();
        twin_evs[i] = format!("alisten | {}", kept.join(" "));
        touched.push(i);
    }
    if touched.is_empty() {
        return "ok".into();
    }
    let twin_op = format!("{} ; {}", hd, twin_evs.join(" ; "));
    let twin = crate::adev::run_history(&twin_op);
    for i in 0..outs.len().max(twin.len()) {
        let (a, b) = (outs.get(i).map(|s| s.as_str()).unwrap_or("-"), twin.get(i).map(|s| s.as_str()).unwrap_or("-"));
        if touched.contains(&i) {
            let res = |o: &str| o.split(" => ").nth(1).unwrap_or("?").to_string();
            if res(a) != res(b) {
                return format!("FAIL:listen-twin-differs-at-{}:{}/{}", i, res(a).replace(' ', "_"), res(b).replace(' ', "_"));
            }
        } else if a != b {
            return format!("FAIL:twin-differs-after-listen-at-{}", i);
        }
    }
    "ok".into()
}

/// C07 at the Class A windows of the async front-end: a frame heard by `rx_single` in RX1 / RX2 of a
/// data uplink that the reference codec rejects (not a data frame, or its MIC does not verify at the
/// hinted counter) and that fits the window's reference size limit ends that window exactly as a
/// timeout does: the twin history with `O` in its place must make the same radio calls (later
/// windows, the hand-back of the radio after the window included), give the same answers and the
/// same later uplinks.
pub fn oracle_c07_send_twin(op: &str, outs: &[String]) -> String {
    let (hd, evs) = crate::macsuites::split_events(op);
    let region = hd.split_whitespace().nth(2).unwrap_or("").to_string();
    let mut twin_evs = evs.clone();
    let mut touched = false;
    let mut joined = false;
    for (i, ev) in evs.iter().enumerate() {
        if ev.starts_with("abp") || ev.starts_with("sess") {
            joined = true;
        }
        if ev.starts_with("ajoin") {
            // whether the join succeeded is not tracked here: stop judging
            break;
        }
        if !ev.starts_with("asend") || !joined {
            continue;
        }
        let out = match outs.get(i) {
            Some(o) => o,
            None => break,
        };
        let calls: Vec<&str> = out.strip_prefix("calls=").and_then(|s| s.split(" => ").next()).unwrap_or("").split(';').collect();
        let (cmd, script_s) = ev.split_once('|').unwrap_or((ev, ""));
        let mut script: Vec<String> = script_s.split_whitespace().map(|t| t.to_string()).collect();
        let mut idx = 0usize;
        let mut mp: Option<u32> = None;
        let mut changed = false;
        for c in calls {
            let consumes = c.starts_with("tx(") || c.starts_with("srx(") || c == "rxc" || c == "rxs" || c == "lp";
            if !consumes {
                continue;
            }
            if c.starts_with("srx(") {
                let f: Vec<&str> = c.trim_start_matches("srx(").trim_end_matches(')').split(',').collect();
                mp = ref_mp(&region, &f);
            }
            if c == "rxs" {
                if let Some(t) = script.get(idx) {
                    if let Some(rest) = t.strip_prefix('R') {
                        let f: Vec<&str> = rest.split('/').collect();
                        let len = f.get(1).map(|h| h.len() / 2).unwrap_or(0) as u32;
                        let rejected = f.len() < 3 || f[2] != "d" || f.get(6).map(|m| m.parse::<u32>().is_err()).unwrap_or(true);
                        let fits = mp.map(|m| len <= m + 5).unwrap_or(false);
                        if rejected && fits {
                            script[idx] = "O".into();
                            changed = true;
                        }
                    }
                }
            }
            idx += 1;
        }
        if changed {
            twin_evs[i] = format!("{}| {}", cmd, script.join(" "));
            touched = true;
        }
    }
    if !touched {
        return "ok".into();
    }
    let twin_op = format!("{} ; {}", hd, twin_evs.join(" ; "));
    let twin = crate::adev::run_history(&twin_op);
    for i in 0..outs.len().max(twin.len()) {
        let (a, b) = (outs.get(i).map(|s| s.as_str()).unwrap_or("-"), twin.get(i).map(|s| s.as_str()).unwrap_or("-"));
        if a != b {
            return format!("FAIL:send-twin-differs-at-{}", i);
        }
    }
    "ok".into()
}

/// every device-level oracle that applies to the async front-end, in one
pub fn oracle_dev_all(op: &str, outs: &[String]) -> String {
    for f in [oracle_c04_dev as fn(&str, &[String]) -> String, oracle_c06_dev, oracle_c10_dev, oracle_c05_dev, oracle_c07_join_twin, oracle_c07_listen_twin, oracle_c07_send_twin, oracle_c12_dev_silent, oracle_c20_dev_restore] {
        let r = f(op, outs);
        if r != "ok" {
            return r;
        }
    }
    "ok".into()
}

/// C05 / C07 on the non-blocking front-end: a frame the radio reports while the device waits in a
/// receive window (the frame reached the MAC: the answer is not a state error) is acted upon iff it
/// is authentic, fresh and fits the size limit of the window that was opened (`rxreq(..)`); only
/// then is anything delivered
pub fn oracle_c05_nb(op: &str, outs: &[String]) -> String {
    let region = op.split(';').next().unwrap_or("").split_whitespace().nth(2).unwrap_or("");
    let evs: Vec<&str> = op.split(';').skip(1).map(|s| s.trim()).collect();
    let mut last: Option<u32> = None;
    let mut joined = false;
    let mut joining = false;
    let mut mp: Option<u32> = None;
    let mut hold = false;
    let mut queue: Vec<String> = vec![];
    for (ev, o) in evs.iter().zip(outs.iter()) {
        if o == "PANIC" || o == "HANG" {
            return format!("FAIL:{}", o);
        }
        let w: Vec<&str> = ev.split('|').next().unwrap_or("").split_whitespace().collect();
        if w.first() == Some(&"hold") {
            hold = true;
            continue;
        }
        if w.first() == Some(&"take") {
            let got = o.trim_start_matches("dls=").trim();
            let want = if queue.is_empty() { "-".to_string() } else { queue.join(",") };
            if got != want {
                return format!("FAIL:collected-[{}]-expected-[{}]", got, want);
            }
            queue.clear();
            continue;
        }
        if let Some(i) = o.find("rxreq(") {
            let f: Vec<&str> = o[i + 6..].split(')').next().unwrap_or("").split(',').collect();
            mp = ref_mp(region, &f);
        }
        match w.first().copied() {
            Some("abp") => {
                joined = true;
                joining = false;
                last = None;
            }
            Some("sess") => {
                joined = true;
                joining = false;
                last = w.get(3).and_then(|x| x.parse().ok());
            }
            Some("njoin") => {
                if o.contains("txreq(") || o.contains("Err(Radio)") {
                    joined = false;
                    joining = true;
                }
            }
            Some("nradio") if w.get(1) == Some(&"rx") => {
                let res = o.split(" => ").nth(1).unwrap_or("");
                if res.starts_with("Err(") {
                    continue; // never reached the MAC (wrong state) or a radio error
                }
                if w.get(4) == Some(&"j") {
                    if joining && w.get(5) == Some(&"1") {
                        if !res.starts_with("JoinSuccess") {
                            return "FAIL:authentic-join-accept-not-accepted".into();
                        }
                        joined = true;
                        joining = false;
                        last = None;
                    } else if res.starts_with("JoinSuccess") {
                        return "FAIL:join-success-without-authentic-join-accept".into();
                    }
                    continue;
                }
                let dls = o.split(" dls=").nth(1).unwrap_or("-").trim();
                if w.get(4) != Some(&"d") || w.len() < 12 || !joined {
                    if res.starts_with("DownlinkReceived(") || dls != "-" {
                        return "FAIL:unacceptable-frame-acted-upon".into();
                    }
                    continue;
                }
                let len: u32 = w[5].parse().unwrap_or(0);
                let f16: u32 = w[7].parse().unwrap_or(0);
                let mic: Option<u32> = w[8].parse().ok();
                let fresh = match (mic, last) {
                    (Some(n), None) => n == f16,
                    (Some(n), Some(l)) => n % 65536 == f16 && (l as u64) < n as u64 && n as u64 <= l as u64 + 16384,
                    (None, _) => false,
                };
                let fits = match mp {
                    Some(m) => len <= m + 5,
                    None => continue,
                };
                let acted = res.starts_with("DownlinkReceived(") || res.starts_with("SessionExpired");
                if acted != (fresh && fits) {
                    return format!("FAIL:frame-fcnt16={}-mic={:?}-last={:?}-fits={}-was-{}acted-upon", f16, mic, last, fits, if acted { "" } else { "not-" });
                }
                if acted {
                    last = mic;
                    let want = match w[10].parse::<u8>() {
                        // at the exhausted uplink counter the acceptance is reported as SessionExpired
                        // and nothing is delivered (as coded; the second disjunct of C05.accept_iff)
                        Ok(p) if p > 0 && !res.starts_with("SessionExpired") => format!("{}:{}", p, if w[11] == "-" { "" } else { w[11] }),
                        _ => "-".to_string(),
                    };
                    if hold {
                        if want != "-" && queue.len() < 8 {
                            queue.push(want.clone());
                        }
                        if dls != "-" {
                            return "FAIL:downlink-handed-out-while-the-application-is-not-collecting".into();
                        }
                    } else if dls != want {
                        return format!("FAIL:delivered-[{}]-expected-[{}]", dls, want);
                    }
                } else if dls != "-" {
                    return "FAIL:rejected-frame-delivered".into();
                }
            }
            _ => {}
        }
    }
    "ok".into()
}

/// … and to the non-blocking front-end
pub fn oracle_nb_all(op: &str, outs: &[String]) -> String {
    for f in [oracle_c04_dev as fn(&str, &[String]) -> String, oracle_c06_dev, oracle_c10_nb, oracle_c05_nb, oracle_c12_dev_silent, oracle_c20_dev_restore] {
        let r = f(op, outs);
        if r != "ok" {
            return r;
        }
    }
    "ok".into()
}


/// The application does not collect downlinks (`hold`): the device's queue (capacity 8 in the
/// harness' device types) fills up; then frames that are NOT accepted are heard, then the queue is
/// collected (`take`).  A rejected frame must not cost a queued downlink; a downlink accepted on a
/// full queue is dropped (as coded: `let _ = dl.push(..)`).
pub fn gen_nb_held_queue(suite: &str, region: &str, rng: &mut Rng) -> String {
    let mut h = NHist::new(suite, region, rng.next() & 0xffffff, 0, 100);
    h.ev(&format!("abp {}", DEVADDR));
    h.ev("hold");
    let mut ts: u32 = 1000;
    let fill = 6 + rng.below(5);
    for k in 0..fill + 2 {
        h.ev(&format!("nsend {} 0 {:02x}", 1 + rng.below(200), k));
        ts += 3000;
        h.ev(&format!("nradio txdone {}", ts));
        h.ev("ntimeout"); // RX1 opens
        if k < fill || rng.chance(1, 2) {
            let payload = [k as u8, 0xd0];
            h.rx_auth(0, rng.chance(1, 4), &[], Some(1 + k as u8), &payload);
        } else {
            // a frame that is not accepted: junk, or a replay of an old counter
            if rng.chance(1, 2) {
                let nb = 5 + rng.below(20) as usize;
                let b = rng.bytes(nb);
                h.rx_bytes(0, &b);
            } else {
                let mut d = DownDesc::new(h.a.devaddr, 0);
                d.nwk = h.a.nwk;
                d.app = h.a.app;
                d.fport = Some(9);
                d.payload = vec![1, 2, 3];
                d.confirmed = rng.chance(1, 2);
                let b = d.build().unwrap();
                h.rx_bytes_hint(0, &b, Some(0));
            }
            h.ev("ntimeout"); // RX1 closes
            h.ev("ntimeout"); // RX2 opens
            h.ev("ntimeout"); // RX2 closes: procedure complete
        }
    }
    h.ev("take");
    h.ev("snap");
    h.done()
}

/// the same on the async front-end
pub fn gen_dev_held_queue(suite: &str, region: &str, rng: &mut Rng, class_c: bool) -> String {
    let mut h = AHist::new(suite, region, rng.next() & 0xffffff, 15, 40, class_c, 57);
    h.abp();
    h.ev("hold");
    let fill = 6 + rng.below(5);
    // radio calls of a Class A uplink: tx lp srx rxs …; Class C: tx srx rxc srx rxs …
    let lead: Vec<String> = if class_c { vec!["O".into(), "O".into(), "O".into(), "O".into()] } else { vec!["O".into(), "O".into(), "O".into()] };
    for k in 0..fill + 2 {
        let mut script = lead.clone();
        if k < fill || rng.chance(1, 2) {
            script.push(h.auth_item(0, 1, rng.chance(1, 4), &[], Some(1 + k as u8), &[k as u8, 0xd0]));
        } else if rng.chance(1, 2) {
            let nb = 5 + rng.below(20) as usize;
            let b = rng.bytes(nb);
            script.push(h.frame_item(0, &b, None));
        } else {
            let mut d = DownDesc::new(h.devaddr, 0);
            d.nwk = h.nwk;
            d.app = h.app;
            d.fport = Some(9);
            d.payload = vec![1, 2, 3];
            d.confirmed = rng.chance(1, 2);
            let b = d.build().unwrap();
            script.push(h.frame_item(0, &b, Some(0)));
        }
        h.asend(1 + rng.below(200) as u8, false, &[k as u8], &script);
        // with downlinks waiting in the queue, a radio fault somewhere in the receive phase of an
        // uplink, then the next uplink: the counters must still move on
        if k == 1 || (k > 1 && rng.chance(1, 4)) {
            let pos = 1 + rng.below(if class_c { 12 } else { 8 }) as usize;
            let mut faulty: Vec<String> = vec!["O".to_string(); pos];
            faulty.push("E".into());
            h.asend(3, rng.chance(1, 3), &[0xfa], &faulty);
            h.asend(4, false, &[0xfb], &[]);
        }
    }
    h.ev("take");
    h.ev("snap");
    h.done()
}


// ------------------------------------------------------------ joining Class C device, frames between the windows

/// an OTAA join of a CLASS C device that hears frames on the RXC parameters between TX and RX1 and/or
/// between RX1 and RX2 (junk, a JoinAccept under another key, even the authentic JoinAccept on the
/// wrong parameters); the authentic JoinAccept arrives in RX1, in RX2, or not at all.  Script items are
/// consumed one per radio call: tx, srx(c), rxc…, srx(s), rxs, srx(c) [, srx(c), rxc…, srx(s), rxs, srx(c)].
pub fn gen_join_rxc_noise(suite: &str, region: &str, rng: &mut Rng, variant: usize) -> String {
    let mut h = AHist::new(suite, region, rng.next() & 0xffffff, *rng.pick(&[0u32, 15]), 40, true, *rng.pick(&[57u32, 400]));
    let devaddr = 0x0100_0000 + (rng.next() as u32 & 0xffffff);
    let cf = some_cflist(rng, region);
    let acc = build_join_accept(&ROOT_KEY, devaddr, rng.next() as u8, rng.next() as u8 & 0x0f, &cf);
    let bad = build_join_accept(&OTHER_KEY, devaddr, 0, 0, &CfDesc::None);
    let noise = |h: &AHist, rng: &mut Rng, n: usize| -> Vec<String> {
        let mut v = vec![];
        for _ in 0..n {
            let it = match rng.below(4) {
                0 => h.frame_item(0, &bad, None),
                1 => h.frame_item(2, &acc, None),
                _ => {
                    let nb = 1 + rng.below(24) as usize;
                    let b = rng.bytes(nb);
                    h.frame_item(-3, &b, None)
                }
            };
            v.push(it);
        }
        v
    };
    // where the noise is, where the JoinAccept is
    let (n1, n2) = match variant % 3 {
        0 => (1 + rng.below(2) as usize, 0),
        1 => (0, 1 + rng.below(2) as usize),
        _ => (1, 1),
    };
    let accept_in = (variant / 3) % 3; // 0: RX1, 1: RX2, 2: nowhere
    let mut script: Vec<String> = vec!["O".into(), "O".into()]; // tx, srx(c)
    script.extend(noise(&h, rng, n1));
    script.push("O".into()); // rxc: the timer wins
    script.push("O".into()); // srx(s) RX1
    script.push(if accept_in == 0 { h.frame_item(4, &acc, None) } else { "O".into() }); // rxs RX1
    script.push("O".into()); // window_complete: srx(c)
    script.push("O".into()); // between: srx(c)
    script.extend(noise(&h, rng, n2));
    script.push("O".into()); // rxc
    script.push("O".into()); // srx(s) RX2
    script.push(if accept_in == 1 { h.frame_item(4, &acc, None) } else { "O".into() }); // rxs RX2
    script.push("O".into());
    let e = format!("ajoin | {}", script.join(" "));
    h.ev(&e).ev("snap");
    h.asend(1, false, &[1], &[]).ev("snap");
    h.done()
}

/// C07 twin oracle for join procedures of the async front-end: every frame an `ajoin` heard in an
/// `rx_continuous` call (between the windows; a device without a session accepts none of them) is
/// deleted from the script and the history is run again on the real front-end: the join's answer, the
/// windows it opened, and every other output must be identical.
pub fn oracle_c07_join_twin(op: &str, outs: &[String]) -> String {
    let (hd, evs) = crate::macsuites::split_events(op);
    if hd.split_whitespace().nth(7) != Some("1") {
        return "ok".into();
    }
    let mut twin_evs = evs.clone();
    let mut touched: Vec<usize> = vec![];
    for (i, ev) in evs.iter().enumerate() {
        if !ev.starts_with("ajoin") {
            continue;
        }
        let out = match outs.get(i) {
            Some(o) => o,
            None => break,
        };
        let calls: Vec<&str> = out.strip_prefix("calls=").and_then(|s| s.split(" => ").next()).unwrap_or("").split(';').collect();
        let script: Vec<&str> = ev.split_once('|').map(|(_, b)| b.split_whitespace().collect()).unwrap_or_default();
        let mut idx = 0usize;
        let mut drop: Vec<usize> = vec![];
        for c in calls {
            let consumes = c.starts_with("tx(") || c.starts_with("srx(") || c == "rxc" || c == "rxs" || c == "lp";
            if !consumes {
                continue;
            }
            if c == "rxc" && script.get(idx).map(|t| t.starts_with('R')).unwrap_or(false) {
                drop.push(idx);
            }
            idx += 1;
        }
        if drop.is_empty() {
            continue;
        }
        let kept: Vec<&str> = script.iter().enumerate().filter(|(k, _)| !drop.contains(k)).map(|(_, t)| *t).collect();
        twin_evs[i] = format!("ajoin | {}", kept.join(" "));
        touched.push(i);
    }
    if touched.is_empty() {
        return "ok".into();
    }
    let twin_op = format!("{} ; {}", hd, twin_evs.join(" ; "));
    let twin = crate::adev::run_history(&twin_op);
    // the windows a join opened: the single-shot `srx(..,s<ms>)` calls, in order
    let windows = |o: &str| -> Vec<String> {
        o.strip_prefix("calls=").and_then(|s| s.split(" => ").next()).unwrap_or("").split(';').filter(|c| c.starts_with("srx(") && !c.ends_with(",c)")).map(|c| c.to_string()).collect()
    };
    for i in 0..outs.len().max(twin.len()) {
        let (a, b) = (outs.get(i).map(|s| s.as_str()).unwrap_or("-"), twin.get(i).map(|s| s.as_str()).unwrap_or("-"));
        if touched.contains(&i) {
            let res = |o: &str| o.split(" => ").nth(1).unwrap_or("?").to_string();
            if res(a) != res(b) || windows(a) != windows(b) {
                return format!("FAIL:join-twin-differs-at-{}:{}/{}", i, res(a).replace(' ', "_"), res(b).replace(' ', "_"));
            }
        } else if a != b {
            return format!("FAIL:twin-differs-after-join-at-{}", i);
        }
    }
    "ok".into()
}

/// A long run of uplinks that nobody answers, on either front-end, with the application calling
/// `set_adr(true)` again here and there (an application that re-applies its settings before every
/// send), switching ADR off and on once, and overriding the data rate: the header bits and the
/// back-off of C12 seen through the front-ends' own `set_adr` / `set_datarate`.
pub fn gen_dev_adr_silent(suite: &str, region: &str, rng: &mut Rng, nb: bool) -> String {
    let drs = uplink_drs(region);
    // one run in three hears a stray frame that is too long for its window early on (a parseable
    // data frame of another network): it ends that procedure like a time-out and counts once
    let stray = rng.chance(1, 3);
    let top = if stray { 2 } else { *drs.iter().filter(|d| **d <= 5).max().unwrap_or(&0) };
    let stray_frame = {
        let mut d = DownDesc::new(0x0badcafe, 7);
        d.nwk = OTHER_KEY;
        d.fport = Some(3);
        d.payload = rng.bytes(180);
        d.build().unwrap()
    };
    let n = 70 + rng.below(70) as usize;
    let off_on_at = if rng.chance(1, 3) { Some(rng.below(60) as usize) } else { None };
    let redundant = rng.below(3); // 0: never, 1: before every send, 2: now and then
    let line;
    if nb {
        let mut h = NHist::new(suite, region, rng.next() & 0xffffff, 0, 100);
        h.ev(&format!("abp {}", DEVADDR));
        h.ev(&format!("dr {}", top));
        let mut ts = 1000u32;
        for i in 0..n {
            if h.dead {
                break;
            }
            if off_on_at == Some(i) {
                h.ev("adr 0");
                h.ev("adr 1");
            }
            if redundant == 1 || (redundant == 2 && rng.chance(1, 10)) {
                h.ev("adr 1");
            }
            ts += 8000;
            h.ev(&format!("nsend 1 0 {:02x}", i % 256));
            h.ev(&format!("nradio txdone {}", ts));
            if stray && i == 1 {
                // RX1 opens, the stray frame is heard in it, then the remaining time-outs (state errors
                // once the procedure has ended are harmless)
                h.ev("ntimeout");
                h.rx_bytes(0, &stray_frame);
                for _ in 0..3 {
                    h.ev("ntimeout");
                }
                continue;
            }
            for _ in 0..4 {
                h.ev("ntimeout");
            }
        }
        h.ev("snap");
        line = h.done();
    } else {
        let mut h = AHist::new(suite, region, rng.next() & 0xffffff, 15, 40, rng.chance(1, 3), 57);
        h.abp();
        h.ev(&format!("dr {}", top));
        for i in 0..n {
            if off_on_at == Some(i) {
                h.ev("adr 0");
                h.ev("adr 1");
            }
            if redundant == 1 || (redundant == 2 && rng.chance(1, 10)) {
                h.ev("adr 1");
            }
            if stray && i == 1 {
                let item = h.frame_item(0, &stray_frame, None);
                let script: Vec<String> = vec!["O".into(), "O".into(), "O".into(), item];
                h.asend(1, false, &[(i % 256) as u8], &script);
                continue;
            }
            h.asend(1, false, &[(i % 256) as u8], &[]);
        }
        h.ev("snap");
        line = h.done();
    }
    line
}

/// C12 at device level for histories in which nothing is ever received (every uplink ends in
/// RxComplete): ADR bit iff ADR is enabled; ADRACKReq iff ADR is enabled, at least 64 uplinks have
/// passed without an accepted downlink and a lower data rate exists; the rate steps down after
/// 96, 128, … such uplinks. `set_adr(false)` restarts the count, `set_adr(true)` does not.
pub fn oracle_c12_dev_silent(op: &str, outs: &[String]) -> String {
    let (hd, evs) = crate::macsuites::split_events(op);
    let w: Vec<&str> = hd.split_whitespace().collect();
    if w.len() < 3 {
        return "ok".into();
    }
    let region = w[2];
    let table = crate::macsuites::dr_table(region);
    let lower_exists = |dr: u8| (0..dr).any(|d| table.get(d as usize).cloned().flatten().is_some());
    let next_lower = |dr: u8| (0..dr).rev().find(|d| table.get(*d as usize).cloned().flatten().is_some());
    // only histories of abp / dr / adr / snap / uplinks without radio faults in which no frame is
    // ever accepted (frames may be heard: rejected and oversized ones do not restart the count)
    for e in &evs {
        let e0 = e.split_whitespace().next().unwrap_or("");
        let ok = match e0 {
            "abp" | "dr" | "adr" | "snap" | "nsend" | "ntimeout" => !e.contains('|'),
            "nradio" => matches!(e.split_whitespace().nth(1), Some("txdone") | Some("rx")) && !e.contains('|'),
            "asend" => e.split('|').nth(1).map(|s| s.split_whitespace().all(|x| x == "O" || x.starts_with('R'))).unwrap_or(false),
            _ => false,
        };
        if !ok {
            return "ok".into();
        }
    }
    if outs.iter().any(|o| o.contains("DownlinkReceived(") || o.contains("SessionExpired") || o.contains("Err(")) {
        return "ok".into();
    }
    let mut adr = true;
    let mut cnt: u32 = 0;
    let mut dr: Option<u8> = None;
    let mut open = false; // nb: an uplink whose procedure has not completed yet
    for (e, out) in evs.iter().zip(outs.iter()) {
        let ws: Vec<&str> = e.split_whitespace().collect();
        match ws[0] {
            "adr" => {
                adr = ws[1] == "1";
                if !adr {
                    cnt = 0;
                }
            }
            "dr" => dr = ws[1].parse().ok(),
            "asend" | "nsend" => {
                let up = match out.split_whitespace().find_map(|f| f.strip_prefix("up=")) {
                    Some(u) if u != "-" => u,
                    _ => return "ok".into(), // not sent (state error …): other oracles judge that
                };
                let f: Vec<&str> = up.split(',').collect();
                if f.len() != 9 {
                    return "FAIL:uplink-not-decodable".into();
                }
                let d = match dr {
                    Some(d) => d,
                    None => return "ok".into(),
                };
                let want_req = adr && cnt >= 64 && lower_exists(d);
                if (f[2] == "1") != adr {
                    return format!("FAIL:dev-adr-bit-{}-expected-{}", f[2], adr);
                }
                if (f[3] == "1") != want_req {
                    return format!("FAIL:dev-adrackreq-{}-expected-{}-(cnt={},dr={})", f[3], want_req, cnt, d);
                }
                let completed = if ws[0] == "asend" { out.contains("Ok(RxComplete)") } else { true };
                if !completed {
                    return "ok".into();
                }
                if ws[0] == "nsend" {
                    // one uplink = one count, however its procedure ends (time-outs, an oversized
                    // frame); the procedure is over at the latest when the next uplink is accepted
                    open = true;
                    if adr {
                        cnt = cnt.saturating_add(1);
                        if cnt >= 96 && (cnt - 64) % 32 == 0 {
                            if let Some(l) = next_lower(d) {
                                dr = Some(l);
                            }
                        }
                    }
                } else if adr {
                    cnt = cnt.saturating_add(1);
                    if cnt >= 96 && (cnt - 64) % 32 == 0 {
                        if let Some(l) = next_lower(d) {
                            dr = Some(l);
                        }
                    }
                }
            }
            "ntimeout" | "nradio" => {
                if open && (out.contains("=> RxComplete") || out.contains("=> NoAck")) {
                    open = false;
                }
            }
            "snap" => {
                if let (Some(s), Some(d)) = (parse_snap(out), dr) {
                    if !open && s.dr != d {
                        return format!("FAIL:dev-datarate-{}-expected-{}-after-{}-silent-uplinks", s.dr, d, cnt);
                    }
                }
            }
            _ => {}
        }
    }
    "ok".into()
}


/// A Class C application between uplinks: `rxc_listen` hears authentic frames (small, exactly at and
/// beyond the RXC size limit), foreign parseable frames of any size, junk, replays and radio
/// errors, before and after uplinks, joined and not joined.
pub fn gen_dev_listen(suite: &str, region: &str, rng: &mut Rng) -> String {
    let mut h = AHist::new(suite, region, rng.next() & 0xffffff, 15, 40, true, 57);
    let joined = !rng.chance(1, 8);
    if joined {
        if rng.chance(1, 6) {
            h.ev(&format!("sess {} {} -", DEVADDR, 0xffff_fffeu32));
        } else {
            h.abp();
        }
    }
    let foreign = |rng: &mut Rng, len: usize| {
        let mut d = DownDesc::new(0x0badcafe, rng.next() as u32 & 0xffff);
        d.nwk = OTHER_KEY;
        d.fport = Some(3);
        d.payload = rng.bytes(len);
        d.build().unwrap()
    };
    for round in 0..(1 + rng.below(3)) {
        // the application switches Class C off and on again between calls now and then
        if rng.chance(1, 5) {
            h.ev("classc 0");
            if joined {
                h.asend(7, false, &[0x77], &[]);
            }
            h.ev("classc 1");
        }
        if joined && (round > 0 || rng.chance(2, 3)) {
            h.asend(1 + rng.below(100) as u8, rng.chance(1, 4), &[round as u8], &[]);
        }
        let n = 1 + rng.below(5) as usize;
        let mut script: Vec<String> = vec![];
        for _ in 0..n {
            match rng.below(9) {
                0 => script.push("E".into()),
                1 | 2 => {
                    let len = *rng.pick(&[1usize, 1, 9, 45, 52, 53, 108, 200, 230]);
                    let payload = rng.bytes(len);
                    let cmds = if rng.chance(1, 3) { some_cmds(rng, region, 10) } else { vec![] };
                    script.push(h.auth_item(rng.range(-20, 20) as i8, 1, rng.chance(1, 3), &cmds, Some(1 + rng.below(100) as u8), &payload));
                }
                3 | 4 => {
                    let len = *rng.pick(&[0usize, 20, 60, 130, 200, 240]);
                    let b = foreign(rng, len);
                    script.push(h.frame_item(0, &b, None));
                }
                5 => {
                    let nb = rng.below(40) as usize;
                    let b = rng.bytes(nb);
                    script.push(h.frame_item(0, &b, None));
                }
                6 if rng.chance(1, 2) => {
                    // builder X — an uplink-typed frame of this session heard while listening
                    // (builder Y: or a downlink addressed to another DevAddr under the session's own keys)
                    let (b, f) = if rng.chance(1, 2) {
                        uplink_typed_frame(rng, h.devaddr, &h.nwk, &h.app, region, h.last_down)
                    } else {
                        other_devaddr_frame(rng, h.devaddr, &h.nwk, &h.app, region, h.last_down)
                    };
                    script.push(h.frame_item(rng.range(-20, 20) as i8, &b, Some(f)));
                }
                _ => script.push("O".into()),
            }
        }
        let e = format!("alisten | {}", script.join(" "));
        h.ev(&e);
        if rng.chance(1, 2) {
            h.ev("snap");
        }
    }
    h.ev("snap");
    h.done()
}


/// C20 at device level: a session handed to a front-end (`sess`: async `Device::new_with_session`, nb
/// `set_session`) is the session the device holds — the first snapshot after it, taken before
/// anything else happens, shows a joined device with the restored address and counters, whatever
/// their values.
pub fn oracle_c20_dev_restore(op: &str, outs: &[String]) -> String {
    let evs: Vec<&str> = op.split(';').skip(1).map(|s| s.trim()).collect();
    let mut want: Option<(u32, u32, Option<u32>)> = None;
    for (ev, o) in evs.iter().zip(outs.iter()) {
        let w: Vec<&str> = ev.split('|').next().unwrap_or("").split_whitespace().collect();
        match w.first().copied() {
            Some("sess") if w.len() == 4 || w.len() == 6 => {
                want = match (w[1].parse::<u32>(), w[2].parse::<u32>()) {
                    (Ok(da), Ok(up)) => Some((da, up, w[3].parse::<u32>().ok())),
                    _ => None,
                };
            }
            Some("snap") => {
                if let Some((da, up, down)) = want.take() {
                    match parse_snap(o) {
                        Some(s) if s.joined => {
                            if s.devaddr != da || s.fcnt_up != up || s.fcnt_down != down {
                                return format!("FAIL:restored-session-({},{},{:?})-but-device-holds-({},{},{:?})", da, up, down, s.devaddr, s.fcnt_up, s.fcnt_down);
                            }
                        }
                        Some(_) => return format!("FAIL:restored-session-({},{},{:?})-but-device-holds-no-session", da, up, down),
                        None => {}
                    }
                }
            }
            Some("hold") | Some("take") => {}
            _ => want = None,
        }
    }
    "ok".into()
}

/// Size limit of a window from its `(frequency, sf, bw, …)` fields: the REFERENCE maximum of that
/// data rate in the region (macsuites::ref_max_m), never the number the implementation attached.
fn ref_mp(region: &str, f: &[&str]) -> Option<u32> {
    let sf: u32 = f.get(1)?.parse().ok()?;
    let bw: u32 = f.get(2)?.parse().ok()?;
    crate::macsuites::ref_max_m(region, sf, bw)
}
