//! Fake SPI bus + interface variant for driving the REAL lora-phy drivers (C15/C17 arithmetic).
//!
//! The fake is a *register file that records*: every SPI transaction is logged (written bytes),
//! register writes land in a map, register reads come back from that map (unwritten registers read
//! as the configurable `prior` byte, so read-modify-write code is exercised against all-zero and
//! all-one prior contents), and the SX126x status commands answer from configurable bytes.
//! No radio behaviour is emulated — the chip-side meaning of the bytes is the *specification's*
//! business (`Spec/Semtech.lean`), not the harness's.
use embedded_hal_async::spi::{ErrorType, Operation, SpiDevice};
use lora_phy::mod_params::RadioError;
use lora_phy::mod_traits::InterfaceVariant;
use lora_phy::DelayNs;
use std::cell::RefCell;
use std::collections::HashMap;
use std::rc::Rc;

#[derive(Clone, Copy, PartialEq, Debug)]
pub enum Proto {
    /// opcode-based: 0x0D WriteRegister, 0x1D ReadRegister, status commands
    Sx126x,
    /// address byte, bit 7 = write, burst auto-increment
    Sx127x,
    /// LR11xx: 16-bit opcodes, reads in a separate transaction (only writes are observed here)
    Lr11xx,
}

pub struct Bus {
    pub proto: Proto,
    pub regs: HashMap<u16, u8>,
    pub prior: u8,
    /// written bytes of every transaction, in order
    pub log: Vec<Vec<u8>>,
    /// SX126x: status byte returned by `read_with_status`
    pub status: u8,
    /// SX126x: payload returned after the status byte (GetPacketStatus / GetRSSIInst ...)
    pub status_payload: Vec<u8>,
}

impl Bus {
    pub fn new(proto: Proto, prior: u8) -> Rc<RefCell<Bus>> {
        Rc::new(RefCell::new(Bus { proto, regs: HashMap::new(), prior, log: vec![], status: 0x04, status_payload: vec![] }))
    }
    pub fn reg(&self, a: u16) -> u8 {
        *self.regs.get(&a).unwrap_or(&self.prior)
    }
    /// last transaction whose first byte is `opcode`
    pub fn last_cmd(&self, opcode: u8) -> Option<Vec<u8>> {
        self.log.iter().rev().find(|t| t.first() == Some(&opcode)).cloned()
    }
    /// was register `a` written at all?
    pub fn written(&self, a: u16) -> Option<u8> {
        self.regs.get(&a).copied()
    }
}

#[derive(Debug)]
pub enum NoErr {}
impl embedded_hal::spi::Error for NoErr {
    fn kind(&self) -> embedded_hal::spi::ErrorKind {
        match *self {}
    }
}

pub struct FakeSpi(pub Rc<RefCell<Bus>>);

impl ErrorType for FakeSpi {
    type Error = NoErr;
}

impl SpiDevice<u8> for FakeSpi {
    async fn transaction(&mut self, ops: &mut [Operation<'_, u8>]) -> Result<(), NoErr> {
        let mut bus = self.0.borrow_mut();
        let mut w: Vec<u8> = vec![];
        for op in ops.iter() {
            match op {
                Operation::Write(b) => w.extend_from_slice(b),
                Operation::Transfer(_, b) => w.extend_from_slice(b),
                Operation::TransferInPlace(b) => w.extend_from_slice(b),
                _ => {}
            }
        }
        bus.log.push(w.clone());
        // what the reads of this transaction see
        let mut read_src: Vec<u8> = vec![];
        match bus.proto {
            Proto::Sx127x => {
                if let Some(&a) = w.first() {
                    if a & 0x80 != 0 {
                        let base = (a & 0x7f) as u16;
                        for (i, &v) in w[1..].iter().enumerate() {
                            // the FIFO (address 0) does not auto-increment
                            let addr = if base == 0 { 0 } else { base + i as u16 };
                            bus.regs.insert(addr, v);
                        }
                    } else {
                        let base = a as u16;
                        for i in 0..300u16 {
                            read_src.push(bus.reg(if base == 0 { 0 } else { base + i }));
                        }
                    }
                }
            }
            Proto::Sx126x => match w.first() {
                Some(0x0D) if w.len() >= 3 => {
                    let base = ((w[1] as u16) << 8) | w[2] as u16;
                    for (i, &v) in w[3..].iter().enumerate() {
                        bus.regs.insert(base.wrapping_add(i as u16), v);
                    }
                }
                Some(0x1D) if w.len() >= 3 => {
                    let base = ((w[1] as u16) << 8) | w[2] as u16;
                    for i in 0..300u16 {
                        read_src.push(bus.reg(base.wrapping_add(i)));
                    }
                }
                Some(_) => {
                    read_src.push(bus.status);
                    read_src.extend_from_slice(&bus.status_payload.clone());
                    read_src.resize(300, 0);
                }
                None => {}
            },
            Proto::Lr11xx => {
                read_src.resize(300, 0);
            }
        }
        let mut k = 0usize;
        for op in ops.iter_mut() {
            if let Operation::Read(b) = op {
                for x in b.iter_mut() {
                    *x = *read_src.get(k).unwrap_or(&0);
                    k += 1;
                }
            }
        }
        Ok(())
    }
}

/// control lines that never block
pub struct FakeIv;
impl InterfaceVariant for FakeIv {
    async fn reset(&mut self, _delay: &mut impl DelayNs) -> Result<(), RadioError> {
        Ok(())
    }
    async fn wait_on_busy(&mut self) -> Result<(), RadioError> {
        Ok(())
    }
    async fn await_irq(&mut self) -> Result<(), RadioError> {
        Ok(())
    }
    async fn enable_rf_switch_rx(&mut self) -> Result<(), RadioError> {
        Ok(())
    }
    async fn enable_rf_switch_tx(&mut self) -> Result<(), RadioError> {
        Ok(())
    }
    async fn disable_rf_switch(&mut self) -> Result<(), RadioError> {
        Ok(())
    }
}

pub struct NoDelay;
impl DelayNs for NoDelay {
    async fn delay_ns(&mut self, _ns: u32) {}
}

/// The fakes never return `Pending`; a future that does is a harness bug.
pub fn block_on<F: core::future::Future>(f: F) -> F::Output {
    let mut f = core::pin::pin!(f);
    let mut cx = core::task::Context::from_waker(core::task::Waker::noop());
    for _ in 0..1000 {
        if let core::task::Poll::Ready(v) = f.as_mut().poll(&mut cx) {
            return v;
        }
    }
    panic!("future pending on a fake that never blocks");
}

pub fn err_name(e: &RadioError) -> String {
    format!("ERR:{:?}", e).split('(').next().unwrap().to_string()
}
