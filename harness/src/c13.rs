//! C13: the SPI transactions of lora-phy's SX126x / SX127x drivers vs the Lean model, the Lean
//! transcription of Semtech's reference driver, and the COMPILED reference driver (SWL2001 C code
//! through `smtc-modem-cores`) — all over the same wire-level fake chip with the same register file.
//!
//! Op lines:
//!   C13 op  <chip> <seed> <pokes|-> <operation> <args…>   lora-phy: canonical SPI transcript
//!   C13 res <chip> <seed> <pokes|-> <operation> <args…>   lora-phy: result + full I/O event log
//!   C13 ref <chip> <seed> <pokes|-> <operation> <args…>   compiled Semtech C: canonical SPI transcript
//! chip   = 1261|1262|wlhp|wllp|1276|1272, optionally `/flags`: d use_dcdc, b rx_boost, t<k> TCXO
//!          voltage code k (SX126x); c tcxo_used, x tx_boost, b rx_boost (SX127x)
//! seed   = register-file seed (every register starts as `reg_init(seed, address)`)
//! pokes  = `addr=value,…` (hex) overriding single registers
//! canonical transcript = the MOSI byte stream of every SPI transaction (written bytes, one 00 per
//!          byte read), comma separated — lora-phy's `[op] + read status + read n` and the C
//!          driver's `[op, NOP] + read n` are the same bytes on the wire.
use crate::fakechip::*;
use crate::util::*;
use lora_modulation::{Bandwidth, CodingRate, SpreadingFactor};
use lora_phy::mod_params::{DutyCycleParams, ModulationParams, PacketParams, RadioError, RadioMode};
use lora_phy::mod_traits::{IrqState, RadioKind};
use lora_phy::sx126x::{self, Sx126xVariant};
use lora_phy::RxMode;
use smtc_modem_cores::sx126x as c126;
use std::panic::AssertUnwindSafe;

pub fn reg_init(seed: u64, a: u64) -> u8 {
    ((((a.wrapping_mul(2654435761)).wrapping_add(seed.wrapping_mul(40503))) % 4294967296) >> 13) as u8
}

pub const SFS: [(u32, SpreadingFactor); 8] = [
    (5, SpreadingFactor::_5),
    (6, SpreadingFactor::_6),
    (7, SpreadingFactor::_7),
    (8, SpreadingFactor::_8),
    (9, SpreadingFactor::_9),
    (10, SpreadingFactor::_10),
    (11, SpreadingFactor::_11),
    (12, SpreadingFactor::_12),
];
pub const BWS: [(u32, Bandwidth); 10] = [
    (7810, Bandwidth::_7KHz),
    (10420, Bandwidth::_10KHz),
    (15630, Bandwidth::_15KHz),
    (20830, Bandwidth::_20KHz),
    (31250, Bandwidth::_31KHz),
    (41670, Bandwidth::_41KHz),
    (62500, Bandwidth::_62KHz),
    (125000, Bandwidth::_125KHz),
    (250000, Bandwidth::_250KHz),
    (500000, Bandwidth::_500KHz),
];
pub const CRS: [(u32, CodingRate); 4] = [(5, CodingRate::_4_5), (6, CodingRate::_4_6), (7, CodingRate::_4_7), (8, CodingRate::_4_8)];

pub fn sf_of(s: &str) -> Option<SpreadingFactor> {
    SFS.iter().find(|(n, _)| n.to_string() == s).map(|x| x.1)
}
pub fn bw_of(s: &str) -> Option<Bandwidth> {
    BWS.iter().find(|(n, _)| n.to_string() == s).map(|x| x.1)
}
pub fn cr_of(s: &str) -> Option<CodingRate> {
    CRS.iter().find(|(n, _)| n.to_string() == s).map(|x| x.1)
}

/// `sleep standby fs tx rxs<n> rxc rxd<rx>:<sleep> listen cad`
pub fn mode_of(s: &str) -> Option<RadioMode> {
    Some(match s {
        "sleep" => RadioMode::Sleep,
        "standby" => RadioMode::Standby,
        "fs" => RadioMode::FrequencySynthesis,
        "tx" => RadioMode::Transmit,
        "listen" => RadioMode::Listen,
        "cad" => RadioMode::ChannelActivityDetection,
        _ => RadioMode::Receive(rxmode_of(s)?),
    })
}
pub fn rxmode_of(s: &str) -> Option<RxMode> {
    if s == "rxc" {
        Some(RxMode::Continuous)
    } else if let Some(n) = s.strip_prefix("rxs") {
        Some(RxMode::Single(n.parse().ok()?))
    } else if let Some(r) = s.strip_prefix("rxd") {
        let (a, b) = r.split_once(':')?;
        Some(RxMode::DutyCycle(DutyCycleParams { rx_time: a.parse().ok()?, sleep_time: b.parse().ok()? }))
    } else {
        None
    }
}

#[derive(Clone, Copy, PartialEq, Eq)]
pub enum Variant {
    Sx1261,
    Sx1262,
    WlHp,
    WlLp,
    Sx1276,
    Sx1272,
}

#[derive(Clone, Copy)]
pub struct ChipCfg {
    pub variant: Variant,
    pub dcdc: bool,
    pub boost: bool,
    pub tcxo: Option<u8>,
    pub tcxo_used: bool,
    pub tx_boost: bool,
}

pub fn parse_chip(tok: &str) -> Option<ChipCfg> {
    let (v, flags) = tok.split_once('/').unwrap_or((tok, ""));
    let variant = match v {
        "1261" => Variant::Sx1261,
        "1262" => Variant::Sx1262,
        "wlhp" => Variant::WlHp,
        "wllp" => Variant::WlLp,
        "1276" => Variant::Sx1276,
        "1272" => Variant::Sx1272,
        _ => return None,
    };
    let mut c = ChipCfg { variant, dcdc: false, boost: false, tcxo: None, tcxo_used: false, tx_boost: false };
    let fb = flags.as_bytes();
    let mut i = 0;
    while i < fb.len() {
        match fb[i] {
            b'd' => c.dcdc = true,
            b'b' => c.boost = true,
            b'c' => c.tcxo_used = true,
            b'x' => c.tx_boost = true,
            b't' => {
                i += 1;
                let k = *fb.get(i)?;
                if !(b'0'..=b'7').contains(&k) {
                    return None;
                }
                c.tcxo = Some(k - b'0');
            }
            _ => return None,
        }
        i += 1;
    }
    Some(c)
}

pub fn is_126(v: Variant) -> bool {
    !matches!(v, Variant::Sx1276 | Variant::Sx1272)
}

pub fn make_world(cfg: &ChipCfg, seed: u64, pokes: &str) -> Option<Shared> {
    let w = World::new(if is_126(cfg.variant) { Kind::Sx126x } else { Kind::Sx127x });
    {
        let mut m = w.borrow_mut();
        let n = m.regs.len();
        for a in 0..n {
            m.regs[a] = reg_init(seed, a as u64);
        }
        for a in 0..256 {
            m.buffer[a] = reg_init(seed ^ 0x5555, 0x10000 + a as u64);
        }
        if pokes != "-" {
            for p in pokes.split(',') {
                let (a, v) = p.split_once('=')?;
                let a = usize::from_str_radix(a, 16).ok()?;
                let v = u8::from_str_radix(v, 16).ok()?;
                if a >= n {
                    return None;
                }
                m.regs[a] = v;
            }
        }
    }
    Some(w)
}

fn tcxo_of(k: u8) -> sx126x::TcxoCtrlVoltage {
    use sx126x::TcxoCtrlVoltage::*;
    [Ctrl1V6, Ctrl1V7, Ctrl1V8, Ctrl2V2, Ctrl2V4, Ctrl2V7, Ctrl3V0, Ctrl3V3][k as usize & 7]
}

fn show_res<T>(r: Result<T, RadioError>, f: impl FnOnce(T) -> String) -> String {
    match r {
        Ok(v) => f(v),
        Err(e) => format!("err:{:?}", e).replace(' ', ""),
    }
}
fn unit(_: ()) -> String {
    "ok".into()
}
fn irq_s(v: (Option<IrqState>, Option<bool>)) -> String {
    format!(
        "ok:{},{}",
        match v.0 {
            None => "None",
            Some(IrqState::Done) => "Done",
            Some(IrqState::PreambleReceived) => "PreambleReceived",
        },
        match v.1 {
            None => "-",
            Some(false) => "0",
            Some(true) => "1",
        }
    )
}

/// run one RadioKind operation of the real driver; `None` = unknown operation / malformed arguments
fn lp_op<RK: RadioKind>(rk: &mut RK, w: &Shared, op: &[&str]) -> Option<String> {
    let b = |s: &str| -> Option<bool> {
        match s {
            "0" => Some(false),
            "1" => Some(true),
            _ => None,
        }
    };
    Some(match op {
        ["sleep", warm] => {
            let warm = b(warm)?;
            show_res(block_on(rk.set_sleep(warm, &mut FakeDelay(w.clone()))), unit)
        }
        ["standby"] => show_res(block_on(rk.set_standby()), unit),
        ["channel", hz] => show_res(block_on(rk.set_channel(hz.parse().ok()?)), unit),
        ["modparams", sf, bw, cr, ldro, hz] => {
            let m = ModulationParams {
                spreading_factor: sf_of(sf)?,
                bandwidth: bw_of(bw)?,
                coding_rate: cr_of(cr)?,
                low_data_rate_optimize: ldro.parse().ok()?,
                frequency_in_hz: hz.parse().ok()?,
            };
            show_res(block_on(rk.set_modulation_params(&m)), unit)
        }
        ["initmod", word, sf, bw, cr, ldro, hz] => {
            let m = ModulationParams {
                spreading_factor: sf_of(sf)?,
                bandwidth: bw_of(bw)?,
                coding_rate: cr_of(cr)?,
                low_data_rate_optimize: ldro.parse().ok()?,
                frequency_in_hz: hz.parse().ok()?,
            };
            let r = block_on(rk.init_lora(word.parse().ok()?));
            match r {
                Ok(()) => show_res(block_on(rk.set_modulation_params(&m)), unit),
                Err(e) => show_res(Err::<(), _>(e), unit),
            }
        }
        ["pktparams", pre, implicit, len, crc, iq] => {
            let p = PacketParams {
                preamble_length: pre.parse().ok()?,
                implicit_header: b(implicit)?,
                payload_length: len.parse().ok()?,
                crc_on: b(crc)?,
                iq_inverted: b(iq)?,
            };
            show_res(block_on(rk.set_packet_params(&p)), unit)
        }
        ["syncword", word] => show_res(block_on(rk.set_lora_sync_word(word.parse().ok()?)), unit),
        ["bufbase", tx, rx] => show_res(block_on(rk.set_tx_rx_buffer_base_address(tx.parse().ok()?, rx.parse().ok()?)), unit),
        ["payload", hexs] => {
            let p = unhex(hexs);
            show_res(block_on(rk.set_payload(&p)), unit)
        }
        ["txpower", dbm, hz, prep] => {
            let m = if *hz == "-" {
                None
            } else {
                Some(ModulationParams {
                    spreading_factor: SpreadingFactor::_7,
                    bandwidth: Bandwidth::_125KHz,
                    coding_rate: CodingRate::_4_5,
                    low_data_rate_optimize: 0,
                    frequency_in_hz: hz.parse().ok()?,
                })
            };
            show_res(block_on(rk.set_tx_power_and_ramp_time(dbm.parse().ok()?, m.as_ref(), b(prep)?)), unit)
        }
        ["irqparams", mode] => {
            let m = if *mode == "none" { None } else { Some(mode_of(mode)?) };
            show_res(block_on(rk.set_irq_params(m)), unit)
        }
        ["dotx"] => show_res(block_on(rk.do_tx()), unit),
        ["dorx", mode] => show_res(block_on(rk.do_rx(rxmode_of(mode)?)), unit),
        ["docad", sf] => {
            let m = ModulationParams {
                spreading_factor: sf_of(sf)?,
                bandwidth: Bandwidth::_125KHz,
                coding_rate: CodingRate::_4_5,
                low_data_rate_optimize: 0,
                frequency_in_hz: 868_100_000,
            };
            show_res(block_on(rk.do_cad(&m)), unit)
        }
        ["calimg", hz] => show_res(block_on(rk.calibrate_image(hz.parse().ok()?)), unit),
        ["wake", mode] => show_res(block_on(rk.ensure_ready(mode_of(mode)?)), unit),
        ["clearirq"] => show_res(block_on(rk.clear_irq_status()), unit),
        ["txcw"] => show_res(block_on(rk.set_tx_continuous_wave_mode()), unit),
        ["initlora", word] => show_res(block_on(rk.init_lora(word.parse().ok()?)), unit),
        ["irqevent", mode, flags, clear, cad] => {
            w.borrow_mut().irq_default = flags.parse().ok()?;
            let mut cadv = false;
            let want_cad = b(cad)?;
            let r = block_on(rk.process_irq_event(mode_of(mode)?, if want_cad { Some(&mut cadv) } else { None }, b(clear)?));
            show_res(r, |s| irq_s((s, if want_cad { Some(cadv) } else { None })))
        }
        ["pktstatus", a, bb, c] => {
            {
                let mut m = w.borrow_mut();
                m.pkt_status = [a.parse().ok()?, bb.parse().ok()?, c.parse().ok()?];
                // SX127x: RegPktSnrValue, RegPktRssiValue
                if m.kind == Kind::Sx127x {
                    m.regs[0x19] = m.pkt_status[1];
                    m.regs[0x1a] = m.pkt_status[0];
                }
            }
            // the decoded values are C17's business (and change with its fixes): only the traffic is compared here
            show_res(block_on(rk.get_rx_packet_status()), |_| "ok".into())
        }
        ["rssi", a] => {
            {
                let mut m = w.borrow_mut();
                m.rssi_inst = a.parse().ok()?;
                if m.kind == Kind::Sx127x {
                    m.regs[0x1b] = m.rssi_inst;
                }
            }
            show_res(block_on(rk.get_rssi()), |_| "ok".into())
        }
        _ => return None,
    })
}

fn run_lp(cfg: &ChipCfg, w: &Shared, op: &[&str]) -> Option<String> {
    macro_rules! with126 {
        ($chip:expr) => {{
            let mut rk = sx126x::Sx126x::new(
                FakeSpi(w.clone()),
                FakeIv(w.clone()),
                sx126x::Config { chip: $chip, tcxo_ctrl: cfg.tcxo.map(tcxo_of), use_dcdc: cfg.dcdc, rx_boost: cfg.boost },
            );
            lp_op(&mut rk, w, op)
        }};
    }
    macro_rules! with127 {
        ($chip:expr) => {{
            let mut rk = lora_phy::sx127x::Sx127x::new(
                FakeSpi(w.clone()),
                FakeIv(w.clone()),
                lora_phy::sx127x::Config { chip: $chip, tcxo_used: cfg.tcxo_used, tx_boost: cfg.tx_boost, rx_boost: cfg.boost },
            );
            lp_op(&mut rk, w, op)
        }};
    }
    match cfg.variant {
        Variant::Sx1261 => with126!(sx126x::Sx1261),
        Variant::Sx1262 => with126!(sx126x::Sx1262),
        Variant::WlHp => with126!(sx126x::Stm32wl { use_high_power_pa: true }),
        Variant::WlLp => with126!(sx126x::Stm32wl { use_high_power_pa: false }),
        Variant::Sx1276 => with127!(lora_phy::sx127x::Sx1276),
        Variant::Sx1272 => with127!(lora_phy::sx127x::Sx1272),
    }
}

/// the PA row lora-phy's variant table selects — handed to the reference as the BSP would
fn pa_row(v: Variant, dbm: i32) -> (u8, u8, i8) {
    let t = match v {
        Variant::Sx1261 | Variant::WlLp => sx126x::Sx1261.pa_table(),
        Variant::Sx1262 => sx126x::Sx1262.pa_table(),
        _ => sx126x::Stm32wl { use_high_power_pa: true }.pa_table(),
    };
    let max = t.entries[t.entries.len() - 1].max_dbm;
    let txp = dbm.clamp(t.min_dbm as i32, max as i32) as i8;
    let e = t.entries.iter().find(|e| e.max_dbm >= txp).unwrap_or(&t.entries[t.entries.len() - 1]);
    (e.pa_duty_cycle, e.hp_max, e.tx_params_at_max - (e.max_dbm - txp))
}

fn c_sf(n: u32) -> Option<c126::sx126x_lora_sf_e> {
    use c126::sx126x_lora_sf_e::*;
    Some(match n {
        5 => SX126X_LORA_SF5,
        6 => SX126X_LORA_SF6,
        7 => SX126X_LORA_SF7,
        8 => SX126X_LORA_SF8,
        9 => SX126X_LORA_SF9,
        10 => SX126X_LORA_SF10,
        11 => SX126X_LORA_SF11,
        12 => SX126X_LORA_SF12,
        _ => return None,
    })
}
fn c_bw(hz: u32) -> Option<c126::sx126x_lora_bw_e> {
    use c126::sx126x_lora_bw_e::*;
    Some(match hz {
        500000 => SX126X_LORA_BW_500,
        250000 => SX126X_LORA_BW_250,
        125000 => SX126X_LORA_BW_125,
        62500 => SX126X_LORA_BW_062,
        41670 => SX126X_LORA_BW_041,
        31250 => SX126X_LORA_BW_031,
        20830 => SX126X_LORA_BW_020,
        15630 => SX126X_LORA_BW_015,
        10420 => SX126X_LORA_BW_010,
        7810 => SX126X_LORA_BW_007,
        _ => return None,
    })
}
fn c_cr(d: u32) -> Option<c126::sx126x_lora_cr_e> {
    use c126::sx126x_lora_cr_e::*;
    Some(match d {
        5 => SX126X_LORA_CR_4_5,
        6 => SX126X_LORA_CR_4_6,
        7 => SX126X_LORA_CR_4_7,
        8 => SX126X_LORA_CR_4_8,
        _ => return None,
    })
}

/// the reference calls that realise an operation (mirrors `Spec.Semtech.Sx126x.Ref` in Lean)
fn run_ref126(cfg: &ChipCfg, w: &Shared, op: &[&str]) -> Option<()> {
    let mut c = c126::Context::new(FakeSpi(w.clone()));
    let b = |s: &str| -> Option<bool> {
        match s {
            "0" => Some(false),
            "1" => Some(true),
            _ => None,
        }
    };
    let hp = matches!(cfg.variant, Variant::Sx1262 | Variant::WlHp);
    match op {
        ["sleep", warm] => {
            c.set_sleep(if b(warm)? { c126::SleepCfg::WarmStart } else { c126::SleepCfg::ColdStart });
        }
        ["standby"] => {
            c.set_standby(c126::sx126x_standby_cfgs_e::SX126X_STANDBY_CFG_RC);
        }
        ["channel", hz] => {
            c.set_rf_freq(hz.parse().ok()?);
        }
        ["modparams", sf, bw, cr, ldro, _hz] => {
            c.set_lora_mod_params(&c126::sx126x_mod_params_lora_t {
                sf: c_sf(sf.parse().ok()?)?,
                bw: c_bw(bw.parse().ok()?)?,
                cr: c_cr(cr.parse().ok()?)?,
                ldro: ldro.parse().ok()?,
            });
        }
        ["pktparams", pre, implicit, len, crc, iq] => {
            c.set_lora_pkt_params(&c126::sx126x_pkt_params_lora_t {
                preamble_len_in_symb: pre.parse().ok()?,
                header_type: if b(implicit)? {
                    c126::sx126x_lora_pkt_len_modes_e::SX126X_LORA_PKT_IMPLICIT
                } else {
                    c126::sx126x_lora_pkt_len_modes_e::SX126X_LORA_PKT_EXPLICIT
                },
                pld_len_in_bytes: len.parse().ok()?,
                crc_is_on: b(crc)?,
                invert_iq_is_on: b(iq)?,
            });
        }
        ["syncword", word] => {
            let wd: u16 = word.parse().ok()?;
            // the reference takes the legacy byte 0xYZ for the register word 0xY4Z4
            c.set_lora_sync_word((((wd >> 8) & 0xF0) | ((wd >> 4) & 0x0F)) as u8);
        }
        ["bufbase", tx, rx] => {
            c.set_buffer_base_address(tx.parse().ok()?, rx.parse().ok()?);
        }
        ["payload", hexs] => {
            c.write_buffer(0, &unhex(hexs));
        }
        ["txpower", dbm, _hz, prep] => {
            let (duty, hp_max, pwr) = pa_row(cfg.variant, dbm.parse().ok()?);
            if hp {
                c.cfg_tx_clamp();
            }
            c.set_pa_cfg(&c126::sx126x_pa_cfg_params_t { pa_duty_cycle: duty, hp_max, device_sel: if hp { 0 } else { 1 }, pa_lut: 1 });
            c.set_tx_params(
                pwr,
                if b(prep)? { c126::sx126x_ramp_time_e::SX126X_RAMP_40_US } else { c126::sx126x_ramp_time_e::SX126X_RAMP_200_US },
            );
        }
        ["irqparams", mode] => {
            let m: u16 = match *mode {
                "standby" => 0xFFFF,
                "tx" => 0x0201,
                "cad" => 0x0180,
                m if m.starts_with("rx") => 0xFFFF,
                _ => 0,
            };
            c.set_dio_irq_params(m, m, 0, 0);
        }
        ["dotx"] => {
            c.set_tx(0);
        }
        ["dorx", mode] => {
            let m = rxmode_of(mode)?;
            c.stop_timer_on_preamble(true);
            // the reference API takes a u8; the clamp to 248 is the same for every value above it
            c.set_lora_symb_nb_timeout(match m {
                RxMode::Single(n) => n.min(255) as u8,
                _ => 0,
            });
            c.cfg_rx_boosted(cfg.boost);
            match m {
                RxMode::Single(_) => {
                    c.set_rx_with_timeout_in_rtc_step(0);
                }
                RxMode::Continuous => {
                    c.set_rx_with_timeout_in_rtc_step(0xFFFFFF);
                }
                RxMode::DutyCycle(_) => return None, // not exported by the bindings: Lean spec only
            }
        }
        ["docad", sf] => {
            let sf: u32 = sf.parse().ok()?;
            c.cfg_rx_boosted(cfg.boost);
            c.set_cad_params(&c126::sx126x_cad_params_t {
                cad_symb_nb: c126::sx126x_cad_symbs_e::SX126X_CAD_08_SYMB,
                cad_detect_peak: (sf + 13) as u8,
                cad_detect_min: 10,
                cad_exit_mode: c126::sx126x_cad_exit_modes_e::SX126X_CAD_ONLY,
                cad_timeout: 0,
            });
            c.set_cad();
        }
        ["calimg", hz] => {
            let f: u32 = hz.parse().ok()?;
            // datasheet table 9-2
            let (f1, f2) = if f > 900_000_000 {
                (0xE1, 0xE9)
            } else if f > 850_000_000 {
                (0xD7, 0xDB)
            } else if f > 770_000_000 {
                (0xC1, 0xC5)
            } else if f > 460_000_000 {
                (0x75, 0x81)
            } else if f > 425_000_000 {
                (0x6B, 0x6F)
            } else {
                (0, 0)
            };
            c.cal_img(f1, f2);
        }
        ["wake", mode] => {
            match *mode {
                "sleep" => {
                    c.get_status();
                }
                m if m.starts_with("rxd") => {
                    c.get_status();
                }
                _ => {}
            };
        }
        ["clearirq"] => {
            c.clear_irq_status(0xFFFF);
        }
        ["txcw"] => {
            c.set_tx_cw();
        }
        ["retention", addr] => {
            c.add_registers_to_retention_list(&[u16::from_str_radix(addr, 16).ok()?]);
        }
        _ => return None,
    }
    Some(())
}

/// canonical MOSI streams of the SPI transactions in the log
pub fn canonical(log: &[String]) -> String {
    let mut out: Vec<String> = vec![];
    for t in log {
        if let Some(rest) = t.strip_prefix('s') {
            if rest.ends_with('!') {
                continue;
            }
            let (hexs, n) = match rest.split_once('/') {
                Some((h, n)) => (h, n.parse::<usize>().unwrap_or(0)),
                None => (rest, 0),
            };
            out.push(format!("{}{}", hexs, "00".repeat(n)));
        }
    }
    if out.is_empty() {
        "-".into()
    } else {
        out.join(",")
    }
}

pub fn eval(op: &str) -> String {
    let w: Vec<&str> = op.split_whitespace().collect();
    if w.len() < 6 || w[0] != "C13" {
        return "bad-op".into();
    }
    let (kind, chip, seed, pokes, rest) = (w[1], w[2], w[3], w[4], &w[5..]);
    let Some(cfg) = parse_chip(chip) else { return "bad-op".into() };
    let Ok(seed) = seed.parse::<u64>() else { return "bad-op".into() };
    let Some(world) = make_world(&cfg, seed, pokes) else { return "bad-op".into() };
    match kind {
        "op" | "res" => {
            let r = guarded(AssertUnwindSafe(|| run_lp(&cfg, &world, rest)));
            let m = world.borrow();
            match r {
                None => {
                    if kind == "op" {
                        canonical(&m.log)
                    } else {
                        format!("PANIC {}", m.transcript())
                    }
                }
                Some(None) => "bad-op".into(),
                Some(Some(res)) => {
                    if kind == "op" {
                        canonical(&m.log)
                    } else {
                        format!("{} {}", res, m.transcript())
                    }
                }
            }
        }
        "eff" => {
            // SX127x: chip-visible effect (masked final register file) of the lora-phy operation
            if is_126(cfg.variant) {
                return "bad-op".into();
            }
            let r = guarded(AssertUnwindSafe(|| run_lp(&cfg, &world, rest)));
            match r {
                Some(Some(_)) => crate::c13b::effect(&cfg, &world, rest),
                Some(None) => "bad-op".into(),
                None => "PANIC".into(),
            }
        }
        "efr" => {
            if is_126(cfg.variant) {
                return "bad-op".into();
            }
            match crate::c13b::run_ref127(&cfg, &world, rest) {
                Some(()) => crate::c13b::effect(&cfg, &world, rest),
                None => "bad-op".into(),
            }
        }
        "ref" => {
            if !is_126(cfg.variant) {
                return crate::c13b::eval_ref127(&cfg, &world, rest);
            }
            match run_ref126(&cfg, &world, rest) {
                Some(()) => canonical(&world.borrow().log),
                None => "bad-op".into(),
            }
        }
        _ => "bad-op".into(),
    }
}

pub fn expand(_op: &str) -> Vec<String> {
    vec![]
}

// ------------------------------------------------------------------------------------------ generation

pub struct Gen<'a> {
    pub rng: &'a mut Rng,
    pub sink: &'a mut Sink,
}

impl<'a> Gen<'a> {
    /// emit the three views of one operation; `reference` = the compiled C driver can express it
    pub fn emit(&mut self, chip: &str, seed: u64, pokes: &str, opargs: &str, class: &str, reference: bool) {
        for kind in ["op", "res"] {
            let op = format!("C13 {} {} {} {} {}", kind, chip, seed, pokes, opargs);
            let a = eval(&op);
            self.sink.case(&op, &a, &format!("{}-{}", kind, class), true);
        }
        if reference {
            let op = format!("C13 ref {} {} {} {}", chip, seed, pokes, opargs);
            let a = eval(&op);
            self.sink.case(&op, &a, &format!("ref-{}", class), true);
        }
    }
}

pub const CHIPS126: [&str; 4] = ["1261", "1262", "wlhp", "wllp"];

/// LoRaWAN channel grids (Hz): (first, step, count)
pub const BANDS: [(u32, u32, u32); 8] = [
    (863_000_000, 100, 70_000),    // EU868 863-870 MHz at 100 Hz
    (902_300_000, 200_000, 64),    // US915 125 kHz uplinks
    (903_000_000, 1_600_000, 8),   // US915 500 kHz uplinks
    (923_300_000, 600_000, 8),     // US915 downlinks
    (915_200_000, 200_000, 64),    // AU915
    (433_050_000, 100, 17_400),    // EU433
    (865_000_000, 100, 20_000),    // IN865
    (920_000_000, 100, 50_000),    // AS923 920-925
];

pub fn run(tier: &str, seed: u64, dir: &str) {
    let mut rng = Rng::new(seed);
    let mut sink = Sink::new(dir);
    let thorough = tier == "thorough";
    let scale = if thorough { 10 } else { 1 };
    {
        let mut g = Gen { rng: &mut rng, sink: &mut sink };
        gen126(&mut g, scale);
        crate::c13b::gen127(&mut g, scale);
    }
    sink.finish(
        dir,
        "every shared RadioKind operation of the real Sx126x<Sx1261|Sx1262|Stm32wl hp/lp> and Sx127x<Sx1276|Sx1272> drivers over a wire-level fake chip whose register file is seeded pseudo-randomly (plus targeted pokes for the read-modify-write registers), three views per case: `op` = lora-phy's canonical SPI transcript vs Lean model vs Lean transcription of SWL2001; `res` = lora-phy's result and full I/O event log vs Lean model; `ref` = the COMPILED Semtech C driver's transcript vs the Lean transcription. Grids: all SF x BW x CR x LDRO; header/CRC/IQ flags x preamble {0,1,8,12,255,256,65535,random} x payload length 0..255; LoRaWAN channel grids at their raster plus a stride over 137-1020 MHz; symbol timeouts 0..65535 (stride + boundaries); all powers -128..127 per variant; every RadioMode for IRQ masks / wake-up. Distinct = distinct op lines; every case compares a concrete transcript.",
        false,
        serde_json::json!({}),
    );
}

fn gen126(g: &mut Gen, scale: u64) {
    for chip in CHIPS126 {
        let flagsets = ["", "/b", "/d", "/db"];
        let fchip = |g: &mut Gen| format!("{}{}", chip, g.rng.pick(&flagsets));
        // sleep / standby / simple commands
        for warm in [0, 1] {
            let c = fchip(g);
            let s = g.rng.below(1000);
            g.emit(&c, s, "-", &format!("sleep {}", warm), "sleep", true);
        }
        for opn in ["standby", "dotx", "clearirq", "txcw"] {
            let c = fchip(g);
            let s = g.rng.below(1000);
            g.emit(&c, s, "-", opn, opn, true);
        }
        // modulation: all SF x BW x CR x LDRO, random prior TxModulation register
        for (sf, _) in SFS {
            for (bw, _) in BWS {
                for (cr, _) in CRS {
                    for ldro in [0, 1] {
                        let s = g.rng.below(100_000);
                        g.emit(chip, s, "-", &format!("modparams {} {} {} {} 868100000", sf, bw, cr, ldro), "modparams", true);
                    }
                }
            }
        }
        // packet params: flags x preamble x payload length
        let preambles = [0u32, 1, 8, 12, 255, 256, 65535];
        for len in 0..=255u32 {
            for flags in 0..8u32 {
                let pre = if g.rng.chance(1, 3) { g.rng.below(65536) as u32 } else { *g.rng.pick(&preambles) };
                let s = g.rng.below(100_000);
                g.emit(
                    chip,
                    s,
                    "-",
                    &format!("pktparams {} {} {} {} {}", pre, flags & 1, len, (flags >> 1) & 1, (flags >> 2) & 1),
                    "pktparams",
                    true,
                );
            }
        }
        // sync word: words of the legacy shape on the reset register state (low nibbles 4)
        for _ in 0..(40 * scale) {
            let y = g.rng.below(16);
            let z = g.rng.below(16);
            let word = (y << 12) | (4 << 8) | (z << 4) | 4;
            let s = g.rng.below(100_000);
            let pokes = format!("740={:02x},741={:02x}", (g.rng.below(16) << 4) | 4, (g.rng.below(16) << 4) | 4);
            g.emit(chip, s, &pokes, &format!("syncword {}", word), "syncword", true);
        }
        for word in [0x3444u32, 0x1424] {
            g.emit(chip, 1, "740=14,741=24", &format!("syncword {}", word), "syncword", true);
        }
        // buffer base, FIFO writes
        for _ in 0..(20 * scale) {
            let (tx, rx) = (g.rng.below(256), g.rng.below(256));
            g.emit(chip, 0, "-", &format!("bufbase {} {}", tx, rx), "bufbase", true);
        }
        g.emit(chip, 0, "-", "bufbase 0 0", "bufbase", true);
        for n in [0usize, 1, 2, 12, 23, 51, 64, 115, 222, 242, 254, 255] {
            let p = g.rng.bytes(n);
            g.emit(chip, 0, "-", &format!("payload {}", hex(&p)), "payload", true);
        }
        // PA: every power level, both ramp selections; frequency guard of the SX1261
        for dbm in -128..=127i32 {
            for prep in [0, 1] {
                let s = g.rng.below(100_000);
                g.emit(chip, s, "-", &format!("txpower {} - {}", dbm, prep), "txpower", true);
            }
        }
        for dbm in [14, 15, 16, 22] {
            for hz in [399_999_999u32, 400_000_000, 169_000_000, 868_100_000] {
                let s = g.rng.below(100_000);
                // below 400 MHz the SX1261 refuses >= 15 dBm without touching the bus: no reference call
                let lp = chip == "1261" || chip == "wllp";
                g.emit(chip, s, "-", &format!("txpower {} {} 1", dbm, hz), "txpower-freq", !(lp && dbm >= 15 && hz < 400_000_000));
            }
        }
        // IRQ masks, wake-up
        for mode in ["sleep", "standby", "tx", "rxs8", "rxc", "rxd100:200", "listen", "cad", "none"] {
            g.emit(chip, 0, "-", &format!("irqparams {}", mode), "irqparams", true);
            if mode != "none" {
                g.emit(chip, 0, "-", &format!("wake {}", mode), "wake", true);
            }
        }
        g.emit(chip, 0, "-", "irqparams fs", "irqparams", true);
        g.emit(chip, 0, "-", "wake fs", "wake", true);
        // RX start: symbol timeouts 0..65535 (all up to 300, then stride), continuous, duty cycle
        let mut ns: Vec<u32> = (0..=300).collect();
        let mut n = 301u32;
        while n < 65536 {
            ns.push(n);
            n += 1 + (g.rng.below(if scale > 1 { 60 } else { 600 }) as u32);
        }
        ns.push(65535);
        for n in ns {
            let c = fchip(g);
            g.emit(&c, 0, "-", &format!("dorx rxs{}", n), "dorx-single", true);
        }
        for c in [format!("{}", chip), format!("{}/b", chip)] {
            g.emit(&c, 0, "-", "dorx rxc", "dorx-continuous", true);
            for _ in 0..(5 * scale) {
                let (a, b) = (g.rng.below(1 << 24), g.rng.below(1 << 24));
                g.emit(&c, 0, "-", &format!("dorx rxd{}:{}", a, b), "dorx-dutycycle", false);
            }
            g.emit(&c, 0, "-", "dorx rxd16777215:0", "dorx-dutycycle", false);
            for (sf, _) in SFS {
                g.emit(&c, 0, "-", &format!("docad {}", sf), "docad", true);
            }
        }
        // RF frequency: LoRaWAN grids at their raster (sampled in quick), stride over 137-1020 MHz
        for (first, step, count) in BANDS {
            let take = (count as u64).min(150 * scale);
            for k in 0..take {
                let idx = if take == count as u64 { k } else { g.rng.below(count as u64) };
                let f = first as u64 + idx * step as u64;
                g.emit(chip, 0, "-", &format!("channel {}", f), "channel-band", true);
                if k % 25 == 0 {
                    g.emit(chip, 0, "-", &format!("calimg {}", f), "calimg", true);
                }
            }
        }
        let mut f = 137_000_000u64;
        while f <= 1_020_000_000 {
            g.emit(chip, 0, "-", &format!("channel {}", f), "channel-stride", true);
            f += 1_000_000 / scale + g.rng.below(997);
        }
        for f in [137_000_000u64, 425_000_000, 425_000_001, 460_000_000, 460_000_001, 770_000_000, 770_000_001, 850_000_000, 850_000_001, 900_000_000, 900_000_001, 1_020_000_000] {
            g.emit(chip, 0, "-", &format!("calimg {}", f), "calimg", true);
            g.emit(chip, 0, "-", &format!("channel {}", f), "channel-stride", true);
        }
        // init_lora: configurations x retention-list states (count 0..4 valid, > 4 is what a dead bus reads)
        for flags in ["", "/d", "/t1", "/dt7", "/b"] {
            for cnt in [0u32, 1, 2, 3, 4] {
                let c = format!("{}{}", chip, flags);
                let mut pokes = format!("740=14,741=24,29f={:02x}", cnt);
                // sometimes the list already holds RxGain (08AC) / TxModulation (0889)
                if cnt >= 1 && g.rng.chance(1, 2) {
                    pokes += ",2a0=08,2a1=ac";
                }
                if cnt >= 2 && g.rng.chance(1, 2) {
                    pokes += ",2a2=08,2a3=89";
                }
                let s = g.rng.below(100_000);
                g.emit(&c, s, &pokes, "initlora 13380", "initlora", false);
            }
        }
        // the DIO IRQ event path incl. the implicit-header timeout workaround after RxDone in single mode
        for (mode, flags) in [("rxs8", 0x0002u32), ("rxs8", 0x0200), ("rxc", 0x0002), ("tx", 0x0001), ("tx", 0x0200), ("cad", 0x0080), ("cad", 0x0180), ("rxs8", 0x0014), ("rxs8", 0x0062), ("standby", 0xffff)] {
            for clear in [0, 1] {
                let s = g.rng.below(100_000);
                g.emit(chip, s, "-", &format!("irqevent {} {} {} {}", mode, flags, clear, if mode == "cad" { 1 } else { 0 }), "irqevent", false);
            }
        }
        for _ in 0..(20 * scale) {
            // raw SNR 126/127 overflows `i8 + 2` in the present code (C17's finding): kept out of this suite
            let (a, b, c) = (g.rng.below(256), g.rng.below(126), g.rng.below(256));
            g.emit(chip, 0, "-", &format!("pktstatus {} {} {}", a, b, c), "pktstatus", false);
            g.emit(chip, 0, "-", &format!("rssi {}", a), "rssi", false);
        }
    }
}
