//! Suite C20: a persisted session restores losslessly and never rewinds counters.
#![allow(dead_code, unused_imports)]
use crate::mac::*;
use crate::macgen::*;
use crate::macsuites::*;
use crate::util::*;

pub fn eval(op: &str) -> String {
    if op.split_whitespace().nth(1) == Some("doc") {
        return eval_c20_doc(op);
    }
    if op.split_whitespace().nth(1) == Some("docrt") {
        return eval_c20_docrt(op);
    }
    if let Some(r) = crate::adevgen::eval_dev_any(op) {
        return r;
    }
    let outs = run_history(op);
    format!("{} ## oracle={}", outs.join(" ; "), oracle_c20(op, &outs))
}

pub fn expand(_op: &str) -> Vec<String> {
    vec![]
}

/// `C20 docrt <region> <hex of a WELL-FORMED session document>`: it must be accepted, the restored
/// session must re-serialise to the same JSON value, and it is then exercised like `doc`.
fn eval_c20_docrt(op: &str) -> String {
    let w: Vec<&str> = op.split_whitespace().collect();
    if w.len() != 4 {
        return "bad-op".into();
    }
    let doc = String::from_utf8_lossy(&unhex(w[3])).to_string();
    let want: serde_json::Value = match serde_json::from_str(&doc) {
        Ok(v) => v,
        Err(_) => return "bad-op".into(),
    };
    let r = std::panic::catch_unwind(|| match serde_json::from_str::<lorawan_device::mac::Session>(&doc) {
        Err(e) => format!("FAIL:well-formed-document-rejected:{}", e.to_string().replace(' ', "_")),
        Ok(s) => match serde_json::to_value(&s) {
            Ok(got) if got == want => "ok".to_string(),
            Ok(_) => "FAIL:restored-session-serialises-differently".to_string(),
            Err(_) => "FAIL:restored-session-does-not-serialise".to_string(),
        },
    });
    match r {
        Ok(v) if v == "ok" => eval_c20_doc(&op.replacen(" docrt ", " doc ", 1)),
        Ok(v) => format!("doc-handled ## oracle={}", v),
        Err(_) => "doc-handled ## oracle=FAIL:PANIC-on-deserialised-session".into(),
    }
}

fn mutate_doc(rng: &mut Rng, v: &mut serde_json::Value) {
    use serde_json::json;
    let n = 1 + rng.below(3);
    for _ in 0..n {
        let has_uplink = v.get("uplink").map(|u| u.is_object()).unwrap_or(false);
        let pickn = rng.below(16);
        if (5..=8).contains(&pickn) && !has_uplink {
            continue;
        }
        match pickn {
            0 => {
                let keys: Vec<String> = v.as_object().unwrap().keys().cloned().collect();
                if !keys.is_empty() {
                    let k = rng.pick(&keys).clone();
                    v.as_object_mut().unwrap().remove(&k);
                }
            }
            1 => v["extra_field"] = json!(rng.next()),
            2 => v["fcnt_up"] = rng.pick(&[json!(-1), json!(4294967296u64), json!("7"), json!(null), json!(4294967295u32), json!(1.5)]).clone(),
            3 => v["fcnt_down"] = rng.pick(&[json!(null), json!(0), json!(4294967295u32), json!(4294967296u64), json!([1]), json!("x")]).clone(),
            4 => v["adr_ack_cnt"] = rng.pick(&[json!(0), json!(4294967295u32), json!(-5), json!(null)]).clone(),
            5 => v["uplink"]["pending_len"] = json!(rng.below(256)),
            6 => {
                let len = *rng.pick(&[0usize, 14, 15, 16, 30]);
                v["uplink"]["pending_data"] = json!((0..len).map(|_| rng.next() as u8).collect::<Vec<u8>>());
            }
            7 => {
                v["uplink"]["pending_data"] = json!((0..15).map(|_| rng.next() as u8).collect::<Vec<u8>>());
                v["uplink"]["pending_len"] = json!(rng.below(16));
            }
            8 => v["uplink"]["confirmed"] = rng.pick(&[json!(1), json!("true"), json!(null), json!(true)]).clone(),
            9 => v["confirmed"] = rng.pick(&[json!(0), json!(false), json!([true])]).clone(),
            10 => v["nwkskey"] = rng.pick(&[json!([1, 2, 3]), json!(null), json!("00"), json!((0..17).collect::<Vec<u8>>())]).clone(),
            11 => v["devaddr"] = rng.pick(&[json!([1, 2, 3, 4, 5]), json!(7), json!(null), json!([256, 0, 0, 0])]).clone(),
            12 => v["uplink"] = rng.pick(&[json!(null), json!({}), json!([]), json!({"confirmed": true})]).clone(),
            14 | 15 => {
                // the struct given positionally, as a non-self-describing format would encode it:
                // [confirmed, pending_len, [15 octets]] (and shapes around it)
                let len = *rng.pick(&[0u64, 1, 14, 15, 16, 17, 100, 255, 256, 70000]);
                let n = *rng.pick(&[15usize, 15, 15, 14, 16, 0]);
                let data: Vec<u8> = (0..n).map(|_| rng.next() as u8).collect();
                v["uplink"] = match rng.below(4) {
                    0 => json!([rng.chance(1, 2), len]),
                    1 => json!([rng.chance(1, 2), len, data, 7]),
                    _ => json!([rng.chance(1, 2), len, data]),
                };
            }
            _ => {
                v["fcnt_up"] = json!(rng.next() as u32);
                v["adr_ack_cnt"] = json!(rng.next() as u32);
            }
        }
    }
}

/// JSON text of `v` with the keys of every object in a random order
fn to_string_shuffled(rng: &mut Rng, v: &serde_json::Value) -> String {
    match v {
        serde_json::Value::Object(m) => {
            let mut keys: Vec<&String> = m.keys().collect();
            for i in (1..keys.len()).rev() {
                let j = rng.below(i as u64 + 1) as usize;
                keys.swap(i, j);
            }
            let parts: Vec<String> = keys.iter().map(|k| format!("{}:{}", serde_json::Value::String((*k).clone()), to_string_shuffled(rng, &m[*k]))).collect();
            format!("{{{}}}", parts.join(","))
        }
        serde_json::Value::Array(a) => format!("[{}]", a.iter().map(|x| to_string_shuffled(rng, x)).collect::<Vec<_>>().join(",")),
        other => other.to_string(),
    }
}

pub fn run(tier: &str, seed: u64, dir: &str) {
    let mut rng = Rng::new(seed);
    let mut sink = Sink::new(dir);
    let thorough = tier == "thorough";
    for region in REGIONS {
        let n = if thorough { 1500 } else { 90 };
        for i in 0..n {
            let mut o = Opts::default();
            o.steps = 4 + rng.below(8) as usize;
            o.otaa_pct = 20;
            o.counters = match i % 5 {
                0 => Some((0xffff, Some(0xffff))),
                1 => Some((0xffff_fffe, Some(0xffff_fff0))),
                2 => Some((0, None)),
                _ => None,
            };
            let op = gen_history("C20", &mut rng, region, &o);
            // a snapshot/restore after every event
            let (hd, evs) = split_events(&op);
            let mut line = hd;
            for e in evs {
                line.push_str(" ; ");
                line.push_str(&e);
                if !e.starts_with("snap") {
                    line.push_str(" ; persist");
                }
            }
            sink.case(&line, &eval(&line), "persist-every-step", true);
        }
    }
    // a restored session handed to the two front-ends (async: `Device::new_with_session`, nb:
    // `set_session`), at counters on both sides of the 16- and 32-bit boundaries: the device holds
    // the session (snapshot) and its next uplink is the original's
    for region in REGIONS {
        for (k, up) in [0u32, 1, 1000, 0xfffe, 0xffff, 0x1_0000, 0x7fff_ffff, 0xffff_fffe, 0xffff_ffff].into_iter().enumerate() {
            let down = if k % 3 == 0 { "-".to_string() } else { (up / 2).to_string() };
            let op = format!("C20 adev {} {} - 15 40 {} 57 ; sess {} {} {} ; snap ; asend 1 0 aa |  ; snap ; asend 2 1 bbcc |  ; snap", region, 100 + k, k % 2, DEVADDR, up, down);
            sink.case(&op, &eval(&op), "device-restore", true);
            let op = format!("C20 nbdev {} {} - 0 100 ; sess {} {} {} ; snap ; nsend 1 0 aa ; nradio txdone 1000 ; ntimeout ; ntimeout ; ntimeout ; ntimeout ; snap ; nsend 2 1 bbcc ; snap", region, 200 + k, DEVADDR, up, down);
            sink.case(&op, &eval(&op), "device-restore", true);
            // the same session saved after a CONFIRMED uplink (stored flag set, ADR counter running)
            let cnt = [0u32, 1, 63, 64, 200][k % 5];
            let op = format!("C20 adev {} {} - 15 40 {} 57 ; sess {} {} {} 1 {} ; snap ; asend 1 0 aa |  ; snap ; asend 2 1 bbcc |  ; snap", region, 300 + k, k % 2, DEVADDR, up, down, cnt);
            sink.case(&op, &eval(&op), "device-restore", true);
            let op = format!("C20 nbdev {} {} - 0 100 ; sess {} {} {} 1 {} ; snap ; nsend 1 0 aa ; nradio txdone 1000 ; ntimeout ; ntimeout ; ntimeout ; ntimeout ; snap ; nsend 2 1 bbcc ; snap", region, 400 + k, DEVADDR, up, down, cnt);
            sink.case(&op, &eval(&op), "device-restore", true);
        }
    }
    // structurally mutated documents
    let base = {
        let s = lorawan_device::mac::Session::new(lorawan_device::NwkSKey::from(NWK_KEY), lorawan_device::AppSKey::from(APP_KEY), lorawan_device::DevAddr::from_value(DEVADDR));
        serde_json::to_value(&s).unwrap()
    };
    let nd = if thorough { 20000 } else { 1500 };
    for _ in 0..nd {
        let mut v = base.clone();
        mutate_doc(&mut rng, &mut v);
        let doc = v.to_string();
        let op = format!("C20 doc {} {}", rng.pick(&REGIONS), hex(doc.as_bytes()));
        sink.case(&op, &eval(&op), "mutated-document", true);
    }
    // well-formed documents over the value space of the fields: keys with any octets (all 0x00, all
    // 0xFF, single 0x00 / 0xFF octets, random), any address and counters at the boundaries
    for k in 0..(if thorough { 4000 } else { 400 }) {
        use serde_json::json;
        let mut v = base.clone();
        for key in ["nwkskey", "appskey"] {
            let mut b = rng.bytes(16);
            match (k + if key == "appskey" { 3 } else { 0 }) % 8 {
                0 => b = vec![0xff; 16],
                1 => b = vec![0; 16],
                2 => b[rng.below(16) as usize] = 0xff,
                3 => b[rng.below(16) as usize] = 0,
                4 => b = (0..16).map(|i| (i * 0x11) as u8).collect(),
                _ => {}
            }
            if v.get(key).map(|x| x.is_array()).unwrap_or(false) {
                v[key] = json!(b);
            } else if let Some(o) = v.get(key).and_then(|x| x.as_object()) {
                // a wrapped representation: replace the first array found one level down
                let mut o = o.clone();
                for (_, x) in o.iter_mut() {
                    if x.is_array() {
                        *x = json!(b.clone());
                    }
                }
                v[key] = serde_json::Value::Object(o);
            }
        }
        if v.get("fcnt_up").map(|x| x.is_number()).unwrap_or(false) {
            let r = rng.next() as u32;
            v["fcnt_up"] = json!(*rng.pick(&[0u32, 1, 0xffff, 0x1_0000, 0xffff_fffe, 0xffff_ffff, r]));
        }
        // pending answers of every length 0..=15 (octets beyond the length are zero, as the
        // serialiser writes them), the owed-ACK flag, the ADR counter and "no downlink yet"
        if v.get("uplink").map(|u| u.is_object()).unwrap_or(false) {
            let len = (k % 16) as usize;
            let mut data = rng.bytes(len);
            data.resize(15, 0);
            v["uplink"]["pending_len"] = json!(len);
            v["uplink"]["pending_data"] = json!(data);
            v["uplink"]["confirmed"] = json!(rng.chance(1, 2));
        }
        // a document is a map: the order of its keys carries no meaning (a store that re-emits the
        // document, `serde_json::Value`, a sorted or a hashed map all reorder them). Every second
        // document has its keys in a random order at every level.
        let (doc, class) = if k % 2 == 0 { (v.to_string(), "well-formed-document-values") } else { (to_string_shuffled(&mut rng, &v), "well-formed-document-key-order") };
        let op = format!("C20 docrt {} {}", rng.pick(&REGIONS), hex(doc.as_bytes()));
        sink.case(&op, &eval(&op), class, true);
    }
    sink.finish(dir, "MAC histories with a serialise/deserialise round trip of the session after every event (restored session must equal the original in every field and the run must continue exactly like the model's unsaved twin), starting counters at 16/32-bit boundaries, pending answers up to 15 bytes; plus structurally mutated JSON documents (type changes, missing/duplicate/extra fields, pending_len 0..255, arrays of 14/15/16, huge numbers): rejected, or accepted and then exercised without panic; plus well-formed documents over the value space of keys (any octets), address, counters, pending answers of every length and the owed-ACK flag, half of them with the keys of every object in a random order: accepted and re-serialised to the same JSON value. Non-trivial = every case.", false, serde_json::json!({}));
}
