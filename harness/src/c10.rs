//! Suite C10 (stub — replaced when the property's harness is built).
#![allow(dead_code, unused_imports)]
use crate::util::*;

pub fn eval(_op: &str) -> String {
    "bad-op".into()
}

pub fn expand(_op: &str) -> Vec<String> {
    vec![]
}

pub fn run(_tier: &str, _seed: u64, dir: &str) {
    let sink = Sink::new(dir);
    sink.finish(dir, "stub", false, serde_json::json!({}));
}
