//! Suite C10: receive windows follow the regional parameters in force when the uplink was sent.
#![allow(dead_code, unused_imports)]
use crate::mac::*;
use crate::macgen::*;
use crate::macsuites::*;
use crate::oracle::num_default_channels;
use crate::util::*;

pub fn eval(op: &str) -> String {
    if op.split_whitespace().nth(1) == Some("nbdev") {
        return crate::adevgen::eval_nb(op, crate::adevgen::oracle_c10_nb);
    }
    if op.split_whitespace().nth(1) == Some("adev") {
        return crate::adevgen::eval(op, crate::adevgen::oracle_c10_dev);
    }
    let outs = run_history(op);
    format!("{} ## oracle={}", outs.join(" ; "), oracle_c09_c10(op, &outs, false, true))
}

pub fn expand(_op: &str) -> Vec<String> {
    vec![]
}

pub fn run(tier: &str, seed: u64, dir: &str) {
    let mut rng = Rng::new(seed);
    let mut sink = Sink::new(dir);
    let thorough = tier == "thorough";
    // every uplink data rate x RX1 offset (set through RXParamSetupReq) x RX2 override, per region
    for region in REGIONS {
        let (lo, _) = band(region);
        for dr in uplink_drs(region) {
            for off in 0..8u8 {
                for rx2 in [None, Some(0u8), Some(2), Some(8)] {
                    let mut h = Hist::new("C10", region, 20, 0, rng.next() & 0xffff, &[], None);
                    h.abp().ev(&format!("dr {}", dr)).send(1, false, &[1]);
                    let dls = (off << 4) | rx2.unwrap_or(15);
                    h.rx_auth("rx1", 0, 1, false, &rx_param_setup_req(dls, lo + 200_000), None, &[]);
                    h.snap().ev("delays").send(1, false, &[2]).timeout().snap();
                    let op = h.done();
                    sink.case(&op, &eval(&op), "dr-x-offset", true);
                }
            }
        }
        // every RxDelay
        for del in 0..16u8 {
            let mut h = Hist::new("C10", region, 20, 0, 5, &[], None);
            h.abp().send(1, false, &[1]).rx_auth("rx2", 0, 1, false, &rx_timing_setup_req(del), None, &[]).snap().ev("delays").send(1, false, &[2]).timeout();
            let op = h.done();
            sink.case(&op, &eval(&op), "rxdelay", true);
        }
        // DlChannelReq remaps (dynamic) / all 72 channels via forced draws (fixed)
        if is_fixed(region) {
            for ch in 0..72u32 {
                let mut h = Hist::new("C10", region, 20, 0, 5, &[ch, ch], None);
                h.abp().ev(&format!("dr {}", if ch >= 64 { if region == "US915" { 4 } else { 6 } } else { 0 })).snap().send(1, false, &[1]).timeout().snap();
                let op = h.done();
                sink.case(&op, &eval(&op), "fixed-channel", true);
            }
        } else {
            for idx in 0..4u8 {
                let mut h = Hist::new("C10", region, 20, 0, rng.next() & 0xff, &[], None);
                h.abp().send(1, false, &[1]).rx_auth("rx1", 0, 1, false, &dl_channel_req(idx, lo + 700_000), None, &[]).snap();
                for _ in 0..6 {
                    h.send(1, false, &[2]).timeout().snap();
                }
                let op = h.done();
                sink.case(&op, &eval(&op), "dlchannel-remap", true);
            }
            // sequences of DlChannelReq for one channel: the same frequency repeated (a network
            // repeats the request until it hears the answer), a change, and the channel's own
            // uplink frequency (drops the separate downlink frequency)
            let own = default_ch0(region);
            let (fa, fb) = (lo + 700_000, lo + 300_000);
            for seq in [vec![fa, fa], vec![fa, fa, fa], vec![fa, fb], vec![fa, own], vec![fa, own, fa], vec![own, fa, fa], vec![fa, fb, fb, fa]] {
                for idx in 0..num_default_channels(region) as u8 {
                    // channel `idx` is a default channel; its uplink frequency is `own` only for idx 0
                    let mut h = Hist::new("C10", region, 20, 0, rng.next() & 0xff, &[], None);
                    h.abp().send(1, false, &[1]);
                    for (k, f) in seq.iter().enumerate() {
                        let f = if *f == own && idx != 0 { fb + 100_000 } else { *f };
                        h.rx_auth(if k % 2 == 0 { "rx1" } else { "rx2" }, 0, 1, false, &dl_channel_req(idx, f), None, &[]).snap();
                        for _ in 0..3 {
                            h.send(1, false, &[2]).timeout().snap();
                        }
                        h.send(1, k % 2 == 1, &[3]);
                    }
                    h.timeout().snap();
                    let op = h.done();
                    sink.case(&op, &eval(&op), "dlchannel-sequence", true);
                }
            }
        }
        // NewChannelReq → DlChannelReq → NewChannelReq on one slot: the re-definition (another
        // frequency, or the same frequency with another data-rate range) drops the pairing; then
        // uplinks on a plan reduced to that channel so that RX1 is observed on it
        if !is_fixed(region) {
            let nd = num_default_channels(region) as u8;
            for (k, idx) in [nd, nd + 1, 15].into_iter().enumerate() {
                for same_freq in [false, true] {
                    let mut h = Hist::new("C10", region, 20, 0, rng.next() & 0xff, &[], None);
                    let f1 = lo + 900_000 + 200_000 * k as u32;
                    let f2 = if same_freq { f1 } else { f1 + 200_000 };
                    h.abp().send(1, false, &[1]);
                    h.rx_auth("rx1", 0, 1, false, &new_channel_req(idx, f1, 0x50), None, &[]).snap();
                    h.send(1, false, &[2]);
                    h.rx_auth("rx1", 0, 1, false, &dl_channel_req(idx, lo + 700_000), None, &[]).snap();
                    h.send(1, false, &[3]);
                    h.rx_auth("rx2", 0, 1, false, &new_channel_req(idx, f2, if same_freq { 0x30 } else { 0x50 }), None, &[]).snap();
                    h.send(1, false, &[4]);
                    h.rx_auth("rx1", 0, 1, false, &link_adr_req(15, 15, 1u16 << idx, 0, 1), None, &[]).snap();
                    for _ in 0..3 {
                        h.send(1, false, &[5]).timeout().snap();
                    }
                    let op = h.done();
                    sink.case(&op, &eval(&op), "newchannel-after-dlchannel", true);
                }
            }
        }
        // a re-join: the RX1 delay of the new session is the new JoinAccept's, whatever the previous
        // session had negotiated (JoinAccept RxDelay, RXTimingSetupReq)
        for (k, (d1, d2)) in [(5u8, 1u8), (5, 0), (15, 1), (2, 0), (0, 7), (3, 3)].into_iter().enumerate() {
            let mut h = Hist::new("C10", region, 20, 0, 700 + k as u64, &[], None);
            h.go_live();
            for (round, d) in [d1, d2].into_iter().enumerate() {
                h.ev("otaa");
                let devaddr = 0x0100_0000 + (rng.next() as u32 & 0xffffff);
                let root = h.root;
                let acc = build_join_accept(&root, devaddr, 0, d, &CfDesc::None);
                h.rx_bytes(if (k + round) % 2 == 0 { "rx1" } else { "rx2" }, 5, &acc, None);
                h.devaddr = devaddr;
                h.last_down = None;
                h.snap().ev("delays");
                if round == 0 && k % 2 == 1 {
                    // the first session also renegotiates by RXTimingSetupReq
                    h.send(1, false, &[1]).rx_auth("rx1", 0, 1, false, &rx_timing_setup_req(9), None, &[]).snap();
                }
                h.send(1, false, &[2]).timeout().snap();
            }
            let op = h.done();
            sink.case(&op, &eval(&op), "rejoin-rxdelay", true);
        }
        let n = if thorough { 1500 } else { 80 };
        for _ in 0..n {
            let mut o = Opts::default();
            o.steps = 6;
            o.snaps = true;
            let op = gen_history("C10", &mut rng, region, &o);
            sink.case(&op, &eval(&op), "random-history", true);
        }
    }
    // device level: what the async front-end asks of timer and radio
    for region in REGIONS {
        for del in [0u8, 1, 2, 7, 15] {
            for (lead, txms, cc) in [(0u32, 57u32, false), (15, 57, false), (15, 1200, true), (100, 0, true)] {
                let mut h = crate::adevgen::AHist::new("C10", region, rng.next() & 0xffff, lead, 37, cc, txms);
                h.abp();
                let item = h.auth_item(0, 1, false, &rx_timing_setup_req(del), None, &[]);
                let script: Vec<String> = if cc { vec!["O".into(), "O".into(), "O".into(), "O".into(), item] } else { vec!["O".into(), "O".into(), "O".into(), item] };
                h.asend(1, false, &[1], &script).ev("snap").asend(1, false, &[2], &[]).ev("snap");
                let op = h.done();
                sink.case(&op, &eval(&op), "device-timing", true);
            }
        }
        for _ in 0..(if thorough { 300 } else { 25 }) {
            let op = crate::adevgen::gen_nb_random_history("C10", region, &mut rng);
            sink.case(&op, &eval(&op), "nb-timing", true);
        }
        for i in 0..(if thorough { 300 } else { 20 }) {
            let op = crate::adevgen::gen_join_history("C10", region, &mut rng, i % 2 == 0);
            sink.case(&op, &eval(&op), "device-join-timing", true);
        }
    }
    sink.finish(dir, "device level (async front-end): timer and radio requests for RxDelay {0,1,2,7,15} x lead {0,15,100} x tx time x Class A/C, and OTAA joins: RX1 timer = delay + tx_ms - lead, RX2 one second later (join 5 s/6 s), window buffer, Class C continuous reception on the RX2 frequency. MAC level, per region: every uplink data rate x RX1 offset 0..7 x RX2 override (set by RXParamSetupReq), every RxDelay 0..15, all 72 fixed-plan channels by forced draws, DlChannelReq remaps, random histories incl. joins; each uplink's RX1/RX2 RfConfig and the delays are judged against RP002 closed forms using the snapshot taken before the uplink. Non-trivial = every case.", false, serde_json::json!({}));
}
