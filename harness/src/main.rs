//! lvharness: drives the REAL lora-rs code.
//!   lvharness gen <suite> <tier> <seed> <outdir>   generate cases: ops.txt (requests for the Lean
//!        driver), impl.txt (what the implementation answered), meta.json (coverage statistics)
//!   lvharness eval <opsfile>                        answer each op line of a file (replay / bisection)
//!   lvharness expand <opsfile>                      expand digest ops into their individual cases
mod c01;
mod c02;
mod c03;
mod c04;
mod c05;
mod c06;
mod c07;
mod c08;
mod c09;
mod c10;
mod c11;
mod c12;
mod c13;
mod c13b;
mod c14;
mod c15;
mod c16;
mod c17;
mod c18;
mod c19;
mod c20;
mod adev;
mod adevgen;
mod mac;
mod nbdev;
mod oracle;
mod refcodec;
mod macgen;
mod macsuites;
mod fakechip;
mod util;

fn eval(op: &str) -> String {
    let suite = op.split_whitespace().next().unwrap_or("");
    match suite {
        "C01" => c01::eval(op),
        "C02" => c02::eval(op),
        "C03" => c03::eval(op),
        "C04" => c04::eval(op),
        "C05" => c05::eval(op),
        "C06" => c06::eval(op),
        "C07" => c07::eval(op),
        "C08" => c08::eval(op),
        "C09" => c09::eval(op),
        "C10" => c10::eval(op),
        "C11" => c11::eval(op),
        "C12" => c12::eval(op),
        "C13" => c13::eval(op),
        "C14" => c14::eval(op),
        "C15" => c15::eval(op),
        "C16" => c16::eval(op),
        "C17" => c17::eval(op),
        "C18" => c18::eval(op),
        "C19" => c19::eval(op),
        "C20" => c20::eval(op),
        _ => "bad-op".into(),
    }
}

fn expand(op: &str) -> Vec<String> {
    let suite = op.split_whitespace().next().unwrap_or("");
    match suite {
        "C01" => c01::expand(op),
        "C02" => c02::expand(op),
        "C03" => c03::expand(op),
        "C04" => c04::expand(op),
        "C05" => c05::expand(op),
        "C06" => c06::expand(op),
        "C07" => c07::expand(op),
        "C08" => c08::expand(op),
        "C09" => c09::expand(op),
        "C10" => c10::expand(op),
        "C11" => c11::expand(op),
        "C12" => c12::expand(op),
        "C13" => c13::expand(op),
        "C14" => c14::expand(op),
        "C15" => c15::expand(op),
        "C16" => c16::expand(op),
        "C17" => c17::expand(op),
        "C18" => c18::expand(op),
        "C19" => c19::expand(op),
        "C20" => c20::expand(op),
        _ => vec![],
    }
}

fn run_suite(suite: &str, tier: &str, seed: u64, dir: &str) -> bool {
    match suite {
        "C01" => c01::run(tier, seed, dir),
        "C02" => c02::run(tier, seed, dir),
        "C03" => c03::run(tier, seed, dir),
        "C04" => c04::run(tier, seed, dir),
        "C05" => c05::run(tier, seed, dir),
        "C06" => c06::run(tier, seed, dir),
        "C07" => c07::run(tier, seed, dir),
        "C08" => c08::run(tier, seed, dir),
        "C09" => c09::run(tier, seed, dir),
        "C10" => c10::run(tier, seed, dir),
        "C11" => c11::run(tier, seed, dir),
        "C12" => c12::run(tier, seed, dir),
        "C13" => c13::run(tier, seed, dir),
        "C14" => c14::run(tier, seed, dir),
        "C15" => c15::run(tier, seed, dir),
        "C16" => c16::run(tier, seed, dir),
        "C17" => c17::run(tier, seed, dir),
        "C18" => c18::run(tier, seed, dir),
        "C19" => c19::run(tier, seed, dir),
        "C20" => c20::run(tier, seed, dir),
        _ => return false,
    }
    true
}

/// The MAC-level suites share one op-line grammar (`mac` / `adev` / `nbdev` histories).  The special
/// classes one suite's generator builds (corpora, sweeps, boundary scenarios) are relevant to the
/// sibling properties as well: after its own cases a MAC suite replays a sample of its siblings'
/// histories under ITS OWN oracle.  (A change that breaks property X is then reported by X's check
/// even when the scenario that exposes it was written for property Y.)
fn import_siblings(suite: &str, tier: &str, seed: u64, dir: &str) {
    const MAC: [&str; 10] = ["C04", "C05", "C06", "C07", "C08", "C09", "C10", "C11", "C12", "C20"];
    // C05's own ops are mostly counter-arithmetic digests and C07's carry starred twin events
    const SOURCES: [&str; 8] = ["C04", "C06", "C08", "C09", "C10", "C11", "C12", "C20"];
    if !MAC.contains(&suite) || std::env::var("LV_NO_SIBLINGS").is_ok() {
        return;
    }
    use std::io::Write;
    let per_sibling: usize = if tier == "thorough" { 2500 } else { 350 };
    let mut ops_f = std::fs::OpenOptions::new().append(true).open(format!("{}/ops.txt", dir)).unwrap();
    let mut imp_f = std::fs::OpenOptions::new().append(true).open(format!("{}/impl.txt", dir)).unwrap();
    let mut meta: serde_json::Value = serde_json::from_str(&std::fs::read_to_string(format!("{}/meta.json", dir)).unwrap()).unwrap();
    let mut added_total: u64 = 0;
    for sib in SOURCES {
        if sib == suite {
            continue;
        }
        let tmp = format!("{}/_sib_{}", dir, sib);
        std::env::set_var("LV_NO_SIBLINGS", "1");
        run_suite(sib, "quick", seed.wrapping_add(17), &tmp);
        let lines: Vec<String> = std::fs::read_to_string(format!("{}/ops.txt", tmp))
            .unwrap_or_default()
            .lines()
            .filter(|l| matches!(l.split_whitespace().nth(1), Some("mac") | Some("adev") | Some("nbdev")))
            // C12's overrides to downlink-only data rates are outside the other properties' quantifiers
            // (C09 judges every transmission against the uplink rates of RP002)
            .filter(|l| ![" ; dr 8 ;", " ; dr 9 ;", " ; dr 10 ;", " ; dr 11 ;", " ; dr 12 ;", " ; dr 13 ;"].iter().any(|p| l.contains(p)))
            .map(|l| format!("{}{}", suite, &l[sib.len()..]))
            .collect();
        let _ = std::fs::remove_dir_all(&tmp);
        let step = (lines.len() / per_sibling).max(1);
        let mut n: u64 = 0;
        for l in lines.iter().step_by(step) {
            let a = eval(l);
            writeln!(ops_f, "{}", l).unwrap();
            writeln!(imp_f, "{}", a).unwrap();
            n += 1;
        }
        meta["histogram"][format!("sibling-corpus-{}", sib)] = serde_json::json!(n);
        added_total += n;
    }
    meta["evaluations"] = serde_json::json!(meta["evaluations"].as_u64().unwrap_or(0) + added_total);
    meta["distinct_nontrivial"] = serde_json::json!(meta["distinct_nontrivial"].as_u64().unwrap_or(0) + added_total);
    let rule = format!(
        "{} Plus a sample of the sibling MAC suites' histories (their corpora, sweeps and boundary scenarios, op lines re-labelled) judged by this suite's own oracle and compared with the model (classes sibling-corpus-*).",
        meta["rule"].as_str().unwrap_or("")
    );
    meta["rule"] = serde_json::json!(rule);
    std::fs::write(format!("{}/meta.json", dir), serde_json::to_string_pretty(&meta).unwrap()).unwrap();
}

fn main() {
    let a: Vec<String> = std::env::args().collect();
    util::silence_panics();
    match a.get(1).map(|s| s.as_str()) {
        Some("gen") if a.len() >= 6 => {
            let (suite, tier, seed, dir) = (a[2].as_str(), a[3].as_str(), a[4].parse::<u64>().unwrap_or(0), a[5].as_str());
            if !run_suite(suite, tier, seed, dir) {
                eprintln!("unknown suite {}", suite);
                std::process::exit(64);
            }
            import_siblings(suite, tier, seed, dir);
        }
        Some("eval") if a.len() >= 3 => {
            for line in std::fs::read_to_string(&a[2]).unwrap().lines() {
                println!("{}", eval(line));
            }
        }
        Some("expand") if a.len() >= 3 => {
            for line in std::fs::read_to_string(&a[2]).unwrap().lines() {
                for l in expand(line) {
                    println!("{}", l);
                }
            }
        }
        _ => {
            eprintln!("usage: lvharness gen <suite> <tier> <seed> <outdir> | eval <opsfile> | expand <opsfile>");
            std::process::exit(64);
        }
    }
}
