//! lvharness: drives the REAL lora-rs code.
//!   lvharness gen <suite> <tier> <seed> <outdir>   generate cases: ops.txt (requests for the Lean
//!        driver), impl.txt (what the implementation answered), meta.json (coverage statistics)
//!   lvharness eval <opsfile>                        answer each op line of a file (replay / bisection)
//!   lvharness expand <opsfile>                      expand digest ops into their individual cases
mod c16;
mod util;

fn eval(op: &str) -> String {
    let suite = op.split_whitespace().next().unwrap_or("");
    match suite {
        "C16" => c16::eval(op),
        _ => "bad-op".into(),
    }
}

fn expand(op: &str) -> Vec<String> {
    let suite = op.split_whitespace().next().unwrap_or("");
    match suite {
        "C16" => c16::expand(op),
        _ => vec![],
    }
}

fn main() {
    let a: Vec<String> = std::env::args().collect();
    util::silence_panics();
    match a.get(1).map(|s| s.as_str()) {
        Some("gen") if a.len() >= 6 => {
            let (suite, tier, seed, dir) = (a[2].as_str(), a[3].as_str(), a[4].parse::<u64>().unwrap_or(0), a[5].as_str());
            match suite {
                "C16" => c16::run(tier, seed, dir),
                _ => {
                    eprintln!("unknown suite {}", suite);
                    std::process::exit(64);
                }
            }
        }
        Some("eval") if a.len() >= 3 => {
            for line in std::fs::read_to_string(&a[2]).unwrap().lines() {
                println!("{}", eval(line));
            }
        }
        Some("expand") if a.len() >= 3 => {
            for line in std::fs::read_to_string(&a[2]).unwrap().lines() {
                for l in expand(line) {
                    println!("{}", l);
                }
            }
        }
        _ => {
            eprintln!("usage: lvharness gen <suite> <tier> <seed> <outdir> | eval <opsfile> | expand <opsfile>");
            std::process::exit(64);
        }
    }
}
