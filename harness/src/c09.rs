//! Suite C09: every transmission uses an enabled in-band channel, a legal data rate and power.
#![allow(dead_code, unused_imports)]
use crate::mac::*;
use crate::macgen::*;
use crate::macsuites::*;
use crate::util::*;

pub fn eval(op: &str) -> String {
    if let Some(r) = crate::adevgen::eval_dev_any(op) {
        return r;
    }
    let outs = run_history(op);
    let mut v = oracle_c09_c10(op, &outs, true, false);
    if v == "ok" {
        // "a channel that is currently enabled": the mask itself must be the one the network's
        // LinkADRReq blocks produced (the block tracker of the C08 oracle)
        let b = crate::c08::oracle(op, &outs);
        if b.starts_with("FAIL:linkadr-blocks-mask") {
            v = b;
        }
    }
    format!("{} ## oracle={}", outs.join(" ; "), v)
}

pub fn expand(_op: &str) -> Vec<String> {
    vec![]
}

pub fn run(tier: &str, seed: u64, dir: &str) {
    let mut rng = Rng::new(seed);
    let mut sink = Sink::new(dir);
    let thorough = tier == "thorough";
    let per_region = if thorough { 3000 } else { 170 };
    for region in REGIONS {
        for i in 0..per_region {
            let mut o = Opts::default();
            o.steps = 5 + rng.below(10) as usize;
            o.otaa_pct = 40;
            o.snaps = true;
            o.rejected = i % 4 == 0;
            let op = gen_history("C09", &mut rng, region, &o);
            sink.case(&op, &eval(&op), "plan-history", true);
        }
        // every outcome of the first channel draw for a fixed state (the harness owns the RNG)
        for forced in 0..(if thorough { 64u32 } else { 16 }) {
            let mut h = Hist::new("C09", region, 20, 2, 99, &[forced, forced.wrapping_mul(2654435761)], None);
            h.abp().snap().send(1, false, &[1]).timeout().snap();
            let op = h.done();
            sink.case(&op, &eval(&op), "forced-draws", true);
        }
        // fixed plans: a mask that offers channels of one bandwidth only, then a data rate of the
        // other bandwidth (set by the application; ADR back-off does the same): the selection must
        // still terminate on a channel of the data rate's bandwidth
        if is_fixed(region) {
            let dr500 = if region == "US915" { 4u8 } else { 6 };
            for m500 in [0x0001u16, 0x0002, 0x0080, 0x00ff, 0x0081] {
                let mut h = Hist::new("C09", region, 20, 0, 4000 + m500 as u64, &[], None);
                h.abp().send(1, false, &[1]);
                // ChMaskCntl 7: all 125 kHz channels off, ChMask selects the 500 kHz channels
                h.rx_auth("rx1", 0, 1, false, &link_adr_req(dr500, 15, m500, 7, 1), None, &[]).snap();
                h.send(1, false, &[2]).timeout().snap();
                h.ev("dr 0").snap();
                for _ in 0..3 {
                    h.send(1, false, &[3]).timeout().snap();
                }
                let op = h.done();
                sink.case(&op, &eval(&op), "bandwidth-mismatch", true);
            }
            for m125 in [0x0003u16, 0x8001, 0xffff] {
                let mut h = Hist::new("C09", region, 20, 0, 4100 + m125 as u64, &[], None);
                h.abp().send(1, false, &[1]);
                // ChMaskCntl 0 with the 500 kHz bank switched off first (cntl 4, mask 0)
                let mut cmds = link_adr_req(15, 15, 0, 4, 1);
                cmds.extend_from_slice(&link_adr_req(0, 15, m125, 0, 1));
                h.rx_auth("rx1", 0, 1, false, &cmds, None, &[]).snap();
                h.send(1, false, &[2]).timeout().snap();
                h.ev(&format!("dr {}", dr500)).snap();
                for _ in 0..3 {
                    h.send(1, false, &[3]).timeout().snap();
                }
                let op = h.done();
                sink.case(&op, &eval(&op), "bandwidth-mismatch", true);
            }
        }
        // every TXPower index commanded by LinkADRReq, then uplinks: the power handed to the radio
        // never exceeds the commanded level
        for idx in 0..16u8 {
            for (mp, gain) in [(30u8, 0i8), (20, 2)] {
                let mut h = Hist::new("C09", region, mp, gain, 3000 + idx as u64, &[], None);
                h.abp().send(1, false, &[1]);
                let cmd = if is_fixed(region) { link_adr_req(15, idx, 0x00ff, 6, 1) } else { link_adr_req(15, idx, 0x0007, 0, 1) };
                h.rx_auth("rx1", 0, 1, false, &cmd, None, &[]).snap();
                for _ in 0..2 {
                    h.send(1, false, &[2]).timeout().snap();
                }
                let op = h.done();
                sink.case(&op, &eval(&op), "txpower-sweep", true);
            }
        }
        // a plan whose only enabled channel is slot k, for every k (dynamic plans), and a plan whose
        // only enabled channel is c for a spread of c (fixed plans): the selection must find it
        if !is_fixed(region) {
            let (lo, _) = band(region);
            for k in crate::oracle::num_default_channels(region) as u8..16 {
                let mut h = Hist::new("C09", region, 20, 0, 1000 + k as u64, &[], None);
                h.abp().send(1, false, &[1]);
                h.rx_auth("rx1", 0, 1, false, &new_channel_req(k, lo + 100_000 * (k as u32 + 1), 0x50), None, &[]).snap();
                h.send(1, false, &[2]);
                h.rx_auth("rx1", 0, 1, false, &link_adr_req(15, 15, 1u16 << k, 0, 1), None, &[]).snap();
                for _ in 0..3 {
                    h.send(1, false, &[3]).timeout().snap();
                }
                let op = h.done();
                sink.case(&op, &eval(&op), "single-enabled-slot", true);
            }
        } else {
            for c in (0..64u32).step_by(if thorough { 1 } else { 7 }) {
                let mut h = Hist::new("C09", region, 20, 0, 2000 + c as u64, &[], None);
                h.abp().send(1, false, &[1]);
                // ChMaskCntl 7: all 125 kHz channels off, then one bank with a single bit
                let mut cmds = link_adr_req(15, 15, 0, 7, 1);
                // (the fixed plans require at least two 125 kHz channels)
                let two = (1u16 << (c % 16)) | (1u16 << ((c + 1) % 16));
                cmds.extend_from_slice(&link_adr_req(15, 15, two, (c / 16) as u8, 1));
                h.rx_auth("rx1", 0, 1, false, &cmds, None, &[]).snap();
                for _ in 0..3 {
                    h.send(1, false, &[3]).timeout().snap();
                }
                let op = h.done();
                sink.case(&op, &eval(&op), "two-enabled-channels", true);
            }
        }
    }
    // a re-join whose CFList marks as unused (0) channels the previous session's CFList had defined,
    // at the end and in the middle of the list: afterwards only the default channels and the new
    // list's channels are transmitted on
    for region in REGIONS {
        if is_fixed(region) {
            continue;
        }
        let (lo, _hi) = band(region);
        let f = |k: u32| lo + 1_000_000 + 200_000 * k;
        for (k, second) in [[f(0), f(1), 0, 0, 0], [f(0), 0, f(2), 0, 0], [0, 0, 0, 0, f(4)], [0, 0, 0, 0, 0]].into_iter().enumerate() {
            let mut h = Hist::new("C09", region, 20, 0, 900 + k as u64, &[], None);
            h.go_live();
            for (round, list) in [[f(0), f(1), f(2), f(3), f(4)], second].into_iter().enumerate() {
                h.ev("otaa");
                let devaddr = 0x0100_0000 + (rng.next() as u32 & 0xffffff);
                let root = h.root;
                let acc = build_join_accept(&root, devaddr, 0, 1, &CfDesc::Dynamic(list));
                h.rx_bytes(if (k + round) % 2 == 0 { "rx1" } else { "rx2" }, 5, &acc, None);
                h.devaddr = devaddr;
                h.last_down = None;
                h.snap();
                for _ in 0..(if round == 0 { 3 } else { 10 }) {
                    h.send(1, false, &[2]).timeout().snap();
                }
            }
            let op = h.done();
            sink.case(&op, &eval(&op), "cflist-rejoin", true);
        }
    }
    // long runs of unanswered join attempts: every JoinRequest of the walk must be on a join channel
    for region in REGIONS {
        for k in 0..(if thorough { 20 } else { if is_fixed(region) { 5 } else { 1 } }) {
            let op = join_walk("C09", &mut rng, region, k);
            sink.case(&op, &eval(&op), "join-walk", true);
        }
    }
    // dynamic plans: masks that name no defined channel after a removal (NewChannelReq / CFList): the
    // uplinks that follow must use defined, enabled channels
    for region in REGIONS {
        if is_fixed(region) {
            continue;
        }
        for k in 0..(if thorough { 30 } else { 6 }) {
            let op = stale_mask_history("C09", &mut rng, region, k % 3);
            sink.case(&op, &eval(&op), "stale-mask", true);
        }
    }
    // two LinkADRReq blocks in one downlink, the first rejected after widening the mask
    for region in REGIONS {
        for k in 0..(if thorough { 24 } else { 6 }) {
            let op = two_blocks_history("C09", &mut rng, region, k);
            sink.case(&op, &eval(&op), "linkadr-two-blocks", true);
        }
    }
    // device level: both front-ends with the scripted radio (see adevgen::add_dev_classes)
    crate::adevgen::add_dev_classes("C09", &mut rng, &mut sink, thorough, eval);
    sink.finish(dir, "MAC histories with OTAA joins (CFLists), LinkADRReq / NewChannelReq / DlChannelReq downlinks, ADR back-off, application data-rate changes, join bias, antenna gains {0,2,-3,6} and board powers {2,14,20,30}; a state snapshot follows every step so that each TxConfig is judged against the plan in force; forced RNG draws enumerate channel choices of the initial state; plans reduced to a single enabled slot at every index. Non-trivial = every case.", false, serde_json::json!({}));
}
