//! C18: `get_rx_payload` of the real SX126x / SX127x drivers over the fake chips, the real
//! `RadioBuffer` (lorawan-device/src/radio.rs, compiled into this crate by path because it is
//! `pub(crate)` there) and the real `LorawanRadio::rx_single` adapter.
//!
//! Op lines (answers are compared with `lean/Driver/C18.lean`):
//!   C18 rx <126|127> <status> <len> <off> <alt> <bufsize> <implicit> <fault|-> <seed>
//!        status  SX126x status byte of GetRxBufferStatus (ignored by the SX127x)
//!        len     PayloadLengthRx / RegRxNbBytes          off  RxStartBufferPointer / RegFifoRxCurrentAddr
//!        alt     SX126x: register 0x0702 (payload length the chip was configured with);
//!                SX127x: PacketParams.payload_length     (both only used in implicit-header mode)
//!        answer  `<result> <caller buffer afterwards> <canary-ok|canary-SMASHED>`
//!   C18 rxp …same arguments…      SX127x only: RegFifoAddrPtr the chip is left with
//!   C18 rx_digest <chip> <status> <bufsize> <implicit> <seed>   FNV digest over a=0..255 × off=0..255
//!        (explicit header: len=a, alt=a^0x5a; implicit: alt=a, len=a^0x5a)
//!   C18 rb <N> <pos>              RadioBuffer<N>: set_pos(pos); as_mut_for_read / as_ref_for_read lengths
//!   C18 rbext <N> <pos> <len>     RadioBuffer<N>: set_pos(pos); extend_from_slice(len bytes)
//!   C18 adapter <126|127> <len> <off> <seed>   LorawanRadio::rx_single into RadioBuffer<256>.as_mut(),
//!        then set_pos(n) and as_mut_for_read(): the bytes the MAC gets
use crate::fakechip::*;
use crate::util::*;
use lora_phy::mod_params::{PacketParams, RadioError};
use lora_phy::mod_traits::RadioKind;
use lora_phy::{sx126x, sx127x};
use std::panic::AssertUnwindSafe;

#[allow(dead_code, unused_imports, unexpected_cfgs)]
#[path = "../../repo-link/lorawan-device/src/radio.rs"]
mod radio_src;
use radio_src::RadioBuffer;

pub const BUF_SIZES: [usize; 6] = [0, 1, 12, 64, 255, 256];

pub fn chip_byte(seed: u64, i: usize) -> u8 {
    ((seed as usize + 31 * i) % 256) as u8
}
pub fn caller_byte(i: usize) -> u8 {
    ((0xC3 + 5 * i) % 256) as u8
}
fn canary_byte(i: usize) -> u8 {
    (0x5A ^ (i * 3)) as u8
}

#[derive(Clone, Copy)]
struct Case {
    chip: u32,
    status: u8,
    len: u8,
    off: u8,
    alt: u8,
    bufsize: usize,
    implicit: bool,
    fault: Option<usize>,
    seed: u64,
}

enum Out {
    Ok(u8),
    Err(RadioError),
    Panic,
}

struct Obs {
    out: Out,
    buf: Vec<u8>,
    canary_ok: bool,
    ptr: u8,
}

fn mk126(w: &Shared) -> sx126x::Sx126x<FakeSpi, FakeIv, sx126x::Sx1262> {
    sx126x::Sx126x::new(
        FakeSpi(w.clone()),
        FakeIv(w.clone()),
        sx126x::Config { chip: sx126x::Sx1262, tcxo_ctrl: None, use_dcdc: true, rx_boost: false },
    )
}

fn mk127(w: &Shared) -> sx127x::Sx127x<FakeSpi, FakeIv, sx127x::Sx1276> {
    sx127x::Sx127x::new(
        FakeSpi(w.clone()),
        FakeIv(w.clone()),
        sx127x::Config { chip: sx127x::Sx1276, tcxo_used: false, tx_boost: true, rx_boost: false },
    )
}

fn setup_world(c: &Case) -> Shared {
    let w = World::new(if c.chip == 126 { Kind::Sx126x } else { Kind::Sx127x });
    {
        let mut m = w.borrow_mut();
        m.log_on = false;
        for i in 0..256 {
            m.buffer[i] = chip_byte(c.seed, i);
        }
        m.fault = c.fault;
        if c.chip == 126 {
            m.status = c.status;
            m.rx_len = c.len;
            m.rx_start = c.off;
            m.regs[0x0702] = c.alt;
        } else {
            m.regs[0x13] = c.len;
            m.regs[0x10] = c.off;
            m.fifo_ptr = 0x77; // wherever the previous operation left it
        }
    }
    w
}

fn observe(c: &Case) -> Obs {
    const PAD: usize = 16;
    let mut outer: Vec<u8> = (0..c.bufsize + 2 * PAD).map(canary_byte).collect();
    for i in 0..c.bufsize {
        outer[PAD + i] = caller_byte(i);
    }
    let w = setup_world(c);
    let params = PacketParams {
        preamble_length: 8,
        implicit_header: c.implicit,
        payload_length: if c.chip == 126 { 0x3C } else { c.alt },
        crc_on: true,
        iq_inverted: true,
    };
    let res = {
        let slice = &mut outer[PAD..PAD + c.bufsize];
        guarded(AssertUnwindSafe(|| {
            if c.chip == 126 {
                let mut rk = mk126(&w);
                block_on(rk.get_rx_payload(&params, slice))
            } else {
                let mut rk = mk127(&w);
                block_on(rk.get_rx_payload(&params, slice))
            }
        }))
    };
    let canary_ok = (0..PAD).all(|i| outer[i] == canary_byte(i))
        && (PAD + c.bufsize..c.bufsize + 2 * PAD).all(|i| outer[i] == canary_byte(i));
    let ptr = w.borrow().fifo_ptr;
    Obs {
        out: match res {
            None => Out::Panic,
            Some(Ok(n)) => Out::Ok(n),
            Some(Err(e)) => Out::Err(e),
        },
        buf: outer[PAD..PAD + c.bufsize].to_vec(),
        canary_ok,
        ptr,
    }
}

/// The same fetch through the public `LoRa` API: prepare a reception with the case's header mode and
/// configured length, start it, let the chip report RxDone with the case's length/offset, then fetch
/// with `complete_rx` (entry 0) or `get_rx_result` (entry 1). The answer must be the driver's.
fn observe_lora(c: &Case, entry: u8) -> Obs {
    use lora_modulation::{Bandwidth, CodingRate, SpreadingFactor};
    use lora_phy::RxMode;
    const PAD: usize = 16;
    let mut outer: Vec<u8> = (0..c.bufsize + 2 * PAD).map(canary_byte).collect();
    for i in 0..c.bufsize {
        outer[PAD + i] = caller_byte(i);
    }
    let w = World::new(if c.chip == 126 { Kind::Sx126x } else { Kind::Sx127x });
    w.borrow_mut().log_on = false;
    let arm = |w: &Shared| {
        let mut m = w.borrow_mut();
        for i in 0..256 {
            m.buffer[i] = chip_byte(c.seed, i);
        }
        if c.chip == 126 {
            m.status = c.status;
            m.rx_len = c.len;
            m.rx_start = c.off;
            m.regs[0x0702] = c.alt;
            m.irq_default = 0x0002; // RxDone
        } else {
            m.regs[0x13] = c.len;
            m.regs[0x10] = c.off;
            m.irq_default = 0x40; // RxDone
        }
    };
    macro_rules! go {
        ($rk:expr) => {{
            let slice = &mut outer[PAD..PAD + c.bufsize];
            guarded(AssertUnwindSafe(|| {
                let mut lora = block_on(lora_phy::LoRa::new($rk, true, FakeDelay(w.clone()))).unwrap();
                let mdl = lora.create_modulation_params(SpreadingFactor::_7, Bandwidth::_125KHz, CodingRate::_4_5, 868_100_000).unwrap();
                let pkt = lora.create_rx_packet_params(8, c.implicit, c.alt, true, true, &mdl).unwrap();
                block_on(lora.prepare_for_rx(RxMode::Single(100), &mdl, &pkt)).unwrap();
                block_on(lora.start_rx()).unwrap();
                arm(&w);
                if entry == 0 {
                    block_on(lora.complete_rx(&pkt, slice)).map(|(n, _)| n)
                } else {
                    block_on(lora.get_rx_result(&pkt, slice)).map(|(n, _)| n)
                }
            }))
        }};
    }
    let res = if c.chip == 126 { go!(mk126(&w)) } else { go!(mk127(&w)) };
    let canary_ok = (0..PAD).all(|i| outer[i] == canary_byte(i))
        && (PAD + c.bufsize..c.bufsize + 2 * PAD).all(|i| outer[i] == canary_byte(i));
    let ptr = w.borrow().fifo_ptr;
    Obs {
        out: match res {
            None => Out::Panic,
            Some(Ok(n)) => Out::Ok(n),
            Some(Err(e)) => Out::Err(e),
        },
        buf: outer[PAD..PAD + c.bufsize].to_vec(),
        canary_ok,
        ptr,
    }
}

fn show_out(o: &Out) -> String {
    match o {
        Out::Ok(n) => format!("ok:{}", n),
        Out::Err(e) => format!("err:{:?}", e),
        Out::Panic => "PANIC".into(),
    }
}

fn code_of(o: &Out) -> u64 {
    match o {
        Out::Ok(n) => *n as u64,
        Out::Err(RadioError::OpError(s)) => 0x1000 + *s as u64,
        Out::Err(RadioError::PayloadSizeMismatch(n, _)) => 0x2000 + *n as u64,
        Out::Err(RadioError::SPI) => 0x3000,
        Out::Err(RadioError::Busy) => 0x3001,
        Out::Err(_) => 0x3fff,
        Out::Panic => u64::MAX,
    }
}

fn parse_case(w: &[&str]) -> Option<Case> {
    if w.len() != 9 {
        return None;
    }
    Some(Case {
        chip: w[0].parse().ok().filter(|c| *c == 126 || *c == 127)?,
        status: w[1].parse().ok()?,
        len: w[2].parse().ok()?,
        off: w[3].parse().ok()?,
        alt: w[4].parse().ok()?,
        bufsize: w[5].parse().ok().filter(|b| *b <= 4096)?,
        implicit: w[6].parse::<u8>().ok()? != 0,
        fault: if w[7] == "-" { None } else { Some(w[7].parse().ok()?) },
        seed: w[8].parse().ok()?,
    })
}

fn case_op(kind: &str, c: &Case) -> String {
    format!(
        "C18 {} {} {} {} {} {} {} {} {} {}",
        kind,
        c.chip,
        c.status,
        c.len,
        c.off,
        c.alt,
        c.bufsize,
        c.implicit as u8,
        c.fault.map(|f| f.to_string()).unwrap_or("-".into()),
        c.seed
    )
}

fn digest_cases(chip: u32, status: u8, bufsize: usize, implicit: bool, seed: u64) -> Vec<Case> {
    let mut v = Vec::with_capacity(65536);
    for a in 0..=255u8 {
        for off in 0..=255u8 {
            let (len, alt) = if implicit { (a ^ 0x5a, a) } else { (a, a ^ 0x5a) };
            v.push(Case { chip, status, len, off, alt, bufsize, implicit, fault: None, seed });
        }
    }
    v
}

fn rb_case<const N: usize>(pos: usize) -> String {
    match guarded(move || {
        let mut b: RadioBuffer<N> = RadioBuffer::new();
        b.set_pos(pos);
        let m = b.as_mut_for_read().len();
        let r = b.as_ref_for_read().len();
        (m, r, b.as_mut().len())
    }) {
        Some((m, r, n)) => format!("ok:{},{},{}", m, r, n),
        None => "PANIC".into(),
    }
}

fn rbext_case<const N: usize>(pos: usize, len: usize) -> String {
    match guarded(move || {
        let mut b: RadioBuffer<N> = RadioBuffer::new();
        for (i, x) in b.as_mut().iter_mut().enumerate() {
            *x = caller_byte(i);
        }
        b.set_pos(pos);
        let src: Vec<u8> = (0..len).map(|i| chip_byte(7, i)).collect();
        match b.extend_from_slice(&src) {
            Ok(()) => format!("ok:{} {}", b.as_ref_for_read().len(), hex(b.as_ref())),
            Err(()) => format!("full {}", hex(b.as_ref())),
        }
    }) {
        Some(s) => s,
        None => "PANIC".into(),
    }
}

fn adapter(chip: u32, len: u8, off: u8, seed: u64, continuous: bool) -> String {
    use lora_modulation::{Bandwidth, BaseBandModulationParams, CodingRate, SpreadingFactor};
    use lora_phy::lorawan_radio::LorawanRadio;
    use lorawan_device::async_device::radio::{PhyRxTx, RfConfig, RxConfig, RxMode, RxStatus};
    let r = guarded(AssertUnwindSafe(|| {
        let w = World::new(if chip == 126 { Kind::Sx126x } else { Kind::Sx127x });
        w.borrow_mut().log_on = false;
        let cfg = RxConfig {
            rf: RfConfig {
                frequency: 868_100_000,
                bb: BaseBandModulationParams::new(SpreadingFactor::_7, Bandwidth::_125KHz, CodingRate::_4_5),
                max_payload_len: 255,
            },
            mode: if continuous { RxMode::Continuous } else { RxMode::Single { ms: 0 } },
        };
        let arm = |w: &Shared| {
            let mut m = w.borrow_mut();
            for i in 0..256 {
                m.buffer[i] = chip_byte(seed, i);
            }
            if chip == 126 {
                m.rx_len = len;
                m.rx_start = off;
                m.irq_default = 0x0002; // RxDone
            } else {
                m.regs[0x13] = len;
                m.regs[0x10] = off;
                m.irq_default = 0x40; // RxDone
            }
        };
        let mut rb: RadioBuffer<256> = RadioBuffer::new();
        // the caller's buffer holds something already (the tail of an earlier, longer frame)
        for (i, b) in rb.as_mut().iter_mut().enumerate() {
            *b = caller_byte(i);
        }
        let res = if chip == 126 {
            let lora = block_on(lora_phy::LoRa::new(mk126(&w), true, FakeDelay(w.clone()))).unwrap();
            let mut radio: LorawanRadio<_, _, 22> = lora.into();
            block_on(radio.setup_rx(cfg)).unwrap();
            arm(&w);
            if continuous {
                block_on(radio.rx_continuous(rb.as_mut())).map(|(n, q)| RxStatus::Rx(n, q)).map_err(|_| ())
            } else {
                block_on(radio.rx_single(rb.as_mut())).map_err(|_| ())
            }
        } else {
            let lora = block_on(lora_phy::LoRa::new(mk127(&w), true, FakeDelay(w.clone()))).unwrap();
            let mut radio: LorawanRadio<_, _, 20> = lora.into();
            block_on(radio.setup_rx(cfg)).unwrap();
            arm(&w);
            if continuous {
                block_on(radio.rx_continuous(rb.as_mut())).map(|(n, q)| RxStatus::Rx(n, q)).map_err(|_| ())
            } else {
                block_on(radio.rx_single(rb.as_mut())).map_err(|_| ())
            }
        };
        match res {
            Ok(RxStatus::Rx(n, _q)) => {
                // the rest of the caller's buffer is left as it was
                let tail_ok = rb.as_mut().iter().enumerate().skip(n).all(|(i, b)| *b == caller_byte(i));
                rb.set_pos(n);
                format!("ok:{} {} {}", n, hex(rb.as_mut_for_read()), if tail_ok { "tail-ok" } else { "tail-MODIFIED" })
            }
            Ok(RxStatus::RxTimeout) => "timeout".into(),
            Err(()) => "err".into(),
        }
    }));
    r.unwrap_or("PANIC".into())
}

/// Evaluate one op line on the real code (generation, replay, bisection).
pub fn eval(op: &str) -> String {
    let w: Vec<&str> = op.split_whitespace().collect();
    match w.as_slice() {
        ["C18", "rx", rest @ ..] => {
            let Some(c) = parse_case(rest) else { return "bad-op".into() };
            let o = observe(&c);
            format!("{} {} {}", show_out(&o.out), hex(&o.buf), if o.canary_ok { "canary-ok" } else { "canary-SMASHED" })
        }
        ["C18", "lora", entry, rest @ ..] => {
            let Some(c) = parse_case(rest) else { return "bad-op".into() };
            let e: u8 = match *entry {
                "complete_rx" => 0,
                "get_rx_result" => 1,
                _ => return "bad-op".into(),
            };
            if c.fault.is_some() {
                return "bad-op".into();
            }
            let o = observe_lora(&c, e);
            format!("{} {} {}", show_out(&o.out), hex(&o.buf), if o.canary_ok { "canary-ok" } else { "canary-SMASHED" })
        }
        ["C18", "rxp", rest @ ..] => {
            let Some(c) = parse_case(rest) else { return "bad-op".into() };
            if c.chip != 127 {
                return "bad-op".into();
            }
            let o = observe(&c);
            format!("{} ptr={}", show_out(&o.out), o.ptr)
        }
        ["C18", "rx_digest", chip, status, bufsize, implicit, seed] => {
            let (Ok(chip), Ok(status), Ok(bufsize), Ok(implicit), Ok(seed)) =
                (chip.parse::<u32>(), status.parse::<u8>(), bufsize.parse::<usize>(), implicit.parse::<u8>(), seed.parse::<u64>())
            else {
                return "bad-op".into();
            };
            if (chip != 126 && chip != 127) || bufsize > 4096 {
                return "bad-op".into();
            }
            let mut h = Fnv::new();
            for c in digest_cases(chip, status, bufsize, implicit != 0, seed) {
                let o = observe(&c);
                h.word(code_of(&o.out));
                for b in &o.buf {
                    h.byte(*b);
                }
                h.byte(o.canary_ok as u8);
            }
            format!("{:016x}", h.0)
        }
        ["C18", "rb", n, pos] => {
            let (Ok(n), Ok(pos)) = (n.parse::<usize>(), pos.parse::<usize>()) else { return "bad-op".into() };
            match n {
                1 => rb_case::<1>(pos),
                16 => rb_case::<16>(pos),
                255 => rb_case::<255>(pos),
                256 => rb_case::<256>(pos),
                _ => "bad-op".into(),
            }
        }
        ["C18", "rbext", n, pos, len] => {
            let (Ok(n), Ok(pos), Ok(len)) = (n.parse::<usize>(), pos.parse::<usize>(), len.parse::<usize>()) else {
                return "bad-op".into();
            };
            if len > 600 {
                return "bad-op".into();
            }
            match n {
                1 => rbext_case::<1>(pos, len),
                16 => rbext_case::<16>(pos, len),
                255 => rbext_case::<255>(pos, len),
                256 => rbext_case::<256>(pos, len),
                _ => "bad-op".into(),
            }
        }
        ["C18", kind @ ("adapter" | "adapterc"), chip, len, off, seed] => {
            let (Ok(chip), Ok(len), Ok(off), Ok(seed)) = (chip.parse::<u32>(), len.parse::<u8>(), off.parse::<u8>(), seed.parse::<u64>())
            else {
                return "bad-op".into();
            };
            if chip != 126 && chip != 127 {
                return "bad-op".into();
            }
            adapter(chip, len, off, seed, *kind == "adapterc")
        }
        _ => "bad-op".into(),
    }
}

/// Expand a digest op into its individual cases.
pub fn expand(op: &str) -> Vec<String> {
    let w: Vec<&str> = op.split_whitespace().collect();
    if let ["C18", "rx_digest", chip, status, bufsize, implicit, seed] = w.as_slice() {
        if let (Ok(chip), Ok(status), Ok(bufsize), Ok(implicit), Ok(seed)) =
            (chip.parse::<u32>(), status.parse::<u8>(), bufsize.parse::<usize>(), implicit.parse::<u8>(), seed.parse::<u64>())
        {
            return digest_cases(chip, status, bufsize, implicit != 0, seed).iter().map(|c| case_op("rx", c)).collect();
        }
    }
    vec![]
}

fn class_of(c: &Case, ans: &str) -> String {
    let r = if ans.starts_with("ok:0 ") {
        "ok-empty"
    } else if ans.starts_with("ok:") {
        if c.off as usize + (if c.implicit { c.alt } else { c.len }) as usize > 256 {
            "ok-wraps"
        } else {
            "ok"
        }
    } else if ans.starts_with("err:OpError") {
        "err-status"
    } else if ans.starts_with("err:PayloadSizeMismatch") {
        "err-too-long"
    } else if ans.starts_with("err:") {
        "err-io-fault"
    } else {
        "PANIC"
    };
    format!("sx{}-{}-{}", c.chip, if c.implicit { "implicit" } else { "explicit" }, r)
}

pub fn run(tier: &str, seed: u64, dir: &str) {
    let mut rng = Rng::new(seed);
    let mut sink = Sink::new(dir);
    let thorough = tier == "thorough";
    // 1. the whole quantifier for a non-error status: 256 lengths x 256 offsets per (chip, bufsize, header) as digest blocks
    let mut seeds = vec![0u64, rng.below(256)];
    if thorough {
        seeds.push(rng.below(256));
        seeds.push(rng.below(256));
    }
    for chip in [126u32, 127] {
        for &bs in &BUF_SIZES {
            for implicit in [0u8, 1] {
                for (k, &sd) in seeds.iter().enumerate() {
                    // status 0x04 = "data available", 0x00 = reserved/none, both not errors
                    let status = if chip == 126 && k % 2 == 1 { 0x04 } else { 0 };
                    let op = format!("C18 rx_digest {} {} {} {} {}", chip, status, bs, implicit, sd);
                    sink.case_w(&op, &eval(&op), &format!("digest-sx{}-{}", chip, if implicit == 1 { "implicit" } else { "explicit" }), true, 65536);
                }
            }
        }
    }
    // 2. every status byte (SX126x) x buffer sizes x header mode x a few (len, off) pairs
    for status in 0..=255u8 {
        for &bs in &BUF_SIZES {
            for implicit in [false, true] {
                for (len, off) in [(0u8, 0u8), (12, 250), (255, 1), (bs.min(255) as u8, 200)] {
                    let (len, alt) = if implicit { (len ^ 0x33, len) } else { (len, len ^ 0x33) };
                    let c = Case { chip: 126, status, len, off, alt, bufsize: bs, implicit, fault: None, seed: status as u64 };
                    let op = case_op("rx", &c);
                    let a = eval(&op);
                    sink.case(&op, &a, &class_of(&c, &a), true);
                }
            }
        }
    }
    // 3. boundary cases spelled out one by one (also readable samples): len around bufsize, wrap-around offsets
    for chip in [126u32, 127] {
        for &bs in &BUF_SIZES {
            for implicit in [false, true] {
                let mut lens: Vec<i64> = vec![0, 1, bs as i64 - 1, bs as i64, bs as i64 + 1, 254, 255];
                lens.retain(|l| (0..=255).contains(l));
                lens.sort();
                lens.dedup();
                for &l in &lens {
                    for off in [0u8, 1, 128, 255, (256 - l.min(255)) as u8, (257 - l.min(256)) as u8] {
                        let l = l as u8;
                        let (len, alt) = if implicit { (l.wrapping_add(7), l) } else { (l, l.wrapping_add(7)) };
                        let sd = rng.below(256);
                        let c = Case { chip, status: 0x04, len, off, alt, bufsize: bs, implicit, fault: None, seed: sd };
                        let op = case_op("rx", &c);
                        let a = eval(&op);
                        sink.case(&op, &a, &class_of(&c, &a), true);
                        if chip == 127 {
                            let op = case_op("rxp", &c);
                            sink.case(&op, &eval(&op), "sx127-fifo-pointer", true);
                        }
                        // the same fetch through LoRa::complete_rx / LoRa::get_rx_result
                        for entry in ["complete_rx", "get_rx_result"] {
                            let op = case_op(&format!("lora {}", entry), &c);
                            sink.case(&op, &eval(&op), &format!("through-LoRa-{}", if implicit { "implicit" } else { "explicit" }), true);
                        }
                    }
                }
            }
        }
    }
    // 4. an I/O fault at every step
    for chip in [126u32, 127] {
        for implicit in [false, true] {
            for fault in 0..10usize {
                for (bs, l, off) in [(64usize, 12u8, 250u8), (12, 12, 0), (12, 13, 0), (256, 255, 255), (0, 0, 9)] {
                    let (len, alt) = if implicit { (l ^ 0x11, l) } else { (l, l ^ 0x11) };
                    let c = Case { chip, status: 0, len, off, alt, bufsize: bs, implicit, fault: Some(fault), seed: fault as u64 };
                    let op = case_op("rx", &c);
                    let a = eval(&op);
                    sink.case(&op, &a, &class_of(&c, &a), true);
                    if chip == 127 {
                        let op = case_op("rxp", &c);
                        sink.case(&op, &eval(&op), "sx127-fifo-pointer", true);
                    }
                }
            }
        }
    }
    // 5. seeded random cases over the full tuple (malformed combinations included: any status, any fault step)
    let n_rand = if thorough { 200_000 } else { 20_000 };
    for _ in 0..n_rand {
        let chip = if rng.chance(1, 2) { 126 } else { 127 };
        let status = if rng.chance(3, 4) { *rng.pick(&[0u8, 0x04, 0x24, 0x2c, 0xff, 0x01]) } else { rng.below(256) as u8 };
        let bs = if rng.chance(7, 8) { *rng.pick(&BUF_SIZES) } else { rng.below(300) as usize };
        let c = Case {
            chip,
            status,
            len: rng.below(256) as u8,
            off: rng.below(256) as u8,
            alt: rng.below(256) as u8,
            bufsize: bs,
            implicit: rng.chance(1, 2),
            fault: if rng.chance(1, 6) { Some(rng.below(10) as usize) } else { None },
            seed: rng.below(256),
        };
        let op = case_op("rx", &c);
        let a = eval(&op);
        sink.case(&op, &a, &class_of(&c, &a), true);
    }
    // 6. RadioBuffer: every position 0..N+2 for N in {1,16,255,256}; extend_from_slice around the limit
    for n in [1usize, 16, 255, 256] {
        for pos in 0..=n + 2 {
            let op = format!("C18 rb {} {}", n, pos);
            let a = eval(&op);
            sink.case(&op, &a, if a == "PANIC" { "radiobuffer-pos-beyond-N" } else { "radiobuffer-pos" }, true);
        }
        for pos in [0usize, 1, n / 2, n.saturating_sub(1), n] {
            for len in [0usize, 1, n.saturating_sub(pos + 1), n.saturating_sub(pos), n - pos.min(n) + 1, 300] {
                let op = format!("C18 rbext {} {} {}", n, pos, len);
                let a = eval(&op);
                sink.case(&op, &a, if a.starts_with("full") { "radiobuffer-extend-full" } else { "radiobuffer-extend" }, true);
            }
        }
    }
    // 7. the LoRaWAN adapter: LoRa::rx through LorawanRadio::rx_single into RadioBuffer<256>
    for chip in [126u32, 127] {
        let lens: Vec<u8> = if thorough { (0..=255u8).collect() } else { vec![0, 1, 12, 23, 64, 128, 222, 242, 254, 255] };
        for &len in &lens {
            for off in [0u8, 1, 200, 255] {
                let op = format!("C18 adapter {} {} {} {}", chip, len, off, rng.below(256));
                sink.case(&op, &eval(&op), &format!("adapter-sx{}", chip), true);
                // the Class C path of the adapter (rx_continuous)
                let op = format!("C18 adapterc {} {} {} {}", chip, len, off, rng.below(256));
                sink.case(&op, &eval(&op), &format!("adapter-continuous-sx{}", chip), true);
            }
        }
    }
    sink.finish(
        dir,
        "get_rx_payload of the real Sx126x<Sx1262>/Sx127x<Sx1276> drivers over wire-level fake chips: digest blocks = all 256 reported lengths x 256 offsets for every (chip, caller buffer size in {0,1,12,64,255,256}, explicit/implicit header, chip-buffer seed), explicit: len=a, implicit: configured length=a (the other length is a^0x5a to show it is ignored); all 256 SX126x status bytes x sizes x header; boundary lengths/offsets one by one; an SPI/busy fault at every I/O step; seeded random tuples incl. non-standard buffer sizes; RadioBuffer<N> set_pos/as_mut_for_read/as_ref_for_read for every pos 0..N+2 and extend_from_slice around the limit (real radio.rs compiled in by path); LorawanRadio::rx_single end to end. The caller's slice sits between 2x16 canary bytes; every call runs under catch_unwind. Distinct = distinct op lines; every case is non-trivial (a concrete result and buffer image compared with model and spec).",
        true,
        serde_json::json!({"buffer_sizes": BUF_SIZES, "digest_block_cases": 65536}),
    );
}
