//! Suite C12: uplink header bits and ADR back-off follow the session history.
#![allow(dead_code, unused_imports)]
use crate::mac::*;
use crate::macgen::*;
use crate::macsuites::*;
use crate::util::*;

pub fn eval(op: &str) -> String {
    if let Some(r) = crate::adevgen::eval_dev_any(op) {
        return r;
    }
    let outs = run_history(op);
    format!("{} ## oracle={}", outs.join(" ; "), oracle_c12(op, &outs))
}

pub fn expand(_op: &str) -> Vec<String> {
    vec![]
}

pub fn run(tier: &str, seed: u64, dir: &str) {
    let mut rng = Rng::new(seed);
    let mut sink = Sink::new(dir);
    let thorough = tier == "thorough";
    for region in REGIONS {
        // corpus: every order of (confirmed?, confirmed?, confirmed?) over RX1 / RXC / RXC before the next uplinks
        for bits in 0..8u32 {
            let mut h = Hist::new("C12", region, 20, 0, bits as u64 + 1, &[], None);
            h.go_live();
            h.abp();
            h.send(1, false, &[7]);
            h.rx_auth("rx1", 0, 1, bits & 1 != 0, &[], None, &[]);
            h.rx_auth("rxc", 0, 1, bits & 2 != 0, &[], Some(3), &[2]);
            h.rx_auth("rxc", 0, 1, bits & 4 != 0, &[], None, &[]);
            h.send(1, false, &[8]).timeout();
            h.send(1, false, &[9]).timeout();
            h.snap();
            let op = h.done();
            sink.case(&op, &eval(&op), "ack-after-several-downlinks", true);
        }
        // … and the orders in which a Class C reception precedes the Class A window that ends the
        // procedure: [RXC?] RX1|RX2 [RXC?], each confirmed or not
        for shape in 0..4u32 {
            for bits in 0..8u32 {
                let mut h = Hist::new("C12", region, 20, 0, 100 + (shape * 8 + bits) as u64, &[], None);
                h.go_live();
                h.abp();
                h.send(1, bits & 1 != 0, &[7]);
                if shape & 1 != 0 {
                    h.rx_auth("rxc", 0, 1, bits & 1 != 0, &[], Some(3), &[2]);
                }
                h.rx_auth(if shape & 2 != 0 { "rx2" } else { "rx1" }, 0, 1, bits & 2 != 0, &[], None, &[]);
                if bits & 4 != 0 {
                    h.rx_auth("rxc", 0, 1, false, &[], Some(4), &[3]);
                }
                h.send(1, false, &[8]).timeout();
                h.send(1, false, &[9]).timeout();
                h.snap();
                let op = h.done();
                sink.case(&op, &eval(&op), "ack-after-several-downlinks", true);
            }
        }
        // unanswered uplinks spent at the region's lowest data rate count like any others: the
        // application raises the rate again before any downlink is accepted
        for (k, start) in [(0u32, 0u32), (1, 40), (2, 60), (3, 63), (4, 90)] {
            let drs = uplink_drs(region);
            let mut h = Hist::new("C12", region, 20, 0, 200 + k as u64, &[], None);
            h.go_live();
            h.sess(rng.below(1000) as u32, None, start, false, &[], false);
            h.ev("dr 0");
            for _ in 0..1 + rng.below(35) {
                h.send(1, false, &[7]).timeout();
            }
            let e = format!("dr {}", drs[1 + rng.below(drs.len() as u64 - 1) as usize]);
            h.ev(&e);
            for _ in 0..110 {
                if h.dead {
                    break;
                }
                h.send(1 + rng.below(3) as u8, false, &[7]).timeout();
            }
            h.snap();
            let op = h.done();
            sink.case(&op, &eval(&op), "floor-then-raise", true);
        }
        // a LinkADRReq that commands the region's lowest data rate together with an explicit TX
        // power (and one that keeps the power: 15), then silence: at the lowest rate ADRACKReq must
        // stay clear whatever power was commanded; above it the back-off proceeds as usual
        for (k, pw) in [0u8, 2, 5, 15].iter().enumerate() {
            for lowest in [true, false] {
                let drs = uplink_drs(region);
                let d = if lowest { drs[0] } else { drs[1] };
                let mut h = Hist::new("C12", region, 20, 0, 300 + k as u64, &[], None);
                h.go_live();
                h.abp();
                h.ev(&format!("dr {}", d));
                h.send(1, false, &[1]);
                let req = if is_fixed(region) { link_adr_req(d, *pw, 0x00ff, 6, 1) } else { link_adr_req(d, *pw, if region.starts_with("AS923") { 0x0003 } else { 0x0007 }, 0, 1) };
                h.rx_auth("rx1", 0, 1, false, &req, None, &[]);
                h.snap();
                for i in 0..(if thorough { 100 } else { 72 }) {
                    if h.dead {
                        break;
                    }
                    h.send(1, i % 5 == 4, &[7]).timeout();
                }
                h.snap();
                let op = h.done();
                sink.case(&op, &eval(&op), "power-then-silence", true);
            }
        }
        // the fixed plans' data-rate tables have a gap (US915: DR0-4, DR8-13; AU915: DR0-6, DR8-13):
        // an application override above the gap (`set_datarate` accepts it) still has a "next lower
        // region-defined rate" below the gap — ADRACKReq is due, and the back-off steps across the gap
        if is_fixed(region) {
            for (k, dr) in [8u8, 9, 13, 10].into_iter().enumerate() {
                let mut h = Hist::new("C12", region, 20, 0, 300 + k as u64, &[], None);
                h.go_live();
                h.sess(rng.below(1000) as u32, None, [60u32, 0, 90, 63][k], false, &[], false);
                h.ev(&format!("dr {}", dr));
                for _ in 0..110 {
                    if h.dead {
                        break;
                    }
                    h.send(1 + rng.below(3) as u8, false, &[7]).timeout();
                }
                h.snap();
                let op = h.done();
                sink.case(&op, &eval(&op), "override-above-the-table-gap", true);
            }
        }
        let n = if thorough { 500 } else { 30 };
        for i in 0..n {
            let drs = uplink_drs(region);
            let mut h = Hist::new("C12", region, 20, 0, rng.next() & 0xffffff, &[], None);
            h.go_live();
            if i % 5 == 0 {
                h.sess(rng.below(1000) as u32, None, *rng.pick(&[0u32, 60, 63, 64, 95, 96, 127, 200, 4294967294, 4294967295]), false, &[], rng.chance(1, 2));
            } else {
                h.abp();
            }
            let e = format!("dr {}", rng.pick(&drs));
            h.ev(&e);
            let uplinks = if i % 3 == 0 { 260 + rng.below(140) } else { 20 + rng.below(120) };
            for _ in 0..uplinks {
                if h.dead {
                    break;
                }
                if rng.chance(1, 40) {
                    let e = format!("adr {}", rng.below(2));
                    h.ev(&e);
                }
                if rng.chance(1, 60) {
                    let e = format!("dr {}", rng.pick(&drs));
                    h.ev(&e);
                }
                h.send(1 + rng.below(5) as u8, rng.chance(1, 4), &[7]);
                match rng.below(30) {
                    0 => {
                        h.rx_auth("rx1", 0, 1, rng.chance(1, 2), &[], Some(2), &[1]);
                    }
                    1 => {
                        let (b, hint, _) = rejected_frame(&mut rng, &h);
                        h.rx_bytes("rx2", 0, &b, hint);
                        if !h.last_out().starts_with("resp=DownlinkReceived") {
                            h.timeout();
                        } else if let Some(f) = hint {
                            h.last_down = Some(f);
                        }
                    }
                    4 => {
                        // a Class C reception during the receive procedure, then the Class A window
                        h.rx_auth("rxc", 0, 1, rng.chance(1, 2), &[], Some(3), &[2]);
                        if rng.chance(1, 2) {
                            h.rx_auth(if rng.chance(1, 2) { "rx1" } else { "rx2" }, 0, 1, rng.chance(1, 2), &[], None, &[]);
                        } else {
                            h.timeout();
                        }
                    }
                    2 | 3 => {
                        // several accepted downlinks before the next uplink, confirmed and
                        // unconfirmed in every order (Class A window, then Class C receptions):
                        // the next uplink acknowledges iff one of them was confirmed
                        h.rx_auth("rx1", 0, 1, rng.chance(1, 2), &[], None, &[]);
                        for _ in 0..1 + rng.below(3) {
                            h.rx_auth("rxc", 0, 1, rng.chance(1, 2), &[], Some(3), &[2]);
                        }
                    }
                    _ => {
                        h.timeout();
                    }
                }
            }
            h.snap();
            let op = h.done();
            sink.case(&op, &eval(&op), if uplinks > 200 { "long-history" } else { "history" }, true);
        }
    }
    // builder X — uplink-typed frames of the session (the device's own uplink echoed back octet for octet, and one
    // rebuilt at the next fresh downlink counter) in RX1 / RX2 / RXC: not frames for an end-device, whatever their MIC
    for region in REGIONS {
        for k in 0..(if thorough { 144 } else { 24 }) {
            let op = uplink_echo_history("C12", &mut rng, region, k);
            sink.case(&op, &eval(&op), "uplink-echo", true);
        }
    }
    // device level: both front-ends with the scripted radio (see adevgen::add_dev_classes)
    crate::adevgen::add_dev_classes("C12", &mut rng, &mut sink, thorough, eval);
    sink.finish(dir, "per region: histories of 20..400 uplinks with rare accepted (confirmed/unconfirmed) and rejected downlinks, ADR toggles and application data-rate overrides, sessions restored with ADR counters at 0/60/63/64/95/96/127/200; every uplink header and data rate is compared with a 5-field reference automaton (ack owed, ADR on, uplinks since last accepted downlink, data rate, address). Non-trivial = every case.", false, serde_json::json!({}));
}
