//! C17: what the drivers program for frequency, TX power and RX timeout, and what they report as
//! RSSI/SNR — observed on the REAL drivers over a recording fake SPI bus.
//!
//! Relational requirements ("decoded power = clamp(request)", "timeout not shorter than requested",
//! "within 1 dB") cannot be compared as strings, so ops of those kinds carry the implementation's
//! observation as their LAST word (`obs`): the Lean driver answers `<model obs>|<spec>` where
//! `<spec>` echoes `obs` iff `obs`, decoded with the datasheet formulas of `Spec/SemtechArith.lean`,
//! satisfies the requirement, and `SPEC-VIOLATION` otherwise.  `eval` ignores the embedded `obs` and
//! re-runs the real code, so a replay always shows the current implementation.
#![allow(dead_code)]
use crate::c15::fake::*;
use crate::c15::{sx1272, sx1276, sx126x};
use crate::c16::{BWS, SFS};
use crate::util::*;
use embedded_hal_async::spi::{ErrorType, Operation, SpiDevice};
use lora_modulation::{Bandwidth, BaseBandModulationParams, CodingRate, SpreadingFactor};
use lora_phy::mod_params::*;
use lora_phy::mod_traits::{IrqState, RadioKind};
use lora_phy::{DelayNs, LoRa, RxMode};
use std::cell::RefCell;
use std::rc::Rc;

// ------------------------------------------------------------------------------------------------
// allocation-free bus for the 10^9-case frequency sweep: keeps the last command and a register file
pub struct Mini {
    pub last: [u8; 8],
    pub regs: [u8; 128],
}
pub struct MiniSpi(pub Rc<RefCell<Mini>>);
impl ErrorType for MiniSpi {
    type Error = NoErr;
}
impl SpiDevice<u8> for MiniSpi {
    async fn transaction(&mut self, ops: &mut [Operation<'_, u8>]) -> Result<(), NoErr> {
        let mut m = self.0.borrow_mut();
        let mut k = 0usize;
        let mut w = [0u8; 8];
        for op in ops.iter() {
            if let Operation::Write(b) = op {
                for &x in b.iter() {
                    if k < 8 {
                        w[k] = x;
                        k += 1;
                    }
                }
            }
        }
        if k == 2 && w[0] & 0x80 != 0 {
            m.regs[(w[0] & 0x7f) as usize] = w[1];
        }
        m.last = w;
        Ok(())
    }
}

fn pll126_sweep(lo: u32, n: u32, f: &mut dyn FnMut(u32, Option<i64>)) {
    let m = Rc::new(RefCell::new(Mini { last: [0; 8], regs: [0; 128] }));
    let mut rk = lora_phy::sx126x::Sx126x::new(
        MiniSpi(m.clone()),
        FakeIv,
        lora_phy::sx126x::Config { chip: lora_phy::sx126x::Sx1262, tcxo_ctrl: None, use_dcdc: false, rx_boost: false },
    );
    for i in 0..n {
        let fr = lo.wrapping_add(i);
        let r = std::panic::catch_unwind(std::panic::AssertUnwindSafe(|| block_on(rk.set_channel(fr)).is_ok()));
        let v = match r {
            Ok(true) => {
                let b = m.borrow().last;
                if b[0] == 0x86 {
                    Some(((b[1] as i64) << 24) | ((b[2] as i64) << 16) | ((b[3] as i64) << 8) | b[4] as i64)
                } else {
                    Some(-1)
                }
            }
            Ok(false) => Some(-2),
            Err(_) => None,
        };
        f(fr, v);
    }
}

fn pll127_sweep(lo: u32, n: u32, f: &mut dyn FnMut(u32, Option<i64>)) {
    let m = Rc::new(RefCell::new(Mini { last: [0; 8], regs: [0; 128] }));
    let mut rk = lora_phy::sx127x::Sx127x::new(
        MiniSpi(m.clone()),
        FakeIv,
        lora_phy::sx127x::Config { chip: lora_phy::sx127x::Sx1276, tcxo_used: false, tx_boost: false, rx_boost: false },
    );
    for i in 0..n {
        let fr = lo.wrapping_add(i);
        let r = std::panic::catch_unwind(std::panic::AssertUnwindSafe(|| block_on(rk.set_channel(fr)).is_ok()));
        let v = match r {
            Ok(true) => {
                let b = m.borrow();
                Some(((b.regs[6] as i64) << 16) | ((b.regs[7] as i64) << 8) | b.regs[8] as i64)
            }
            Ok(false) => Some(-2),
            Err(_) => None,
        };
        f(fr, v);
    }
}

fn show(v: Option<i64>) -> String {
    match v {
        Some(v) => v.to_string(),
        None => "PANIC".into(),
    }
}

// ------------------------------------------------------------------------------------------------
// power amplifier
fn mp(rf: u32) -> ModulationParams {
    ModulationParams {
        spreading_factor: SpreadingFactor::_7,
        bandwidth: Bandwidth::_125KHz,
        coding_rate: CodingRate::_4_5,
        low_data_rate_optimize: 0,
        frequency_in_hz: rf,
    }
}

fn pa126_obs(variant: &str, req: i32, rf: Option<u32>) -> String {
    let variant = variant.to_string();
    guarded(move || {
        let bus = Bus::new(Proto::Sx126x, 0x00);
        let m = rf.map(mp);
        let r = match variant.as_str() {
            "sx1261" => block_on(sx126x(&bus, lora_phy::sx126x::Sx1261, false).set_tx_power_and_ramp_time(req, m.as_ref(), true)),
            "sx1262" => block_on(sx126x(&bus, lora_phy::sx126x::Sx1262, false).set_tx_power_and_ramp_time(req, m.as_ref(), true)),
            "stm32wl-lp" => block_on(sx126x(&bus, lora_phy::sx126x::Stm32wl { use_high_power_pa: false }, false).set_tx_power_and_ramp_time(req, m.as_ref(), true)),
            "stm32wl-hp" => block_on(sx126x(&bus, lora_phy::sx126x::Stm32wl { use_high_power_pa: true }, false).set_tx_power_and_ramp_time(req, m.as_ref(), true)),
            _ => return "bad-op".to_string(),
        };
        if r.is_err() {
            return "ERR".into();
        }
        let b = bus.borrow();
        match (b.last_cmd(0x95), b.last_cmd(0x8E)) {
            (Some(pa), Some(tx)) if pa.len() == 5 && tx.len() == 3 => format!("{},{},{},{}", pa[1], pa[2], pa[3], tx[1] as i8),
            _ => "not-programmed".into(),
        }
    })
    .unwrap_or_else(|| "PANIC".into())
}

/// The same question asked of a driver with a HISTORY: one driver instance goes through the public
/// `LoRa` API — bring-up, `sleep(false)` (a cold sleep: the chip forgets its PA configuration and TX
/// parameters), then `prepare_for_tx(req)`. The chip transmits with what was programmed SINCE the
/// last cold SetSleep (or reset); a driver that remembers "already programmed" across the loss
/// leaves the chip with nothing (`not-programmed`). `warm` = 1 asks for a warm sleep instead.
fn pa126s_obs(variant: &str, req: i32, rf: u32, warm: bool) -> String {
    let variant = variant.to_string();
    guarded(move || {
        let bus = Bus::new(Proto::Sx126x, 0x00);
        let m = mp(rf);
        async fn hist<RK: RadioKind>(rk: RK, m: &ModulationParams, req: i32, warm: bool) -> Result<(), RadioError> {
            let mut lora = LoRa::new(rk, true, NoDelay).await?;
            lora.sleep(warm).await?;
            let mut pkt = lora.create_tx_packet_params(8, false, true, false, m)?;
            lora.prepare_for_tx(m, &mut pkt, req, &[1, 2, 3, 4]).await
        }
        let r = match variant.as_str() {
            "sx1261" => block_on(hist(sx126x(&bus, lora_phy::sx126x::Sx1261, false), &m, req, warm)),
            "sx1262" => block_on(hist(sx126x(&bus, lora_phy::sx126x::Sx1262, false), &m, req, warm)),
            "stm32wl-lp" => block_on(hist(sx126x(&bus, lora_phy::sx126x::Stm32wl { use_high_power_pa: false }, false), &m, req, warm)),
            "stm32wl-hp" => block_on(hist(sx126x(&bus, lora_phy::sx126x::Stm32wl { use_high_power_pa: true }, false), &m, req, warm)),
            _ => return "bad-op".to_string(),
        };
        if r.is_err() {
            return "ERR".into();
        }
        let b = bus.borrow();
        // index of the last loss of chip configuration: SetSleep (0x84) without the warm-start bit
        let lost = b.log.iter().rposition(|t| t.first() == Some(&0x84) && t.get(1).map(|x| x & 0x04 == 0).unwrap_or(true)).map(|i| i + 1).unwrap_or(0);
        let after = |op: u8| b.log[lost..].iter().rev().find(|t| t.first() == Some(&op)).cloned();
        match (after(0x95), after(0x8E)) {
            (Some(pa), Some(tx)) if pa.len() == 5 && tx.len() == 3 => format!("{},{},{},{}", pa[1], pa[2], pa[3], tx[1] as i8),
            _ => "not-programmed".into(),
        }
    })
    .unwrap_or_else(|| "PANIC".into())
}

fn pa127_obs(chip: &str, boost: bool, req: i32) -> String {
    let chip = chip.to_string();
    guarded(move || {
        let bus = Bus::new(Proto::Sx127x, 0x00);
        let r = match chip.as_str() {
            "sx1276" => block_on(sx1276(&bus, boost, false).set_tx_power_and_ramp_time(req, None, true)),
            "sx1272" => block_on(sx1272(&bus, boost, false).set_tx_power_and_ramp_time(req, None, true)),
            _ => return "bad-op".to_string(),
        };
        if r.is_err() {
            return "ERR".into();
        }
        let b = bus.borrow();
        let dac = if chip == "sx1276" { 0x4d } else { 0x5a };
        let g = |a: u16| b.written(a).map(|v| v.to_string()).unwrap_or("-".into());
        format!("{},{},{}", g(0x09), g(dac), g(0x0b))
    })
    .unwrap_or_else(|| "PANIC".into())
}

// ------------------------------------------------------------------------------------------------
// symbol timeouts
fn symb126_obs(n: u16) -> String {
    guarded(move || {
        let bus = Bus::new(Proto::Sx126x, 0x00);
        let r = block_on(sx126x(&bus, lora_phy::sx126x::Sx1262, false).do_rx(RxMode::Single(n)));
        if r.is_err() {
            return "ERR".to_string();
        }
        let b = bus.borrow();
        let cmd = b.last_cmd(0xA0).and_then(|c| c.get(1).copied());
        let reg = b.written(0x0706);
        format!("{},{}", cmd.map(|v| v.to_string()).unwrap_or("-".into()), reg.map(|v| v.to_string()).unwrap_or("-".into()))
    })
    .unwrap_or_else(|| "PANIC".into())
}

fn symb127_obs(chip: &str, n: u16, prior: u8) -> String {
    let chip = chip.to_string();
    guarded(move || {
        let bus = Bus::new(Proto::Sx127x, prior);
        let r = match chip.as_str() {
            "sx1276" => block_on(sx1276(&bus, false, false).do_rx(RxMode::Single(n))),
            "sx1272" => block_on(sx1272(&bus, false, false).do_rx(RxMode::Single(n))),
            _ => return "bad-op".to_string(),
        };
        if r.is_err() {
            return "ERR".into();
        }
        let b = bus.borrow();
        let g = |a: u16| b.written(a).map(|v| v.to_string()).unwrap_or("-".into());
        format!("{},{}", g(0x1e), g(0x1f))
    })
    .unwrap_or_else(|| "PANIC".into())
}

// ------------------------------------------------------------------------------------------------
// LoRaWAN adapter: ms -> symbols, observed at the RadioKind boundary
#[derive(Default)]
pub struct Seen {
    pub rx_mode_symbols: Option<u16>,
}
pub struct SpyRadio(pub Rc<RefCell<Seen>>);
impl RadioKind for SpyRadio {
    async fn init_lora(&mut self, _s: u16) -> Result<(), RadioError> {
        Ok(())
    }
    async fn set_lora_sync_word(&mut self, _s: u16) -> Result<(), RadioError> {
        Ok(())
    }
    fn create_modulation_params(&self, sf: SpreadingFactor, bw: Bandwidth, cr: CodingRate, f: u32) -> Result<ModulationParams, RadioError> {
        Ok(ModulationParams { spreading_factor: sf, bandwidth: bw, coding_rate: cr, low_data_rate_optimize: 0, frequency_in_hz: f })
    }
    fn create_packet_params(&self, p: u16, ih: bool, len: u8, crc: bool, iq: bool, _m: &ModulationParams) -> Result<PacketParams, RadioError> {
        Ok(PacketParams { preamble_length: p, implicit_header: ih, payload_length: len, crc_on: crc, iq_inverted: iq })
    }
    async fn reset(&mut self, _d: &mut impl DelayNs) -> Result<(), RadioError> {
        Ok(())
    }
    async fn ensure_ready(&mut self, _m: RadioMode) -> Result<(), RadioError> {
        Ok(())
    }
    async fn set_standby(&mut self) -> Result<(), RadioError> {
        Ok(())
    }
    async fn set_sleep(&mut self, _w: bool, _d: &mut impl DelayNs) -> Result<(), RadioError> {
        Ok(())
    }
    async fn set_tx_rx_buffer_base_address(&mut self, _t: usize, _r: usize) -> Result<(), RadioError> {
        Ok(())
    }
    async fn set_tx_power_and_ramp_time(&mut self, _p: i32, _m: Option<&ModulationParams>, _t: bool) -> Result<(), RadioError> {
        Ok(())
    }
    async fn set_modulation_params(&mut self, _m: &ModulationParams) -> Result<(), RadioError> {
        Ok(())
    }
    async fn set_packet_params(&mut self, _p: &PacketParams) -> Result<(), RadioError> {
        Ok(())
    }
    async fn calibrate_image(&mut self, _f: u32) -> Result<(), RadioError> {
        Ok(())
    }
    async fn set_channel(&mut self, _f: u32) -> Result<(), RadioError> {
        Ok(())
    }
    async fn set_payload(&mut self, _p: &[u8]) -> Result<(), RadioError> {
        Ok(())
    }
    async fn do_tx(&mut self) -> Result<(), RadioError> {
        Ok(())
    }
    async fn do_rx(&mut self, _m: RxMode) -> Result<(), RadioError> {
        Ok(())
    }
    async fn get_rx_payload(&mut self, _p: &PacketParams, _b: &mut [u8]) -> Result<u8, RadioError> {
        Ok(0)
    }
    async fn get_rx_packet_status(&mut self) -> Result<PacketStatus, RadioError> {
        Ok(PacketStatus { rssi: 0, snr: 0 })
    }
    async fn get_rssi(&mut self) -> Result<i16, RadioError> {
        Ok(0)
    }
    async fn do_cad(&mut self, _m: &ModulationParams) -> Result<(), RadioError> {
        Ok(())
    }
    async fn set_irq_params(&mut self, m: Option<RadioMode>) -> Result<(), RadioError> {
        if let Some(RadioMode::Receive(RxMode::Single(n))) = m {
            self.0.borrow_mut().rx_mode_symbols = Some(n);
        }
        Ok(())
    }
    async fn set_tx_continuous_wave_mode(&mut self) -> Result<(), RadioError> {
        Ok(())
    }
    async fn await_irq(&mut self) -> Result<(), RadioError> {
        Ok(())
    }
    async fn process_irq_event(&mut self, _m: RadioMode, _c: Option<&mut bool>, _cl: bool) -> Result<Option<IrqState>, RadioError> {
        Ok(None)
    }
    async fn get_irq_state(&mut self, _m: RadioMode, _c: Option<&mut bool>) -> Result<Option<IrqState>, RadioError> {
        Ok(None)
    }
    async fn clear_irq_status(&mut self) -> Result<(), RadioError> {
        Ok(())
    }
}

fn rxsym_obs(sf: SpreadingFactor, bw: Bandwidth, ms: u32) -> String {
    use lorawan_device::async_device::radio::{PhyRxTx, RfConfig, RxConfig, RxMode as LwRxMode};
    guarded(move || {
        let seen = Rc::new(RefCell::new(Seen::default()));
        let lora = match block_on(LoRa::new(SpyRadio(seen.clone()), true, NoDelay)) {
            Ok(l) => l,
            Err(_) => return "ERR".to_string(),
        };
        let mut radio: lora_phy::lorawan_radio::LorawanRadio<_, _, 14> = lora.into();
        let cfg = RxConfig {
            rf: RfConfig { frequency: 868_100_000, bb: BaseBandModulationParams::new(sf, bw, CodingRate::_4_5), max_payload_len: 255 },
            mode: LwRxMode::Single { ms },
        };
        if block_on(radio.setup_rx(cfg)).is_err() {
            return "ERR".into();
        }
        let n = seen.borrow().rx_mode_symbols;
        match n {
            Some(n) => n.to_string(),
            None => "not-single".into(),
        }
    })
    .unwrap_or_else(|| "PANIC".into())
}

// ------------------------------------------------------------------------------------------------
// packet status
fn pkt126(b0: u8, b1: u8, b2: u8) -> Option<(i64, i64)> {
    guarded(move || {
        let bus = Bus::new(Proto::Sx126x, 0x00);
        bus.borrow_mut().status_payload = vec![b0, b1, b2];
        let r = block_on(sx126x(&bus, lora_phy::sx126x::Sx1262, false).get_rx_packet_status());
        r.ok().map(|s| (s.rssi as i64, s.snr as i64))
    })
    .flatten()
}

fn pkt126_obs(b0: u8, b1: u8, b2: u8) -> String {
    match pkt126(b0, b1, b2) {
        Some((r, s)) => format!("{},{}", r, s),
        None => "PANIC".into(),
    }
}

fn rssi126_obs(b0: u8) -> String {
    guarded(move || {
        let bus = Bus::new(Proto::Sx126x, 0x00);
        bus.borrow_mut().status_payload = vec![b0];
        match block_on(sx126x(&bus, lora_phy::sx126x::Sx1262, false).get_rssi()) {
            Ok(v) => v.to_string(),
            Err(_) => "ERR".into(),
        }
    })
    .unwrap_or_else(|| "PANIC".into())
}

fn bus127(frf: u32, snr: u8, rssi: u8, inst: u8) -> Rc<RefCell<Bus>> {
    let bus = Bus::new(Proto::Sx127x, 0x00);
    {
        let mut b = bus.borrow_mut();
        b.regs.insert(0x06, (frf >> 16) as u8);
        b.regs.insert(0x07, (frf >> 8) as u8);
        b.regs.insert(0x08, frf as u8);
        b.regs.insert(0x19, snr);
        b.regs.insert(0x1a, rssi);
        b.regs.insert(0x1b, inst);
    }
    bus
}

fn pkt127(chip: &str, snr: u8, rssi: u8, frf: u32) -> Option<(i64, i64)> {
    let chip = chip.to_string();
    guarded(move || {
        let bus = bus127(frf, snr, rssi, 0);
        let r = if chip == "sx1276" { block_on(sx1276(&bus, false, false).get_rx_packet_status()) } else { block_on(sx1272(&bus, false, false).get_rx_packet_status()) };
        r.ok().map(|s| (s.rssi as i64, s.snr as i64))
    })
    .flatten()
}

fn pkt127_obs(chip: &str, snr: u8, rssi: u8, frf: u32) -> String {
    match pkt127(chip, snr, rssi, frf) {
        Some((r, s)) => format!("{},{}", r, s),
        None => "PANIC".into(),
    }
}

fn rssi127_obs(chip: &str, raw: u8, frf: u32) -> String {
    let chip = chip.to_string();
    guarded(move || {
        let bus = bus127(frf, 0, 0, raw);
        let r = if chip == "sx1276" { block_on(sx1276(&bus, false, false).get_rssi()) } else { block_on(sx1272(&bus, false, false).get_rssi()) };
        match r {
            Ok(v) => v.to_string(),
            Err(_) => "ERR".into(),
        }
    })
    .unwrap_or_else(|| "PANIC".into())
}

fn pack2(v: Option<(i64, i64)>) -> Option<i64> {
    v.map(|(r, s)| r * 65536 + s)
}

// ------------------------------------------------------------------------------------------------
fn sf_of(n: &str) -> Option<SpreadingFactor> {
    SFS.iter().copied().find(|s| s.factor().to_string() == n)
}
fn bw_of(n: &str) -> Option<Bandwidth> {
    // a bandwidth is named by the datasheet's figure in Hz (legacy replays, the C13 table) or by the crate's current hz()
    crate::c13::bw_of(n).or_else(|| BWS.iter().copied().find(|s| s.hz().to_string() == n))
}

/// Evaluate one op line on the real code. For obs-carrying ops the trailing `obs` word is ignored.
pub fn eval(op: &str) -> String {
    let w: Vec<&str> = op.split_whitespace().collect();
    match w.as_slice() {
        ["C17", "pll126", f] => {
            let Ok(f) = f.parse::<u32>() else { return "bad-op".into() };
            let mut out = None;
            pll126_sweep(f, 1, &mut |_, v| out = v);
            show(out)
        }
        ["C17", "pll127", f] => {
            let Ok(f) = f.parse::<u32>() else { return "bad-op".into() };
            let mut out = None;
            pll127_sweep(f, 1, &mut |_, v| out = v);
            show(out)
        }
        ["C17", "pll126_digest", lo, n] | ["C17", "pll127_digest", lo, n] => {
            let (Ok(lo), Ok(n)) = (lo.parse::<u32>(), n.parse::<u32>()) else { return "bad-op".into() };
            let mut h = Fnv::new();
            if w[1] == "pll126_digest" {
                pll126_sweep(lo, n, &mut |_, v| h.opt(v));
            } else {
                pll127_sweep(lo, n, &mut |_, v| h.opt(v));
            }
            format!("{:016x}", h.0)
        }
        ["C17", "pa126", variant, req, rf, ..] => {
            let Ok(req) = req.parse::<i32>() else { return "bad-op".into() };
            let rf = rf.parse::<u32>().ok();
            pa126_obs(variant, req, rf)
        }
        ["C17", "pa126s", variant, req, rf, warm, ..] => {
            let (Ok(req), Ok(rf), Ok(warm)) = (req.parse::<i32>(), rf.parse::<u32>(), warm.parse::<u8>()) else { return "bad-op".into() };
            pa126s_obs(variant, req, rf, warm != 0)
        }
        ["C17", "pa127", chip, boost, req, ..] => {
            let (Ok(req), Ok(boost)) = (req.parse::<i32>(), boost.parse::<u8>()) else { return "bad-op".into() };
            pa127_obs(chip, boost != 0, req)
        }
        ["C17", "symb126", n, ..] => {
            let Ok(n) = n.parse::<u16>() else { return "bad-op".into() };
            symb126_obs(n)
        }
        ["C17", "symb127", chip, n, prior, ..] => {
            let (Ok(n), Ok(prior)) = (n.parse::<u16>(), prior.parse::<u8>()) else { return "bad-op".into() };
            symb127_obs(chip, n, prior)
        }
        ["C17", "rxsym", sf, bw, ms, ..] => {
            let (Some(sf), Some(bw), Ok(ms)) = (sf_of(sf), bw_of(bw), ms.parse::<u32>()) else { return "bad-op".into() };
            rxsym_obs(sf, bw, ms)
        }
        ["C17", "pkt126", b0, b1, b2, ..] => {
            let (Ok(b0), Ok(b1), Ok(b2)) = (b0.parse::<u8>(), b1.parse::<u8>(), b2.parse::<u8>()) else { return "bad-op".into() };
            pkt126_obs(b0, b1, b2)
        }
        ["C17", "pkt126_digest", b0] => {
            let Ok(b0) = b0.parse::<u8>() else { return "bad-op".into() };
            let mut h = Fnv::new();
            for b1 in 0..=255u8 {
                for b2 in 0..=255u8 {
                    h.opt(pack2(pkt126(b0, b1, b2)));
                }
            }
            format!("{:016x}", h.0)
        }
        ["C17", "rssi126", b0, ..] => {
            let Ok(b0) = b0.parse::<u8>() else { return "bad-op".into() };
            rssi126_obs(b0)
        }
        ["C17", "pkt127", chip, snr, rssi, frf, ..] => {
            let (Ok(snr), Ok(rssi), Ok(frf)) = (snr.parse::<u8>(), rssi.parse::<u8>(), frf.parse::<u32>()) else { return "bad-op".into() };
            pkt127_obs(chip, snr, rssi, frf)
        }
        ["C17", "pkt127_digest", chip, frf] => {
            let Ok(frf) = frf.parse::<u32>() else { return "bad-op".into() };
            let mut h = Fnv::new();
            for snr in 0..=255u8 {
                for rssi in 0..=255u8 {
                    h.opt(pack2(pkt127(chip, snr, rssi, frf)));
                }
            }
            format!("{:016x}", h.0)
        }
        ["C17", "rssi127", chip, raw, frf, ..] => {
            let (Ok(raw), Ok(frf)) = (raw.parse::<u8>(), frf.parse::<u32>()) else { return "bad-op".into() };
            rssi127_obs(chip, raw, frf)
        }
        _ => "bad-op".into(),
    }
}

/// op line with the implementation's observation appended
fn with_obs(op: String) -> (String, String) {
    let a = eval(&op);
    (format!("{} {}", op, a), a)
}

pub fn expand(op: &str) -> Vec<String> {
    let w: Vec<&str> = op.split_whitespace().collect();
    let mut out = vec![];
    match w.as_slice() {
        ["C17", "pll126_digest", lo, n] | ["C17", "pll127_digest", lo, n] => {
            if let (Ok(lo), Ok(n)) = (lo.parse::<u32>(), n.parse::<u32>()) {
                let name = if w[1] == "pll126_digest" { "pll126" } else { "pll127" };
                for i in 0..n {
                    out.push(format!("C17 {} {}", name, lo.wrapping_add(i)));
                }
            }
        }
        ["C17", "pkt126_digest", b0] => {
            for b1 in 0..=255u32 {
                for b2 in 0..=255u32 {
                    out.push(with_obs(format!("C17 pkt126 {} {} {}", b0, b1, b2)).0);
                }
            }
        }
        ["C17", "pkt127_digest", chip, frf] => {
            for snr in 0..=255u32 {
                for rssi in 0..=255u32 {
                    out.push(with_obs(format!("C17 pkt127 {} {} {} {}", chip, snr, rssi, frf)).0);
                }
            }
        }
        // obs-carrying ops: re-issue the op with the CURRENT implementation's observation (used by
        // `check --replay`, so that a stale embedded observation does not outlive a fix)
        ["C17", kind, rest @ ..] => {
            let nargs = match *kind {
                "pa126" => 3,
                "pa127" => 3,
                "pa126s" => 4,
                "symb126" => 1,
                "symb127" => 3,
                "rxsym" => 3,
                "pkt126" => 3,
                "rssi126" => 1,
                "pkt127" => 4,
                "rssi127" => 3,
                _ => 0,
            };
            if nargs > 0 && rest.len() >= nargs {
                let base = format!("C17 {} {}", kind, rest[..nargs].join(" "));
                out.push(with_obs(base).0);
            }
        }
        _ => {}
    }
    out
}

/// every LoRaWAN channel centre frequency of the regional plans the stack ships (RP002), in Hz
pub fn lorawan_channels() -> Vec<u32> {
    let mut v: Vec<u32> = vec![];
    // EU868 (+ common CFList channels), EU433, IN865, KR920, AS923 groups, RU864
    v.extend([868_100_000, 868_300_000, 868_500_000, 867_100_000, 867_300_000, 867_500_000, 867_700_000, 867_900_000, 869_525_000, 868_800_000]);
    v.extend([433_175_000, 433_375_000, 433_575_000, 434_665_000]);
    v.extend([865_062_500, 865_402_500, 865_985_000, 866_550_000]);
    v.extend([922_100_000, 922_300_000, 922_500_000, 921_900_000]);
    v.extend([923_200_000, 923_400_000, 921_400_000, 921_600_000, 916_600_000, 916_800_000, 917_300_000, 917_500_000]);
    v.extend([868_900_000, 869_100_000]);
    // US915 / AU915: 64 x 125 kHz + 8 x 500 kHz uplink, 8 x 500 kHz downlink
    for k in 0..64 {
        v.push(902_300_000 + 200_000 * k);
        v.push(915_200_000 + 200_000 * k);
    }
    for k in 0..8 {
        v.push(903_000_000 + 1_600_000 * k);
        v.push(915_900_000 + 1_600_000 * k);
        v.push(923_300_000 + 600_000 * k);
    }
    // CN470: 96 uplink + 48 downlink
    for k in 0..96 {
        v.push(470_300_000 + 200_000 * k);
    }
    for k in 0..48 {
        v.push(500_300_000 + 200_000 * k);
    }
    v.sort();
    v.dedup();
    v
}

fn par_eval(ops: &[String]) -> Vec<String> {
    let n = std::thread::available_parallelism().map(|n| n.get()).unwrap_or(4).min(16);
    let mut res: Vec<String> = vec![String::new(); ops.len()];
    let chunk = (ops.len() + n - 1) / n.max(1);
    if chunk == 0 {
        return res;
    }
    std::thread::scope(|s| {
        for (os, rs) in ops.chunks(chunk).zip(res.chunks_mut(chunk)) {
            s.spawn(move || {
                for (o, r) in os.iter().zip(rs.iter_mut()) {
                    *r = eval(o);
                }
            });
        }
    });
    res
}

pub fn run(tier: &str, seed: u64, dir: &str) {
    let thorough = tier == "thorough";
    let mut rng = Rng::new(seed);
    let mut sink = Sink::new(dir);

    // ---- 1. synthesiser word: LoRaWAN channels, band edges, a stride over 137..1020 MHz, seeded points
    let mut fs: Vec<u32> = lorawan_channels();
    fs.extend([137_000_000, 137_000_001, 175_000_000, 410_000_000, 525_000_000, 779_000_000, 862_000_000, 1_019_999_999, 1_020_000_000]);
    let stride = if thorough { 997 } else { 9973 };
    let mut f = 137_000_000u32 + (rng.below(stride as u64) as u32);
    while f <= 1_020_000_000 {
        fs.push(f);
        f += stride;
    }
    for _ in 0..5000 {
        fs.push(rng.range(137_000_000, 1_020_000_000) as u32);
    }
    // outside the chips' range (model and implementation must still agree; no spec there)
    for _ in 0..2000 {
        fs.push(rng.next() as u32);
    }
    fs.extend([0, 1, 15_624, 15_625, 4_095_999_999, 4_096_000_000, u32::MAX]);
    let chans = lorawan_channels();
    for &f in &fs {
        for name in ["pll126", "pll127"] {
            let op = format!("C17 {} {}", name, f);
            let class = if chans.contains(&f) {
                format!("{}-lorawan-channel", name)
            } else if (137_000_000..=1_020_000_000).contains(&f) {
                format!("{}-in-range", name)
            } else {
                format!("{}-out-of-range", name)
            };
            sink.case(&op, &eval(&op), &class, true);
        }
    }
    // digest blocks of 10^6 consecutive frequencies: all 883 blocks of 137..1020 MHz in thorough
    let mut dops: Vec<String> = vec![];
    if thorough {
        for k in 0..883u32 {
            dops.push(format!("C17 pll126_digest {} 1000000", 137_000_000 + k * 1_000_000));
            dops.push(format!("C17 pll127_digest {} 1000000", 137_000_000 + k * 1_000_000));
        }
        dops.push("C17 pll126_digest 1020000000 1".into());
        dops.push("C17 pll127_digest 1020000000 1".into());
    } else {
        for lo in [868_000_000u32, 137_000_000 + (rng.below(882) as u32) * 1_000_000] {
            dops.push(format!("C17 pll126_digest {} 1000000", lo));
            dops.push(format!("C17 pll127_digest {} 1000000", lo));
        }
    }
    let dres = par_eval(&dops);
    for (op, a) in dops.iter().zip(dres.iter()) {
        let n: u64 = op.split_whitespace().nth(3).unwrap().parse().unwrap();
        sink.case_w(op, a, if op.contains("126") { "pll126-digest-block" } else { "pll127-digest-block" }, true, n);
    }

    // ---- 2. TX power: every request -200..200 and the i32 extremes x variant x channel knowledge
    let mut reqs: Vec<i32> = (-200..=200).collect();
    reqs.extend([i32::MIN, i32::MIN + 1, -32769, -32768, -129, -128, 127, 128, 255, 256, 32767, 32768, i32::MAX - 1, i32::MAX]);
    for _ in 0..200 {
        reqs.push(rng.next() as i32);
    }
    let rfs: [Option<u32>; 6] = [None, Some(169_400_000), Some(399_999_999), Some(400_000_000), Some(868_100_000), Some(915_000_000)];
    for variant in ["sx1261", "sx1262", "stm32wl-lp", "stm32wl-hp"] {
        for rf in rfs {
            for &req in &reqs {
                let (op, a) = with_obs(format!("C17 pa126 {} {} {}", variant, req, rf.map(|f| f.to_string()).unwrap_or("-".into())));
                let class = if a == "ERR" { format!("pa-{}-refused", variant) } else { format!("pa-{}", variant) };
                sink.case(&op, &a, &class, true);
            }
        }
    }
    // the same requests put to ONE driver instance after bring-up and a cold (or warm) sleep: the
    // power programmed since the chip last lost its configuration must still be the clamp
    for variant in ["sx1261", "sx1262", "stm32wl-lp", "stm32wl-hp"] {
        for rf in [169_400_000u32, 868_100_000, 915_000_000] {
            for req in (-20..=30).chain([-200, -128, 127, 200]) {
                for warm in [0, 1] {
                    let (op, a) = with_obs(format!("C17 pa126s {} {} {} {}", variant, req, rf, warm));
                    let class = if a == "ERR" { format!("pa-after-sleep-{}-refused", variant) } else { format!("pa-after-sleep-{}", variant) };
                    sink.case(&op, &a, &class, true);
                }
            }
        }
    }
    for chip in ["sx1276", "sx1272"] {
        for boost in [0, 1] {
            for &req in &reqs {
                let (op, a) = with_obs(format!("C17 pa127 {} {} {}", chip, boost, req));
                sink.case(&op, &a, &format!("pa-{}-{}", chip, if boost == 1 { "boost" } else { "rfo" }), true);
            }
        }
    }

    // ---- 3. symbol timeouts: all 65 536 requests
    for n in 0..=65535u32 {
        let (op, a) = with_obs(format!("C17 symb126 {}", n));
        sink.case(&op, &a, if n <= 248 { "symb126-in-range" } else { "symb126-clamped" }, n <= 260 || n % 257 == 0);
    }
    for chip in ["sx1276", "sx1272"] {
        for n in 0..=65535u32 {
            let prior = match n % 3 {
                0 => 0u8,
                1 => 0xff,
                _ => rng.next() as u8,
            };
            let (op, a) = with_obs(format!("C17 symb127 {} {} {}", chip, n, prior));
            sink.case(&op, &a, if n <= 1023 { "symb127-in-range" } else { "symb127-clamped" }, n <= 1030 || n % 257 == 0);
        }
    }

    // ---- 4. LoRaWAN adapter: every (sf,bw) x margin 0..1000 ms (all in thorough, every 7th + edges in quick), some larger
    for sf in SFS {
        for bw in BWS {
            let mut mss: Vec<u32> = if thorough { (0..=1000).collect() } else { (0..=1000).filter(|m| m % 7 == 0 || *m < 60 || *m > 990).collect() };
            mss.extend([1500, 2000, 4000]);
            for ms in mss {
                let (op, a) = with_obs(format!("C17 rxsym {} {} {}", sf.factor(), bw.hz(), ms));
                sink.case(&op, &a, "rxsym", true);
            }
        }
    }

    // ---- 5. packet status
    for b0 in 0..=255u32 {
        let (op, a) = with_obs(format!("C17 rssi126 {}", b0));
        sink.case(&op, &a, "rssi126", true);
        for b1 in 0..=255u32 {
            let b2 = rng.next() as u8;
            let (op, a) = with_obs(format!("C17 pkt126 {} {} {}", b0, b1, b2));
            sink.case(&op, &a, "pkt126", true);
        }
    }
    // Frf words: 868.1 MHz (HF), 433.05 MHz (LF), and the two words around the 525 MHz port threshold
    let frfs: [u32; 5] = [14_222_950, 7_095_091, 8_601_600, 8_601_601, 8_601_599];
    for chip in ["sx1276", "sx1272"] {
        for &frf in &frfs {
            for raw in 0..=255u32 {
                let (op, a) = with_obs(format!("C17 rssi127 {} {} {}", chip, raw, frf));
                sink.case(&op, &a, "rssi127", true);
            }
        }
        for snr in 0..=255u32 {
            for rssi in 0..=255u32 {
                let frf = frfs[((snr + rssi) % 2) as usize];
                let (op, a) = with_obs(format!("C17 pkt127 {} {} {} {}", chip, snr, rssi, frf));
                sink.case(&op, &a, if snr >= 128 { "pkt127-negative-snr" } else { "pkt127-positive-snr" }, true);
            }
        }
    }
    let mut pops: Vec<String> = vec![];
    for chip in ["sx1276", "sx1272"] {
        for &frf in &frfs {
            pops.push(format!("C17 pkt127_digest {} {}", chip, frf));
        }
    }
    if thorough {
        for b0 in 0..=255u32 {
            pops.push(format!("C17 pkt126_digest {}", b0));
        }
    } else {
        pops.push(format!("C17 pkt126_digest {}", rng.below(256)));
    }
    let pres = par_eval(&pops);
    for (op, a) in pops.iter().zip(pres.iter()) {
        sink.case_w(op, a, if op.contains("126") { "pkt126-digest-block" } else { "pkt127-digest-block" }, true, 65536);
    }

    sink.finish(
        dir,
        "Real drivers over a recording fake SPI bus. pll: set_channel on SX1262/SX1276 for every LoRaWAN channel of the shipped regional plans, band edges, a stride over 137..1020 MHz, seeded in- and out-of-range u32 values, and digest blocks of 10^6 consecutive frequencies (thorough: all 883 blocks = every Hz of 137..1020 MHz, both chips). pa: requests -200..200, i32 extremes and seeded i32 values x {SX1261, SX1262, STM32WL LP/HP} x channel {unknown, 169.4, 399.999999, 400, 868.1, 915 MHz}, and x {SX1276, SX1272} x {RFO, PA_BOOST}. symb: all 65 536 symbol counts on SX126x and on both SX127x (prior RegModemConfig2 0x00/0xff/random). rxsym: LorawanRadio::setup_rx through a spy RadioKind for all 80 (sf,bw) x margins 0..1000 ms (every 7th + edges in quick) + 1500/2000/4000. pkt/rssi: SX126x all (b0,b1) with seeded b2 individually + digest blocks over all (b1,b2) per b0 (thorough: all 2^24 triples); SX127x all 2^16 (snr,rssi) individually per chip and as digests for 5 Frf words around the HF/LF threshold. Distinct = distinct op lines; non-trivial = every case except the clamped tail of the timeout sweeps (n far above the chip maximum, where the answer is constant), of which every 257th counts.",
        thorough,
        serde_json::json!({"lorawan_channels": chans.len()}),
    );
}
