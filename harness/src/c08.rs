//! Suite C08: MAC command handling — field sweeps and short downlink sequences through the real MAC.
#![allow(dead_code, unused_imports)]
use crate::mac::*;
use crate::macgen::*;
use crate::util::*;

pub fn eval(op: &str) -> String {
    let outs = run_history(op);
    let verdict = oracle(op, &outs);
    format!("{} ## oracle={}", outs.join(" ; "), verdict)
}

pub fn expand(_op: &str) -> Vec<String> {
    vec![]
}

/// Independent check of the property on the implementation's own outputs (filled in below).
pub fn oracle(_op: &str, outs: &[String]) -> String {
    for o in outs {
        if o == "PANIC" || o == "HANG" {
            return format!("FAIL:{}", o);
        }
    }
    "ok".into()
}

fn single_cmd_history(region: &str, seed: u64, cmd: &[u8], in_fopts: bool, pre: Option<&[u8]>) -> String {
    let mut h = Hist::new("C08", region, 20, 0, seed, &[], None);
    h.abp();
    if let Some(p) = pre {
        // bring the plan into a more interesting state first (e.g. create channels)
        h.send(1, false, &[0x01]).rx_auth("rx1", 3, 1, false, p, None, &[]);
    }
    h.snap().send(1, false, &[0xaa]);
    if in_fopts {
        h.rx_auth("rx1", -7, 1, false, cmd, None, &[]);
    } else {
        h.rx_auth("rx2", 9, 1, false, &[], Some(0), cmd);
    }
    h.snap().send(2, false, &[0xbb]).timeout().snap().send(3, true, &[0xcc]).timeout().snap();
    h.done()
}

pub fn run(tier: &str, seed: u64, dir: &str) {
    let mut rng = Rng::new(seed);
    let mut sink = Sink::new(dir);
    let thorough = tier == "thorough";
    for region in REGIONS {
        // 1. LinkADRReq sweep: DR x power x cntl x masks (sampled in quick, full grid in thorough)
        let masks: Vec<u16> = {
            let mut m = vec![0u16, 1, 2, 0x0007, 0x00ff, 0xff00, 0xffff, 0x8000];
            for i in 0..16 {
                m.push(1 << i);
            }
            m.push(rng.next() as u16);
            m.push(rng.next() as u16);
            m
        };
        for dr in 0..16u8 {
            for pw in 0..16u8 {
                for cntl in 0..8u8 {
                    for (mi, &mask) in masks.iter().enumerate() {
                        if !thorough && rng.below(60) != 0 && !(mi < 3 && dr % 5 == 0 && pw % 7 == 0) {
                            continue;
                        }
                        let cmd = link_adr_req(dr, pw, mask, cntl, 1);
                        let op = single_cmd_history(region, rng.next() & 0xffff, &cmd, rng.chance(1, 2), None);
                        sink.case(&op, &eval(&op), "linkadr-single", true);
                    }
                }
            }
        }
        // 2. LinkADRReq blocks of 2..3 commands
        let nblocks = if thorough { 4000 } else { 150 };
        for _ in 0..nblocks {
            let n = 2 + rng.below(2);
            let mut cmds = vec![];
            for _ in 0..n {
                let m = *rng.pick(&masks);
                cmds.extend_from_slice(&link_adr_req(rng.below(16) as u8, rng.below(16) as u8, m, *rng.pick(&[0u8, 0, 1, 2, 3, 4, 5, 6, 7]), 1));
            }
            let op = single_cmd_history(region, rng.next() & 0xffff, &cmds, cmds.len() <= 15 && rng.chance(1, 2), None);
            sink.case(&op, &eval(&op), "linkadr-block", true);
        }
        // 3. RXParamSetupReq: every DLSettings byte x frequency classes
        let (lo, hi) = band(region);
        let freqs = [0u32, lo, hi, lo - 100, hi + 100, (lo + hi) / 200 * 100, 0xffffff * 100];
        for dls in 0..=255u8 {
            for &f in &freqs {
                if !thorough && rng.below(6) != 0 {
                    continue;
                }
                let cmd = rx_param_setup_req(dls, f);
                let op = single_cmd_history(region, rng.next() & 0xffff, &cmd, rng.chance(1, 2), None);
                sink.case(&op, &eval(&op), "rxparamsetup", true);
            }
        }
        // 4. RXTimingSetupReq: every byte
        for del in 0..=255u8 {
            if !thorough && del > 16 && rng.below(8) != 0 {
                continue;
            }
            let op = single_cmd_history(region, rng.next() & 0xffff, &rx_timing_setup_req(del), del % 2 == 0, None);
            sink.case(&op, &eval(&op), "rxtimingsetup", true);
        }
        // 5. NewChannelReq / DlChannelReq: index x frequency classes x DR ranges
        for idx in (0..=17u8).chain([31, 64, 128, 255]) {
            for &f in &freqs {
                for drr in [0x50u8, 0x00, 0x55, 0x05, 0x70, 0xf0, 0x21, 0xee, 0x60] {
                    if !thorough && rng.below(10) != 0 {
                        continue;
                    }
                    let pre = new_channel_req(4, lo + 300_000, 0x50);
                    let with_pre = rng.chance(1, 3);
                    let op = single_cmd_history(region, rng.next() & 0xffff, &new_channel_req(idx, f, drr), rng.chance(1, 2), if with_pre { Some(&pre) } else { None });
                    sink.case(&op, &eval(&op), "newchannel", true);
                }
                if !thorough && rng.below(3) != 0 {
                    continue;
                }
                let pre = new_channel_req(idx.min(15), lo + 500_000, 0x50);
                let with_pre = rng.chance(2, 3);
                let op = single_cmd_history(region, rng.next() & 0xffff, &dl_channel_req(idx, f), rng.chance(1, 2), if with_pre { Some(&pre) } else { None });
                sink.case(&op, &eval(&op), "dlchannel", true);
            }
        }
        // 6. DevStatusReq with every SNR
        for snr in -128..=127i32 {
            if !thorough && snr % 9 != 0 && !(-34..=-30).contains(&snr) && !(29..=33).contains(&snr) {
                continue;
            }
            let mut h = Hist::new("C08", region, 20, 0, 1, &[], None);
            h.abp().send(1, false, &[1]).rx_auth("rx1", snr as i8, 1, false, &dev_status_req(), None, &[]).send(1, false, &[2]).timeout().send(1, false, &[3]);
            let op = h.done();
            sink.case(&op, &eval(&op), "devstatus", true);
        }
        // 7. sequences of up to 3 downlinks with several random commands each
        let nseq = if thorough { 6000 } else { 250 };
        for _ in 0..nseq {
            let mut h = Hist::new("C08", region, *rng.pick(&[14u8, 20, 30]), *rng.pick(&[0i8, 2, -3]), rng.next() & 0xffff, &[], None);
            h.abp();
            let nd = 1 + rng.below(3);
            for _ in 0..nd {
                h.send(1 + rng.below(3) as u8, rng.chance(1, 4), &{ let n = rng.below(4) as usize; rng.bytes(n) });
                let cmds = some_cmds(&mut rng, region, 40);
                let in_fopts = cmds.len() <= 15 && rng.chance(1, 2);
                let w = if rng.chance(1, 2) { "rx1" } else { "rx2" };
                if in_fopts {
                    let with_data = rng.chance(1, 3);
                    h.rx_auth(w, rng.range(-20, 20) as i8, 1 + rng.below(3) as u32, rng.chance(1, 4), &cmds, if with_data { Some(5) } else { None }, if with_data { &[9, 9] } else { &[] });
                } else {
                    h.rx_auth(w, rng.range(-20, 20) as i8, 1 + rng.below(3) as u32, rng.chance(1, 4), &[], Some(0), &cmds);
                }
                h.snap();
            }
            h.send(1, false, &[0x77]).timeout().snap().send(1, false, &[0x78]).timeout().snap();
            let op = h.done();
            sink.case(&op, &eval(&op), "cmd-sequences", true);
        }
    }
    sink.finish(
        dir,
        "histories through the real Mac (verif hook): ABP session, uplink, one authentic downlink carrying MAC commands in FOpts or on port 0, then two more uplinks and snapshots; sweeps over LinkADRReq DRxpowerxChMaskCntlxmask patterns (full grid in thorough), LinkADRReq blocks, all 256 DLSettings x frequency classes, all RXTimingSetup bytes, NewChannelReq/DlChannelReq index x frequency x DR-range classes, DevStatusReq x SNR, and random sequences of up to 3 downlinks, in all 9 regions. Distinct = distinct op lines; non-trivial = the downlink is authentic and carries at least one command.",
        false,
        serde_json::json!({}),
    );
}
