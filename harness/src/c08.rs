//! Suite C08: MAC command handling — field sweeps and short downlink sequences through the real MAC.
#![allow(dead_code, unused_imports)]
use crate::mac::*;
use crate::macgen::*;
use crate::util::*;

pub fn eval(op: &str) -> String {
    if let Some(r) = crate::adevgen::eval_dev_any(op) {
        return r;
    }
    let outs = run_history(op);
    let verdict = oracle(op, &outs);
    format!("{} ## oracle={}", outs.join(" ; "), verdict)
}

pub fn expand(_op: &str) -> Vec<String> {
    vec![]
}

/// Independent check of C08 on the implementation's own outputs (rules from LoRaWAN 1.0.x §5 / RP002).
pub fn oracle(op: &str, outs: &[String]) -> String {
    use crate::oracle::*;
    let evs: Vec<&str> = op.split(';').map(|s| s.trim()).collect();
    let region = evs[0].split_whitespace().nth(2).unwrap_or("");
    let mut last_snap: Option<Snap> = None;
    let mut pending_check: Option<(Vec<(u8, Vec<u8>)>, Snap)> = None; // requests of the downlink just accepted + snapshot before
    let mut expected: Option<Vec<u8>> = None; // answer CIDs owed in the next uplink
    let mut sticky: Option<Vec<u8>> = None; // bytes that must repeat in following uplinks
    let mut since_snap: u32 = 99; // uplinks since the last snapshot (anything else makes it stale)
    for (ev, out) in evs[1..].iter().zip(outs.iter()) {
        if out == "PANIC" || out == "HANG" {
            return format!("FAIL:{}", out);
        }
        let w: Vec<&str> = ev.split_whitespace().collect();
        // a new session (ABP, restored session, join attempt / JoinSuccess) empties the answer
        // queue and what is owed; an application call that changes the configuration makes the
        // last snapshot stale
        if matches!(w.first().copied(), Some("abp") | Some("sess") | Some("otaa")) || out.contains("resp=JoinSuccess") {
            expected = None;
            sticky = None;
            pending_check = None;
            last_snap = None;
            since_snap = 99;
            continue;
        }
        if matches!(w.first().copied(), Some("adr") | Some("dr") | Some("timeout") | Some("rxc") | Some("persist") | Some("delays")) {
            pending_check = None;
            if !matches!(w.first().copied(), Some("persist") | Some("delays")) {
                since_snap = 99;
            }
            if matches!(w.first().copied(), Some("rxc")) {
                // a Class C reception does not touch answers or stickiness
            }
            continue;
        }
        match w.first().copied() {
            Some("snap") => {
                let sn = match parse_snap(out) {
                    Some(s) => s,
                    None => return "FAIL:unparseable-snapshot".into(),
                };
                if let Some((reqs, before)) = pending_check.take() {
                    if let Err(e) = check_effect(region, &reqs, &before, &sn) {
                        return format!("FAIL:{}", e);
                    }
                }
                last_snap = Some(sn);
                since_snap = 0;
            }
            Some("rx1") | Some("rx2") => {
                pending_check = None;
                if out.starts_with("resp=RxComplete") || out.starts_with("resp=NoAck") || out.starts_with("resp=SessionExpired") {
                    // an oversized frame ended the procedure as a timeout would (ADR back-off may step)
                    since_snap = 99;
                }
                if out.starts_with("resp=SessionExpired") {
                    // at the end of the counter space the response does not say whether the frame was
                    // accepted (answers cleared, new ones owed) or only ended the procedure
                    expected = None;
                    sticky = None;
                }
                if out.starts_with("resp=DownlinkReceived") && w.len() >= 11 && w[3] == "d" {
                    let fopts = unhex(w[8]);
                    let port: Option<u8> = w[9].parse().ok();
                    let payload = unhex(w[10]);
                    let mut reqs = split_cmds(&fopts, down_len).0;
                    if port == Some(0) {
                        reqs.extend(split_cmds(&payload, down_len).0);
                    }
                    expected = Some(expected_answer_cids(region, &reqs));
                    sticky = None;
                    // the snapshot describes the state before this downlink only if nothing but the
                    // uplink of this exchange lies in between
                    if let (Some(b), true) = (&last_snap, since_snap <= 1) {
                        pending_check = Some((reqs, b.clone()));
                    }
                }
            }
            Some("send") => {
                pending_check = None;
                since_snap += 1;
                if let Some(tx) = parse_tx(out) {
                    let up = match tx.up {
                        Some(u) => u,
                        None => return "FAIL:uplink-not-decodable".into(),
                    };
                    let answers = if up.fport == Some(0) { up.payload.clone() } else { up.fopts.clone() };
                    if answers.len() > 15 {
                        return "FAIL:answers-longer-than-15".into();
                    }
                    let (cmds, whole) = split_cmds(&answers, up_len);
                    if !whole {
                        return "FAIL:answers-not-whole-commands".into();
                    }
                    if let Some(exp) = expected.take() {
                        let got: Vec<u8> = cmds.iter().map(|c| c.0).collect();
                        if got.len() > exp.len() || got[..] != exp[..got.len()] {
                            return format!("FAIL:answers-not-a-prefix-of-requests got={:02x?} expected={:02x?}", got, exp);
                        }
                        if got.len() < exp.len() {
                            let next = exp[got.len()];
                            if answers.len() + 1 + up_len(next).unwrap_or(0) <= 15 {
                                return format!("FAIL:answer-dropped-although-it-fits cid={:02x}", next);
                            }
                        }
                        // a LinkADRReq block is answered with identical copies
                        let mut st = vec![];
                        for (cid, p) in &cmds {
                            if is_sticky(*cid) {
                                st.push(*cid);
                                st.extend_from_slice(p);
                            }
                        }
                        sticky = Some(st);
                    } else if let Some(st) = &sticky {
                        if &answers != st {
                            return format!("FAIL:sticky-answers-not-repeated got={} expected={}", hex(&answers), hex(st));
                        }
                    } else if !answers.is_empty() && last_snap.is_some() && last_snap.as_ref().unwrap().pending != answers {
                        // nothing owed: only what the session already had pending may appear
                    }
                }
            }
            _ => {}
        }
    }
    if let Some(f) = linkadr_rate_in_transmissions(region, &evs[1..], outs) {
        return f;
    }
    "ok".into()
}

/// "effects judged from subsequent transmissions": when an accepted Class A downlink carries only
/// LinkADRReq commands naming a data rate (not 15 = keep) and the next uplink answers every one of
/// them with full acceptance, that uplink and the ones that follow it — until the application or
/// the network changes the rate again, for at most eight uplinks so that no ADR back-off is due —
/// are transmitted at the commanded data rate, in every region (an accepted LinkADRReq also ends a
/// join-bias phase of the fixed plans, in which data frames use DR0).
fn linkadr_rate_in_transmissions(region: &str, evs: &[&str], outs: &[String]) -> Option<String> {
    use crate::oracle::*;
    let table = crate::macsuites::dr_table(region);
    let mut i = 0;
    while i < evs.len() {
        let w: Vec<&str> = evs[i].split_whitespace().collect();
        i += 1;
        if w.len() < 11 || !(w[0] == "rx1" || w[0] == "rx2") || w[3] != "d" || !outs[i - 1].contains("DownlinkReceived") {
            continue;
        }
        let fopts = if w[8] == "-" { vec![] } else { unhex(w[8]) };
        let payload = if w[10] == "-" { vec![] } else { unhex(w[10]) };
        let cmds_bytes = if w[9] == "0" { payload } else { fopts };
        let (cmds, whole) = split_cmds(&cmds_bytes, down_len);
        if !whole || cmds.is_empty() || cmds.iter().any(|(c, _)| *c != 0x03) {
            continue;
        }
        let dr = cmds[cmds.len() - 1].1[0] >> 4;
        if dr == 15 {
            continue;
        }
        let want = match table.get(dr as usize).cloned().flatten() {
            Some(x) => x,
            None => continue,
        };
        let mut first = true;
        let mut n = 0;
        for j in i..evs.len() {
            let w0 = evs[j].split_whitespace().next().unwrap_or("");
            match w0 {
                "snap" | "timeout" | "persist" | "delays" => continue,
                "send" => {
                    let tx = match parse_tx(&outs[j]) {
                        Some(t) => t,
                        None => break,
                    };
                    if first {
                        first = false;
                        let up = match &tx.up {
                            Some(u) => u,
                            None => break,
                        };
                        let (ans, ok) = split_cmds(&up.fopts, up_len);
                        let adr: Vec<u8> = ans.iter().filter(|(c, _)| *c == 0x03).map(|(_, p)| p[0]).collect();
                        if !ok || adr.len() != cmds.len() || adr.iter().any(|a| *a != 7) {
                            break;
                        }
                    }
                    if (tx.rf.sf, tx.rf.bw) != want {
                        return Some(format!("FAIL:linkadr-dr{}-fully-accepted-but-uplink-sent-at-sf{}-bw{}", dr, tx.rf.sf, tx.rf.bw));
                    }
                    n += 1;
                    if n >= 8 {
                        break;
                    }
                }
                _ => break,
            }
        }
    }
    None
}

fn expected_mask(region: &str, before: &[u8], cntl: u8, m0: u8, m1: u8) -> Option<Vec<u8>> {
    let mut m = before.to_vec();
    if crate::mac::is_fixed(region) {
        match cntl {
            0..=3 => {
                m[cntl as usize * 2] = m0;
                m[cntl as usize * 2 + 1] = m1;
            }
            4 => m[8] = m0,
            5 => {
                for i in 0..8 {
                    m[i] = if m0 & (1 << i) != 0 { 0xff } else { 0 };
                }
                m[8] = m0;
            }
            6 => {
                for b in m.iter_mut().take(8) {
                    *b = 0xff;
                }
                m[8] = m0;
            }
            _ => {
                for b in m.iter_mut().take(8) {
                    *b = 0;
                }
                m[8] = m0;
            }
        }
        Some(m)
    } else {
        match cntl {
            0 => {
                m[0] = m0;
                m[1] = m1;
                Some(m)
            }
            6 => {
                m[0] = 0xff;
                m[1] = 0xff;
                Some(m)
            }
            _ => None,
        }
    }
}

/// "a full acknowledgement has taken effect exactly as commanded, any rejection changed nothing,
/// unambiguously invalid requests are rejected" — for frames carrying one request (or one LinkADR block)
/// A downlink with several commands: every maximal run of LinkADRReq is one block, judged by its
/// own (identical) answers — acknowledged with all three bits: the mask in force becomes the
/// block's mask folded from the mask in force BEFORE the block; otherwise nothing of the block
/// survives (in particular not into a later block of the same downlink). The mask after the downlink
/// must be the one obtained this way from the mask before it.
fn check_blocks(region: &str, reqs: &[(u8, Vec<u8>)], answers: &[(u8, Vec<u8>)], before: &crate::oracle::Snap, after: &crate::oracle::Snap) -> Result<(), String> {
    use crate::oracle::*;
    let fixed = crate::mac::is_fixed(region);
    let nmask = if fixed { 9 } else { 2 };
    if !reqs.iter().any(|r| r.0 == 0x03) {
        return Ok(());
    }
    // commands that may touch the mask by themselves (a created channel is switched on), or an
    // answer list cut by the 15-octet rule: not judged here
    if !fixed && reqs.iter().any(|r| r.0 == 0x07) {
        return Ok(());
    }
    let cids = expected_answer_cids(region, reqs);
    if cids.len() != answers.len() || cids.iter().zip(answers.iter()).any(|(c, a)| *c != a.0) {
        return Ok(());
    }
    // an empty bandwidth group may have been re-enabled by the uplink between the snapshots
    if fixed && (before.mask[..8].iter().all(|b| *b == 0) || before.mask[8] == 0) {
        return Ok(());
    }
    let mut cur = before.mask.clone();
    let mut ai = 0usize;
    let mut i = 0usize;
    while i < reqs.len() {
        let answered = match reqs[i].0 {
            0x03 | 0x05 | 0x06 | 0x08 => true,
            0x07 | 0x0a => !fixed,
            _ => false,
        };
        if reqs[i].0 != 0x03 {
            if answered {
                ai += 1;
            }
            i += 1;
            continue;
        }
        let start = i;
        while i < reqs.len() && reqs[i].0 == 0x03 {
            i += 1;
        }
        let block = &reqs[start..i];
        let ans = &answers[ai..ai + block.len()];
        ai += block.len();
        if ans.iter().any(|a| a.1 != ans[0].1) {
            return Err("linkadr-block-not-answered-with-identical-copies".into());
        }
        if ans[0].1.first() == Some(&7) {
            let mut m = Some(cur.clone());
            for r in block {
                let cntl = (r.1[3] >> 4) & 7;
                if chmask_cntl_rfu(region, cntl) {
                    return Ok(());
                }
                m = m.and_then(|x| expected_mask(region, &x, cntl, r.1[1], r.1[2]));
            }
            match m {
                Some(x) => cur = x,
                None => return Ok(()),
            }
        }
    }
    if after.mask[..nmask] != cur[..nmask] {
        return Err(format!("linkadr-blocks-mask={} expected={}", hex(&after.mask[..nmask]), hex(&cur[..nmask])));
    }
    Ok(())
}

fn check_effect(region: &str, reqs: &[(u8, Vec<u8>)], before: &crate::oracle::Snap, after: &crate::oracle::Snap) -> Result<(), String> {
    use crate::oracle::*;
    let fixed = crate::mac::is_fixed(region);
    let (answers, whole) = split_cmds(&after.pending, up_len);
    if !whole {
        return Err("pending-answers-not-whole".into());
    }
    let all_adr = !reqs.is_empty() && reqs.iter().all(|r| r.0 == 0x03);
    if reqs.len() != 1 && !all_adr {
        return check_blocks(region, reqs, &answers, before, after);
    }
    let same_cfg = before.dr == after.dr && before.txp == after.txp && before.off == after.off && before.rx2dr == after.rx2dr && before.rx2f == after.rx2f && before.rx1d == after.rx1d;
    let nmask = if fixed { 9 } else { 2 };
    // the two snapshots also span the uplink before the downlink: on a fixed plan an uplink at a data
    // rate none of whose channels is enabled re-enables that bandwidth group (select_tx_channel, as
    // coded; the transmission itself is judged by C09), so a group that was empty and is complete
    // afterwards is not a change made by the command
    let group_same = |r: std::ops::Range<usize>| before.mask[r.clone()] == after.mask[r.clone()] || (fixed && before.mask[r.clone()].iter().all(|b| *b == 0) && after.mask[r].iter().all(|b| *b == 0xff));
    let same_mask = if fixed { group_same(0..8) && group_same(8..9) } else { before.mask[..nmask] == after.mask[..nmask] };
    let same_chans = before.chans == after.chans;
    match reqs[0].0 {
        0x03 => {
            if answers.len() != reqs.len() || answers.iter().any(|a| a.0 != 0x03 || a.1 != answers[0].1) {
                return Err(format!("linkadr-block-not-answered-with-identical-copies answers={}", hex(&after.pending)));
            }
            let a = answers[0].1[0];
            let last = &reqs[reqs.len() - 1].1;
            let (dr, pw) = (last[0] >> 4, last[0] & 0x0f);
            // fold the masks of the block
            let mut mask: Option<Vec<u8>> = Some(before.mask.clone());
            let mut rfu = false;
            for r in reqs {
                let cntl = (r.1[3] >> 4) & 7;
                if chmask_cntl_rfu(region, cntl) {
                    rfu = true;
                }
                mask = mask.and_then(|m| expected_mask(region, &m, cntl, r.1[1], r.1[2]));
            }
            if a == 7 {
                let exp_dr = if dr == 15 { before.dr } else { dr };
                if after.dr != exp_dr {
                    return Err(format!("linkadr-acked-but-dr={} expected={}", after.dr, exp_dr));
                }
                if pw == 15 {
                    if after.txp != before.txp {
                        return Err("linkadr-acked-power-15-changed-power".into());
                    }
                } else {
                    let e = max_eirp_code(region) - 2 * pw as i32;
                    let e = if region == "US915" { e.min(21) } else { e };
                    if after.txp.map(|p| p as i32) != Some(e) {
                        return Err(format!("linkadr-acked-but-txp={:?} expected={}", after.txp, e));
                    }
                }
                match mask {
                    Some(m) if !rfu => {
                        if after.mask[..nmask] != m[..nmask] {
                            return Err(format!("linkadr-acked-but-mask={} expected={}", hex(&after.mask), hex(&m)));
                        }
                    }
                    _ => return Err("linkadr-acked-with-rfu-chmaskcntl".into()),
                }
                if before.off != after.off || before.rx2dr != after.rx2dr || before.rx2f != after.rx2f || before.rx1d != after.rx1d || !same_chans {
                    return Err("linkadr-changed-unrelated-state".into());
                }
            } else {
                if !(same_cfg && same_mask && same_chans) {
                    return Err(format!("linkadr-rejected-({})-but-state-changed", a));
                }
            }
            if rfu && a & 1 != 0 {
                return Err("rfu-chmaskcntl-not-rejected".into());
            }
            if dr != 15 && dr_rfu(region, dr) && a & 2 != 0 {
                return Err(format!("rfu-datarate-{}-not-rejected", dr));
            }
            if pw != 15 && txpower_rfu(region, pw) && a & 4 != 0 {
                return Err(format!("rfu-txpower-{}-not-rejected", pw));
            }
        }
        0x05 => {
            if answers.len() != 1 || answers[0].0 != 0x05 {
                return Err("rxparamsetup-not-answered".into());
            }
            let a = answers[0].1[0];
            let p = &reqs[0].1;
            let (off, rx2) = ((p[0] >> 4) & 7, p[0] & 0x0f);
            let f = freq_of(&p[1..4]);
            if a == 7 {
                let exp_rx2 = if rx2 == 15 { before.rx2dr } else { Some(rx2) };
                if after.off != off || after.rx2dr != exp_rx2 || after.rx2f != Some(f) {
                    return Err(format!("rxparamsetup-acked-but-off={} rx2dr={:?} rx2f={:?}", after.off, after.rx2dr, after.rx2f));
                }
                if before.dr != after.dr || before.txp != after.txp || before.rx1d != after.rx1d || !same_mask || !same_chans {
                    return Err("rxparamsetup-changed-unrelated-state".into());
                }
            } else if !(same_cfg && same_mask && same_chans) {
                return Err(format!("rxparamsetup-rejected-({})-but-state-changed", a));
            }
            if !in_band(region, f) && a & 1 != 0 {
                return Err("out-of-band-rx2-frequency-not-rejected".into());
            }
            if rx2 != 15 && dr_rfu(region, rx2) && a & 2 != 0 {
                return Err(format!("rfu-rx2-datarate-{}-not-rejected", rx2));
            }
            if off > max_rx1_offset(region) && a & 4 != 0 {
                return Err(format!("rx1-offset-{}-not-rejected", off));
            }
        }
        0x08 => {
            if answers.len() != 1 || answers[0].0 != 0x08 {
                return Err("rxtimingsetup-not-answered".into());
            }
            let del = reqs[0].1[0] & 0x0f;
            let exp = if del < 2 { 1000 } else { del as u32 * 1000 };
            if after.rx1d != exp {
                return Err(format!("rxtimingsetup-del-{}-gives-{}ms", del, after.rx1d));
            }
        }
        0x06 => {
            if answers.len() != 1 || answers[0].0 != 0x06 {
                return Err("devstatus-not-answered".into());
            }
            if !(same_cfg && same_mask && same_chans) {
                return Err("devstatus-changed-state".into());
            }
        }
        0x07 if !fixed => {
            if answers.len() != 1 || answers[0].0 != 0x07 {
                return Err("newchannel-not-answered".into());
            }
            let a = answers[0].1[0];
            let p = &reqs[0].1;
            let idx = p[0] as usize;
            let f = freq_of(&p[1..4]);
            let drr = p[4];
            if a == 3 {
                let got = after.chans.get(idx).cloned().flatten();
                if f == 0 {
                    if got.is_some() {
                        return Err("newchannel-acked-removal-but-channel-still-defined".into());
                    }
                } else if got != Some(Chan { freq: f, drr, dl: None }) {
                    return Err(format!("newchannel-acked-but-channel={:?}", got));
                }
                for (i, (b, c)) in before.chans.iter().zip(after.chans.iter()).enumerate() {
                    if i != idx && b != c {
                        return Err("newchannel-changed-another-channel".into());
                    }
                }
                if !same_cfg {
                    return Err("newchannel-changed-configuration".into());
                }
            } else if !(same_cfg && same_chans && same_mask) {
                return Err(format!("newchannel-rejected-({})-but-state-changed", a));
            }
            if (idx < num_default_channels(region) || idx >= 16) && a == 3 {
                return Err(format!("newchannel-on-index-{}-not-rejected", idx));
            }
            if f != 0 && !in_band(region, f) && a & 1 != 0 {
                return Err("newchannel-out-of-band-frequency-not-rejected".into());
            }
            if f != 0 && (drr >> 4) < (drr & 0x0f) && a & 2 != 0 {
                return Err("newchannel-inverted-dr-range-not-rejected".into());
            }
            // a range that contains a data rate RP002 leaves RFU for the region is unambiguously invalid
            if f != 0 && (drr >> 4) >= (drr & 0x0f) && ((drr & 0x0f)..=(drr >> 4)).any(|d| dr_rfu(region, d) || d == 15) && a & 2 != 0 {
                return Err(format!("newchannel-dr-range-{:02x}-with-undefined-rate-not-rejected", drr));
            }
        }
        0x0a if !fixed => {
            if answers.len() != 1 || answers[0].0 != 0x0a {
                return Err("dlchannel-not-answered".into());
            }
            let a = answers[0].1[0];
            let p = &reqs[0].1;
            let idx = p[0] as usize;
            let f = freq_of(&p[1..4]);
            if a == 3 {
                let got = after.chans.get(idx).cloned().flatten();
                match got {
                    Some(c) => {
                        let exp = if f == c.freq { None } else { Some(f) };
                        if c.dl != exp {
                            return Err(format!("dlchannel-acked-but-dl={:?}", c.dl));
                        }
                    }
                    None => return Err("dlchannel-acked-on-undefined-channel".into()),
                }
                if !same_cfg || !same_mask {
                    return Err("dlchannel-changed-configuration".into());
                }
            } else if !(same_cfg && same_chans && same_mask) {
                return Err(format!("dlchannel-rejected-({})-but-state-changed", a));
            }
            if !in_band(region, f) && a & 1 != 0 {
                return Err("dlchannel-out-of-band-frequency-not-rejected".into());
            }
            if before.chans.get(idx).cloned().flatten().is_none() && a & 2 != 0 {
                return Err("dlchannel-on-undefined-channel-not-rejected".into());
            }
        }
        _ => {
            // not handled by a 1.0.x Class A device in this region: nothing may change
            if !(same_cfg && same_mask && same_chans) {
                return Err(format!("unhandled-command-{:02x}-changed-state", reqs[0].0));
            }
        }
    }
    Ok(())
}

/// regional maximum EIRP as the *device* is expected to know it for TXPower → dBm (RP002 table)
fn max_eirp_code(region: &str) -> i32 {
    match region {
        // RP002: EU868 and AS923 16 dBm; EU433 12.15 dBm (10 dBm ERP), i.e. 12 in whole dBm;
        // US915 / AU915 / IN865 30 dBm
        "EU868" | "AS923_1" | "AS923_2" | "AS923_3" | "AS923_4" => 16,
        "EU433" => 12,
        _ => 30,
    }
}

fn single_cmd_history(region: &str, seed: u64, cmd: &[u8], in_fopts: bool, pre: Option<&[u8]>) -> String {
    let mut h = Hist::new("C08", region, 20, 0, seed, &[], None);
    h.abp();
    if let Some(p) = pre {
        // bring the plan into a more interesting state first (e.g. create channels)
        h.send(1, false, &[0x01]).rx_auth("rx1", 3, 1, false, p, None, &[]);
    }
    h.snap().send(1, false, &[0xaa]);
    if in_fopts {
        h.rx_auth("rx1", -7, 1, false, cmd, None, &[]);
    } else {
        h.rx_auth("rx2", 9, 1, false, &[], Some(0), cmd);
    }
    h.snap().send(2, false, &[0xbb]).timeout().snap().send(3, true, &[0xcc]).timeout().snap();
    h.done()
}

pub fn run(tier: &str, seed: u64, dir: &str) {
    let mut rng = Rng::new(seed);
    let mut sink = Sink::new(dir);
    let thorough = tier == "thorough";
    for region in REGIONS {
        // 1. LinkADRReq sweep: DR x power x cntl x masks (sampled in quick, full grid in thorough)
        let masks: Vec<u16> = {
            let mut m = vec![0u16, 1, 2, 0x0007, 0x00ff, 0xff00, 0xffff, 0x8000];
            for i in 0..16 {
                m.push(1 << i);
            }
            m.push(rng.next() as u16);
            m.push(rng.next() as u16);
            m
        };
        for dr in 0..16u8 {
            for pw in 0..16u8 {
                for cntl in 0..8u8 {
                    for (mi, &mask) in masks.iter().enumerate() {
                        if !thorough && rng.below(60) != 0 && !(mi < 3 && dr % 5 == 0 && pw % 7 == 0) {
                            continue;
                        }
                        let cmd = link_adr_req(dr, pw, mask, cntl, 1);
                        let op = single_cmd_history(region, rng.next() & 0xffff, &cmd, rng.chance(1, 2), None);
                        sink.case(&op, &eval(&op), "linkadr-single", true);
                    }
                }
            }
        }
        // 1b. a LinkADRReq accepted while the join-bias phase of a fixed plan is still running (the
        // device joined on its preferred sub-band, JoinAccept without CFList, several biased tries
        // configured): the commanded rate must show in the transmissions that follow
        if is_fixed(region) {
            for k in 0..(if thorough { 24 } else { 6 }) {
                let sb = 1 + (k % 8) as u8;
                let tries = [3usize, 8, 4, 1, 2, 5][k % 6];
                let mut h = Hist::new("C08", region, 20, 0, rng.next() & 0xffffff, &[], Some((sb, tries)));
                h.go_live();
                h.ev("otaa");
                let devaddr = 0x0100_0000 + (rng.next() as u32 & 0xffffff);
                let root = h.root;
                let acc = build_join_accept(&root, devaddr, 0, 1, &CfDesc::None);
                h.rx_bytes("rx1", 5, &acc, None);
                h.devaddr = devaddr;
                h.last_down = None;
                h.snap();
                h.send(1, false, &[1]);
                let dr = [3u8, 2, 1, 3][k % 4];
                // ChMaskCntl 6: all 125 kHz channels on (the preferred sub-band stays enabled)
                h.rx_auth("rx1", 0, 1, false, &link_adr_req(dr, 15, 0x00ff, 6, 1), None, &[]).snap();
                for _ in 0..6 {
                    h.send(1, false, &[2]).timeout().snap();
                }
                let op = h.done();
                sink.case(&op, &eval(&op), "linkadr-during-join-bias", true);
            }
        }
        // 2. LinkADRReq blocks of 2..3 commands
        let nblocks = if thorough { 4000 } else { 150 };
        for _ in 0..nblocks {
            let n = 2 + rng.below(2);
            let mut cmds = vec![];
            for _ in 0..n {
                let m = *rng.pick(&masks);
                cmds.extend_from_slice(&link_adr_req(rng.below(16) as u8, rng.below(16) as u8, m, *rng.pick(&[0u8, 0, 1, 2, 3, 4, 5, 6, 7]), 1));
            }
            let op = single_cmd_history(region, rng.next() & 0xffff, &cmds, cmds.len() <= 15 && rng.chance(1, 2), None);
            sink.case(&op, &eval(&op), "linkadr-block", true);
        }
        // 3. RXParamSetupReq: every DLSettings byte x frequency classes
        let (lo, hi) = band(region);
        let freqs = [0u32, lo, hi, lo - 100, hi + 100, (lo + hi) / 200 * 100, 0xffffff * 100];
        for dls in 0..=255u8 {
            for &f in &freqs {
                if !thorough && rng.below(6) != 0 {
                    continue;
                }
                let cmd = rx_param_setup_req(dls, f);
                let op = single_cmd_history(region, rng.next() & 0xffff, &cmd, rng.chance(1, 2), None);
                sink.case(&op, &eval(&op), "rxparamsetup", true);
            }
        }
        // 4. RXTimingSetupReq: every byte
        for del in 0..=255u8 {
            if !thorough && del > 16 && rng.below(8) != 0 {
                continue;
            }
            let op = single_cmd_history(region, rng.next() & 0xffff, &rx_timing_setup_req(del), del % 2 == 0, None);
            sink.case(&op, &eval(&op), "rxtimingsetup", true);
        }
        // 5. NewChannelReq / DlChannelReq: index x frequency classes x DR ranges
        for idx in (0..=17u8).chain([31, 64, 128, 255]) {
            for &f in &freqs {
                for drr in [0x50u8, 0x00, 0x55, 0x05, 0x70, 0xf0, 0x21, 0xee, 0x60, 0x80, 0xc5, 0xe0, 0x88, 0xd3] {
                    if !thorough && rng.below(10) != 0 {
                        continue;
                    }
                    let pre = new_channel_req(4, lo + 300_000, 0x50);
                    let with_pre = rng.chance(1, 3);
                    let op = single_cmd_history(region, rng.next() & 0xffff, &new_channel_req(idx, f, drr), rng.chance(1, 2), if with_pre { Some(&pre) } else { None });
                    sink.case(&op, &eval(&op), "newchannel", true);
                }
                if !thorough && rng.below(3) != 0 {
                    continue;
                }
                let pre = new_channel_req(idx.min(15), lo + 500_000, 0x50);
                let with_pre = rng.chance(2, 3);
                let op = single_cmd_history(region, rng.next() & 0xffff, &dl_channel_req(idx, f), rng.chance(1, 2), if with_pre { Some(&pre) } else { None });
                sink.case(&op, &eval(&op), "dlchannel", true);
            }
        }
        // 5b. DlChannelReq after an earlier DlChannelReq for the same channel: repeated, changed, reset
        if !is_fixed(region) {
            let own = default_ch0(region);
            for idx in 0..3u8 {
                for (f1, f2) in [(lo + 700_000, lo + 700_000), (lo + 700_000, lo + 300_000), (lo + 700_000, own), (own, lo + 700_000), (own, own)] {
                    for in_fopts in [false, true] {
                        let pre = dl_channel_req(idx, f1);
                        let op = single_cmd_history(region, rng.next() & 0xffff, &dl_channel_req(idx, f2), in_fopts, Some(&pre));
                        sink.case(&op, &eval(&op), "dlchannel-after-dlchannel", true);
                    }
                }
            }
        }
        // 6. DevStatusReq with every SNR
        for snr in -128..=127i32 {
            if !thorough && snr % 9 != 0 && !(-34..=-30).contains(&snr) && !(29..=33).contains(&snr) {
                continue;
            }
            let mut h = Hist::new("C08", region, 20, 0, 1, &[], None);
            h.abp().send(1, false, &[1]).rx_auth("rx1", snr as i8, 1, false, &dev_status_req(), None, &[]).send(1, false, &[2]).timeout().send(1, false, &[3]);
            let op = h.done();
            sink.case(&op, &eval(&op), "devstatus", true);
        }
        // 6b. answers that overflow the 15-byte limit, with shorter answers after longer ones
        for _ in 0..(if thorough { 400 } else { 40 }) {
            let mut cmds = vec![];
            let k = 4 + rng.below(4);
            for _ in 0..k {
                cmds.extend_from_slice(&link_adr_req(rng.below(6) as u8, rng.below(8) as u8, 0x0007, 0, 1));
            }
            for _ in 0..(1 + rng.below(5)) {
                match rng.below(3) {
                    0 => cmds.extend_from_slice(&dev_status_req()),
                    1 => cmds.extend_from_slice(&rx_timing_setup_req(rng.below(16) as u8)),
                    _ => cmds.extend_from_slice(&rx_param_setup_req(rng.below(8) as u8, lo)),
                }
            }
            let op = single_cmd_history(region, rng.next() & 0xffff, &cmds, false, None);
            sink.case(&op, &eval(&op), "answer-overflow", true);
        }
        // 7. sequences of up to 3 downlinks with several random commands each
        let nseq = if thorough { 6000 } else { 250 };
        for _ in 0..nseq {
            let mut h = Hist::new("C08", region, *rng.pick(&[14u8, 20, 30]), *rng.pick(&[0i8, 2, -3]), rng.next() & 0xffff, &[], None);
            h.abp();
            let nd = 1 + rng.below(3);
            for _ in 0..nd {
                h.send(1 + rng.below(3) as u8, rng.chance(1, 4), &{ let n = rng.below(4) as usize; rng.bytes(n) });
                let cmds = some_cmds(&mut rng, region, 40);
                let in_fopts = cmds.len() <= 15 && rng.chance(1, 2);
                let w = if rng.chance(1, 2) { "rx1" } else { "rx2" };
                if in_fopts {
                    let with_data = rng.chance(1, 3);
                    h.rx_auth(w, rng.range(-20, 20) as i8, 1 + rng.below(3) as u32, rng.chance(1, 4), &cmds, if with_data { Some(5) } else { None }, if with_data { &[9, 9] } else { &[] });
                } else {
                    h.rx_auth(w, rng.range(-20, 20) as i8, 1 + rng.below(3) as u32, rng.chance(1, 4), &[], Some(0), &cmds);
                }
                h.snap();
            }
            h.send(1, false, &[0x77]).timeout().snap().send(1, false, &[0x78]).timeout().snap();
            let op = h.done();
            sink.case(&op, &eval(&op), "cmd-sequences", true);
        }
        // 7b. sticky answers are repeated until the next ACCEPTED Class A downlink: frames that are
        // not accepted (fresh counter but foreign key, bit flips, replays, junk) heard in the
        // windows in between change nothing
        let nst = if thorough { 300 } else { 36 };
        for i in 0..nst {
            let mut h = Hist::new("C08", region, 20, 0, rng.next() & 0xffff, &[], None);
            h.go_live();
            h.abp();
            h.send(1, false, &[0x31]);
            let cmd = match i % 3 {
                0 => rx_param_setup_req(0, crate::macsuites::default_rx2(region).0),
                1 => rx_timing_setup_req(1 + (i as u8 % 14)),
                _ => if is_fixed(region) { rx_timing_setup_req(2) } else { dl_channel_req(0, lo + 700_000) },
            };
            h.rx_auth("rx1", 2, 1, false, &cmd, None, &[]).snap();
            for _ in 0..2 + rng.below(2) {
                h.send(1, rng.chance(1, 4), &[0x32]);
                let (b, hint, _) = rejected_frame(&mut rng, &h);
                let w = if rng.chance(1, 2) { "rx1" } else { "rx2" };
                h.rx_bytes(w, 0, &b, hint);
                if h.last_out().starts_with("resp=DownlinkReceived") {
                    if let Some(f) = hint {
                        h.last_down = Some(f);
                    }
                    break;
                }
                h.timeout().snap();
            }
            h.send(1, false, &[0x33]).timeout().snap();
            let op = h.done();
            sink.case(&op, &eval(&op), "sticky-vs-rejected-frames", true);
        }
        // 8. answers owed for a Class A downlink survive Class C receptions before the next uplink
        let nrxc = if thorough { 600 } else { 40 };
        for i in 0..nrxc {
            let mut h = Hist::new("C08", region, 20, 0, rng.next() & 0xffff, &[], None);
            h.abp();
            h.send(1, rng.chance(1, 4), &[0x11]);
            let cmds = if i % 4 == 0 {
                let mut c = dev_status_req();
                c.extend_from_slice(&rx_timing_setup_req(rng.below(16) as u8));
                c.extend_from_slice(&link_adr_req(rng.below(6) as u8, rng.below(8) as u8, 0x0007, 0, 1));
                c
            } else {
                some_cmds(&mut rng, region, 15)
            };
            h.rx_auth(if rng.chance(1, 2) { "rx1" } else { "rx2" }, rng.range(-20, 20) as i8, 1, rng.chance(1, 3), &cmds, None, &[]);
            h.snap();
            for _ in 0..1 + rng.below(2) {
                // application data heard while listening in Class C; sometimes with FOpts commands
                let fo = if rng.chance(1, 3) { some_cmds(&mut rng, region, 10) } else { vec![] };
                h.rx_auth("rxc", 3, 1, rng.chance(1, 3), &fo, Some(7), &[0x22, 0x23]);
            }
            h.snap().send(1, false, &[0x77]).timeout().snap().send(1, false, &[0x78]).timeout().snap();
            let op = h.done();
            sink.case(&op, &eval(&op), "answers-across-rxc", true);
        }
    }
    // two LinkADRReq blocks in one downlink, the first rejected after widening the mask
    for region in REGIONS {
        for k in 0..(if thorough { 24 } else { 6 }) {
            let op = two_blocks_history("C08", &mut rng, region, k);
            sink.case(&op, &eval(&op), "linkadr-two-blocks", true);
        }
    }
    // device level: both front-ends with the scripted radio (see adevgen::add_dev_classes)
    crate::adevgen::add_dev_classes("C08", &mut rng, &mut sink, thorough, eval);
    sink.finish(
        dir,
        "histories through the real Mac (verif hook): ABP session, uplink, one authentic downlink carrying MAC commands in FOpts or on port 0, then two more uplinks and snapshots; sweeps over LinkADRReq DRxpowerxChMaskCntlxmask patterns (full grid in thorough), LinkADRReq blocks, all 256 DLSettings x frequency classes, all RXTimingSetup bytes, NewChannelReq/DlChannelReq index x frequency x DR-range classes, DevStatusReq x SNR, random sequences of up to 3 downlinks, and Class A requests followed by Class C receptions before the answering uplink, in all 9 regions. Distinct = distinct op lines; non-trivial = the downlink is authentic and carries at least one command.",
        false,
        serde_json::json!({}),
    );
}
