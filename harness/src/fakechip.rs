//! Fake SX126x / SX127x chips, fake SPI bus, fake board interface (`InterfaceVariant`), fake delay
//! and a single-threaded executor — shared by the C18, C13 and C14 suites.
//!
//! The chip is a *wire-level* model: a command is the concatenation of the bytes written in one
//! SPI transaction (NSS low … high) and every byte read is `miso(command, position on the wire)`.
//! lora-phy (`[opcode]` + read status + read n) and Semtech's C driver (`[opcode, NOP]` + read n)
//! split a transaction differently but clock the same wire bytes, so both get the same answers.
//!
//! Every SPI transaction and every `InterfaceVariant` call is one I/O step (`World::step`); a step
//! can be made to fail (`World::fault`), and an `await_irq` can be made to stay pending
//! (`World::pend_at`, the future is then dropped by `block_on_or_drop`).  All steps are logged in
//! `World::log` as short tokens — the transcript the Lean models reproduce:
//!   `s<hex>`      SPI transaction writing <hex>           `s<hex>/<n>`  … then reading n bytes
//!   `B` wait_on_busy  `I` await_irq  `Rx`/`Tx`/`Off` RF switch  `Rst` reset  `D<ms>` delay
//!   a trailing `!` marks the step that was made to fail.
#![allow(dead_code)]
use embedded_hal::spi::Operation;
use lora_phy::mod_params::RadioError;
use lora_phy::mod_traits::InterfaceVariant;
use std::cell::RefCell;
use std::collections::VecDeque;
use std::future::Future;
use std::rc::Rc;

#[derive(Clone, Copy, PartialEq, Eq, Debug)]
pub enum Kind {
    Sx126x,
    Sx127x,
}

pub struct World {
    pub kind: Kind,
    pub log: Vec<String>,
    pub step: usize,
    pub fault: Option<usize>,
    pub pend_at: Option<usize>,
    /// SX126x: 4096 registers (address & 0xfff); SX127x: 128 registers
    pub regs: Vec<u8>,
    /// data buffer (SX126x) / FIFO (SX127x); the pointer wraps modulo 256
    pub buffer: [u8; 256],
    pub fifo_ptr: u8,
    // --- SX126x command answers
    pub status: u8,
    pub rx_len: u8,
    pub rx_start: u8,
    pub pkt_status: [u8; 3],
    pub rssi_inst: u8,
    /// answers of successive GetIrqStatus / RegIrqFlags reads; `irq_default` when exhausted
    pub irq_script: VecDeque<u16>,
    pub irq_default: u16,
    /// number of IRQ-status reads served
    pub irq_reads: usize,
    pub log_on: bool,
}

pub type Shared = Rc<RefCell<World>>;

impl World {
    pub fn new(kind: Kind) -> Shared {
        Rc::new(RefCell::new(World {
            kind,
            log: vec![],
            step: 0,
            fault: None,
            pend_at: None,
            regs: vec![0; if kind == Kind::Sx126x { 4096 } else { 128 }],
            buffer: [0; 256],
            fifo_ptr: 0,
            status: 0,
            rx_len: 0,
            rx_start: 0,
            pkt_status: [0; 3],
            rssi_inst: 0,
            irq_script: VecDeque::new(),
            irq_default: 0,
            irq_reads: 0,
            log_on: true,
        }))
    }

    /// one I/O step; true = this step fails
    fn tick(&mut self, token: String) -> bool {
        // a driver that never stops talking to the chip (a wait loop that cannot end) is cut off:
        // the panic surfaces as `PANIC` through the suites' catch_unwind
        if self.step > 400 {
            panic!("DIVERGE: more than 400 I/O steps in one call");
        }
        let failed = self.fault == Some(self.step);
        self.step += 1;
        if self.log_on {
            self.log.push(if failed { format!("{}!", token) } else { token });
        }
        failed
    }

    fn next_irq(&mut self) -> u16 {
        self.irq_reads += 1;
        self.irq_script.pop_front().unwrap_or(self.irq_default)
    }

    /// SX126x: the effect of a completed command (all bytes written in one transaction)
    fn exec126(&mut self, w: &[u8]) {
        match w.first().copied() {
            Some(0x0D) if w.len() >= 3 => {
                let addr = ((w[1] as usize) << 8) | w[2] as usize;
                for (i, b) in w[3..].iter().enumerate() {
                    self.regs[(addr + i) & 0xfff] = *b;
                }
            }
            Some(0x0E) if w.len() >= 2 => {
                for (i, b) in w[2..].iter().enumerate() {
                    self.buffer[(w[1] as usize + i) & 0xff] = *b;
                }
            }
            // SetPacketParams (LoRa): the chip keeps the payload length in register 0x0702
            Some(0x8C) if w.len() >= 5 => self.regs[0x0702] = w[4],
            _ => {}
        }
    }

    /// SX126x: the byte on MISO at wire position `pos` of a transaction whose written bytes are `w`
    fn miso126(&mut self, w: &[u8], pos: usize, irq: u16) -> u8 {
        let op = w.first().copied().unwrap_or(0);
        match op {
            0x1D if w.len() >= 3 && pos >= 4 => {
                let addr = ((w[1] as usize) << 8) | w[2] as usize;
                self.regs[(addr + pos - 4) & 0xfff]
            }
            0x1E if w.len() >= 2 && pos >= 3 => self.buffer[(w[1] as usize + pos - 3) & 0xff],
            0x13 => match pos {
                1 => self.status,
                2 => self.rx_len,
                3 => self.rx_start,
                _ => 0,
            },
            0x12 => match pos {
                1 => self.status,
                2 => (irq >> 8) as u8,
                3 => irq as u8,
                _ => 0,
            },
            0x14 => match pos {
                1 => self.status,
                2..=4 => self.pkt_status[pos - 2],
                _ => 0,
            },
            0x15 => match pos {
                1 => self.status,
                2 => self.rssi_inst,
                _ => 0,
            },
            0x17 | 0x07 | 0x11 | 0xC0 => {
                if pos == 1 {
                    self.status
                } else {
                    0
                }
            }
            _ => 0,
        }
    }

    /// one SPI transaction (already known not to be the failing step)
    fn transact(&mut self, ops: &mut [Operation<'_, u8>]) {
        let mut w: Vec<u8> = vec![];
        for op in ops.iter() {
            if let Operation::Write(b) = op {
                w.extend_from_slice(b);
            }
        }
        match self.kind {
            Kind::Sx126x => {
                let irq = if w.first() == Some(&0x12) { self.next_irq() } else { 0 };
                let mut pos = w.len();
                for op in ops.iter_mut() {
                    if let Operation::Read(buf) = op {
                        for b in buf.iter_mut() {
                            *b = self.miso126(&w, pos, irq);
                            pos += 1;
                        }
                    }
                }
                self.exec126(&w);
            }
            Kind::Sx127x => {
                // [addr|0x80, data…] burst write, [addr] + read n burst read; the FIFO (address 0)
                // is accessed through the auto-incrementing 8-bit FifoAddrPtr, other addresses increment
                let Some(&a0) = w.first() else { return };
                let addr = (a0 & 0x7f) as usize;
                if a0 & 0x80 != 0 {
                    for (i, b) in w[1..].iter().enumerate() {
                        if addr == 0 {
                            self.buffer[self.fifo_ptr as usize] = *b;
                            self.fifo_ptr = self.fifo_ptr.wrapping_add(1);
                        } else {
                            let a = (addr + i) & 0x7f;
                            if a == 0x0d {
                                self.fifo_ptr = *b;
                            }
                            if a == 0x01 {
                                // LongRangeMode (bit 7) can only change while the chip is in sleep and the
                                // write keeps it there (SX1276 datasheet, RegOpMode); otherwise it is kept
                                let cur = self.regs[1];
                                let v = if cur & 7 == 0 && *b & 7 == 0 { *b } else { (cur & 0x80) | (*b & 0x7f) };
                                self.regs[1] = v;
                            } else if a != 0x12 {
                                self.regs[a] = *b;
                            }
                        }
                    }
                } else {
                    let mut i = 0usize;
                    for op in ops.iter_mut() {
                        if let Operation::Read(buf) = op {
                            for b in buf.iter_mut() {
                                if addr == 0 {
                                    *b = self.buffer[self.fifo_ptr as usize];
                                    self.fifo_ptr = self.fifo_ptr.wrapping_add(1);
                                } else {
                                    let a = (addr + i) & 0x7f;
                                    *b = match a {
                                        0x12 => self.next_irq() as u8,
                                        0x0d => self.fifo_ptr,
                                        _ => self.regs[a],
                                    };
                                }
                                i += 1;
                            }
                        }
                    }
                }
            }
        }
    }

    pub fn transcript(&self) -> String {
        if self.log.is_empty() {
            "-".into()
        } else {
            self.log.join(",")
        }
    }
}

fn token_of(ops: &[Operation<'_, u8>]) -> String {
    let mut s = String::from("s");
    let mut r = 0usize;
    for op in ops.iter() {
        match op {
            Operation::Write(b) => {
                for x in b.iter() {
                    s.push_str(&format!("{:02x}", x));
                }
            }
            Operation::Read(b) => r += b.len(),
            Operation::Transfer(rd, wr) => {
                for x in wr.iter() {
                    s.push_str(&format!("{:02x}", x));
                }
                r += rd.len();
            }
            Operation::TransferInPlace(b) => r += b.len(),
            Operation::DelayNs(_) => {}
        }
    }
    if r > 0 {
        s.push_str(&format!("/{}", r));
    }
    s
}

#[derive(Debug)]
pub struct SpiErr;
impl embedded_hal::spi::Error for SpiErr {
    fn kind(&self) -> embedded_hal::spi::ErrorKind {
        embedded_hal::spi::ErrorKind::Other
    }
}

pub struct FakeSpi(pub Shared);
impl embedded_hal::spi::ErrorType for FakeSpi {
    type Error = SpiErr;
}

impl FakeSpi {
    fn do_transaction(&mut self, ops: &mut [Operation<'_, u8>]) -> Result<(), SpiErr> {
        let mut w = self.0.borrow_mut();
        if w.tick(token_of(ops)) {
            return Err(SpiErr);
        }
        w.transact(ops);
        Ok(())
    }
}

impl embedded_hal_async::spi::SpiDevice<u8> for FakeSpi {
    async fn transaction(&mut self, ops: &mut [Operation<'_, u8>]) -> Result<(), SpiErr> {
        self.do_transaction(ops)
    }
}

/// the blocking flavour, used by Semtech's C driver through smtc-modem-cores
impl embedded_hal::spi::SpiDevice<u8> for FakeSpi {
    fn transaction(&mut self, ops: &mut [Operation<'_, u8>]) -> Result<(), SpiErr> {
        self.do_transaction(ops)
    }
}

pub struct FakeIv(pub Shared);

impl InterfaceVariant for FakeIv {
    async fn reset(&mut self, _delay: &mut impl embedded_hal_async::delay::DelayNs) -> Result<(), RadioError> {
        if self.0.borrow_mut().tick("Rst".into()) {
            return Err(RadioError::Reset);
        }
        Ok(())
    }
    async fn wait_on_busy(&mut self) -> Result<(), RadioError> {
        if self.0.borrow_mut().tick("B".into()) {
            return Err(RadioError::Busy);
        }
        Ok(())
    }
    async fn await_irq(&mut self) -> Result<(), RadioError> {
        let pend = {
            let w = self.0.borrow();
            w.pend_at == Some(w.step)
        };
        if pend {
            self.0.borrow_mut().tick("I~".into());
            return std::future::pending().await;
        }
        if self.0.borrow_mut().tick("I".into()) {
            return Err(RadioError::Irq);
        }
        Ok(())
    }
    async fn enable_rf_switch_rx(&mut self) -> Result<(), RadioError> {
        if self.0.borrow_mut().tick("Rx".into()) {
            return Err(RadioError::RfSwitchRx);
        }
        Ok(())
    }
    async fn enable_rf_switch_tx(&mut self) -> Result<(), RadioError> {
        if self.0.borrow_mut().tick("Tx".into()) {
            return Err(RadioError::RfSwitchTx);
        }
        Ok(())
    }
    async fn disable_rf_switch(&mut self) -> Result<(), RadioError> {
        // lora-phy has no "RfSwitchOff" error; a board implementation would report one of the two
        if self.0.borrow_mut().tick("Off".into()) {
            return Err(RadioError::RfSwitchRx);
        }
        Ok(())
    }
}

/// delays are logged (not fault-able, not a step)
pub struct FakeDelay(pub Shared);
impl embedded_hal_async::delay::DelayNs for FakeDelay {
    async fn delay_ns(&mut self, ns: u32) {
        let mut w = self.0.borrow_mut();
        if w.log_on {
            w.log.push(format!("D{}ns", ns));
        }
    }
    async fn delay_ms(&mut self, ms: u32) {
        let mut w = self.0.borrow_mut();
        if w.log_on {
            w.log.push(format!("D{}", ms));
        }
    }
}

/// Poll a future that never really waits: `Some(output)`, or `None` when it stayed pending (it is
/// then dropped here — that is the "future dropped at an await point" event).
pub fn block_on_or_drop<F: Future>(f: F) -> Option<F::Output> {
    use std::task::{Context, Poll, RawWaker, RawWakerVTable, Waker};
    fn noop_raw() -> RawWaker {
        fn no(_: *const ()) {}
        fn cl(_: *const ()) -> RawWaker {
            noop_raw()
        }
        static VT: RawWakerVTable = RawWakerVTable::new(cl, no, no, no);
        RawWaker::new(std::ptr::null(), &VT)
    }
    let waker = unsafe { Waker::from_raw(noop_raw()) };
    let mut cx = Context::from_waker(&waker);
    let mut f = std::pin::pin!(f);
    for _ in 0..4 {
        if let Poll::Ready(v) = f.as_mut().poll(&mut cx) {
            return Some(v);
        }
    }
    None
}

pub fn block_on<F: Future>(f: F) -> F::Output {
    block_on_or_drop(f).expect("future stayed pending")
}

pub fn err_name(e: &RadioError) -> String {
    format!("{:?}", e)
}
