//! C16 / C15(modulation part): lora-modulation airtime and symbol time, real code.
use crate::util::*;
use lora_modulation::{Bandwidth, BaseBandModulationParams, CodingRate, SpreadingFactor};

pub const SFS: [SpreadingFactor; 8] = [
    SpreadingFactor::_5,
    SpreadingFactor::_6,
    SpreadingFactor::_7,
    SpreadingFactor::_8,
    SpreadingFactor::_9,
    SpreadingFactor::_10,
    SpreadingFactor::_11,
    SpreadingFactor::_12,
];
pub const BWS: [Bandwidth; 10] = [
    Bandwidth::_7KHz,
    Bandwidth::_10KHz,
    Bandwidth::_15KHz,
    Bandwidth::_20KHz,
    Bandwidth::_31KHz,
    Bandwidth::_41KHz,
    Bandwidth::_62KHz,
    Bandwidth::_125KHz,
    Bandwidth::_250KHz,
    Bandwidth::_500KHz,
];
pub const CRS: [CodingRate; 4] = [CodingRate::_4_5, CodingRate::_4_6, CodingRate::_4_7, CodingRate::_4_8];

fn params(sf: SpreadingFactor, bw: Bandwidth, cr: CodingRate, ldro: Option<bool>) -> Option<BaseBandModulationParams> {
    guarded(move || {
        let mut p = BaseBandModulationParams::new(sf, bw, cr);
        if let Some(l) = ldro {
            p.ldro = l;
        }
        p
    })
}

pub fn toa(sf: SpreadingFactor, bw: Bandwidth, cr: CodingRate, ldro: Option<bool>, pre: Option<u8>, hdr: bool, len: u8) -> Option<i64> {
    let p = params(sf, bw, cr, ldro)?;
    guarded(move || p.time_on_air_us(pre, hdr, len) as i64)
}

fn show(v: Option<i64>) -> String {
    match v {
        Some(v) => v.to_string(),
        None => "PANIC".into(),
    }
}

fn ldro_s(l: Option<bool>) -> &'static str {
    match l {
        None => "-",
        Some(false) => "0",
        Some(true) => "1",
    }
}

fn digest_block(sf: SpreadingFactor, bw: Bandwidth, ldro: Option<bool>) -> u64 {
    let mut h = Fnv::new();
    for cr in CRS {
        for hdr in [false, true] {
            for pi in 0..257u32 {
                let pre = if pi == 0 { None } else { Some((pi - 1) as u8) };
                for len in 0..=255u8 {
                    h.opt(toa(sf, bw, cr, ldro, pre, hdr, len));
                }
            }
        }
    }
    h.0
}

fn sf_of(n: &str) -> Option<SpreadingFactor> {
    SFS.iter().copied().find(|s| s.factor().to_string() == n)
}
fn bw_of(n: &str) -> Option<Bandwidth> {
    // a bandwidth is named by the datasheet's figure in Hz (legacy replays, the C13 table) or by the crate's current hz()
    crate::c13::bw_of(n).or_else(|| BWS.iter().copied().find(|s| s.hz().to_string() == n))
}
fn cr_of(n: &str) -> Option<CodingRate> {
    CRS.iter().copied().find(|s| s.denom().to_string() == n)
}
fn ldro_of(n: &str) -> Option<bool> {
    match n {
        "0" => Some(false),
        "1" => Some(true),
        _ => None,
    }
}

/// Evaluate one op line on the real code (used for generation and for replay).
pub fn eval(op: &str) -> String {
    let w: Vec<&str> = op.split_whitespace().collect();
    match w.as_slice() {
        ["C16", "new", sf, bw] => {
            let (Some(sf), Some(bw)) = (sf_of(sf), bw_of(bw)) else { return "bad-op".into() };
            match params(sf, bw, CodingRate::_4_5, None) {
                Some(p) => format!("{},{}", p.symbols_to_ms(1000), p.ldro), // symbols_to_ms(1000) = t_sym_us
                None => "PANIC".into(),
            }
        }
        ["C16", "toa", sf, bw, cr, ldro, pre, hdr, len] => {
            let (Some(sf), Some(bw), Some(cr)) = (sf_of(sf), bw_of(bw), cr_of(cr)) else { return "bad-op".into() };
            let pre = pre.parse::<u8>().ok();
            let (Ok(hdr), Ok(len)) = (hdr.parse::<u8>(), len.parse::<u8>()) else { return "bad-op".into() };
            show(toa(sf, bw, cr, ldro_of(ldro), pre, hdr != 0, len))
        }
        ["C16", "toa_digest", sf, bw, ldro] => {
            let (Some(sf), Some(bw)) = (sf_of(sf), bw_of(bw)) else { return "bad-op".into() };
            format!("{:016x}", digest_block(sf, bw, ldro_of(ldro)))
        }
        ["C16", "delay_in_symbols", sf, bw, ms] => {
            let (Some(sf), Some(bw), Ok(ms)) = (sf_of(sf), bw_of(bw), ms.parse::<u32>()) else { return "bad-op".into() };
            match params(sf, bw, CodingRate::_4_5, None) {
                Some(p) => show(guarded(move || p.delay_in_symbols(ms) as i64)),
                None => "PANIC".into(),
            }
        }
        _ => "bad-op".into(),
    }
}

/// Expand a digest op into its individual cases (used to locate the first differing case).
pub fn expand(op: &str) -> Vec<String> {
    let w: Vec<&str> = op.split_whitespace().collect();
    let mut out = vec![];
    if let ["C16", "toa_digest", sf, bw, ldro] = w.as_slice() {
        for cr in CRS {
            for hdr in [0, 1] {
                for pi in 0..257u32 {
                    let pre = if pi == 0 { "-".to_string() } else { (pi - 1).to_string() };
                    for len in 0..=255u32 {
                        out.push(format!("C16 toa {} {} {} {} {} {} {}", sf, bw, cr.denom(), ldro, pre, hdr, len));
                    }
                }
            }
        }
    }
    out
}

pub fn run(tier: &str, seed: u64, dir: &str) {
    let mut rng = Rng::new(seed);
    let mut sink = Sink::new(dir);
    let ldros = [None, Some(false), Some(true)];
    // 1. symbol time / LDRO of `new` for every (sf, bw): exhaustive
    for sf in SFS {
        for bw in BWS {
            let op = format!("C16 new {} {}", sf.factor(), bw.hz());
            sink.case(&op, &eval(&op), "new", true);
        }
    }
    // 2. boundary grid
    for sf in SFS {
        for bw in BWS {
            for cr in CRS {
                for ldro in ldros {
                    for hdr in [false, true] {
                        // payload lengths around the zero crossing of the ceiling numerator, and the extremes
                        let h = if hdr { 0 } else { 20 };
                        let z = ((4 * sf.factor() as i32 - 44 + h) / 8).clamp(0, 255) as i32;
                        let mut lens: Vec<i32> = vec![0, 1, 2, z - 1, z, z + 1, z + 2, 13, 51, 127, 128, 222, 242, 254, 255];
                        lens.retain(|l| (0..=255).contains(l));
                        lens.sort();
                        lens.dedup();
                        for pre in [None, Some(0u8), Some(8), Some(255)] {
                            for &len in &lens {
                                let op = format!(
                                    "C16 toa {} {} {} {} {} {} {}",
                                    sf.factor(),
                                    bw.hz(),
                                    cr.denom(),
                                    ldro_s(ldro),
                                    pre.map(|p| p.to_string()).unwrap_or("-".into()),
                                    hdr as u8,
                                    len
                                );
                                let class = if len <= z + 1 { "toa-boundary-short" } else { "toa-boundary" };
                                sink.case(&op, &eval(&op), class, true);
                            }
                        }
                    }
                }
            }
        }
    }
    // 3. seeded random points
    let n_rand = if tier == "thorough" { 400_000 } else { 40_000 };
    for _ in 0..n_rand {
        let sf = *rng.pick(&SFS);
        let bw = *rng.pick(&BWS);
        let cr = *rng.pick(&CRS);
        let ldro = *rng.pick(&ldros);
        let hdr = rng.chance(1, 2);
        let pre = if rng.chance(1, 8) { None } else { Some(rng.below(256) as u8) };
        let len = if rng.chance(1, 4) { rng.below(16) as u8 } else { rng.below(256) as u8 };
        let op = format!(
            "C16 toa {} {} {} {} {} {} {}",
            sf.factor(),
            bw.hz(),
            cr.denom(),
            ldro_s(ldro),
            pre.map(|p| p.to_string()).unwrap_or("-".into()),
            hdr as u8,
            len
        );
        sink.case(&op, &eval(&op), "toa-random", true);
    }
    // 4. digest blocks: every cr × header × preamble(none,0..255) × len(0..255) of one (sf,bw,ldro)
    let mut blocks: Vec<(SpreadingFactor, Bandwidth, Option<bool>)> = vec![];
    for sf in SFS {
        for bw in BWS {
            for ldro in ldros {
                blocks.push((sf, bw, ldro));
            }
        }
    }
    let chosen: Vec<_> = if tier == "thorough" {
        blocks
    } else {
        // the LoRaWAN workhorse block plus two seeded ones
        let mut c = vec![(SpreadingFactor::_11, Bandwidth::_125KHz, None)];
        for _ in 0..2 {
            c.push(*rng.pick(&blocks));
        }
        c
    };
    let exhaustive = tier == "thorough";
    for (sf, bw, ldro) in chosen {
        let op = format!("C16 toa_digest {} {} {}", sf.factor(), bw.hz(), ldro_s(ldro));
        sink.case_w(
            &op,
            &eval(&op),
            "toa-digest-block",
            true,
            4 * 2 * 257 * 256,
        );
    }
    sink.finish(
        dir,
        "time_on_air_us on (sf,bw,cr,ldro override,preamble,header,len): all 80 (sf,bw) symbol times; boundary grid around the ceiling's zero crossing; seeded random points; digest blocks enumerating cr×header×preamble(none,0..255)×len(0..255) for one (sf,bw,ldro) each (all 240 blocks in thorough = the full 42M-input space incl. both forced LDRO values). Distinct = distinct op lines; every case is non-trivial (a concrete airtime compared with model and spec).",
        exhaustive,
        serde_json::json!({}),
    );
}
