//! C15: the LDRO decision of lora-modulation and of every radio driver (real code), and the bit the
//! driver actually programs (observed on a recording fake SPI bus).
#![allow(dead_code)]
use crate::c16::{BWS, CRS, SFS};
use crate::util::*;
use lora_modulation::{Bandwidth, BaseBandModulationParams, CodingRate, SpreadingFactor};
use lora_phy::mod_traits::RadioKind;

#[path = "phyfake_b.rs"]
pub mod fake;
use fake::*;

pub const CHIPS: [&str; 6] = ["sx1261", "sx1262", "stm32wl", "sx1272", "sx1276", "lr1110"];

pub fn sx126x<C: lora_phy::sx126x::Sx126xVariant>(bus: &std::rc::Rc<std::cell::RefCell<Bus>>, chip: C, rx_boost: bool) -> lora_phy::sx126x::Sx126x<FakeSpi, FakeIv, C> {
    lora_phy::sx126x::Sx126x::new(
        FakeSpi(bus.clone()),
        FakeIv,
        lora_phy::sx126x::Config { chip, tcxo_ctrl: None, use_dcdc: false, rx_boost },
    )
}

pub fn sx1276(bus: &std::rc::Rc<std::cell::RefCell<Bus>>, tx_boost: bool, rx_boost: bool) -> lora_phy::sx127x::Sx127x<FakeSpi, FakeIv, lora_phy::sx127x::Sx1276> {
    lora_phy::sx127x::Sx127x::new(
        FakeSpi(bus.clone()),
        FakeIv,
        lora_phy::sx127x::Config { chip: lora_phy::sx127x::Sx1276, tcxo_used: false, tx_boost, rx_boost },
    )
}

pub fn sx1272(bus: &std::rc::Rc<std::cell::RefCell<Bus>>, tx_boost: bool, rx_boost: bool) -> lora_phy::sx127x::Sx127x<FakeSpi, FakeIv, lora_phy::sx127x::Sx1272> {
    lora_phy::sx127x::Sx127x::new(
        FakeSpi(bus.clone()),
        FakeIv,
        lora_phy::sx127x::Config { chip: lora_phy::sx127x::Sx1272, tcxo_used: false, tx_boost, rx_boost },
    )
}

pub fn lr1110(bus: &std::rc::Rc<std::cell::RefCell<Bus>>, rx_boost: bool) -> lora_phy::lr1110::Lr1110<FakeSpi, FakeIv> {
    lora_phy::lr1110::Lr1110::new(
        FakeSpi(bus.clone()),
        FakeIv,
        lora_phy::lr1110::Config {
            pa_selection: lora_phy::lr1110::radio_kind_params::PaSelection::Lp,
            dio_as_rf_switch: None,
            tcxo_ctrl: None,
            use_dcdc: false,
            rx_boost,
        },
    )
}

/// create_modulation_params + set_modulation_params on the real driver; answer `field,bit` / `ERR`.
fn drive<RK: RadioKind>(rk: &mut RK, sf: SpreadingFactor, bw: Bandwidth, cr: CodingRate, rf: u32, pp: Option<u32>) -> Result<u8, ()> {
    let mp = rk.create_modulation_params(sf, bw, cr, rf).map_err(|_| ())?;
    let f = mp.low_data_rate_optimize;
    block_on(rk.set_modulation_params(&mp)).map_err(|_| ())?;
    if let Some(pp) = pp {
        // the rest of a TX/RX preparation: packet parameters are programmed after the modulation
        // parameters (prepare_for_tx / prepare_for_rx); pp selects header / CRC / IQ / lengths
        let (pre, len) = (if pp & 8 != 0 { 8 } else { 12 }, if pp & 16 != 0 { 255 } else { 17 });
        // a combination the chip's packet engine refuses (e.g. SF6 with explicit header) is retried
        // with the other header mode; the packet phase is about the flag surviving it, not about
        // which packets exist
        let pkt = match rk.create_packet_params(pre, pp & 1 != 0, len, pp & 2 != 0, pp & 4 != 0, &mp) {
            Ok(p) => Some(p),
            Err(_) => rk.create_packet_params(pre, pp & 1 == 0, len, pp & 2 != 0, pp & 4 != 0, &mp).ok(),
        };
        if let Some(pkt) = pkt {
            block_on(rk.set_packet_params(&pkt)).map_err(|_| ())?;
        }
        // … and the reception is started (pp bit 64): whatever the start of a reception writes
        // (LNA boost, sequencer, IRQ setup) must leave the flag as it was programmed
        if pp & 64 != 0 {
            let mode = if pp & 128 != 0 { lora_phy::RxMode::Continuous } else { lora_phy::RxMode::Single(40) };
            block_on(rk.do_rx(mode)).map_err(|_| ())?;
        }
    }
    Ok(f)
}

fn ldro_case(chip: &str, sf: SpreadingFactor, bw: Bandwidth, cr: CodingRate, rf: u32, prior: u8, pp: Option<u32>) -> String {
    let chip = chip.to_string();
    let r = guarded(move || -> String {
        let (proto, sel) = match chip.as_str() {
            "sx1261" | "sx1262" | "stm32wl" => (Proto::Sx126x, 0),
            "sx1272" | "sx1276" => (Proto::Sx127x, 1),
            "lr1110" => (Proto::Lr11xx, 2),
            _ => return "bad-op".into(),
        };
        let _ = sel;
        let bus = Bus::new(proto, prior);
        // pp bit 32: a board with the boosted LNA option
        let boost = pp.map(|p| p & 32 != 0).unwrap_or(false);
        let res = match chip.as_str() {
            "sx1261" => drive(&mut sx126x(&bus, lora_phy::sx126x::Sx1261, boost), sf, bw, cr, rf, pp),
            "sx1262" => drive(&mut sx126x(&bus, lora_phy::sx126x::Sx1262, boost), sf, bw, cr, rf, pp),
            "stm32wl" => drive(&mut sx126x(&bus, lora_phy::sx126x::Stm32wl { use_high_power_pa: true }, boost), sf, bw, cr, rf, pp),
            "sx1272" => drive(&mut sx1272(&bus, boost, boost), sf, bw, cr, rf, pp),
            "sx1276" => drive(&mut sx1276(&bus, boost, boost), sf, bw, cr, rf, pp),
            _ => drive(&mut lr1110(&bus, boost), sf, bw, cr, rf, pp),
        };
        let Ok(f) = res else { return "ERR".into() };
        let b = bus.borrow();
        // where the chip finds the flag (datasheet positions)
        let bit: Option<u32> = match chip.as_str() {
            "sx1261" | "sx1262" | "stm32wl" => b.last_cmd(0x8B).and_then(|c| c.get(4).copied()).map(|v| v as u32),
            "sx1276" => b.written(0x26).map(|v| ((v >> 3) & 1) as u32),
            "sx1272" => b.written(0x1D).map(|v| (v & 1) as u32),
            _ => b.log.iter().rev().find(|t| t.len() >= 6 && t[0] == 0x02 && t[1] == 0x0F).map(|t| t[5] as u32),
        };
        match bit {
            Some(bit) => format!("{},{}", f, bit),
            None => format!("{},not-programmed", f),
        }
    });
    r.unwrap_or_else(|| "PANIC".into())
}

fn sf_of(n: &str) -> Option<SpreadingFactor> {
    SFS.iter().copied().find(|s| s.factor().to_string() == n)
}
fn bw_of(n: &str) -> Option<Bandwidth> {
    // a bandwidth is named by the datasheet's figure in Hz (legacy replays, the C13 table) or by the crate's current hz()
    crate::c13::bw_of(n).or_else(|| BWS.iter().copied().find(|s| s.hz().to_string() == n))
}
fn cr_of(n: &str) -> Option<CodingRate> {
    CRS.iter().copied().find(|s| s.denom().to_string() == n)
}

pub fn eval(op: &str) -> String {
    let w: Vec<&str> = op.split_whitespace().collect();
    match w.as_slice() {
        ["C15", "mod", sf, bw] => {
            let (Some(sf), Some(bw)) = (sf_of(sf), bw_of(bw)) else { return "bad-op".into() };
            match guarded(move || BaseBandModulationParams::new(sf, bw, CodingRate::_4_5).ldro) {
                Some(l) => (l as u8).to_string(),
                None => "PANIC".into(),
            }
        }
        ["C15", "ldro", chip, sf, bw, cr, rf, prior] => {
            let (Some(sf), Some(bw), Some(cr), Ok(rf), Ok(prior)) = (sf_of(sf), bw_of(bw), cr_of(cr), rf.parse::<u32>(), prior.parse::<u8>()) else {
                return "bad-op".into();
            };
            if !CHIPS.contains(chip) {
                return "bad-op".into();
            }
            ldro_case(chip, sf, bw, cr, rf, prior, None)
        }
        ["C15", "flow", chip, sf, bw, cr, rf, prior, pp] => {
            let (Some(sf), Some(bw), Some(cr), Ok(rf), Ok(prior), Ok(pp)) = (sf_of(sf), bw_of(bw), cr_of(cr), rf.parse::<u32>(), prior.parse::<u8>(), pp.parse::<u32>()) else {
                return "bad-op".into();
            };
            if !CHIPS.contains(chip) {
                return "bad-op".into();
            }
            ldro_case(chip, sf, bw, cr, rf, prior, Some(pp))
        }
        _ => "bad-op".into(),
    }
}

pub fn expand(_op: &str) -> Vec<String> {
    vec![]
}

pub fn run(tier: &str, seed: u64, dir: &str) {
    let mut rng = Rng::new(seed);
    let mut sink = Sink::new(dir);
    for sf in SFS {
        for bw in BWS {
            let op = format!("C15 mod {} {}", sf.factor(), bw.hz());
            sink.case(&op, &eval(&op), "modulation", true);
        }
    }
    // every chip × every (sf,bw) × RF frequencies on both sides of the 400 MHz band rule ×
    // prior register contents 0x00 / 0xff (read-modify-write) — the whole finite domain; the coding
    // rate (which shares a register with the flag on SX1272) is swept on the boundary frequencies.
    let rfs: [u32; 7] = [137_000_000, 169_400_000, 399_999_999, 400_000_000, 433_050_000, 868_100_000, 915_000_000];
    for chip in CHIPS {
        for sf in SFS {
            for bw in BWS {
                for (i, rf) in rfs.iter().enumerate() {
                    for prior in [0u8, 0xff] {
                        let crs: &[CodingRate] = if i == 2 || i == 3 || i == 5 { &CRS } else { &CRS[..1] };
                        for cr in crs {
                            let op = format!("C15 ldro {} {} {} {} {} {}", chip, sf.factor(), bw.hz(), cr.denom(), rf, prior);
                            let a = eval(&op);
                            let class = if a == "ERR" { format!("{}-unsupported", chip) } else { format!("{}-ldro{}", chip, &a[..1]) };
                            sink.case(&op, &a, &class, true);
                        }
                    }
                }
            }
        }
    }
    // the flag after a whole TX/RX preparation (modulation parameters, then packet parameters with
    // every header / CRC / IQ combination): what the chip is left with is what counts
    for chip in CHIPS {
        for sf in SFS {
            for bw in BWS {
                for prior in [0u8, 0xff] {
                    for pp in 0..8u32 {
                        let pp = pp | if (pp + prior as u32) % 3 == 0 { 8 } else { 0 } | if pp % 5 == 0 { 16 } else { 0 };
                        // half of the flows also start the reception, on a plain and on a boosted-LNA board,
                        // single and continuous
                        let pp = pp | match pp % 4 { 0 => 32 | 64, 1 => 64 | 128, 2 => 32 | 64 | 128, _ => 0 };
                        let op = format!("C15 flow {} {} {} {} {} {} {}", chip, sf.factor(), bw.hz(), 5, 868_100_000, prior, pp);
                        let a = eval(&op);
                        let class = if a == "ERR" { format!("{}-flow-unsupported", chip) } else { format!("{}-flow-ldro{}", chip, &a[..1]) };
                        sink.case(&op, &a, &class, true);
                    }
                }
            }
        }
    }
    // seeded: arbitrary u32 frequencies and prior bytes
    let n = if tier == "thorough" { 200_000 } else { 20_000 };
    for _ in 0..n {
        let chip = *rng.pick(&CHIPS);
        let sf = *rng.pick(&SFS);
        let bw = *rng.pick(&BWS);
        let cr = *rng.pick(&CRS);
        let rf = if rng.chance(1, 3) { (400_000_000i64 + rng.range(-3, 3)) as u32 } else { rng.next() as u32 };
        let prior = rng.next() as u8;
        let op = format!("C15 ldro {} {} {} {} {} {}", chip, sf.factor(), bw.hz(), cr.denom(), rf, prior);
        sink.case(&op, &eval(&op), "random-rf-prior", true);
    }
    sink.finish(
        dir,
        "LDRO of lora-modulation `new` for all 80 (sf,bw); for each of 6 chip variants all 80 (sf,bw) x 7 RF frequencies around the 400 MHz band rule x prior register content 0x00/0xff (x 4 coding rates on three of the frequencies): create_modulation_params + set_modulation_params on the real driver over a recording fake SPI, answer = low_data_rate_optimize field and the flag decoded from the programmed byte at its datasheet position; the same after a whole preparation (set_modulation_params then set_packet_params with every header/CRC/IQ combination, op `flow`); plus seeded arbitrary u32 frequencies / prior bytes. Distinct = distinct op lines; all non-trivial (a concrete decision compared with model and spec). The (chip,sf,bw,band) domain is finite and enumerated completely.",
        true,
        serde_json::json!({}),
    );
}
