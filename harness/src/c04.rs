//! Suite C04: no received frame or network command can panic or hang the device (MAC level).
#![allow(dead_code, unused_imports)]
use crate::mac::*;
use crate::macgen::*;
use crate::util::*;

pub fn eval(op: &str) -> String {
    if op.split_whitespace().nth(1) == Some("nbdev") {
        return crate::adevgen::eval_nb(op, crate::adevgen::oracle_c04_dev);
    }
    if op.split_whitespace().nth(1) == Some("adev") {
        return crate::adevgen::eval(op, crate::adevgen::oracle_c04_dev);
    }
    let outs = run_history(op);
    format!("{} ## oracle={}", outs.join(" ; "), oracle(op, &outs))
}

pub fn expand(_op: &str) -> Vec<String> {
    vec![]
}

/// every call returns (no PANIC, no HANG) and the device can still transmit afterwards
pub fn oracle(op: &str, outs: &[String]) -> String {
    let n_ev = op.split(';').count() - 1;
    for o in outs {
        if o == "PANIC" || o == "HANG" {
            return format!("FAIL:{}-at-event-{}", o, outs.len());
        }
        if o == "bad-op" || o.starts_with("bad-session") {
            return "FAIL:harness-generated-a-malformed-op".into();
        }
    }
    if outs.len() != n_ev {
        return "FAIL:history-stopped-early".into();
    }
    "ok".into()
}

/// the hang / panic scenarios found while designing (DESIGN §6), kept as a corpus that runs first
pub fn corpus() -> Vec<(String, &'static str)> {
    let mut v = vec![];
    // ChMaskCntl = 4 in every region
    for region in REGIONS {
        let mut h = Hist::new("C04", region, 20, 0, 7, &[], None);
        h.abp().send(1, false, &[1]).rx_auth("rx1", 0, 1, false, &link_adr_req(0, 0, 0x00ff, 4, 1), None, &[]).snap().send(1, false, &[2]).timeout();
        v.push((h.done(), "corpus-chmaskcntl4"));
        // JoinAccept with RX2DR = 15
        let mut h = Hist::new("C04", region, 20, 0, 7, &[], None);
        h.go_live();
        h.ev("otaa");
        let acc = build_join_accept(&ROOT_KEY, 0x01020304, 0x0f, 1, &CfDesc::None);
        h.rx_bytes("rx1", 0, &acc, None).snap().send(1, false, &[1]).timeout();
        v.push((h.done(), "corpus-joinaccept-rx2dr15"));
        // oversized frame while listening in Class C
        let mut h = Hist::new("C04", region, 20, 0, 7, &[], None);
        h.abp().send(1, false, &[1]).timeout();
        h.rx_auth("rxc", 0, 1, false, &[], Some(3), &vec![0x55; 235]);
        h.snap().send(1, false, &[2]).timeout();
        v.push((h.done(), "corpus-rxc-oversized"));
    }
    // EU868: NewChannelReq ch5, LinkADRReq mask={5}, NewChannelReq ch5 freq 0 → next send must return
    let mut h = Hist::new("C04", "EU868", 20, 0, 7, &[], None);
    h.abp().send(1, false, &[1]).rx_auth("rx1", 0, 1, false, &new_channel_req(5, 867_100_000, 0x50), None, &[]);
    h.send(1, false, &[2]).rx_auth("rx1", 0, 1, false, &link_adr_req(5, 1, 0x0020, 0, 1), None, &[]);
    h.send(1, false, &[3]).rx_auth("rx1", 0, 1, false, &new_channel_req(5, 0, 0x50), None, &[]);
    h.snap().send(1, false, &[4]).timeout().snap();
    v.push((h.done(), "corpus-remove-last-enabled-channel"));
    // US915: DR4 with only 500 kHz channels, then ADR back-off
    let mut h = Hist::new("C04", "US915", 20, 0, 7, &[], None);
    h.abp().send(1, false, &[1]).rx_auth("rx1", 0, 1, false, &link_adr_req(4, 0, 0x00ff, 7, 1), None, &[]).snap();
    for i in 0..100u32 {
        h.send(1, false, &[i as u8]).timeout();
    }
    h.snap();
    v.push((h.done(), "corpus-adr-backoff-to-masked-datarate"));
    // type-1 CFList without usable channels
    for region in ["US915", "AU915"] {
        let mut h = Hist::new("C04", region, 20, 0, 7, &[], None);
        h.go_live();
        h.ev("otaa");
        let acc = build_join_accept(&ROOT_KEY, 0x01020304, 0, 1, &CfDesc::Fixed([0u8; 9]));
        h.rx_bytes("rx1", 0, &acc, None).snap().send(1, false, &[1]).timeout();
        v.push((h.done(), "corpus-cflist-empty-mask"));
    }
    v
}

pub fn run(tier: &str, seed: u64, dir: &str) {
    let mut rng = Rng::new(seed);
    let mut sink = Sink::new(dir);
    let thorough = tier == "thorough";
    for (op, class) in corpus() {
        sink.case(&op, &eval(&op), class, true);
    }
    // answer-queue boundaries: command streams whose answers fill the 15-byte queue to every
    // level from 11 to 15 bytes, followed by one more command of each answer length
    let mut k = 0u32;
    for region in ["EU868", "US915", "AS923_1"] {
        for a in 0..=5usize {
            for b in 0..=7usize {
                for c in 0..=4usize {
                    let l = 3 * a + 2 * b + c;
                    if !(11..=15).contains(&l) {
                        continue;
                    }
                    for last in 0..3 {
                        for rev in [false, true] {
                            k += 1;
                            if !thorough && k % 3 != 0 {
                                continue;
                            }
                            let mut blocks: Vec<Vec<u8>> = vec![];
                            for _ in 0..a {
                                blocks.push(dev_status_req());
                            }
                            let mut adr = vec![];
                            for _ in 0..b {
                                adr.extend_from_slice(&link_adr_req(15, 15, if is_fixed(region) { 0x00ff } else { 0x0007 }, 0, 1));
                            }
                            if !adr.is_empty() {
                                blocks.push(adr);
                            }
                            for i in 0..c {
                                blocks.push(rx_timing_setup_req(1 + i as u8));
                            }
                            if rev {
                                blocks.reverse();
                            }
                            let mut cmds: Vec<u8> = blocks.concat();
                            match last {
                                0 => cmds.extend_from_slice(&dev_status_req()),
                                1 => cmds.extend_from_slice(&rx_param_setup_req(0, crate::macsuites::default_rx2(region).0)),
                                _ => cmds.extend_from_slice(&rx_timing_setup_req(9)),
                            }
                            let mut h = Hist::new("C04", region, 20, 0, 5000 + k as u64, &[], None);
                            h.abp().send(1, false, &[1]);
                            if cmds.len() <= 15 && k % 2 == 0 {
                                h.rx_auth("rx1", 5, 1, false, &cmds, None, &[]);
                            } else {
                                h.rx_auth("rx1", 5, 1, false, &[], Some(0), &cmds);
                            }
                            h.snap().send(1, false, &[2]).timeout().send(1, false, &[3]).timeout().snap();
                            let op = h.done();
                            sink.case(&op, &eval(&op), "answer-queue-boundary", true);
                        }
                    }
                }
            }
        }
    }
    // long runs of unanswered join attempts (join walk, bias of several tries)
    for region in REGIONS {
        for k in 0..(if thorough { 40 } else { if is_fixed(region) { 10 } else { 2 } }) {
            let op = join_walk("C04", &mut rng, region, k);
            sink.case(&op, &eval(&op), "join-walk", true);
        }
    }
    // dynamic plans: masks that name no defined channel after a removal (NewChannelReq / CFList)
    for region in REGIONS {
        if is_fixed(region) {
            continue;
        }
        for k in 0..(if thorough { 60 } else { 9 }) {
            let op = stale_mask_history("C04", &mut rng, region, k % 3);
            sink.case(&op, &eval(&op), "stale-mask", true);
        }
    }
    let per_region = if thorough { 4000 } else { 220 };
    for region in REGIONS {
        for i in 0..per_region {
            let mut o = Opts::default();
            o.steps = if i % 10 == 0 { 40 } else { 4 + rng.below(10) as usize };
            o.snaps = i % 3 != 0;
            if i % 7 == 0 {
                o.counters = Some(*rng.pick(&[(0xfffe, Some(0xfffe)), (0xffff_fffd, Some(0xffff_fff0)), (0x1_0000, None), (70000, Some(0xffff))]));
                o.otaa_pct = 0;
            }
            let op = gen_history("C04", &mut rng, region, &o);
            sink.case(&op, &eval(&op), "random-history", true);
        }
    }
    // device level: the real async Device (Class A and C) with a scripted radio
    for region in REGIONS {
        for _ in 0..(if thorough { 800 } else { 60 }) {
            let op = crate::adevgen::gen_random_dev_history("C04", region, &mut rng);
            sink.case(&op, &eval(&op), "device-random", true);
        }
        for _ in 0..(if thorough { 800 } else { 60 }) {
            let op = crate::adevgen::gen_nb_random_history("C04", region, &mut rng);
            sink.case(&op, &eval(&op), "nb-random", true);
        }
        for i in 0..(if thorough { 400 } else { 30 }) {
            let op = crate::adevgen::gen_join_history("C04", region, &mut rng, i % 2 == 0);
            sink.case(&op, &eval(&op), "device-join", true);
        }
    }
    sink.finish(
        dir,
        "device level: the real async Device (Class A and Class C) driven through join()/send() with a scripted radio (frames, junk, radio errors at arbitrary calls), a timer and the harness RNG under a minimal executor. MAC-level histories through the real Mac (verif hook): ABP / restored sessions at counter boundaries / OTAA joins with arbitrary DLSettings, RxDelay and CFLists (types 0, 1, RFU); uplinks on arbitrary ports incl. 0; per window nothing / rejected frames (random, bit-flipped, other key, replayed, far-future, wrong-key JoinAccept, short) / oversized / authentic downlinks carrying arbitrary handled, unhandled, unknown and truncated MAC commands in FOpts or on port 0; Class C receptions; ADR and data-rate changes; join bias on fixed plans; 9 regions; plus the DESIGN §6 panic/hang scenarios as a corpus. The device's RNG is owned by the harness with a draw budget so that an RNG-driven endless loop shows up as HANG. Distinct = distinct op lines; every history is non-trivial (>= 1 uplink).",
        false,
        serde_json::json!({}),
    );
}
