//! Suite C01: the REAL frame builders of `lorawan::creator` (both software crypto variants) and the
//! `aes` / `cmac` crates behind `lorawan::default_crypto`, against the Lean model and specification.
#![allow(dead_code)]
use crate::util::*;
use core::num::NonZeroU8;
use lorawan::creator::{DataFrame, JoinAccept, JoinRequest, Payload};
use lorawan::default_crypto::{DefaultCrypto, DefaultNetworkCrypto};
use lorawan::keys::{Crypto, NetworkCrypto, AES128};
use lorawan::parser::{CfList, DataFrameType, DevAddr, DevEui, DevNonce, Error, Frequency, JoinEui, JoinNonce, NetId};
use lorawan::types::{ChannelMask, DLSettings};
use std::panic::AssertUnwindSafe;

pub fn arr<const N: usize>(s: &str) -> Option<[u8; N]> {
    let v = unhex(s);
    if s != "-" && s.len() != 2 * N {
        return None;
    }
    v.try_into().ok()
}

pub fn ftype(s: &str) -> Option<DataFrameType> {
    Some(match s {
        "0" => DataFrameType::UnconfirmedUp,
        "1" => DataFrameType::UnconfirmedDown,
        "2" => DataFrameType::ConfirmedUp,
        "3" => DataFrameType::ConfirmedDown,
        _ => return None,
    })
}

pub fn show(r: Option<Result<Vec<u8>, Error>>) -> String {
    match r {
        None => "PANIC".into(),
        Some(Ok(b)) => hex(&b),
        Some(Err(e)) => format!("ERR:{:?}", e),
    }
}

/// after `build_into` returned `n` bytes the rest of the caller's buffer must still hold the fill byte
fn rest_untouched(buf: &[u8], n: usize, fill: u8) -> bool {
    buf[n.min(buf.len())..].iter().all(|&b| b == fill)
}

pub struct DataOp {
    pub ft: DataFrameType,
    pub addr: [u8; 4],
    pub flags: u8,
    pub fcnt: u32,
    pub fopts: Vec<u8>,
    pub port: Option<u8>,
    pub pld: Vec<u8>,
    pub nwk: [u8; 16],
    pub app: Option<[u8; 16]>,
}

impl DataOp {
    pub fn parse(w: &[&str]) -> Option<DataOp> {
        Some(DataOp {
            ft: ftype(w[0])?,
            addr: arr::<4>(w[1])?,
            flags: w[2].parse().ok()?,
            fcnt: w[3].parse().ok()?,
            fopts: unhex(w[4]),
            port: if w[5] == "-" { None } else { Some(w[5].parse().ok()?) },
            pld: unhex(w[6]),
            nwk: arr::<16>(w[7])?,
            app: if w[8] == "-" { None } else { Some(arr::<16>(w[8])?) },
        })
    }
    pub fn build<C: Crypto>(&self, buf: &mut [u8], mk: impl Fn(&AES128) -> C) -> Result<Vec<u8>, Error> {
        let payload = match self.port {
            None => Payload::None,
            Some(0) => Payload::MacCommands(&self.pld),
            Some(p) => Payload::Data { f_port: NonZeroU8::new(p).unwrap(), data: &self.pld },
        };
        let frame = DataFrame {
            frame_type: self.ft,
            dev_addr: DevAddr::from_wire_bytes(self.addr),
            adr: self.flags & 8 != 0,
            adr_ack_req: self.flags & 4 != 0,
            ack: self.flags & 2 != 0,
            f_pending: self.flags & 1 != 0,
            fcnt: self.fcnt,
            f_opts: &self.fopts,
            payload,
        };
        let nwk = mk(&AES128(self.nwk));
        let app = self.app.map(|k| mk(&AES128(k)));
        frame.build_into(buf, &nwk, app.as_ref()).map(|b| b.to_vec())
    }
}

fn with_buf(buflen: &str, fill: &str, f: impl FnOnce(&mut [u8]) -> Result<Vec<u8>, Error>) -> String {
    let (Ok(n), Some([fill])) = (buflen.parse::<usize>(), arr::<1>(fill)) else { return "bad-op".into() };
    let mut buf = vec![fill; n];
    let r = guarded(AssertUnwindSafe(|| f(&mut buf)));
    let mut s = show(r.clone());
    if let Some(Ok(b)) = &r {
        if !rest_untouched(&buf, b.len(), fill) || buf[..b.len()] != b[..] {
            s.push_str("+BUFFER-REST-MODIFIED");
        }
    } else if let Some(Err(_)) = &r {
        if !rest_untouched(&buf, 0, fill) {
            s.push_str("+BUFFER-MODIFIED-ON-ERROR");
        }
    }
    s
}

pub fn cflist(s: &str) -> Option<Option<CfList>> {
    if s == "-" {
        return Some(None);
    }
    let (t, h) = s.split_at(1);
    match t {
        "D" => {
            let b = arr::<15>(h)?;
            let mut f = [Frequency::default(); 5];
            for i in 0..5 {
                f[i] = Frequency::from_wire_bytes([b[3 * i], b[3 * i + 1], b[3 * i + 2]]);
            }
            Some(Some(CfList::DynamicChannel(f)))
        }
        "F" => Some(Some(CfList::FixedChannel(ChannelMask::<9>::from(arr::<9>(h)?)))),
        _ => None,
    }
}

pub fn eval(op: &str) -> String {
    let w: Vec<&str> = op.split_whitespace().collect();
    match w.as_slice() {
        ["C01", "data", rest @ ..] if rest.len() == 12 => {
            let Some(d) = DataOp::parse(rest) else { return "bad-op".into() };
            if d.port.is_none() && !d.pld.is_empty() {
                return "bad-op".into();
            }
            match rest[11] {
                "D" => with_buf(rest[9], rest[10], |buf| d.build(buf, DefaultCrypto::new)),
                "N" => with_buf(rest[9], rest[10], |buf| d.build(buf, DefaultNetworkCrypto::new)),
                _ => "bad-op".into(),
            }
        }
        ["C01", "jr", jeui, deui, nonce, key, buflen, fill, variant] => {
            let (Some(j), Some(d), Some(n), Some(k)) = (arr::<8>(jeui), arr::<8>(deui), arr::<2>(nonce), arr::<16>(key)) else {
                return "bad-op".into();
            };
            let jr = JoinRequest {
                join_eui: JoinEui::from_wire_bytes(j),
                dev_eui: DevEui::from_wire_bytes(d),
                dev_nonce: DevNonce::from_wire_bytes(n),
            };
            match *variant {
                "D" => with_buf(buflen, fill, |buf| jr.build_into(buf, &DefaultCrypto::new(&AES128(k))).map(|b| b.to_vec())),
                "N" => with_buf(buflen, fill, |buf| jr.build_into(buf, &DefaultNetworkCrypto::new(&AES128(k))).map(|b| b.to_vec())),
                _ => "bad-op".into(),
            }
        }
        ["C01", "ja", jn, nid, addr, dl, rxd, cfl, key, buflen, fill] => {
            let (Some(jn), Some(nid), Some(addr), Some([dl]), Ok(rxd), Some(cfl), Some(k)) =
                (arr::<3>(jn), arr::<3>(nid), arr::<4>(addr), arr::<1>(dl), rxd.parse::<u8>(), cflist(cfl), arr::<16>(key))
            else {
                return "bad-op".into();
            };
            let ja = JoinAccept {
                join_nonce: JoinNonce::from_wire_bytes(jn),
                net_id: NetId::from_wire_bytes(nid),
                dev_addr: DevAddr::from_wire_bytes(addr),
                dl_settings: DLSettings::new(dl),
                rx_delay: rxd,
                c_f_list: cfl,
            };
            with_buf(buflen, fill, |buf| ja.build_into(buf, &DefaultNetworkCrypto::new(&AES128(k))).map(|b| b.to_vec()))
        }
        ["C01", "aes_enc", k, b] => {
            let (Some(k), Some(b)) = (arr::<16>(k), arr::<16>(b)) else { return "bad-op".into() };
            // both variants must agree
            let mut x = b;
            DefaultCrypto::new(&AES128(k)).encrypt_block(&mut x);
            let mut y = b;
            DefaultNetworkCrypto::new(&AES128(k)).encrypt_block(&mut y);
            if x != y {
                return "VARIANTS-DIFFER".into();
            }
            hex(&x)
        }
        ["C01", "aes_dec", k, b] => {
            let (Some(k), Some(b)) = (arr::<16>(k), arr::<16>(b)) else { return "bad-op".into() };
            let mut x = b;
            DefaultNetworkCrypto::new(&AES128(k)).decrypt_block(&mut x);
            hex(&x)
        }
        ["C01", "cmac", k, m] => {
            let Some(k) = arr::<16>(k) else { return "bad-op".into() };
            let m = unhex(m);
            // the full 16-byte tag from the `cmac` crate, initialised the way default_crypto.rs does it
            use aes::cipher::KeyInit;
            use cmac::digest::InnerInit;
            let cipher = aes::Aes128::new_from_slice(&k).unwrap();
            let mut mac = cmac::Cmac::<aes::Aes128>::inner_init(cipher);
            cmac::Mac::update(&mut mac, &m);
            let tag = cmac::Mac::finalize(mac).into_bytes();
            // and the library's own 4-byte MIC for both variants, with the message split at a data-dependent point
            let cut = if m.is_empty() { 0 } else { (m[0] as usize) % (m.len() + 1) };
            let a = DefaultCrypto::new(&AES128(k)).calculate_mic(&m[..cut], &m[cut..]);
            let b = DefaultNetworkCrypto::new(&AES128(k)).calculate_mic(&m[..cut], &m[cut..]);
            if a != tag[..4] || b != tag[..4] {
                return "MIC-NOT-PREFIX-OF-TAG".into();
            }
            hex(&tag)
        }
        _ => "bad-op".into(),
    }
}

pub fn expand(_op: &str) -> Vec<String> {
    vec![]
}

const COUNTERS: [u32; 6] = [0, 1, 0xFFFF, 0x10000, 0x1FFFF, 0xFFFF_FFFF];

pub fn pick_fcnt(rng: &mut Rng) -> u32 {
    if rng.chance(2, 3) {
        *rng.pick(&COUNTERS)
    } else {
        rng.next() as u32
    }
}

pub struct DataGen {
    pub ft: u8,
    pub flags: u8,
    pub fopts_len: usize,
    /// 0 = no payload, 1 = MAC commands (port 0), 2 = application data
    pub kind: u8,
    pub pld_len: usize,
    pub fcnt: u32,
    pub with_app: bool,
    /// 0 = exact, 1 = exact-1, 2 = 256, 3 = random, 4 = 1024
    pub bufsel: u8,
}

/// total length the frame would have (without regard to refusals)
pub fn total_len(g: &DataGen) -> usize {
    1 + 7 + g.fopts_len + if g.kind == 0 { 0 } else { 1 + g.pld_len } + 4
}

pub fn data_op(rng: &mut Rng, g: &DataGen) -> String {
    let addr = rng.bytes(4);
    let fopts = rng.bytes(g.fopts_len);
    let pld = if g.kind == 0 { vec![] } else { rng.bytes(g.pld_len) };
    let port = match g.kind {
        0 => "-".to_string(),
        1 => "0".to_string(),
        _ => (1 + rng.below(255)).to_string(),
    };
    let nwk = rng.bytes(16);
    let app = rng.bytes(16);
    let total = total_len(g);
    let buflen = match g.bufsel {
        0 => total,
        1 => total.saturating_sub(1),
        2 => 256,
        4 => 1024,
        _ => rng.below(300) as usize,
    };
    let fill = rng.next() as u8;
    format!(
        "C01 data {} {} {} {} {} {} {} {} {} {} {:02x} {}",
        g.ft,
        hex(&addr),
        g.flags,
        g.fcnt,
        hex(&fopts),
        port,
        hex(&pld),
        hex(&nwk),
        if g.with_app { hex(&app) } else { "-".into() },
        buflen,
        fill,
        if rng.chance(1, 2) { "D" } else { "N" }
    )
}

fn len_class(n: usize) -> &'static str {
    match n {
        0 => "pld0",
        1..=15 => "pld1-15",
        16 => "pld16",
        17..=32 => "pld17-32",
        33..=64 => "pld33-64",
        65..=128 => "pld65-128",
        _ => "pld129-242",
    }
}

fn class_of(prefix: &str, g: Option<&DataGen>, ans: &str) -> String {
    let res = if ans.starts_with("ERR:") || ans == "PANIC" { ans.to_string() } else { "ok".to_string() };
    match g {
        Some(g) => format!("{}/{}/{}/{}", prefix, ["none", "mac", "app"][g.kind as usize], len_class(if g.kind == 0 { 0 } else { g.pld_len }), res),
        None => format!("{}/{}", prefix, res),
    }
}

pub fn run(tier: &str, seed: u64, dir: &str) {
    let mut rng = Rng::new(seed);
    let mut sink = Sink::new(dir);
    let thorough = tier == "thorough";

    // 0. the published vectors of tests/lorawan.rs (corpus)
    for op in [
        "C01 data 0 04030201 8 1 - 1 68656c6c6f 02020202020202020202020202020202 01010101010101010101010101010101 64 00 D",
        "C01 data 3 04030201 8 76543 - 42 68656c6c6f206c6f7261 02020202020202020202020202020202 01010101010101010101010101010101 64 00 N",
        "C01 data 0 04030201 0 0 020305 - - 01010101010101010101010101010101 - 64 00 D",
    ] {
        sink.case(op, &eval(op), "data/vector", true);
    }

    // 1. every payload length 0..=242, several random descriptions each (both payload kinds)
    let per_len = if thorough { 400 } else { 10 };
    for len in 0..=242usize {
        for r in 0..per_len {
            let kind = if r % 3 == 0 { 1 } else { 2 };
            let g = DataGen {
                ft: rng.below(4) as u8,
                flags: rng.below(16) as u8,
                fopts_len: if kind == 1 { 0 } else if rng.chance(1, 2) { 0 } else { rng.below(16) as usize },
                kind,
                pld_len: len,
                fcnt: pick_fcnt(&mut rng),
                with_app: true,
                bufsel: if rng.chance(3, 4) { [0u8, 2][rng.below(2) as usize] } else { [1u8, 3][rng.below(2) as usize] },
            };
            let op = data_op(&mut rng, &g);
            let a = eval(&op);
            sink.case(&op, &a, &class_of("data/len-sweep", Some(&g), &a), true);
        }
    }

    // 2. the header grid: 4 frame types x 16 flag combinations x FOpts length 0..=17, short payloads
    let reps = if thorough { 12 } else { 1 };
    for _ in 0..reps {
        for ft in 0..4u8 {
            for flags in 0..16u8 {
                for fl in 0..=17usize {
                    let kind = rng.below(3) as u8;
                    let g = DataGen {
                        ft,
                        flags,
                        fopts_len: fl,
                        kind,
                        pld_len: rng.below(20) as usize,
                        fcnt: pick_fcnt(&mut rng),
                        with_app: !rng.chance(1, 8),
                        bufsel: rng.below(4) as u8,
                    };
                    let op = data_op(&mut rng, &g);
                    let a = eval(&op);
                    sink.case(&op, &a, &class_of("data/header-grid", Some(&g), &a), true);
                }
            }
        }
    }

    // 3. every counter of the boundary set x frame type x payload kind, buffer exact / exact-1 / 256
    for &fcnt in COUNTERS.iter().chain([rng.next() as u32, rng.next() as u32].iter()) {
        for ft in 0..4u8 {
            for kind in 0..3u8 {
                for bufsel in 0..3u8 {
                    let g = DataGen {
                        ft,
                        flags: rng.below(16) as u8,
                        fopts_len: if kind == 1 { 0 } else { rng.below(16) as usize },
                        kind,
                        pld_len: rng.below(60) as usize,
                        fcnt,
                        with_app: true,
                        bufsel,
                    };
                    let op = data_op(&mut rng, &g);
                    let a = eval(&op);
                    sink.case(&op, &a, &class_of("data/counters", Some(&g), &a), true);
                }
            }
        }
    }

    // 4. descriptions the specification forbids, alone and combined
    let n_ref = if thorough { 6000 } else { 600 };
    for _ in 0..n_ref {
        let kind = rng.below(3) as u8;
        let g = DataGen {
            ft: rng.below(4) as u8,
            flags: rng.below(16) as u8,
            fopts_len: *rng.pick(&[0usize, 1, 1, 7, 15, 15, 16, 16, 17, 40]),
            kind,
            pld_len: *rng.pick(&[0usize, 0, 1, 5, 16, 17, 100, 242]),
            fcnt: pick_fcnt(&mut rng),
            with_app: rng.chance(1, 2),
            bufsel: rng.below(4) as u8,
        };
        let op = data_op(&mut rng, &g);
        let a = eval(&op);
        sink.case(&op, &a, &class_of("data/refusals", Some(&g), &a), true);
    }

    // 4b. lengths beyond one octet: FOpts of 16..=31, 240..=290, 500..=530 and 1000 octets (a length
    //     check done on a truncated length would let 256..=271 through) and FRMPayloads of 243..=300
    //     and 500..=520 octets, into a buffer that would hold the frame (1024) or exactly fits it
    let mut long_fopts: Vec<usize> = (16..=31).chain(240..=290).chain(500..=530).collect();
    long_fopts.push(1000);
    for (i, fl) in long_fopts.iter().enumerate() {
        if !thorough && i % 2 == 1 && !(255..=272).contains(fl) {
            continue;
        }
        for kind in [0u8, 2] {
            let g = DataGen { ft: (i % 4) as u8, flags: rng.below(16) as u8, fopts_len: *fl, kind, pld_len: if kind == 0 { 0 } else { 3 }, fcnt: pick_fcnt(&mut rng), with_app: true, bufsel: if i % 3 == 0 { 0 } else { 4 } };
            let op = data_op(&mut rng, &g);
            let a = eval(&op);
            sink.case(&op, &a, &class_of("data/long-fopts", Some(&g), &a), true);
        }
    }
    for (i, pl) in (243usize..=300).chain(500..=520).enumerate() {
        if !thorough && i % 3 != 0 && !(254..=258).contains(&pl) {
            continue;
        }
        let g = DataGen { ft: (i % 4) as u8, flags: 0, fopts_len: if i % 2 == 0 { 0 } else { 3 }, kind: if i % 5 == 0 { 1 } else { 2 }, pld_len: pl, fcnt: pick_fcnt(&mut rng), with_app: true, bufsel: if i % 3 == 0 { 0 } else { 4 } };
        let op = data_op(&mut rng, &g);
        let a = eval(&op);
        sink.case(&op, &a, &class_of("data/long-payload", Some(&g), &a), true);
    }

    // 5. JoinRequest
    let n_jr = if thorough { 20000 } else { 800 };
    for i in 0..n_jr {
        let buflen = match i % 6 {
            0 => 23,
            1 => 22,
            2 => 256,
            3 => 0,
            _ => rng.below(40),
        };
        let op = format!(
            "C01 jr {} {} {} {} {} {:02x} {}",
            hex(&rng.bytes(8)),
            hex(&rng.bytes(8)),
            hex(&rng.bytes(2)),
            hex(&rng.bytes(16)),
            buflen,
            rng.next() as u8,
            if rng.chance(1, 2) { "D" } else { "N" }
        );
        let a = eval(&op);
        sink.case(&op, &a, &class_of("joinrequest", None, &a), true);
    }

    // 6. JoinAccept: no CFList / type 0 / type 1, RxDelay over the whole u8 range, all DLSettings bytes
    let n_ja = if thorough { 30000 } else { 1500 };
    for i in 0..n_ja {
        let cf = match i % 3 {
            0 => "-".to_string(),
            1 => format!("D{}", hex(&rng.bytes(15))),
            _ => format!("F{}", hex(&rng.bytes(9))),
        };
        let need = if i % 3 == 0 { 17 } else { 33 };
        let buflen = match rng.below(6) {
            0 => need - 1,
            1 => 256,
            2 => rng.below(40),
            _ => need,
        };
        let op = format!(
            "C01 ja {} {} {} {:02x} {} {} {} {} {:02x}",
            hex(&rng.bytes(3)),
            hex(&rng.bytes(3)),
            hex(&rng.bytes(4)),
            if i < 256 { i as u8 } else { rng.next() as u8 },
            if i < 512 { (i % 256) as u8 } else { rng.next() as u8 },
            cf,
            hex(&rng.bytes(16)),
            buflen,
            rng.next() as u8,
        );
        let a = eval(&op);
        sink.case(&op, &a, &class_of(&format!("joinaccept/cflist{}", &cf[..1]), None, &a), true);
    }

    // 7. the Lean AES / CMAC against the `aes` / `cmac` crates
    let n_aes = if thorough { 100_000 } else { 10_000 };
    for _ in 0..n_aes {
        let op = format!("C01 aes_enc {} {}", hex(&rng.bytes(16)), hex(&rng.bytes(16)));
        sink.case(&op, &eval(&op), "aes/encrypt", true);
        let op = format!("C01 aes_dec {} {}", hex(&rng.bytes(16)), hex(&rng.bytes(16)));
        sink.case(&op, &eval(&op), "aes/decrypt", true);
    }
    for i in 0..n_aes {
        let len = if i < 600 { i / 2 } else { rng.below(300) as usize };
        let op = format!("C01 cmac {} {}", hex(&rng.bytes(16)), hex(&rng.bytes(len)));
        let class = if len == 0 {
            "cmac/empty"
        } else if len % 16 == 0 {
            "cmac/whole-blocks"
        } else {
            "cmac/padded"
        };
        sink.case(&op, &eval(&op), class, true);
    }
    // structured keys / blocks (all-zero, all-ones, single bits)
    for k in 0..129usize {
        let mut key = [0u8; 16];
        let mut blk = [0xffu8; 16];
        if k < 128 {
            key[k / 8] = 1 << (k % 8);
            blk[k / 8] ^= 1 << (k % 8);
        }
        for op in [
            format!("C01 aes_enc {} {}", hex(&key), hex(&blk)),
            format!("C01 aes_dec {} {}", hex(&key), hex(&blk)),
            format!("C01 aes_enc {} {}", hex(&blk), hex(&key)),
            format!("C01 cmac {} {}", hex(&key), hex(&blk[..k % 17])),
        ] {
            sink.case(&op, &eval(&op), "aes/structured", true);
        }
    }

    sink.finish(
        dir,
        "real DataFrame/JoinRequest/JoinAccept::build_into (DefaultCrypto and DefaultNetworkCrypto, seeded choice) vs Lean model vs Lean specification, compared as frame bytes or refusal kind; the rest of the caller's buffer is also checked to be untouched. Generators: every FRMPayload length 0..=242 (random content, both key kinds); 4 frame types x 16 flag combinations x FOpts length 0..=17; counters {0,1,0xFFFF,0x10000,0x1FFFF,2^32-1,random} x types x payload kinds x buffer {exact, exact-1, 256}; forbidden descriptions alone and combined; FOpts of 16..=31 / 240..=290 / 500..=530 / 1000 octets and FRMPayloads of 243..=300 / 500..=520 octets into fitting buffers; JoinRequest; JoinAccept without / type-0 / type-1 CFList, all 256 DLSettings and RxDelay bytes; AES-128 encrypt/decrypt blocks and CMAC tags (lengths 0..=299) of the Lean AES vs the aes/cmac crates. Every case is non-trivial (a concrete frame, refusal, block or tag is compared); distinct = distinct op lines.",
        false,
        serde_json::json!({"payload_lengths_covered": "0..=242 each", "counters": COUNTERS}),
    );
}
