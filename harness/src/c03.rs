//! Suite C03: totality / bounds-safety / termination of the MAC-command iterators of all six command
//! sets, of every payload accessor and checked constructor, and of the frame parsers (real code).
#![allow(dead_code)]
use crate::util::*;
use lorawan::certification::{self as cert, DownlinkDUTCommand, UplinkDUTCommand};
use lorawan::keys::{Crypto, NetworkCrypto};
use lorawan::maccommands::{self as mc, DownlinkMacCommand, ParseError, SerializableMacCommand, UplinkMacCommand};
use lorawan::multicast::{self as mcast, DownlinkRemoteSetup, UplinkRemoteSetup};
use std::panic::AssertUnwindSafe;

#[path = "c03_frames.rs"]
pub mod c03_frames;

pub const SETS: [&str; 6] = ["DownlinkMacCommand", "UplinkMacCommand", "DownlinkDUTCommand", "UplinkDUTCommand", "DownlinkRemoteSetup", "UplinkRemoteSetup"];

/// The toy block cipher plugged into the multicast key accessors (same as `Driver.C03.toyEnc/toyDec`):
/// `encrypt_block` adds 1 to every octet then rotates left by one; `decrypt_block` is its inverse.
pub struct Toy;
impl Crypto for Toy {
    fn encrypt_block(&self, b: &mut [u8]) {
        for x in b.iter_mut() {
            *x = x.wrapping_add(1);
        }
        b.rotate_left(1);
    }
    fn calculate_mic(&self, _b0: &[u8], _data: &[u8]) -> [u8; 4] {
        [0; 4]
    }
}
impl NetworkCrypto for Toy {
    fn decrypt_block(&self, b: &mut [u8]) {
        b.rotate_right(1);
        for x in b.iter_mut() {
            *x = x.wrapping_sub(1);
        }
    }
}

pub fn g(f: impl FnOnce() -> String) -> String {
    guarded(AssertUnwindSafe(f)).unwrap_or_else(|| "PANIC".into())
}
fn b(v: bool) -> String {
    (v as u8).to_string()
}
fn opt_b(v: Option<bool>) -> String {
    match v {
        None => "none".into(),
        Some(x) => b(x),
    }
}
fn err(e: mc::Error) -> String {
    format!("ERR:{:?}", e)
}

macro_rules! accs {
    ($( $name:literal => $e:expr ),* $(,)?) => {{
        let v: Vec<String> = vec![ $( format!("{}={}", $name, g(|| $e)) ),* ];
        v.join(",")
    }};
}

// ---- payload accessors, one function per payload type (shared by `iter`, `new` and suite C19)
pub fn acc_link_check_ans(p: &mc::LinkCheckAnsPayload) -> String {
    accs!("margin" => p.margin().to_string(), "gateway_count" => p.gateway_count().to_string())
}
pub fn acc_link_adr_req(p: &mc::LinkADRReqPayload) -> String {
    accs!(
        "data_rate" => (p.data_rate() as u8).to_string(),
        "tx_power" => (p.tx_power() as u8).to_string(),
        "channel_mask" => hex(p.channel_mask().as_ref()),
        "redundancy" => p.redundancy().raw_value().to_string(),
        "chmask_cntl" => p.redundancy().channel_mask_control().to_string(),
        "nb_trans" => p.redundancy().number_of_transmissions().to_string(),
    )
}
pub fn acc_duty_cycle_req(p: &mc::DutyCycleReqPayload) -> String {
    accs!("max_duty_cycle_raw" => p.max_duty_cycle_raw().to_string(), "max_duty_cycle_bits" => p.max_duty_cycle().to_bits().to_string())
}
pub fn acc_rx_param_setup_req(p: &mc::RXParamSetupReqPayload) -> String {
    accs!(
        "dl_settings" => p.dl_settings().raw_value().to_string(),
        "rx1_dr_offset" => p.dl_settings().rx1_dr_offset().to_string(),
        "rx2_data_rate" => (p.dl_settings().rx2_data_rate() as u8).to_string(),
        "frequency" => p.frequency().value().to_string(),
    )
}
pub fn acc_new_channel_req(p: &mc::NewChannelReqPayload) -> String {
    accs!(
        "channel_index" => p.channel_index().to_string(),
        "frequency" => p.frequency().value().to_string(),
        "data_rate_range" => match p.data_rate_range() { Ok(r) => r.raw_value().to_string(), Err(e) => err(e) },
        "drr_max" => match p.data_rate_range() { Ok(r) => r.max_data_rate().to_string(), Err(e) => err(e) },
        "drr_min" => match p.data_rate_range() { Ok(r) => r.min_data_rate().to_string(), Err(e) => err(e) },
    )
}
pub fn acc_rx_timing_setup_req(p: &mc::RXTimingSetupReqPayload) -> String {
    accs!("delay" => p.delay().to_string())
}
pub fn acc_tx_param_setup_req(p: &mc::TXParamSetupReqPayload) -> String {
    accs!("downlink_dwell_time" => b(p.downlink_dwell_time()), "uplink_dwell_time" => b(p.uplink_dwell_time()), "max_eirp" => p.max_eirp().to_string())
}
pub fn acc_dl_channel_req(p: &mc::DlChannelReqPayload) -> String {
    accs!("channel_index" => p.channel_index().to_string(), "frequency" => p.frequency().value().to_string())
}
pub fn acc_device_time_ans(p: &mc::DeviceTimeAnsPayload) -> String {
    accs!("seconds" => p.seconds().to_string(), "nano_seconds" => p.nano_seconds().to_string())
}
pub fn acc_link_adr_ans(p: &mc::LinkADRAnsPayload) -> String {
    accs!("channel_mask_ack" => b(p.channel_mask_ack()), "data_rate_ack" => b(p.data_rate_ack()), "powert_ack" => b(p.powert_ack()), "ack" => b(p.ack()))
}
pub fn acc_rx_param_setup_ans(p: &mc::RXParamSetupAnsPayload) -> String {
    accs!("channel_ack" => b(p.channel_ack()), "rx2_data_rate_ack" => b(p.rx2_data_rate_ack()), "rx1_dr_offset_ack" => b(p.rx1_dr_offset_ack()), "ack" => b(p.ack()))
}
pub fn acc_dev_status_ans(p: &mc::DevStatusAnsPayload) -> String {
    accs!("battery" => p.battery().to_string(), "margin" => p.margin().to_string())
}
pub fn acc_new_channel_ans(p: &mc::NewChannelAnsPayload) -> String {
    accs!("channel_freq_ack" => b(p.channel_freq_ack()), "data_rate_range_ack" => b(p.data_rate_range_ack()), "ack" => b(p.ack()))
}
pub fn acc_dl_channel_ans(p: &mc::DlChannelAnsPayload) -> String {
    accs!("channel_freq_ack" => b(p.channel_freq_ack()), "uplink_freq_ack" => b(p.uplink_freq_ack()), "ack" => b(p.ack()))
}
pub fn acc_adr_bit_change_req(p: &cert::AdrBitChangeReqPayload) -> String {
    accs!("adr_enable" => match p.adr_enable() { Ok(v) => b(v), Err(e) => err(e) })
}
pub fn acc_tx_periodicity_change_req(p: &cert::TxPeriodicityChangeReqPayload) -> String {
    accs!("periodicity" => match p.periodicity() { Ok(None) => "none".into(), Ok(Some(s)) => s.to_string(), Err(e) => err(e) })
}
pub fn acc_tx_frames_ctrl_req(p: &cert::TxFramesCtrlReqPayload) -> String {
    accs!("len" => p.len().to_string(), "frame_type_override" => match p.frame_type_override() { Ok(v) => opt_b(v), Err(e) => err(e) })
}
pub fn acc_echo_inc_payload_req(p: &cert::EchoIncPayloadReqPayload) -> String {
    accs!("len" => p.len().to_string(), "payload" => hex(p.payload()))
}
pub fn acc_echo_inc_payload_ans(p: &cert::EchoIncPayloadAnsPayload) -> String {
    accs!("len" => p.len().to_string(), "payload" => hex(p.payload()))
}
pub fn acc_mc_group_status_req(p: &mcast::McGroupStatusReqPayload) -> String {
    accs!("req_group_mask" => p.req_group_mask().to_string())
}
pub fn acc_mc_group_setup_req(p: &mcast::McGroupSetupReqPayload) -> String {
    accs!(
        "mc_group_id_header" => p.mc_group_id_header().to_string(),
        "mc_addr" => hex(p.mc_addr().as_wire_bytes()),
        "mc_key_decrypted" => hex(p.mc_key_decrypted(&Toy).as_ref()),
        "min_mc_fcount" => p.min_mc_fcount().to_string(),
        "max_mc_fcount" => p.max_mc_fcount().to_string(),
    )
}
pub fn acc_mc_group_delete_req(p: &mcast::McGroupDeleteReqPayload) -> String {
    accs!("mc_group_id_header" => p.mc_group_id_header().to_string())
}
pub fn acc_package_version_ans(p: &mcast::PackageVersionAnsPayload) -> String {
    accs!("package_identifier" => p.package_identifier().to_string(), "package_version" => p.package_version().to_string())
}
pub fn acc_mc_group_status_ans(p: &mcast::McGroupStatusAnsPayload) -> String {
    accs!(
        "ans_group_mask" => p.ans_group_mask().to_string(),
        "nb_total_groups" => p.nb_total_groups().to_string(),
        "len" => p.len().to_string(),
        "items" => {
            let mut v = vec![];
            let mut it = p.item_iterator();
            let mut budget = 64;
            while let Some(i) = it.next() {
                v.push(format!("{}:{}", i.mc_group_id(), hex(i.mc_addr().as_wire_bytes())));
                budget -= 1;
                if budget == 0 {
                    v.push("HANG".into());
                    break;
                }
            }
            if v.is_empty() { "-".into() } else { v.join("/") }
        },
    )
}
pub fn acc_mc_group_setup_ans(p: &mcast::McGroupSetupAnsPayload) -> String {
    accs!("mc_group_id_header" => p.mc_group_id_header().to_string())
}
pub fn acc_mc_group_delete_ans(p: &mcast::McGroupDeleteAnsPayload) -> String {
    accs!("mc_group_id_header" => p.mc_group_id_header().to_string(), "mc_group_undefined" => b(p.mc_group_undefined()))
}

fn dl_mac(c: &DownlinkMacCommand) -> (&'static str, String) {
    use DownlinkMacCommand::*;
    match c {
        LinkCheckAns(p) => ("LinkCheckAns", acc_link_check_ans(p)),
        LinkADRReq(p) => ("LinkADRReq", acc_link_adr_req(p)),
        DutyCycleReq(p) => ("DutyCycleReq", acc_duty_cycle_req(p)),
        RXParamSetupReq(p) => ("RXParamSetupReq", acc_rx_param_setup_req(p)),
        DevStatusReq(_) => ("DevStatusReq", String::new()),
        NewChannelReq(p) => ("NewChannelReq", acc_new_channel_req(p)),
        RXTimingSetupReq(p) => ("RXTimingSetupReq", acc_rx_timing_setup_req(p)),
        TXParamSetupReq(p) => ("TXParamSetupReq", acc_tx_param_setup_req(p)),
        DlChannelReq(p) => ("DlChannelReq", acc_dl_channel_req(p)),
        DeviceTimeAns(p) => ("DeviceTimeAns", acc_device_time_ans(p)),
    }
}
fn ul_mac(c: &UplinkMacCommand) -> (&'static str, String) {
    use UplinkMacCommand::*;
    match c {
        LinkCheckReq(_) => ("LinkCheckReq", String::new()),
        LinkADRAns(p) => ("LinkADRAns", acc_link_adr_ans(p)),
        DutyCycleAns(_) => ("DutyCycleAns", String::new()),
        RXParamSetupAns(p) => ("RXParamSetupAns", acc_rx_param_setup_ans(p)),
        DevStatusAns(p) => ("DevStatusAns", acc_dev_status_ans(p)),
        NewChannelAns(p) => ("NewChannelAns", acc_new_channel_ans(p)),
        RXTimingSetupAns(_) => ("RXTimingSetupAns", String::new()),
        TXParamSetupAns(_) => ("TXParamSetupAns", String::new()),
        DlChannelAns(p) => ("DlChannelAns", acc_dl_channel_ans(p)),
        DeviceTimeReq(_) => ("DeviceTimeReq", String::new()),
    }
}
fn dl_dut(c: &DownlinkDUTCommand) -> (&'static str, String) {
    use DownlinkDUTCommand::*;
    match c {
        DutResetReq(_) => ("DutResetReq", String::new()),
        DutJoinReq(_) => ("DutJoinReq", String::new()),
        AdrBitChangeReq(p) => ("AdrBitChangeReq", acc_adr_bit_change_req(p)),
        TxPeriodicityChangeReq(p) => ("TxPeriodicityChangeReq", acc_tx_periodicity_change_req(p)),
        TxFramesCtrlReq(p) => ("TxFramesCtrlReq", acc_tx_frames_ctrl_req(p)),
        EchoIncPayloadReq(p) => ("EchoIncPayloadReq", acc_echo_inc_payload_req(p)),
        RxAppCntReq(_) => ("RxAppCntReq", String::new()),
        LinkCheckReq(_) => ("LinkCheckReq", String::new()),
        DutVersionsReq(_) => ("DutVersionsReq", String::new()),
    }
}
fn ul_dut(c: &UplinkDUTCommand) -> (&'static str, String) {
    use UplinkDUTCommand::*;
    match c {
        EchoIncPayloadAns(p) => ("EchoIncPayloadAns", acc_echo_inc_payload_ans(p)),
        RxAppCntAns(_) => ("RxAppCntAns", String::new()),
        DutVersionsAns(_) => ("DutVersionsAns", String::new()),
    }
}
fn dl_mcast(c: &DownlinkRemoteSetup) -> (&'static str, String) {
    use DownlinkRemoteSetup::*;
    match c {
        PackageVersionReq(_) => ("PackageVersionReq", String::new()),
        McGroupStatusReq(p) => ("McGroupStatusReq", acc_mc_group_status_req(p)),
        McGroupSetupReq(p) => ("McGroupSetupReq", acc_mc_group_setup_req(p)),
        McGroupDeleteReq(p) => ("McGroupDeleteReq", acc_mc_group_delete_req(p)),
        McClassCSessionReq(_) => ("McClassCSessionReq", String::new()),
        McClassBSessionReq(_) => ("McClassBSessionReq", String::new()),
    }
}
fn ul_mcast(c: &UplinkRemoteSetup) -> (&'static str, String) {
    use UplinkRemoteSetup::*;
    match c {
        PackageVersionAns(p) => ("PackageVersionAns", acc_package_version_ans(p)),
        McGroupStatusAns(p) => ("McGroupStatusAns", acc_mc_group_status_ans(p)),
        McGroupSetupAns(p) => ("McGroupSetupAns", acc_mc_group_setup_ans(p)),
        McGroupDeleteAns(p) => ("McGroupDeleteAns", acc_mc_group_delete_ans(p)),
        McClassCSessionAns(_) => ("McClassCSessionAns", String::new()),
        McClassBSessionAns(_) => ("McClassBSessionAns", String::new()),
    }
}

/// the step budget: an iterator over ≤ 255 bytes that yields more than this many items is a hang
pub const STEP_BUDGET: usize = 300;

/// Drain one iterator. `describe` yields (cid, payload bytes, variant, accessors).
fn drain<'a, C>(
    data: &'a [u8],
    mut it: impl Iterator<Item = Result<C, ParseError>>,
    describe: impl Fn(&C) -> (u8, Vec<u8>, usize, &'static str, String),
) -> String {
    let base = data.as_ptr() as usize;
    let mut items: Vec<String> = vec![];
    let mut consumed = 0usize;
    let mut after_none = false;
    loop {
        if items.len() > STEP_BUDGET {
            return "HANG".into();
        }
        let nx = guarded(AssertUnwindSafe(|| it.next()));
        match nx {
            None => return "PANIC".into(),
            Some(None) => {
                // fused in the Rust sense as well: a second call must also return None
                if !after_none {
                    after_none = true;
                    continue;
                }
                break;
            }
            Some(Some(_)) if after_none => return "NOT-FUSED".into(),
            Some(Some(Err(ParseError::UnknownCid(c)))) => items.push(format!("ERR:unknown:{:02x}", c)),
            Some(Some(Err(ParseError::Truncated { cid }))) => items.push(format!("ERR:trunc:{:02x}", cid)),
            Some(Some(Ok(c))) => {
                let d = guarded(AssertUnwindSafe(|| describe(&c)));
                match d {
                    None => items.push("PANIC".into()),
                    Some((cid, payload, ptr, variant, accs)) => {
                        // the payload must be the slice of the input right after the CID just consumed
                        let misplaced = !payload.is_empty() && ptr != base + consumed + 1;
                        let wrong_cid = data.get(consumed) != Some(&cid);
                        items.push(format!(
                            "{:02x}:{}:{}{{{}}}{}",
                            cid,
                            variant,
                            hex(&payload),
                            accs,
                            if misplaced || wrong_cid { "MISPLACED" } else { "" }
                        ));
                        consumed += 1 + payload.len();
                    }
                }
            }
        }
    }
    let rest = if consumed <= data.len() { hex(&data[consumed..]) } else { "OVERRUN".into() };
    format!("{} rest={}", if items.is_empty() { "-".to_string() } else { items.join(";") }, rest)
}

macro_rules! describe {
    ($f:ident) => {
        |c| {
            let (v, a) = $f(c);
            let bytes = c.bytes();
            (SerializableMacCommand::cid(c), bytes.to_vec(), bytes.as_ptr() as usize, v, a)
        }
    };
}

pub fn iter(set: &str, data: &[u8]) -> String {
    match set {
        "DownlinkMacCommand" => drain(data, mc::parse_downlink_mac_commands(data), describe!(dl_mac)),
        "UplinkMacCommand" => drain(data, mc::parse_uplink_mac_commands(data), describe!(ul_mac)),
        "DownlinkDUTCommand" => drain(data, cert::parse_downlink_dut_commands(data), describe!(dl_dut)),
        "UplinkDUTCommand" => drain(data, cert::parse_uplink_dut_commands(data), describe!(ul_dut)),
        "DownlinkRemoteSetup" => drain(data, mcast::parse_downlink_multicast_commands(data), describe!(dl_mcast)),
        "UplinkRemoteSetup" => drain(data, mcast::parse_uplink_multicast_commands(data), describe!(ul_mcast)),
        _ => "bad-op".into(),
    }
}

/// `Payload::new(data)` then every accessor
pub fn new_payload(ty: &str, data: &[u8]) -> String {
    macro_rules! fixed {
        ($t:ty, $acc:ident) => {
            g(|| match <$t>::new(data) {
                Err(e) => err(e),
                Ok(p) => format!("{}{{{}}}", hex(p.bytes()), $acc(&p)),
            })
        };
    }
    macro_rules! plain {
        ($t:ty) => {
            g(|| match <$t>::new(data) {
                Err(e) => err(e),
                Ok(p) => format!("{}{{}}", hex(p.bytes())),
            })
        };
    }
    macro_rules! unit {
        ($t:ty) => {
            g(|| {
                let p = <$t>::new(data);
                format!("{}{{}}", hex(p.bytes()))
            })
        };
    }
    match ty {
        "LinkCheckAnsPayload" => fixed!(mc::LinkCheckAnsPayload, acc_link_check_ans),
        "LinkADRReqPayload" => fixed!(mc::LinkADRReqPayload, acc_link_adr_req),
        "DutyCycleReqPayload" => fixed!(mc::DutyCycleReqPayload, acc_duty_cycle_req),
        "RXParamSetupReqPayload" => fixed!(mc::RXParamSetupReqPayload, acc_rx_param_setup_req),
        "DevStatusReqPayload" => unit!(mc::DevStatusReqPayload),
        "NewChannelReqPayload" => fixed!(mc::NewChannelReqPayload, acc_new_channel_req),
        "RXTimingSetupReqPayload" => fixed!(mc::RXTimingSetupReqPayload, acc_rx_timing_setup_req),
        "TXParamSetupReqPayload" => fixed!(mc::TXParamSetupReqPayload, acc_tx_param_setup_req),
        "DlChannelReqPayload" => fixed!(mc::DlChannelReqPayload, acc_dl_channel_req),
        "DeviceTimeAnsPayload" => fixed!(mc::DeviceTimeAnsPayload, acc_device_time_ans),
        "LinkCheckReqPayload" => unit!(mc::LinkCheckReqPayload),
        "LinkADRAnsPayload" => fixed!(mc::LinkADRAnsPayload, acc_link_adr_ans),
        "DutyCycleAnsPayload" => unit!(mc::DutyCycleAnsPayload),
        "RXParamSetupAnsPayload" => fixed!(mc::RXParamSetupAnsPayload, acc_rx_param_setup_ans),
        "DevStatusAnsPayload" => fixed!(mc::DevStatusAnsPayload, acc_dev_status_ans),
        "NewChannelAnsPayload" => fixed!(mc::NewChannelAnsPayload, acc_new_channel_ans),
        "RXTimingSetupAnsPayload" => unit!(mc::RXTimingSetupAnsPayload),
        "TXParamSetupAnsPayload" => unit!(mc::TXParamSetupAnsPayload),
        "DlChannelAnsPayload" => fixed!(mc::DlChannelAnsPayload, acc_dl_channel_ans),
        "DeviceTimeReqPayload" => unit!(mc::DeviceTimeReqPayload),
        "DutResetReqPayload" => unit!(cert::DutResetReqPayload),
        "DutJoinReqPayload" => unit!(cert::DutJoinReqPayload),
        "AdrBitChangeReqPayload" => fixed!(cert::AdrBitChangeReqPayload, acc_adr_bit_change_req),
        "TxPeriodicityChangeReqPayload" => fixed!(cert::TxPeriodicityChangeReqPayload, acc_tx_periodicity_change_req),
        "TxFramesCtrlReqPayload" => fixed!(cert::TxFramesCtrlReqPayload, acc_tx_frames_ctrl_req),
        "EchoIncPayloadReqPayload" => fixed!(cert::EchoIncPayloadReqPayload, acc_echo_inc_payload_req),
        "RxAppCntReqPayload" => unit!(cert::RxAppCntReqPayload),
        "DutVersionsReqPayload" => unit!(cert::DutVersionsReqPayload),
        "EchoIncPayloadAnsPayload" => fixed!(cert::EchoIncPayloadAnsPayload, acc_echo_inc_payload_ans),
        "RxAppCntAnsPayload" => plain!(cert::RxAppCntAnsPayload),
        "DutVersionsAnsPayload" => plain!(cert::DutVersionsAnsPayload),
        "PackageVersionReqPayload" => unit!(mcast::PackageVersionReqPayload),
        "McGroupStatusReqPayload" => fixed!(mcast::McGroupStatusReqPayload, acc_mc_group_status_req),
        "McGroupSetupReqPayload" => fixed!(mcast::McGroupSetupReqPayload, acc_mc_group_setup_req),
        "McGroupDeleteReqPayload" => fixed!(mcast::McGroupDeleteReqPayload, acc_mc_group_delete_req),
        "McClassCSessionReqPayload" => plain!(mcast::McClassCSessionReqPayload),
        "McClassBSessionReqPayload" => plain!(mcast::McClassBSessionReqPayload),
        "PackageVersionAnsPayload" => fixed!(mcast::PackageVersionAnsPayload, acc_package_version_ans),
        "McGroupStatusAnsPayload" => fixed!(mcast::McGroupStatusAnsPayload, acc_mc_group_status_ans),
        "McGroupSetupAnsPayload" => fixed!(mcast::McGroupSetupAnsPayload, acc_mc_group_setup_ans),
        "McGroupDeleteAnsPayload" => fixed!(mcast::McGroupDeleteAnsPayload, acc_mc_group_delete_ans),
        "McClassCSessionAnsPayload" => plain!(mcast::McClassCSessionAnsPayload),
        "McClassBSessionAnsPayload" => plain!(mcast::McClassBSessionAnsPayload),
        _ => "bad-op".into(),
    }
}

/// (cid, payload length or None = variable, payload type) of every command: the harness' own copy, used
/// only to GENERATE well-formed streams (never to judge answers)
pub fn catalogue(set: &str) -> Vec<(u8, Option<usize>, &'static str)> {
    match set {
        "DownlinkMacCommand" => vec![
            (0x02, Some(2), "LinkCheckAnsPayload"),
            (0x03, Some(4), "LinkADRReqPayload"),
            (0x04, Some(1), "DutyCycleReqPayload"),
            (0x05, Some(4), "RXParamSetupReqPayload"),
            (0x06, Some(0), "DevStatusReqPayload"),
            (0x07, Some(5), "NewChannelReqPayload"),
            (0x08, Some(1), "RXTimingSetupReqPayload"),
            (0x09, Some(1), "TXParamSetupReqPayload"),
            (0x0a, Some(4), "DlChannelReqPayload"),
            (0x0d, Some(5), "DeviceTimeAnsPayload"),
        ],
        "UplinkMacCommand" => vec![
            (0x02, Some(0), "LinkCheckReqPayload"),
            (0x03, Some(1), "LinkADRAnsPayload"),
            (0x04, Some(0), "DutyCycleAnsPayload"),
            (0x05, Some(1), "RXParamSetupAnsPayload"),
            (0x06, Some(2), "DevStatusAnsPayload"),
            (0x07, Some(1), "NewChannelAnsPayload"),
            (0x08, Some(0), "RXTimingSetupAnsPayload"),
            (0x09, Some(0), "TXParamSetupAnsPayload"),
            (0x0a, Some(1), "DlChannelAnsPayload"),
            (0x0d, Some(0), "DeviceTimeReqPayload"),
        ],
        "DownlinkDUTCommand" => vec![
            (0x01, Some(0), "DutResetReqPayload"),
            (0x02, Some(0), "DutJoinReqPayload"),
            (0x04, Some(1), "AdrBitChangeReqPayload"),
            (0x06, Some(1), "TxPeriodicityChangeReqPayload"),
            (0x07, None, "TxFramesCtrlReqPayload"),
            (0x08, None, "EchoIncPayloadReqPayload"),
            (0x09, Some(0), "RxAppCntReqPayload"),
            (0x20, Some(0), "LinkCheckReqPayload"),
            (0x7f, Some(0), "DutVersionsReqPayload"),
        ],
        "UplinkDUTCommand" => vec![(0x08, None, "EchoIncPayloadAnsPayload"), (0x09, Some(2), "RxAppCntAnsPayload"), (0x7f, Some(12), "DutVersionsAnsPayload")],
        "DownlinkRemoteSetup" => vec![
            (0x00, Some(0), "PackageVersionReqPayload"),
            (0x01, Some(1), "McGroupStatusReqPayload"),
            (0x02, Some(29), "McGroupSetupReqPayload"),
            (0x03, Some(1), "McGroupDeleteReqPayload"),
            (0x04, Some(10), "McClassCSessionReqPayload"),
            (0x05, Some(10), "McClassBSessionReqPayload"),
        ],
        "UplinkRemoteSetup" => vec![
            (0x00, Some(2), "PackageVersionAnsPayload"),
            (0x01, None, "McGroupStatusAnsPayload"),
            (0x02, Some(1), "McGroupSetupAnsPayload"),
            (0x03, Some(1), "McGroupDeleteAnsPayload"),
            (0x04, Some(4), "McClassCSessionAnsPayload"),
            (0x05, Some(4), "McClassBSessionAnsPayload"),
        ],
        _ => vec![],
    }
}

fn fnv_line(h: &mut Fnv, s: &str) {
    for b in s.bytes() {
        h.byte(b);
    }
    h.byte(10);
}

fn digest_all(set: &str, pre: &[u8], k: usize) -> u64 {
    fn rec(set: &str, cur: &mut Vec<u8>, k: usize, h: &mut Fnv) {
        if k == 0 {
            fnv_line(h, &iter(set, cur));
            return;
        }
        for b in 0..=255u8 {
            cur.push(b);
            rec(set, cur, k - 1, h);
            cur.pop();
        }
    }
    let mut h = Fnv::new();
    let mut cur = pre.to_vec();
    rec(set, &mut cur, k, &mut h);
    h.0
}

pub fn eval(op: &str) -> String {
    let w: Vec<&str> = op.split_whitespace().collect();
    match w.as_slice() {
        ["C03", "iter", set, h] => iter(set, &unhex(h)),
        ["C03", "iter_digest", set, pre, k] => {
            let Ok(k) = k.parse::<usize>() else { return "bad-op".into() };
            if k > 3 || !SETS.contains(set) {
                return "bad-op".into();
            }
            format!("{:016x}", digest_all(set, &unhex(pre), k))
        }
        ["C03", "new", _set, ty, h] => new_payload(ty, &unhex(h)),
        ["C03", "frame", ..] | ["C03", "frame_digest", ..] => c03_frames::eval(&w),
        _ => "bad-op".into(),
    }
}

pub fn expand(op: &str) -> Vec<String> {
    let w: Vec<&str> = op.split_whitespace().collect();
    let mut out = vec![];
    match w.as_slice() {
        ["C03", "iter_digest", set, pre, k] => {
            let k = k.parse::<usize>().unwrap_or(0);
            let pre = unhex(pre);
            let n = 256usize.pow(k as u32);
            for i in 0..n {
                let mut s = pre.clone();
                for j in 0..k {
                    s.push(((i >> (8 * (k - 1 - j))) & 0xff) as u8);
                }
                out.push(format!("C03 iter {} {}", set, hex(&s)));
            }
        }
        ["C03", "frame_digest", ..] => out = c03_frames::expand(&w),
        _ => {}
    }
    out
}

/// a well-formed payload for one catalogue entry
fn gen_payload(rng: &mut Rng, len: Option<usize>, ty: &str, last: bool) -> Vec<u8> {
    match len {
        Some(n) => rng.bytes(n),
        None if ty == "McGroupStatusAnsPayload" => {
            let mask = rng.below(16) as u8;
            let status = mask | ((rng.below(8) as u8) << 4);
            let mut v = vec![status];
            v.extend(rng.bytes(5 * mask.count_ones() as usize));
            v
        }
        None => {
            // to-the-end payloads: 1..n octets (they swallow whatever follows, so they are placed last)
            let n = if last { 1 + rng.below(20) as usize } else { 1 };
            rng.bytes(n)
        }
    }
}

pub fn gen_stream(rng: &mut Rng, set: &str, max_cmds: usize) -> Vec<u8> {
    let cat = catalogue(set);
    let n = 1 + rng.below(max_cmds as u64) as usize;
    let mut v = vec![];
    for i in 0..n {
        let (cid, len, ty) = *rng.pick(&cat);
        let p = gen_payload(rng, len, ty, i + 1 == n);
        if v.len() + 1 + p.len() > 255 {
            break;
        }
        v.push(cid);
        v.extend(p);
    }
    v
}

fn mutate(rng: &mut Rng, v: &mut Vec<u8>) -> &'static str {
    match rng.below(7) {
        0 => {
            let n = rng.below(v.len() as u64 + 1) as usize;
            v.truncate(n);
            "truncate"
        }
        1 if !v.is_empty() => {
            let i = rng.below(v.len() as u64) as usize;
            v[i] ^= 1 << rng.below(8);
            "bitflip"
        }
        2 if !v.is_empty() => {
            let i = rng.below(v.len() as u64) as usize;
            v[i] = rng.next() as u8;
            "byte"
        }
        3 if v.len() < 255 => {
            let i = rng.below(v.len() as u64 + 1) as usize;
            v.insert(i, rng.next() as u8);
            "insert"
        }
        4 if !v.is_empty() => {
            let i = rng.below(v.len() as u64) as usize;
            v.remove(i);
            "delete"
        }
        5 => {
            let extra = rng.below(8) as usize;
            for _ in 0..extra {
                if v.len() < 255 {
                    v.push(rng.next() as u8);
                }
            }
            "append"
        }
        _ => "valid",
    }
}

fn classify(ans: &str) -> &'static str {
    if ans.contains("PANIC") {
        "panic"
    } else if ans.contains("HANG") {
        "hang"
    } else if ans.contains("ERR:unknown") {
        "ends-unknown-cid"
    } else if ans.contains("ERR:trunc") {
        "ends-truncated"
    } else if ans.starts_with("- ") {
        "empty"
    } else {
        "all-whole-commands"
    }
}

pub fn run(tier: &str, seed: u64, dir: &str) {
    let mut rng = Rng::new(seed);
    let mut sink = Sink::new(dir);
    let thorough = tier == "thorough";
    // 1. every byte string of length ≤ 1 individually; length 2 (and 3 in thorough) as digest blocks per first byte
    for set in SETS {
        let op = format!("C03 iter {} -", set);
        sink.case(&op, &eval(&op), "exh-len0", true);
        for b0 in 0..=255u8 {
            let op = format!("C03 iter {} {:02x}", set, b0);
            let a = eval(&op);
            sink.case(&op, &a, "exh-len1", true);
        }
        for b0 in 0..=255u8 {
            let op = format!("C03 iter_digest {} {:02x} 1", set, b0);
            sink.case_w(&op, &eval(&op), "exh-len2-digest", true, 256);
        }
        if thorough {
            for b0 in 0..=255u8 {
                let op = format!("C03 iter_digest {} {:02x} 2", set, b0);
                sink.case_w(&op, &eval(&op), "exh-len3-digest", true, 65536);
            }
        }
    }
    // 2. every CID × every truncation point (0 ..= longest payload of the set + 2), alone and after a valid command
    for set in SETS {
        let cat = catalogue(set);
        let longest = cat.iter().map(|c| c.1.unwrap_or(21)).max().unwrap_or(0);
        for cid in 0..=255u8 {
            for k in 0..=(longest + 2) {
                let mut v = vec![cid];
                // payload pattern: for group status make the first octet select all four groups
                v.extend((0..k).map(|i| if i == 0 { 0x0f } else { (0xa0 + i) as u8 }));
                let op = format!("C03 iter {} {}", set, hex(&v));
                let a = eval(&op);
                sink.case(&op, &a, &format!("trunc-{}", classify(&a)), true);
                if k % 3 == 0 {
                    // the same after one valid fixed-length command
                    if let Some((c0, Some(l0), _)) = cat.iter().find(|c| matches!(c.1, Some(l) if l > 0)) {
                        let mut w = vec![*c0];
                        w.extend((0..*l0).map(|i| (0x10 + i) as u8));
                        w.extend(&v);
                        let op = format!("C03 iter {} {}", set, hex(&w));
                        let a = eval(&op);
                        sink.case(&op, &a, &format!("trunc2-{}", classify(&a)), true);
                    }
                }
            }
        }
    }
    // 3. group-status answers: every status octet × every truncation point
    for status in 0..=255u8 {
        let need = 1 + 5 * (status & 0x0f).count_ones() as usize;
        for k in [0usize, 1, need.saturating_sub(1), need, need + 1, 22] {
            let mut v = vec![0x01, status];
            v.extend((0..k.saturating_sub(1)).map(|i| i as u8));
            v.truncate(1 + k);
            let op = format!("C03 iter UplinkRemoteSetup {}", hex(&v));
            let a = eval(&op);
            sink.case(&op, &a, &format!("groupstatus-{}", classify(&a)), true);
        }
    }
    // 4. checked constructors: every payload type × lengths 0 ..= len+2 (all 256 first octets for short ones)
    for set in SETS {
        for (_cid, len, ty) in catalogue(set) {
            let top = len.unwrap_or(22) + 2;
            for n in 0..=top {
                let firsts: Vec<u8> = if n == 0 { vec![0] } else if len.map(|l| l <= 2).unwrap_or(true) { (0..=255).collect() } else { vec![0, 1, 0x0f, 0x80, 0xff] };
                for f in firsts {
                    let mut v: Vec<u8> = (0..n).map(|i| (i * 7 + 3) as u8).collect();
                    if n > 0 {
                        v[0] = f;
                    }
                    let op = format!("C03 new {} {} {}", set, ty, hex(&v));
                    let a = eval(&op);
                    let class = if a.starts_with("ERR") { "new-refused" } else if a.contains("PANIC") { "new-panic" } else { "new-ok" };
                    sink.case(&op, &a, class, true);
                }
            }
        }
    }
    // 5. mutated valid streams up to 255 bytes + pure random strings
    let n_mut = if thorough { 400_000 } else { 40_000 };
    for i in 0..n_mut {
        let set = *rng.pick(&SETS);
        let (v, class) = if i % 10 == 9 {
            let n = rng.below(256) as usize;
            (rng.bytes(n), "random".to_string())
        } else {
            let mut v = gen_stream(&mut rng, set, 12);
            let mut names = vec![];
            for _ in 0..rng.below(3) {
                names.push(mutate(&mut rng, &mut v));
            }
            v.truncate(255);
            (v, if names.is_empty() { "valid".to_string() } else { names.join("+") })
        };
        let op = format!("C03 iter {} {}", set, hex(&v));
        let a = eval(&op);
        sink.case(&op, &a, &format!("stream-{}-{}", class.split('+').next().unwrap_or("valid"), classify(&a)), true);
    }
    // 6. frame parsers
    c03_frames::run(thorough, &mut rng, &mut sink);
    sink.finish(
        dir,
        "MAC-command iterators of the six sets: every byte string of length 0/1 individually and of length 2 (3 in thorough) as digest blocks per first octet; every CID × every truncation point alone and after a valid command; every McGroupStatusAns status octet × truncation; every payload type's checked constructor × lengths 0..len+2; seeded mutated valid streams ≤255 B and random strings; each next() and each accessor under catch_unwind, 300-item step budget, a second next() after None, payload slices checked to lie at the consumed offset. Frame parsers: see c03_frames. Distinct = distinct op lines; non-trivial = every case (an answer line with the yielded items, every accessor value and the rest).",
        thorough,
        serde_json::json!({}),
    );
}
