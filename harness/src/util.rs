//! Shared helpers: PRNG (splitmix64), FNV-1a digest (same as Driver/Util.lean), hex, case sink.
use std::collections::{BTreeMap, HashSet};
use std::io::Write;

pub struct Rng(pub u64);
impl Rng {
    pub fn new(seed: u64) -> Self {
        Rng(seed ^ 0x9E3779B97F4A7C15)
    }
    pub fn next(&mut self) -> u64 {
        self.0 = self.0.wrapping_add(0x9E3779B97F4A7C15);
        let mut z = self.0;
        z = (z ^ (z >> 30)).wrapping_mul(0xBF58476D1CE4E5B9);
        z = (z ^ (z >> 27)).wrapping_mul(0x94D049BB133111EB);
        z ^ (z >> 31)
    }
    pub fn below(&mut self, n: u64) -> u64 {
        if n == 0 {
            0
        } else {
            self.next() % n
        }
    }
    pub fn range(&mut self, lo: i64, hi: i64) -> i64 {
        lo + self.below((hi - lo + 1) as u64) as i64
    }
    pub fn pick<'a, T>(&mut self, xs: &'a [T]) -> &'a T {
        &xs[self.below(xs.len() as u64) as usize]
    }
    pub fn chance(&mut self, num: u64, den: u64) -> bool {
        self.below(den) < num
    }
    pub fn bytes(&mut self, n: usize) -> Vec<u8> {
        (0..n).map(|_| self.next() as u8).collect()
    }
}

pub struct Fnv(pub u64);
impl Fnv {
    pub fn new() -> Self {
        Fnv(0xcbf29ce484222325)
    }
    #[inline]
    pub fn byte(&mut self, b: u8) {
        self.0 = (self.0 ^ b as u64).wrapping_mul(0x100000001b3);
    }
    #[inline]
    pub fn word(&mut self, w: u64) {
        for i in 0..8 {
            self.byte((w >> (8 * i)) as u8);
        }
    }
    /// `None` = panic
    #[inline]
    pub fn opt(&mut self, v: Option<i64>) {
        self.word(match v {
            None => u64::MAX,
            Some(v) => v as u64,
        })
    }
}

pub fn hex(bs: &[u8]) -> String {
    if bs.is_empty() {
        return "-".into();
    }
    bs.iter().map(|b| format!("{:02x}", b)).collect()
}

pub fn unhex(s: &str) -> Vec<u8> {
    if s == "-" {
        return vec![];
    }
    (0..s.len() / 2).map(|i| u8::from_str_radix(&s[2 * i..2 * i + 2], 16).unwrap()).collect()
}

/// Run `f`, mapping a panic to `None`.
pub fn guarded<T>(f: impl FnOnce() -> T + std::panic::UnwindSafe) -> Option<T> {
    std::panic::catch_unwind(f).ok()
}

pub fn silence_panics() {
    if std::env::var("LV_PANIC_MSG").is_ok() {
        return;
    }
    std::panic::set_hook(Box::new(|_| {}));
}

/// Collects (op line, implementation answer) pairs plus coverage statistics.
pub struct Sink {
    ops: std::io::BufWriter<std::fs::File>,
    imp: std::io::BufWriter<std::fs::File>,
    pub evaluations: u64,
    seen: HashSet<u64>,
    pub distinct_nontrivial: u64,
    pub hist: BTreeMap<String, u64>,
    pub samples: Vec<String>,
    sample_every: u64,
    pub weight: u64,
}

impl Sink {
    pub fn new(dir: &str) -> Self {
        std::fs::create_dir_all(dir).unwrap();
        Sink {
            ops: std::io::BufWriter::new(std::fs::File::create(format!("{}/ops.txt", dir)).unwrap()),
            imp: std::io::BufWriter::new(std::fs::File::create(format!("{}/impl.txt", dir)).unwrap()),
            evaluations: 0,
            seen: HashSet::new(),
            distinct_nontrivial: 0,
            hist: BTreeMap::new(),
            samples: vec![],
            sample_every: 1,
            weight: 0,
        }
    }
    /// one case; `class` feeds the branch histogram; `nontrivial` by the suite's stated rule
    pub fn case(&mut self, op: &str, answer: &str, class: &str, nontrivial: bool) {
        self.case_w(op, answer, class, nontrivial, 1)
    }
    /// a case that stands for `w` evaluations (digest blocks)
    pub fn case_w(&mut self, op: &str, answer: &str, class: &str, nontrivial: bool, w: u64) {
        writeln!(self.ops, "{}", op).unwrap();
        writeln!(self.imp, "{}", answer).unwrap();
        self.evaluations += w;
        *self.hist.entry(class.to_string()).or_insert(0) += w;
        let mut h = Fnv::new();
        for b in op.bytes() {
            h.byte(b);
        }
        if self.seen.insert(h.0) && nontrivial {
            self.distinct_nontrivial += w;
        }
        if self.samples.len() < 12 && (self.evaluations / w.max(1)) % self.sample_every == 0 {
            self.samples.push(format!("{} => {}", op, answer));
            self.sample_every = self.sample_every * 7 + 1;
        }
    }
    pub fn finish(mut self, dir: &str, rule: &str, exhaustive: bool, extra: serde_json::Value) {
        self.ops.flush().unwrap();
        self.imp.flush().unwrap();
        let meta = serde_json::json!({
            "evaluations": self.evaluations,
            "distinct_nontrivial": self.distinct_nontrivial,
            "rule": rule,
            "samples": self.samples,
            "histogram": self.hist,
            "exhaustive": exhaustive,
            "extra": extra,
        });
        std::fs::write(format!("{}/meta.json", dir), serde_json::to_string_pretty(&meta).unwrap()).unwrap();
    }
}
