//! Suite C11: OTAA join establishes exactly the session the JoinAccept defines.
#![allow(dead_code, unused_imports)]
use crate::mac::*;
use crate::macgen::*;
use crate::macsuites::*;
use crate::oracle::num_default_channels;
use crate::util::*;

pub fn eval(op: &str) -> String {
    if let Some(r) = crate::adevgen::eval_dev_any(op) {
        return r;
    }
    let outs = run_history(op);
    format!("{} ## oracle={}", outs.join(" ; "), oracle_c11(op, &outs))
}

pub fn expand(_op: &str) -> Vec<String> {
    vec![]
}

pub fn run(tier: &str, seed: u64, dir: &str) {
    let mut rng = Rng::new(seed);
    let mut sink = Sink::new(dir);
    let thorough = tier == "thorough";
    for region in REGIONS {
        let (lo, hi) = band(region);
        // every DLSettings byte x RxDelay classes x CFList classes
        for dls in 0..=255u8 {
            for (k, rxd) in [0u8, 1, 2, 15].iter().enumerate() {
                if !thorough && (dls as usize + k) % 4 != 0 {
                    continue;
                }
                let cfs = [
                    CfDesc::None,
                    CfDesc::Dynamic([lo + 300_000, 0, hi + 100, lo - 100, hi]),
                    CfDesc::Fixed([0xff, 0, 0, 0, 0, 0, 0, 0, 0x01]),
                    CfDesc::Rfu(7, [0x55; 15]),
                ];
                let cf = &cfs[(dls as usize + k) % 4];
                let mut h = Hist::new("C11", region, 20, 0, rng.next() & 0xffff, &[], None);
                h.go_live();
                h.snap().ev("otaa");
                let acc = build_join_accept(&ROOT_KEY, 0x0100_0000 + dls as u32, dls, *rxd, cf);
                let w = if dls % 2 == 0 { "rx1" } else { "rx2" };
                h.rx_bytes(w, 0, &acc, None).snap().send(1, false, &[1]).timeout().snap();
                let op = h.done();
                sink.case(&op, &eval(&op), "dlsettings-sweep", true);
            }
        }
        // credentials: an attempt with one set fails (or succeeds), the next join uses another set —
        // the JoinRequest, the accepted JoinAccept and the session keys must follow the set of the
        // attempt in progress; an accept under the previous set's key changes nothing
        for (a, b) in [(0usize, 1usize), (1, 0), (0, 2), (2, 1), (1, 1)] {
            for first_succeeds in [false, true] {
                let mut h = Hist::new("C11", region, 20, 0, rng.next() & 0xffff, &[], None);
                h.go_live();
                h.root = CREDS[a].2;
                h.ev(&if a == 0 { "otaa".to_string() } else { format!("otaa {}", a) });
                if first_succeeds {
                    let acc = build_join_accept(&CREDS[a].2, 0x0100_00a0, 0, 1, &CfDesc::None);
                    h.rx_bytes("rx1", 0, &acc, None).snap().send(1, false, &[1]).timeout();
                } else {
                    h.timeout();
                }
                h.root = CREDS[b].2;
                h.ev(&if b == 0 { "otaa".to_string() } else { format!("otaa {}", b) });
                if a != b {
                    let stale = build_join_accept(&CREDS[a].2, 0x0100_00a1, 0, 1, &CfDesc::None);
                    h.rx_bytes("rx1", 0, &stale, None);
                }
                let acc = build_join_accept(&CREDS[b].2, 0x0100_00b0, 0x12, 2, &CfDesc::None);
                h.rx_bytes("rx2", 0, &acc, None).snap().send(1, false, &[2]).timeout().snap();
                let op = h.done();
                sink.case(&op, &eval(&op), "credential-change", true);
            }
        }
        let n = if thorough { 2000 } else { 120 };
        for _ in 0..n {
            let mut o = Opts::default();
            o.otaa_pct = 100;
            o.steps = 5;
            o.snaps = true;
            let op = gen_history("C11", &mut rng, region, &o);
            sink.case(&op, &eval(&op), "join-history", true);
        }
    }
    // fixed plans: a type-1 CFList that enables only 500 kHz channels (the first eight mask octets
    // zero), a single 125 kHz channel, or nothing at all — it replaces the mask all the same; a first
    // join and a re-join after a session that had another mask
    for region in REGIONS {
        if !is_fixed(region) {
            continue;
        }
        for (k, m) in [[0u8, 0, 0, 0, 0, 0, 0, 0, 0x02], [0, 0, 0, 0, 0, 0, 0, 0, 0x81], [0; 9], [0, 0, 0, 0x10, 0, 0, 0, 0, 0], [0xff, 0xff, 0, 0, 0, 0, 0, 0, 0x01]].into_iter().enumerate() {
            let mut h = Hist::new("C11", region, 20, 0, 500 + k as u64, &[], None);
            h.go_live();
            for (round, mask) in [[0xffu8, 0, 0, 0, 0, 0, 0, 0, 0xff], m].into_iter().enumerate() {
                if round == 0 && k % 2 == 0 {
                    continue; // first join straight away
                }
                h.ev("otaa");
                let devaddr = 0x0100_0000 + (rng.next() as u32 & 0xffffff);
                let root = h.root;
                let acc = build_join_accept(&root, devaddr, 0, 1, &CfDesc::Fixed(mask));
                h.snap();
                h.rx_bytes(if (k + round) % 2 == 0 { "rx1" } else { "rx2" }, 5, &acc, None);
                h.devaddr = devaddr;
                h.last_down = None;
                h.snap();
            }
            let op = h.done();
            sink.case(&op, &eval(&op), "cflist-type1-fixed-plan", true);
        }
    }

    // dynamic plans: a re-join whose CFList names, at the same position, the frequency the previous
    // session already had there (or another one) — after that session had re-paired the slot by
    // DlChannelReq and / or narrowed its data-rate range by NewChannelReq. The channel of the new
    // session is the one the JoinAccept defines: RX1 on its own frequency, range DR0..DR5.
    for region in REGIONS {
        if is_fixed(region) {
            continue;
        }
        let (lo, _hi) = band(region);
        let n0 = num_default_channels(region) as u8;
        for k in 0..3usize {
            for same in [true, false] {
                let mut h = Hist::new("C11", region, 20, 0, 800 + (2 * k + same as usize) as u64, &[], None);
                h.go_live();
                let slot = n0 + k as u8;
                let f = lo + 900_000 + 100_000 * k as u32;
                let mut cf = [0u32; 5];
                cf[k] = f;
                let mut cf2 = cf;
                if !same {
                    cf2[k] = f + 100_000;
                }
                for (round, c) in [cf, cf2].into_iter().enumerate() {
                    h.snap();
                    h.ev("otaa");
                    let devaddr = 0x0100_0000 + (rng.next() as u32 & 0xffffff);
                    let root = h.root;
                    let acc = build_join_accept(&root, devaddr, 0, 1, &CfDesc::Dynamic(c));
                    h.rx_bytes(if (k + round) % 2 == 0 { "rx1" } else { "rx2" }, 5, &acc, None);
                    h.devaddr = devaddr;
                    h.last_down = None;
                    h.snap();
                    if round == 0 {
                        h.send(1, false, &[1]);
                        h.rx_auth("rx1", 0, 1, false, &dl_channel_req(slot, lo + 700_000), None, &[]).snap();
                        if k % 2 == 1 {
                            h.send(1, false, &[2]);
                            h.rx_auth("rx2", 0, 1, false, &new_channel_req(slot, f, 0x20), None, &[]).snap();
                        }
                        h.send(1, false, &[3]).timeout().snap();
                    } else {
                        // uplinks on a plan reduced to that channel, so that RX1 is observed on it
                        h.send(1, false, &[4]);
                        h.rx_auth("rx1", 0, 1, false, &link_adr_req(15, 15, 1u16 << slot, 0, 1), None, &[]).snap();
                        for _ in 0..3 {
                            h.send(1, false, &[5]).timeout().snap();
                        }
                    }
                }
                let op = h.done();
                sink.case(&op, &eval(&op), "rejoin-cflist-same-slot", true);
            }
        }
    }

    // device level: both front-ends with the scripted radio (see adevgen::add_dev_classes)
    crate::adevgen::add_dev_classes("C11", &mut rng, &mut sink, thorough, eval);
    sink.finish(dir, "per region: all 256 DLSettings bytes x RxDelay {0,1,2,15} x CFList {none, type 0 with in-band/zero/out-of-band frequencies, type 1 mask, RFU type}, arriving in RX1 or RX2 (full grid in thorough, a quarter in quick); joins with changing credential sets after failed and successful attempts; random histories of failed attempts, wrong-key accepts and re-joins from a joined state; re-joins whose CFList re-names a slot the previous session had re-paired (DlChannelReq) or narrowed (NewChannelReq): the new session's channel is the JoinAccept's. The JoinRequest is checked against the §6.2.4 layout and its MIC, the session keys against the §6.2.5 derivation. Non-trivial = every case.", false, serde_json::json!({}));
}
