//! Suite C06: uplink frame counters never repeat within a session (MAC level; radio faults are a device-level concern, see c06dev).
#![allow(dead_code, unused_imports)]
use crate::mac::*;
use crate::macgen::*;
use crate::macsuites::*;
use crate::util::*;

pub fn eval(op: &str) -> String {
    let outs = run_history(op);
    format!("{} ## oracle={}", outs.join(" ; "), oracle_c06(op, &outs))
}

pub fn expand(_op: &str) -> Vec<String> {
    vec![]
}

pub fn run(tier: &str, seed: u64, dir: &str) {
    let mut rng = Rng::new(seed);
    let mut sink = Sink::new(dir);
    let thorough = tier == "thorough";
    let per_region = if thorough { 2500 } else { 140 };
    for region in REGIONS {
        for i in 0..per_region {
            let mut o = Opts::default();
            o.steps = 5 + rng.below(14) as usize;
            o.otaa_pct = 15;
            o.snaps = i % 4 == 0;
            o.counters = match i % 5 {
                0 => Some((0xffff, Some(3))),
                1 => Some((0xffff_fffe, Some(3))),
                2 => Some((0xffff_fffb, None)),
                3 => Some((0xfffe, None)),
                _ => None,
            };
            let op = gen_history("C06", &mut rng, region, &o);
            sink.case(&op, &eval(&op), "counter-history", true);
        }
    }
    sink.finish(dir, "MAC histories (send / RX1 hit / RX2 hit / timeout / rejected and oversized frames / Class C downlinks / re-joins) from starting counters 0, 0xFFFE, 0xFFFF, 2^32-5, 2^32-2; every transmitted frame is decoded by the network side with the full 32-bit counter (MIC and decryption must succeed for it). Non-trivial = every case.", false, serde_json::json!({}));
}
