//! Suite C06: uplink frame counters never repeat within a session (MAC level; radio faults are a device-level concern, see c06dev).
#![allow(dead_code, unused_imports)]
use crate::mac::*;
use crate::macgen::*;
use crate::macsuites::*;
use crate::util::*;

pub fn eval(op: &str) -> String {
    if op.split_whitespace().nth(1) == Some("nbdev") {
        return crate::adevgen::eval_nb(op, crate::adevgen::oracle_c06_dev);
    }
    if op.split_whitespace().nth(1) == Some("adev") {
        return crate::adevgen::eval(op, crate::adevgen::oracle_c06_dev);
    }
    let outs = run_history(op);
    format!("{} ## oracle={}", outs.join(" ; "), oracle_c06(op, &outs))
}

pub fn expand(_op: &str) -> Vec<String> {
    vec![]
}

pub fn run(tier: &str, seed: u64, dir: &str) {
    let mut rng = Rng::new(seed);
    let mut sink = Sink::new(dir);
    let thorough = tier == "thorough";
    let per_region = if thorough { 2500 } else { 140 };
    for region in REGIONS {
        for i in 0..per_region {
            let mut o = Opts::default();
            o.steps = 5 + rng.below(14) as usize;
            o.otaa_pct = 15;
            o.snaps = i % 4 == 0;
            o.counters = match i % 5 {
                0 => Some((0xffff, Some(3))),
                1 => Some((0xffff_fffe, Some(3))),
                2 => Some((0xffff_fffb, None)),
                3 => Some((0xfffe, None)),
                _ => None,
            };
            let op = gen_history("C06", &mut rng, region, &o);
            sink.case(&op, &eval(&op), "counter-history", true);
        }
    }
    // builder X — uplink-typed frames of the session (the device's own uplink echoed back octet for octet, and one
    // rebuilt at the next fresh downlink counter) in RX1 / RX2 / RXC: not frames for an end-device, whatever their MIC
    for region in REGIONS {
        for k in 0..(if thorough { 144 } else { 24 }) {
            let op = uplink_echo_history("C06", &mut rng, region, k);
            sink.case(&op, &eval(&op), "uplink-echo", true);
        }
    }
    // device level (non-blocking front-end): an error / unexpected answer at every radio call
    for region in ["EU868", "US915"] {
        let mut v = vec![];
        crate::adevgen::gen_nb_fault_histories("C06", region, &mut rng, &mut v);
        for (op, class) in v {
            sink.case(&op, &eval(&op), class, true);
        }
        for _ in 0..(if thorough { 1500 } else { 120 }) {
            let op = crate::adevgen::gen_nb_random_history("C06", region, &mut rng);
            sink.case(&op, &eval(&op), "nb-random", true);
        }
    }
    // device level (async front-end): a radio fault at every radio call position
    for region in ["EU868", "US915", "AS923_1"] {
        for class_c in [false, true] {
            let mut v = vec![];
            crate::adevgen::gen_fault_histories("C06", region, &mut rng, class_c, &mut v);
            for (op, class) in v {
                sink.case(&op, &eval(&op), class, true);
            }
        }
        for _ in 0..(if thorough { 1500 } else { 120 }) {
            let op = crate::adevgen::gen_random_dev_history("C06", region, &mut rng);
            sink.case(&op, &eval(&op), "device-random", true);
        }
    }
    sink.finish(dir, "device level: the real async Device with a scripted radio: two-uplink histories with a radio fault injected at every radio call index (tx, low_power, setup_rx, rx_single, rx_continuous) x frames in RX1/RX2/garbage x Class A/C, and random scripted histories. MAC level: MAC histories (send / RX1 hit / RX2 hit / timeout / rejected and oversized frames / Class C downlinks / re-joins) from starting counters 0, 0xFFFE, 0xFFFF, 2^32-5, 2^32-2; every transmitted frame is decoded by the network side with the full 32-bit counter (MIC and decryption must succeed for it). Non-trivial = every case.", false, serde_json::json!({}));
}
