//! C14: `LoRa<RK, DLY>` (lora-phy/src/lib.rs) of the real crate over the fake chips: sequences of API
//! calls, each with its own chip interrupt outcomes, an I/O fault at a chosen step, or a future
//! dropped at a pending `await_irq`; compared call by call (result, I/O transcript, `verif_state()`)
//! with the Lean model, which also evaluates the invariants I1-I5 on the run.
//!
//!   C14 seq        <chip> ; <call>@<irq words|->@<fault|->@<pend|-> ; …     verbose answer
//!   C14 seqh <chip> ; …                                                 transcripts hashed
//! calls: init  sleep:<0|1>  ptx  tx  prx:<s|c|d>  srx  crx  rx  rsc  listen  pcad  cad  sync:<word>
//! (fixed parameters: SF7/125 kHz/4_5 at 868.1 MHz, 14 dBm, payload 010203, RX buffer 255 bytes,
//!  Single(13 symbols) / Continuous / DutyCycle(1000, 2000), rx_switch_channel to 868.3 MHz)
//! The scenario starts after `LoRa::new(radio_kind, true, delay)` (which runs `init`).
use crate::c13::{is_126, parse_chip, ChipCfg, Variant};
use crate::fakechip::*;
use crate::util::*;
use lora_modulation::{Bandwidth, CodingRate, SpreadingFactor};
use lora_phy::mod_params::{DutyCycleParams, RadioError, RadioMode};
use lora_phy::mod_traits::RadioKind;
use lora_phy::{sx126x, LoRa, RxMode};
use std::panic::AssertUnwindSafe;

const FREQ: u32 = 868_100_000;
const FREQ2: u32 = 868_300_000;

fn show_mode(m: RadioMode) -> String {
    match m {
        RadioMode::Sleep => "Sleep".into(),
        RadioMode::Standby => "Standby".into(),
        RadioMode::FrequencySynthesis => "FrequencySynthesis".into(),
        RadioMode::Transmit => "Transmit".into(),
        RadioMode::Listen => "Listen".into(),
        RadioMode::ChannelActivityDetection => "ChannelActivityDetection".into(),
        RadioMode::Receive(RxMode::Single(n)) => format!("Receive(Single({}))", n),
        RadioMode::Receive(RxMode::Continuous) => "Receive(Continuous)".into(),
        RadioMode::Receive(RxMode::DutyCycle(d)) => format!("Receive(DutyCycle({},{}))", d.rx_time, d.sleep_time),
    }
}

fn show_err(e: &RadioError) -> String {
    format!("err:{:?}", e).replace(' ', "")
}

fn fnv_str(s: &str) -> String {
    let mut h = Fnv::new();
    for b in s.bytes() {
        h.byte(b);
    }
    format!("{:016x}", h.0)
}

// ---------------------------------------------------------------------------------------------------
// The abstract chip of lean/LoraVerif/Model/Chip.lean, re-implemented here so that the invariants
// I1-I5 are ALSO evaluated on the real driver's own transcript and bookkeeping (`C14 inv …` lines),
// independently of the Lean model of the driver.

#[derive(Clone, Copy, PartialEq, Eq, Debug)]
enum ChipMode {
    Sleep,
    Standby,
    Tx,
    Rx,
    RxDuty,
    Cad,
}

// bits: packetType, syncWord, regulator, tcxo, bufferBase, modulation, packet, irq, frequency, pa
const PT: u16 = 1;
const SW: u16 = 2;
const REG: u16 = 4;
const TCXO: u16 = 8;
const BB: u16 = 16;
const MODU: u16 = 32;
const PKT: u16 = 64;
const IRQ: u16 = 128;
const FRQ: u16 = 256;
const PA: u16 = 512;

// which operation's IRQ mask was programmed last since the last configuration loss, decoded from the
// bytes on the wire (a bit set: the SX126x `All` mask is what the driver programs for standby AND receive)
const IC_STBY: u8 = 1;
const IC_TX: u8 = 2;
const IC_RX: u8 = 4;
const IC_CAD: u8 = 8;

/// SX126x CfgDIOIrq arguments (irq mask, DIO1, DIO2, DIO3 masks, big endian)
fn irq_class126(a: &[u8]) -> u8 {
    if a.len() < 8 || a[0] != a[2] || a[1] != a[3] || a[4..8] != [0, 0, 0, 0] {
        return 0;
    }
    match ((a[0] as u16) << 8) | a[1] as u16 {
        0xFFFF => IC_STBY | IC_RX,
        0x0201 => IC_TX,
        0x0180 => IC_CAD,
        _ => 0,
    }
}

/// SX127x: the RegIrqFlagsMask value written last and the RegDioMapping1 value written after it
fn irq_class127(mask: u8, dio: u8) -> u8 {
    let dio0 = dio >> 6;
    if mask == 0xF7 && dio0 == 1 {
        IC_TX
    } else if mask == 0x0F && dio0 == 0 && (dio >> 4) & 3 == 0 && dio & 3 == 1 {
        IC_RX
    } else if mask == 0xFA && dio0 == 2 {
        IC_CAD
    } else if mask == 0xFF && dio0 == 3 {
        IC_STBY
    } else {
        0
    }
}

#[derive(Clone, Copy)]
struct Track {
    mode: ChipMode,
    items: u16,
    commanded_asleep: bool,
    started_unprogrammed: bool,
    /// IC_* bit set of the IRQ routing programmed last (0: none / incomplete since the last loss)
    irq_class: u8,
    /// SX127x: RegIrqFlagsMask written, RegDioMapping1 not yet
    irq_pending127: Option<u8>,
    /// SetTx / SetCad executed while the IRQ routing programmed last was not the one for it
    started_wrong_irq: bool,
    /// the same for SetRx / SetRxDutyCycle (not required of `listen`, an RSSI-only reception)
    rx_started_wrong_irq: bool,
}

struct Needs {
    base: u16,
    tx: u16,
    rx: u16,
    cad: u16,
}

fn needs_for(regulator: bool, tcxo: bool) -> Needs {
    let base = PT | SW | BB | if regulator { REG } else { 0 } | if tcxo { TCXO } else { 0 };
    Needs { base, tx: base | MODU | PKT | IRQ | FRQ | PA, rx: base | MODU | FRQ, cad: base | MODU | FRQ | IRQ }
}

impl Track {
    fn start(&mut self, m: ChipMode, need: u16) {
        self.mode = m;
        if self.items & need != need {
            self.started_unprogrammed = true;
        }
        match m {
            ChipMode::Tx if self.irq_class & IC_TX == 0 => self.started_wrong_irq = true,
            ChipMode::Cad if self.irq_class & IC_CAD == 0 => self.started_wrong_irq = true,
            ChipMode::Rx | ChipMode::RxDuty if self.irq_class & IC_RX == 0 => self.rx_started_wrong_irq = true,
            _ => {}
        }
    }
    fn step126(&mut self, n: &Needs, w: &[u8]) {
        let Some(&op) = w.first() else { return };
        let wake = op == 0xC0;
        let irq_service = matches!(op, 0x12 | 0x02 | 0x13 | 0x1E | 0x1D | 0x14);
        if self.mode == ChipMode::Sleep && !wake {
            self.commanded_asleep = true;
        } else if self.mode == ChipMode::RxDuty && !wake && !irq_service {
            self.commanded_asleep = true;
        }
        if wake && (self.mode == ChipMode::Sleep || self.mode == ChipMode::RxDuty) {
            self.mode = ChipMode::Standby;
        }
        match op {
            0x84 => {
                let cold = w.get(1).map(|a| a & 0x04 == 0).unwrap_or(true);
                self.mode = ChipMode::Sleep;
                if cold {
                    self.items = 0;
                    self.irq_class = 0;
                }
            }
            0x80 => self.mode = ChipMode::Standby,
            0x83 => self.start(ChipMode::Tx, n.tx),
            0x82 => self.start(ChipMode::Rx, n.rx),
            0x94 => self.start(ChipMode::RxDuty, n.rx),
            0xC5 => self.start(ChipMode::Cad, n.cad),
            0xD1 => self.mode = ChipMode::Tx,
            0x8A => self.items |= PT,
            0x96 => self.items |= REG,
            0x97 => self.items |= TCXO,
            0x8F => self.items |= BB,
            0x8B => self.items |= MODU,
            0x8C => self.items |= PKT,
            0x08 => {
                self.items |= IRQ;
                self.irq_class = irq_class126(&w[1..]);
            }
            0x86 => self.items |= FRQ,
            0x8E => self.items |= PA,
            0x0D => {
                if w.len() >= 3 && w[1] == 0x07 && w[2] == 0x40 {
                    self.items |= SW;
                }
            }
            _ => {}
        }
    }
    fn step127(&mut self, n: &Needs, w: &[u8]) {
        let Some(&a0) = w.first() else { return };
        let addr = a0 & 0x7f;
        if addr == 0 && self.mode == ChipMode::Sleep {
            self.commanded_asleep = true;
        }
        if a0 < 128 {
            return;
        }
        let v = w.get(1).copied();
        match (addr, v) {
            (0x01, Some(v)) => {
                if v >= 128 {
                    self.items |= PT;
                }
                match v % 8 {
                    0 => self.mode = ChipMode::Sleep,
                    1 => self.mode = ChipMode::Standby,
                    3 => self.start(ChipMode::Tx, n.tx),
                    5 | 6 => self.start(ChipMode::Rx, n.rx),
                    7 => self.start(ChipMode::Cad, n.cad),
                    _ => {}
                }
            }
            (0x39, _) => self.items |= SW,
            (0x0e, _) => self.items |= BB,
            (0x1d, _) => self.items |= MODU,
            (0x20, _) => self.items |= PKT,
            (0x11, v) => {
                self.items |= IRQ;
                self.irq_class = 0;
                self.irq_pending127 = v;
            }
            (0x40, v) => {
                self.irq_class = match (self.irq_pending127, v) {
                    (Some(m), Some(d)) => irq_class127(m, d),
                    _ => 0,
                };
                self.irq_pending127 = None;
            }
            (0x06, _) => self.items |= FRQ,
            (0x09, _) => self.items |= PA,
            _ => {}
        }
    }
    /// one log token of fakechip.rs; only executed events count
    fn event(&mut self, is126: bool, n: &Needs, tok: &str) {
        if tok.ends_with('!') || tok.ends_with('~') {
            return;
        }
        if tok == "Rst" {
            self.mode = ChipMode::Standby;
            self.items = 0;
            self.irq_class = 0;
            self.irq_pending127 = None;
        } else if let Some(rest) = tok.strip_prefix('s') {
            let hexs = rest.split('/').next().unwrap_or("");
            let w = unhex(hexs);
            if is126 {
                self.step126(n, &w)
            } else {
                self.step127(n, &w)
            }
        }
    }
}

struct CallSpec<'a> {
    call: &'a str,
    irq: Vec<u16>,
    fault: Option<usize>,
    pend: Option<usize>,
}

fn parse_call(tok: &str) -> Option<CallSpec<'_>> {
    let p: Vec<&str> = tok.split('@').collect();
    if p.len() != 4 {
        return None;
    }
    let irq = if p[1] == "-" { vec![] } else { p[1].split(',').map(|x| x.parse::<u16>().ok()).collect::<Option<Vec<_>>>()? };
    let fault = if p[2] == "-" { None } else { Some(p[2].parse().ok()?) };
    let pend = if p[3] == "-" { None } else { Some(p[3].parse().ok()?) };
    Some(CallSpec { call: p[0], irq, fault, pend })
}

pub struct CallObs {
    pub line: String,
    pub result: String,
    pub log: Vec<String>,
    pub mode_after: RadioMode,
    pub cold_after: bool,
    pub steps: usize,
    pub irq_positions: Vec<usize>,
    pub irq_reads: usize,
    pub stop: bool,
}

/// run the calls on one driver instance; returns one observation per call executed
fn drive<RK: RadioKind>(rk: RK, w: &Shared, calls: &[CallSpec<'_>], digest: bool) -> Option<Vec<CallObs>> {
    let mut lora = match block_on(LoRa::new(rk, true, FakeDelay(w.clone()))) {
        Ok(l) => l,
        Err(_) => return None,
    };
    NEW_LOG.with(|l| *l.borrow_mut() = w.borrow().log.clone());
    let mdl = lora
        .create_modulation_params(SpreadingFactor::_7, Bandwidth::_125KHz, CodingRate::_4_5, FREQ)
        .ok()?;
    let mut tx_pkt = lora.create_tx_packet_params(8, false, true, false, &mdl).ok()?;
    let rx_pkt = lora.create_rx_packet_params(8, false, 255, true, true, &mdl).ok()?;
    let mut out = vec![];
    for c in calls {
        {
            let mut m = w.borrow_mut();
            m.log.clear();
            m.step = 0;
            m.fault = c.fault;
            m.pend_at = c.pend;
            m.irq_script = c.irq.iter().copied().collect();
            m.irq_reads = 0;
        }
        let mut buf = [0u8; 255];
        let parts: Vec<&str> = c.call.split(':').collect();
        let res: Option<Option<String>> = guarded(AssertUnwindSafe(|| {
            let unit = |r: Option<Result<(), RadioError>>| -> String {
                match r {
                    None => "DROPPED".into(),
                    Some(Ok(())) => "ok".into(),
                    Some(Err(e)) => show_err(&e),
                }
            };
            Some(match parts.as_slice() {
                ["init"] => unit(block_on_or_drop(lora.init())),
                ["sleep", wm] => unit(block_on_or_drop(lora.sleep(*wm == "1"))),
                ["ptx"] => unit(block_on_or_drop(lora.prepare_for_tx(&mdl, &mut tx_pkt, 14, &[1, 2, 3]))),
                ["tx"] => unit(block_on_or_drop(lora.tx())),
                ["prx", k] => {
                    let mode = match *k {
                        "s" => RxMode::Single(13),
                        "c" => RxMode::Continuous,
                        "d" => RxMode::DutyCycle(DutyCycleParams { rx_time: 1000, sleep_time: 2000 }),
                        _ => return None,
                    };
                    unit(block_on_or_drop(lora.prepare_for_rx(mode, &mdl, &rx_pkt)))
                }
                ["srx"] => unit(block_on_or_drop(lora.start_rx())),
                ["crx"] | ["rx"] => {
                    let r = if parts[0] == "crx" {
                        block_on_or_drop(lora.complete_rx(&rx_pkt, &mut buf))
                    } else {
                        block_on_or_drop(lora.rx(&rx_pkt, &mut buf))
                    };
                    match r {
                        None => "DROPPED".into(),
                        Some(Ok((n, _st))) => format!("ok:rx({},{})", n, hex(&buf[..n as usize])),
                        Some(Err(e)) => show_err(&e),
                    }
                }
                ["rsc"] => unit(block_on_or_drop(lora.rx_switch_channel(FREQ2))),
                ["listen"] => unit(block_on_or_drop(lora.listen(FREQ, Bandwidth::_125KHz))),
                ["pcad"] => unit(block_on_or_drop(lora.prepare_for_cad(&mdl))),
                ["cad"] => match block_on_or_drop(lora.cad(&mdl)) {
                    None => "DROPPED".into(),
                    Some(Ok(b)) => format!("ok:cad({})", b as u8),
                    Some(Err(e)) => show_err(&e),
                },
                ["sync", wd] => unit(block_on_or_drop(lora.set_lora_sync_word(wd.parse().ok()?))),
                _ => return None,
            })
        }));
        let (res_s, stop) = match res {
            None => ("PANIC".to_string(), true),
            Some(None) => return None,
            Some(Some(s)) => (s, false),
        };
        let m = w.borrow();
        let tr = m.transcript();
        let (mode, cold, cal) = lora.verif_state();
        let irq_positions: Vec<usize> = {
            // step index of every await_irq (delays are logged but are not steps)
            let mut v = vec![];
            let mut step = 0usize;
            for t in &m.log {
                if t.starts_with('D') {
                    continue;
                }
                if t.starts_with('I') {
                    v.push(step);
                }
                step += 1;
            }
            v
        };
        out.push(CallObs {
            result: res_s.clone(),
            log: m.log.clone(),
            mode_after: mode,
            cold_after: cold,
            line: format!("{} {} {},{},{}", res_s, if digest { fnv_str(&tr) } else { tr }, show_mode(mode), cold, cal),
            steps: m.step,
            irq_positions,
            irq_reads: m.irq_reads,
            stop,
        });
        if stop {
            break;
        }
    }
    Some(out)
}

/// the same, through `LorawanRadio` (lorawan_radio.rs): `C14 adp <chip> ; <call>@irq@fault@pend ; …`
/// calls: atx  asetup:<s|c>  arxs  arxc  alp
fn drive_adapter<RK: RadioKind>(rk: RK, w: &Shared, calls: &[CallSpec<'_>], p_max: u8) -> Option<Vec<CallObs>> {
    use lora_modulation::BaseBandModulationParams;
    use lora_phy::lorawan_radio::{Error, LorawanRadio};
    use lorawan_device::async_device::radio::{PhyRxTx, RfConfig, RxConfig, RxMode as LwRxMode, RxStatus, TxConfig};
    let _ = p_max;
    let lora = block_on(LoRa::new(rk, true, FakeDelay(w.clone()))).ok()?;
    let mut radio: LorawanRadio<RK, FakeDelay, 22> = lora.into();
    let rf = RfConfig {
        frequency: FREQ,
        bb: BaseBandModulationParams::new(SpreadingFactor::_7, Bandwidth::_125KHz, CodingRate::_4_5),
        max_payload_len: 255,
    };
    let mut out = vec![];
    for c in calls {
        {
            let mut m = w.borrow_mut();
            m.log.clear();
            m.step = 0;
            m.fault = c.fault;
            m.pend_at = c.pend;
            m.irq_script = c.irq.iter().copied().collect();
            m.irq_reads = 0;
        }
        let mut buf = [0u8; 255];
        let parts: Vec<&str> = c.call.split(':').collect();
        let show_e = |e: Error| -> String {
            match e {
                Error::Radio(r) => show_err(&r),
                Error::NoRxParams => "err:NoRxParams".into(),
            }
        };
        let res: Option<Option<String>> = guarded(AssertUnwindSafe(|| {
            Some(match parts.as_slice() {
                ["atx"] => match block_on_or_drop(radio.tx(TxConfig { pw: 14, rf }, &[1, 2, 3])) {
                    None => "DROPPED".into(),
                    Some(Ok(_)) => "ok".into(),
                    Some(Err(e)) => show_e(e),
                },
                ["asetup", k] => {
                    let mode = match *k {
                        "s" => LwRxMode::Single { ms: 0 },
                        "c" => LwRxMode::Continuous,
                        _ => return None,
                    };
                    match block_on_or_drop(radio.setup_rx(RxConfig { rf, mode })) {
                        None => "DROPPED".into(),
                        Some(Ok(())) => "ok".into(),
                        Some(Err(e)) => show_e(e),
                    }
                }
                ["arxs"] => match block_on_or_drop(radio.rx_single(&mut buf)) {
                    None => "DROPPED".into(),
                    Some(Ok(RxStatus::Rx(n, _q))) => format!("ok:rx({},{})", n, hex(&buf[..n])),
                    Some(Ok(RxStatus::RxTimeout)) => "ok:timeout".into(),
                    Some(Err(e)) => show_e(e),
                },
                ["arxc"] => match block_on_or_drop(radio.rx_continuous(&mut buf)) {
                    None => "DROPPED".into(),
                    Some(Ok((n, _q))) => format!("ok:rx({},{})", n, hex(&buf[..n])),
                    Some(Err(e)) => show_e(e),
                },
                ["alp"] => match block_on_or_drop(radio.low_power()) {
                    None => "DROPPED".into(),
                    Some(Ok(())) => "ok".into(),
                    Some(Err(e)) => show_e(e),
                },
                _ => return None,
            })
        }));
        let (res_s, stop) = match res {
            None => ("PANIC".to_string(), true),
            Some(None) => return None,
            Some(Some(s)) => (s, false),
        };
        let m = w.borrow();
        let tr = m.transcript();
        let irq_positions: Vec<usize> = {
            let mut v = vec![];
            let mut step = 0usize;
            for t in &m.log {
                if t.starts_with('D') {
                    continue;
                }
                if t.starts_with('I') {
                    v.push(step);
                }
                step += 1;
            }
            v
        };
        out.push(CallObs {
            result: res_s.clone(),
            log: m.log.clone(),
            mode_after: RadioMode::Standby,
            cold_after: false,
            line: format!("{} {}", res_s, fnv_str(&tr)),
            steps: m.step,
            irq_positions,
            irq_reads: m.irq_reads,
            stop,
        });
        if stop {
            break;
        }
    }
    Some(out)
}

thread_local! {
    /// transcript of `LoRa::new` of the last `drive`
    static NEW_LOG: std::cell::RefCell<Vec<String>> = std::cell::RefCell::new(vec![]);
}

fn run_seq_with_new_log(chip: &str, calls: &[&str]) -> Option<(Vec<CallObs>, Vec<String>)> {
    let obs = run_seq(chip, calls, true)?;
    Some((obs, NEW_LOG.with(|l| l.borrow().clone())))
}

fn irq_default(cfg: &ChipCfg) -> u16 {
    if is_126(cfg.variant) {
        0x0283
    } else {
        0x4c
    }
}

fn run_seq(chip: &str, calls: &[&str], digest: bool) -> Option<Vec<CallObs>> {
    run_seq_any(chip, calls, digest, false)
}

fn run_seq_any(chip: &str, calls: &[&str], digest: bool, adapter: bool) -> Option<Vec<CallObs>> {
    let cfg = parse_chip(chip)?;
    let specs: Vec<CallSpec<'_>> = calls.iter().map(|c| parse_call(c)).collect::<Option<Vec<_>>>()?;
    // the retention list of a chip that has just been reset is empty (register 0x029F = 0)
    let w = crate::c13::make_world(&cfg, 1, if is_126(cfg.variant) { "29f=00" } else { "-" })?;
    w.borrow_mut().irq_default = irq_default(&cfg);
    let tcxo = |k: u8| {
        use sx126x::TcxoCtrlVoltage::*;
        [Ctrl1V6, Ctrl1V7, Ctrl1V8, Ctrl2V2, Ctrl2V4, Ctrl2V7, Ctrl3V0, Ctrl3V3][k as usize & 7]
    };
    macro_rules! with126 {
        ($chip:expr) => {{
            let rk = sx126x::Sx126x::new(
                FakeSpi(w.clone()),
                FakeIv(w.clone()),
                sx126x::Config { chip: $chip, tcxo_ctrl: cfg.tcxo.map(tcxo), use_dcdc: cfg.dcdc, rx_boost: cfg.boost },
            );
            if adapter {
                drive_adapter(rk, &w, &specs, 22)
            } else {
                drive(rk, &w, &specs, digest)
            }
        }};
    }
    macro_rules! with127 {
        ($chip:expr) => {{
            let rk = lora_phy::sx127x::Sx127x::new(
                FakeSpi(w.clone()),
                FakeIv(w.clone()),
                lora_phy::sx127x::Config { chip: $chip, tcxo_used: cfg.tcxo_used, tx_boost: cfg.tx_boost, rx_boost: cfg.boost },
            );
            if adapter {
                drive_adapter(rk, &w, &specs, 20)
            } else {
                drive(rk, &w, &specs, digest)
            }
        }};
    }
    match cfg.variant {
        Variant::Sx1261 => with126!(sx126x::Sx1261),
        Variant::Sx1262 => with126!(sx126x::Sx1262),
        Variant::WlHp => with126!(sx126x::Stm32wl { use_high_power_pa: true }),
        Variant::WlLp => with126!(sx126x::Stm32wl { use_high_power_pa: false }),
        Variant::Sx1276 => with127!(lora_phy::sx127x::Sx1276),
        Variant::Sx1272 => with127!(lora_phy::sx127x::Sx1272),
    }
}

/// I1-I5 evaluated on the real driver's run (same predicates, same order as `Driver.C14.runSeq`)
fn verdict(chip: &str, calls: &[&str]) -> Option<String> {
    let cfg = parse_chip(chip)?;
    let is126 = is_126(cfg.variant);
    let needs = if is126 { needs_for(cfg.dcdc, cfg.tcxo.is_some()) } else { needs_for(false, false) };
    // the constructor's init: run it as an explicit first call on a driver that `new` already initialised
    // is not the same thing, so replay it through the tracker from the transcript of `new`
    let (obs, new_log) = run_seq_with_new_log(chip, calls)?;
    let mut t = Track {
        mode: ChipMode::Standby,
        items: 0,
        commanded_asleep: false,
        started_unprogrammed: false,
        irq_class: 0,
        irq_pending127: None,
        started_wrong_irq: false,
        rx_started_wrong_irq: false,
    };
    for tok in &new_log {
        t.event(is126, &needs, tok);
    }
    let mut before = RadioMode::Standby;
    for (i, o) in obs.iter().enumerate() {
        let rx_wrong_before = t.rx_started_wrong_irq;
        for tok in &o.log {
            t.event(is126, &needs, tok);
        }
        // `listen` starts an RSSI-only reception: no IRQ routing is required of it (as for the items)
        if calls.get(i).map(|c| c.starts_with("listen@")).unwrap_or(false) {
            t.rx_started_wrong_irq = rx_wrong_before;
        }
        let n = i + 1;
        let reported = o.result == "err:TransmitTimeout" || o.result == "err:ReceiveTimeout";
        if t.commanded_asleep {
            return Some(format!("I1-commanded-asleep@call{}", n));
        } else if t.started_unprogrammed {
            return Some(format!("I3-started-unprogrammed@call{}", n));
        } else if t.started_wrong_irq || t.rx_started_wrong_irq {
            return Some(format!("I3-started-with-irq-mask-of-another-operation@call{}", n));
        } else if t.items & needs.base != needs.base && !o.cold_after {
            return Some(format!("I2-config-lost-but-not-cold_start@call{}", n));
        } else if reported
            && before != RadioMode::Receive(RxMode::Continuous)
            && !(t.mode == ChipMode::Standby && o.mode_after == RadioMode::Standby)
        {
            return Some(format!("I4-not-standby-after-failure@call{}", n));
        } else if o.result == "err:InvalidRadioMode" && !o.log.is_empty() {
            return Some(format!("I5-chip-commanded-by-refused-call@call{}", n));
        }
        before = o.mode_after;
        if o.stop {
            break;
        }
    }
    Some("ok".into())
}

fn parse_line(op: &str) -> Option<(bool, String, Vec<String>)> {
    let rest = op.strip_prefix("C14 ")?;
    let (digest, rest) = if let Some(r) = rest.strip_prefix("seqh ") {
        (true, r)
    } else if let Some(r) = rest.strip_prefix("inv ") {
        (true, r)
    } else if let Some(r) = rest.strip_prefix("adp ") {
        (true, r)
    } else if let Some(r) = rest.strip_prefix("seq ") {
        (false, r)
    } else {
        return None;
    };
    let mut parts = rest.split(';').map(|s| s.trim().to_string());
    let chip = parts.next()?;
    Some((digest, chip, parts.collect()))
}

pub fn eval(op: &str) -> String {
    let Some((digest, chip, calls)) = parse_line(op) else { return "bad-op".into() };
    let cr: Vec<&str> = calls.iter().map(|s| s.as_str()).collect();
    if op.starts_with("C14 inv ") {
        return verdict(&chip, &cr).unwrap_or("bad-op".into());
    }
    if op.starts_with("C14 adp ") {
        return match run_seq_any(&chip, &cr, true, true) {
            Some(obs) => obs.iter().map(|o| o.line.clone()).collect::<Vec<_>>().join(" ; "),
            None => "bad-op".into(),
        };
    }
    match run_seq(&chip, &cr, digest) {
        Some(obs) => obs.iter().map(|o| o.line.clone()).collect::<Vec<_>>().join(" ; "),
        None => "bad-op".into(),
    }
}

pub fn expand(op: &str) -> Vec<String> {
    match op.strip_prefix("C14 seqh ") {
        Some(r) => vec![format!("C14 seq {}", r)],
        None => vec![],
    }
}

pub const ALPHABET: [&str; 16] =
    ["init", "sleep:0", "sleep:1", "ptx", "tx", "prx:s", "prx:c", "prx:d", "srx", "crx", "rx", "rsc", "listen", "pcad", "cad", "sync:5156"];

fn irq_scripts(is126: bool) -> Vec<Vec<u16>> {
    if is126 {
        // TxDone, RxDone, timeout, RxDone+CRC error, header error then timeout, spurious then default,
        // two spurious, preamble then default, CadDone, CadDone+detected, header valid
        vec![vec![0x0001], vec![0x0002], vec![0x0200], vec![0x0042], vec![0x0020, 0x0200], vec![0], vec![0, 0], vec![0x0004], vec![0x0080], vec![0x0180], vec![0x0010, 0x0002]]
    } else {
        vec![vec![0x08], vec![0x40], vec![0x80], vec![0x60], vec![0x10, 0x80], vec![0], vec![0, 0], vec![0x10], vec![0x04], vec![0x05], vec![0x20]]
    }
}

fn plain(calls: &[&str]) -> Vec<String> {
    calls.iter().map(|c| format!("{}@-@-@-", c)).collect()
}

fn line(kind: &str, chip: &str, calls: &[String]) -> String {
    format!("C14 {} {} ; {}", kind, chip, calls.join(" ; "))
}

fn classify(ans: &str) -> String {
    let last = ans.rsplit(" ; ").next().unwrap_or("");
    let r = last.split(' ').next().unwrap_or("");
    if r.starts_with("ok") {
        "last-ok".into()
    } else if r == "PANIC" || r == "DROPPED" {
        format!("last-{}", r)
    } else {
        format!("last-{}", r.split('(').next().unwrap_or(r))
    }
}

/// one scenario = two op lines: the run itself (hashed transcripts) and the invariant verdict
fn emit2(sink: &mut Sink, op: &str, ans: &str, class: &str) {
    sink.case(op, ans, class, true);
    let inv = op.replacen("C14 seqh ", "C14 inv ", 1);
    let v = eval(&inv);
    sink.case(&inv, &v, &format!("inv-{}", v.split('@').next().unwrap_or("ok")), true);
}

pub fn run(tier: &str, seed: u64, dir: &str) {
    let mut rng = Rng::new(seed);
    let mut sink = Sink::new(dir);
    let thorough = tier == "thorough";
    let depth = if thorough { 4 } else { 3 };
    // quick: the TCXO board (SX1261) and the SX1272 run the fault-free sequences only
    let chips: Vec<&str> = vec!["1262/d", "1261/t1", "1276", "1272/x"];
    for chip in &chips {
        let plain_only = !thorough && (*chip == "1261/t1" || *chip == "1272/x");
        let is126 = is_126(parse_chip(chip).unwrap().variant);
        // all sequences up to `depth`
        let mut seqs: Vec<Vec<&str>> = vec![vec![]];
        let mut frontier: Vec<Vec<&str>> = vec![vec![]];
        for _ in 0..depth {
            let mut next = vec![];
            for s in &frontier {
                for a in ALPHABET {
                    let mut t = s.clone();
                    t.push(a);
                    next.push(t);
                }
            }
            seqs.extend(next.iter().cloned());
            frontier = next;
        }
        seqs.remove(0);
        for s in &seqs {
            let base = plain(s);
            let Some(obs) = run_seq(chip, &base.iter().map(|x| x.as_str()).collect::<Vec<_>>(), true) else { continue };
            let op = line("seqh", chip, &base);
            let ans = obs.iter().map(|o| o.line.clone()).collect::<Vec<_>>().join(" ; ");
            emit2(&mut sink, &op, &ans, &format!("{}-plain-{}", if is126 { "sx126x" } else { "sx127x" }, classify(&ans)));
            // depth-4 sequences (thorough): faults / drops / outcomes only on a seeded fortieth
            let full = s.len() <= 3 || rng.chance(1, 40);
            if plain_only || !full || obs.len() < s.len() {
                continue;
            }
            // a fault at every I/O step of every call of the sequence; a drop at every await_irq
            for (j, o) in obs.iter().enumerate() {
                // faults in an earlier call only matter through the calls that follow: always done for the last
                // two calls, for earlier ones on a seeded half
                if j + 2 < obs.len() && rng.chance(1, 2) {
                    continue;
                }
                for k in 0..o.steps {
                    let mut v = base.clone();
                    v[j] = format!("{}@-@{}@-", s[j], k);
                    let op = line("seqh", chip, &v);
                    let a = eval(&op);
                    emit2(&mut sink, &op, &a, &format!("{}-fault-{}", if is126 { "sx126x" } else { "sx127x" }, classify(&a)));
                }
                for &k in &o.irq_positions {
                    let mut v = base.clone();
                    v[j] = format!("{}@-@-@{}", s[j], k);
                    let op = line("seqh", chip, &v);
                    let a = eval(&op);
                    emit2(&mut sink, &op, &a, &format!("{}-drop-{}", if is126 { "sx126x" } else { "sx127x" }, classify(&a)));
                }
                if o.irq_reads > 0 {
                    for sc in irq_scripts(is126) {
                        let mut v = base.clone();
                        v[j] = format!("{}@{}@-@-", s[j], sc.iter().map(|x| x.to_string()).collect::<Vec<_>>().join(","));
                        let op = line("seqh", chip, &v);
                        let a = eval(&op);
                        emit2(&mut sink, &op, &a, &format!("{}-irq-{}", if is126 { "sx126x" } else { "sx127x" }, classify(&a)));
                        // an outcome combined with a fault in the error path it triggers
                        if j + 1 == obs.len() {
                            if let Some(ob2) = run_seq(chip, &v.iter().map(|x| x.as_str()).collect::<Vec<_>>(), true) {
                                if let Some(l) = ob2.last() {
                                    for k in 0..l.steps {
                                        let mut v2 = v.clone();
                                        v2[j] = format!("{}@{}@{}@-", s[j], sc.iter().map(|x| x.to_string()).collect::<Vec<_>>().join(","), k);
                                        let op = line("seqh", chip, &v2);
                                        let a = eval(&op);
                                        emit2(&mut sink, &op, &a, &format!("{}-irq+fault-{}", if is126 { "sx126x" } else { "sx127x" }, classify(&a)));
                                    }
                                }
                            }
                        }
                    }
                }
            }
        }
        // the LoRaWAN adapter: every sequence of its five calls up to depth 3, faults / drops / outcomes on every call
        let adp = ["atx", "asetup:s", "asetup:c", "arxs", "arxc", "alp"];
        let mut aseqs: Vec<Vec<&str>> = vec![];
        for a in adp {
            aseqs.push(vec![a]);
            for b in adp {
                aseqs.push(vec![a, b]);
                for c in adp {
                    aseqs.push(vec![a, b, c]);
                }
            }
        }
        for sq in &aseqs {
            let base = plain(sq);
            let Some(obs) = run_seq_any(chip, &base.iter().map(|x| x.as_str()).collect::<Vec<_>>(), true, true) else { continue };
            let op = line("adp", chip, &base);
            let ans = obs.iter().map(|o| o.line.clone()).collect::<Vec<_>>().join(" ; ");
            sink.case(&op, &ans, &format!("adapter-plain-{}", classify(&ans)), true);
            if plain_only || obs.len() < sq.len() {
                continue;
            }
            for (j, o) in obs.iter().enumerate() {
                for k in 0..o.steps {
                    let mut v = base.clone();
                    v[j] = format!("{}@-@{}@-", sq[j], k);
                    let op = line("adp", chip, &v);
                    let a = eval(&op);
                    sink.case(&op, &a, &format!("adapter-fault-{}", classify(&a)), true);
                }
                for &k in &o.irq_positions {
                    let mut v = base.clone();
                    v[j] = format!("{}@-@-@{}", sq[j], k);
                    let op = line("adp", chip, &v);
                    let a = eval(&op);
                    sink.case(&op, &a, &format!("adapter-drop-{}", classify(&a)), true);
                }
                if o.irq_reads > 0 {
                    for sc in irq_scripts(is126) {
                        let mut v = base.clone();
                        v[j] = format!("{}@{}@-@-", sq[j], sc.iter().map(|x| x.to_string()).collect::<Vec<_>>().join(","));
                        let op = line("adp", chip, &v);
                        let a = eval(&op);
                        sink.case(&op, &a, &format!("adapter-irq-{}", classify(&a)), true);
                    }
                }
            }
        }
        // a few verbose lines as readable samples
        for s in [vec!["ptx", "tx"], vec!["prx:s", "rx"], vec!["sleep:0", "prx:d", "srx"], vec!["pcad", "cad"]] {
            let op = line("seq", chip, &plain(&s));
            let a = eval(&op);
            sink.case(&op, &a, "verbose-sample", true);
        }
    }
    sink.finish(
        dir,
        "every sequence of API calls up to the tier's depth (3 quick / 4 thorough) over the 16-call alphabet {init, sleep warm/cold, prepare_for_tx, tx, prepare_for_rx single/continuous/duty-cycle, start_rx, complete_rx, rx, rx_switch_channel, listen, prepare_for_cad, cad, set_lora_sync_word} on the real LoRa<Sx126x<Sx1262>> and LoRa<Sx127x<Sx1276>> and on Sx1261 with TCXO / Sx1272 with PA_BOOST (in the quick tier these two run the fault-free sequences only) over the fake chips; for each sequence (depth 4: a seeded fortieth): an I/O fault at every SPI / busy / IRQ / RF-switch / reset step of the calls, a future dropped at every await_irq, 11 chip interrupt outcomes (done, timeout, CRC error, header error, spurious, preamble first, CAD done/detected) on every call that reads the IRQ status, and every fault position inside the error path such an outcome triggers. Compared per call: result, the full I/O transcript (hashed in digest lines) and verif_state() = (radio_mode, cold_start, calibrate_image); the Lean side also evaluates I1-I5 on the run, and `inv` lines evaluate the same invariants on the real driver's own transcript with an independent Rust tracker (expected verdict: ok). I3 includes the mode-specific IRQ clause: at every executed SetTx / SetRx / SetRxDutyCycle / SetCad the IRQ routing programmed last since the last configuration loss (decoded from the CfgDIOIrq masks resp. the RegIrqFlagsMask + RegDioMapping1 writes) is the one the driver programs for that operation (`listen` exempt). `adp` lines: every sequence up to depth 3 of the LoRaWAN adapter's calls (LorawanRadio tx / setup_rx single+continuous / rx_single / rx_continuous / low_power) with the same faults, drops and interrupt outcomes. Distinct = distinct op lines; every line is a concrete scenario.",
        false,
        serde_json::json!({"alphabet": ALPHABET, "depth": depth, "chips": chips}),
    );
}
