//! C14: `LoRa<RK, DLY>` (lora-phy/src/lib.rs) of the real crate over the fake chips: sequences of API
//! calls, each with its own chip interrupt outcomes, an I/O fault at a chosen step, or a future
//! dropped at a pending `await_irq`; compared call by call (result, I/O transcript, `verif_state()`)
//! with the Lean model, which also evaluates the invariants I1-I5 on the run.
//!
//!   C14 seq        <chip> ; <call>@<irq words|->@<fault|->@<pend|-> ; …     verbose answer
//!   C14 seq_digest <chip> ; …                                                 transcripts hashed
//! calls: init  sleep:<0|1>  ptx  tx  prx:<s|c|d>  srx  crx  rx  rsc  listen  pcad  cad  sync:<word>
//! (fixed parameters: SF7/125 kHz/4_5 at 868.1 MHz, 14 dBm, payload 010203, RX buffer 255 bytes,
//!  Single(13 symbols) / Continuous / DutyCycle(1000, 2000), rx_switch_channel to 868.3 MHz)
//! The scenario starts after `LoRa::new(radio_kind, true, delay)` (which runs `init`).
use crate::c13::{is_126, parse_chip, ChipCfg, Variant};
use crate::fakechip::*;
use crate::util::*;
use lora_modulation::{Bandwidth, CodingRate, SpreadingFactor};
use lora_phy::mod_params::{DutyCycleParams, RadioError, RadioMode};
use lora_phy::mod_traits::RadioKind;
use lora_phy::{sx126x, LoRa, RxMode};
use std::panic::AssertUnwindSafe;

const FREQ: u32 = 868_100_000;
const FREQ2: u32 = 868_300_000;

fn show_mode(m: RadioMode) -> String {
    match m {
        RadioMode::Sleep => "Sleep".into(),
        RadioMode::Standby => "Standby".into(),
        RadioMode::FrequencySynthesis => "FrequencySynthesis".into(),
        RadioMode::Transmit => "Transmit".into(),
        RadioMode::Listen => "Listen".into(),
        RadioMode::ChannelActivityDetection => "ChannelActivityDetection".into(),
        RadioMode::Receive(RxMode::Single(n)) => format!("Receive(Single({}))", n),
        RadioMode::Receive(RxMode::Continuous) => "Receive(Continuous)".into(),
        RadioMode::Receive(RxMode::DutyCycle(d)) => format!("Receive(DutyCycle({},{}))", d.rx_time, d.sleep_time),
    }
}

fn show_err(e: &RadioError) -> String {
    format!("err:{:?}", e).replace(' ', "")
}

fn fnv_str(s: &str) -> String {
    let mut h = Fnv::new();
    for b in s.bytes() {
        h.byte(b);
    }
    format!("{:016x}", h.0)
}

struct CallSpec<'a> {
    call: &'a str,
    irq: Vec<u16>,
    fault: Option<usize>,
    pend: Option<usize>,
}

fn parse_call(tok: &str) -> Option<CallSpec<'_>> {
    let p: Vec<&str> = tok.split('@').collect();
    if p.len() != 4 {
        return None;
    }
    let irq = if p[1] == "-" { vec![] } else { p[1].split(',').map(|x| x.parse::<u16>().ok()).collect::<Option<Vec<_>>>()? };
    let fault = if p[2] == "-" { None } else { Some(p[2].parse().ok()?) };
    let pend = if p[3] == "-" { None } else { Some(p[3].parse().ok()?) };
    Some(CallSpec { call: p[0], irq, fault, pend })
}

pub struct CallObs {
    pub line: String,
    pub steps: usize,
    pub irq_positions: Vec<usize>,
    pub irq_reads: usize,
    pub stop: bool,
}

/// run the calls on one driver instance; returns one observation per call executed
fn drive<RK: RadioKind>(rk: RK, w: &Shared, calls: &[CallSpec<'_>], digest: bool) -> Option<Vec<CallObs>> {
    let mut lora = match block_on(LoRa::new(rk, true, FakeDelay(w.clone()))) {
        Ok(l) => l,
        Err(_) => return None,
    };
    let mdl = lora
        .create_modulation_params(SpreadingFactor::_7, Bandwidth::_125KHz, CodingRate::_4_5, FREQ)
        .ok()?;
    let mut tx_pkt = lora.create_tx_packet_params(8, false, true, false, &mdl).ok()?;
    let rx_pkt = lora.create_rx_packet_params(8, false, 255, true, true, &mdl).ok()?;
    let mut out = vec![];
    for c in calls {
        {
            let mut m = w.borrow_mut();
            m.log.clear();
            m.step = 0;
            m.fault = c.fault;
            m.pend_at = c.pend;
            m.irq_script = c.irq.iter().copied().collect();
            m.irq_reads = 0;
        }
        let mut buf = [0u8; 255];
        let parts: Vec<&str> = c.call.split(':').collect();
        let res: Option<Option<String>> = guarded(AssertUnwindSafe(|| {
            let unit = |r: Option<Result<(), RadioError>>| -> String {
                match r {
                    None => "DROPPED".into(),
                    Some(Ok(())) => "ok".into(),
                    Some(Err(e)) => show_err(&e),
                }
            };
            Some(match parts.as_slice() {
                ["init"] => unit(block_on_or_drop(lora.init())),
                ["sleep", wm] => unit(block_on_or_drop(lora.sleep(*wm == "1"))),
                ["ptx"] => unit(block_on_or_drop(lora.prepare_for_tx(&mdl, &mut tx_pkt, 14, &[1, 2, 3]))),
                ["tx"] => unit(block_on_or_drop(lora.tx())),
                ["prx", k] => {
                    let mode = match *k {
                        "s" => RxMode::Single(13),
                        "c" => RxMode::Continuous,
                        "d" => RxMode::DutyCycle(DutyCycleParams { rx_time: 1000, sleep_time: 2000 }),
                        _ => return None,
                    };
                    unit(block_on_or_drop(lora.prepare_for_rx(mode, &mdl, &rx_pkt)))
                }
                ["srx"] => unit(block_on_or_drop(lora.start_rx())),
                ["crx"] | ["rx"] => {
                    let r = if parts[0] == "crx" {
                        block_on_or_drop(lora.complete_rx(&rx_pkt, &mut buf))
                    } else {
                        block_on_or_drop(lora.rx(&rx_pkt, &mut buf))
                    };
                    match r {
                        None => "DROPPED".into(),
                        Some(Ok((n, _st))) => format!("ok:rx({},{})", n, hex(&buf[..n as usize])),
                        Some(Err(e)) => show_err(&e),
                    }
                }
                ["rsc"] => unit(block_on_or_drop(lora.rx_switch_channel(FREQ2))),
                ["listen"] => unit(block_on_or_drop(lora.listen(FREQ, Bandwidth::_125KHz))),
                ["pcad"] => unit(block_on_or_drop(lora.prepare_for_cad(&mdl))),
                ["cad"] => match block_on_or_drop(lora.cad(&mdl)) {
                    None => "DROPPED".into(),
                    Some(Ok(b)) => format!("ok:cad({})", b as u8),
                    Some(Err(e)) => show_err(&e),
                },
                ["sync", wd] => unit(block_on_or_drop(lora.set_lora_sync_word(wd.parse().ok()?))),
                _ => return None,
            })
        }));
        let (res_s, stop) = match res {
            None => ("PANIC".to_string(), true),
            Some(None) => return None,
            Some(Some(s)) => (s, false),
        };
        let m = w.borrow();
        let tr = m.transcript();
        let (mode, cold, cal) = lora.verif_state();
        let irq_positions: Vec<usize> = {
            // step index of every await_irq (delays are logged but are not steps)
            let mut v = vec![];
            let mut step = 0usize;
            for t in &m.log {
                if t.starts_with('D') {
                    continue;
                }
                if t.starts_with('I') {
                    v.push(step);
                }
                step += 1;
            }
            v
        };
        out.push(CallObs {
            line: format!("{} {} {},{},{}", res_s, if digest { fnv_str(&tr) } else { tr }, show_mode(mode), cold, cal),
            steps: m.step,
            irq_positions,
            irq_reads: m.irq_reads,
            stop,
        });
        if stop {
            break;
        }
    }
    Some(out)
}

fn irq_default(cfg: &ChipCfg) -> u16 {
    if is_126(cfg.variant) {
        0x0283
    } else {
        0x4c
    }
}

fn run_seq(chip: &str, calls: &[&str], digest: bool) -> Option<Vec<CallObs>> {
    let cfg = parse_chip(chip)?;
    let specs: Vec<CallSpec<'_>> = calls.iter().map(|c| parse_call(c)).collect::<Option<Vec<_>>>()?;
    // the retention list of a chip that has just been reset is empty (register 0x029F = 0)
    let w = crate::c13::make_world(&cfg, 1, if is_126(cfg.variant) { "29f=00" } else { "-" })?;
    w.borrow_mut().irq_default = irq_default(&cfg);
    let tcxo = |k: u8| {
        use sx126x::TcxoCtrlVoltage::*;
        [Ctrl1V6, Ctrl1V7, Ctrl1V8, Ctrl2V2, Ctrl2V4, Ctrl2V7, Ctrl3V0, Ctrl3V3][k as usize & 7]
    };
    macro_rules! with126 {
        ($chip:expr) => {{
            let rk = sx126x::Sx126x::new(
                FakeSpi(w.clone()),
                FakeIv(w.clone()),
                sx126x::Config { chip: $chip, tcxo_ctrl: cfg.tcxo.map(tcxo), use_dcdc: cfg.dcdc, rx_boost: cfg.boost },
            );
            drive(rk, &w, &specs, digest)
        }};
    }
    macro_rules! with127 {
        ($chip:expr) => {{
            let rk = lora_phy::sx127x::Sx127x::new(
                FakeSpi(w.clone()),
                FakeIv(w.clone()),
                lora_phy::sx127x::Config { chip: $chip, tcxo_used: cfg.tcxo_used, tx_boost: cfg.tx_boost, rx_boost: cfg.boost },
            );
            drive(rk, &w, &specs, digest)
        }};
    }
    match cfg.variant {
        Variant::Sx1261 => with126!(sx126x::Sx1261),
        Variant::Sx1262 => with126!(sx126x::Sx1262),
        Variant::WlHp => with126!(sx126x::Stm32wl { use_high_power_pa: true }),
        Variant::WlLp => with126!(sx126x::Stm32wl { use_high_power_pa: false }),
        Variant::Sx1276 => with127!(lora_phy::sx127x::Sx1276),
        Variant::Sx1272 => with127!(lora_phy::sx127x::Sx1272),
    }
}

fn parse_line(op: &str) -> Option<(bool, String, Vec<String>)> {
    let rest = op.strip_prefix("C14 ")?;
    let (digest, rest) = if let Some(r) = rest.strip_prefix("seq_digest ") {
        (true, r)
    } else if let Some(r) = rest.strip_prefix("seq ") {
        (false, r)
    } else {
        return None;
    };
    let mut parts = rest.split(';').map(|s| s.trim().to_string());
    let chip = parts.next()?;
    Some((digest, chip, parts.collect()))
}

pub fn eval(op: &str) -> String {
    let Some((digest, chip, calls)) = parse_line(op) else { return "bad-op".into() };
    let cr: Vec<&str> = calls.iter().map(|s| s.as_str()).collect();
    match run_seq(&chip, &cr, digest) {
        Some(obs) => obs.iter().map(|o| o.line.clone()).collect::<Vec<_>>().join(" ; "),
        None => "bad-op".into(),
    }
}

pub fn expand(op: &str) -> Vec<String> {
    match op.strip_prefix("C14 seq_digest ") {
        Some(r) => vec![format!("C14 seq {}", r)],
        None => vec![],
    }
}

pub const ALPHABET: [&str; 16] =
    ["init", "sleep:0", "sleep:1", "ptx", "tx", "prx:s", "prx:c", "prx:d", "srx", "crx", "rx", "rsc", "listen", "pcad", "cad", "sync:5156"];

fn irq_scripts(is126: bool) -> Vec<Vec<u16>> {
    if is126 {
        // TxDone, RxDone, timeout, RxDone+CRC error, header error then timeout, spurious then default,
        // two spurious, preamble then default, CadDone, CadDone+detected, header valid
        vec![vec![0x0001], vec![0x0002], vec![0x0200], vec![0x0042], vec![0x0020, 0x0200], vec![0], vec![0, 0], vec![0x0004], vec![0x0080], vec![0x0180], vec![0x0010, 0x0002]]
    } else {
        vec![vec![0x08], vec![0x40], vec![0x80], vec![0x60], vec![0x10, 0x80], vec![0], vec![0, 0], vec![0x10], vec![0x04], vec![0x05], vec![0x20]]
    }
}

fn plain(calls: &[&str]) -> Vec<String> {
    calls.iter().map(|c| format!("{}@-@-@-", c)).collect()
}

fn line(kind: &str, chip: &str, calls: &[String]) -> String {
    format!("C14 {} {} ; {}", kind, chip, calls.join(" ; "))
}

fn classify(ans: &str) -> String {
    let last = ans.rsplit(" ; ").next().unwrap_or("");
    let r = last.split(' ').next().unwrap_or("");
    if r.starts_with("ok") {
        "last-ok".into()
    } else if r == "PANIC" || r == "DROPPED" {
        format!("last-{}", r)
    } else {
        format!("last-{}", r.split('(').next().unwrap_or(r))
    }
}

pub fn run(tier: &str, seed: u64, dir: &str) {
    let mut rng = Rng::new(seed);
    let mut sink = Sink::new(dir);
    let thorough = tier == "thorough";
    let depth = if thorough { 4 } else { 3 };
    let chips: Vec<&str> = if thorough { vec!["1262/d", "1261/t1", "wlhp", "1276", "1272/x"] } else { vec!["1262/d", "1276"] };
    for chip in &chips {
        let is126 = is_126(parse_chip(chip).unwrap().variant);
        // all sequences up to `depth`
        let mut seqs: Vec<Vec<&str>> = vec![vec![]];
        let mut frontier: Vec<Vec<&str>> = vec![vec![]];
        for _ in 0..depth {
            let mut next = vec![];
            for s in &frontier {
                for a in ALPHABET {
                    let mut t = s.clone();
                    t.push(a);
                    next.push(t);
                }
            }
            seqs.extend(next.iter().cloned());
            frontier = next;
        }
        seqs.remove(0);
        for s in &seqs {
            let base = plain(s);
            let Some(obs) = run_seq(chip, &base.iter().map(|x| x.as_str()).collect::<Vec<_>>(), true) else { continue };
            let op = line("seq_digest", chip, &base);
            let ans = obs.iter().map(|o| o.line.clone()).collect::<Vec<_>>().join(" ; ");
            sink.case(&op, &ans, &format!("{}-plain-{}", if is126 { "sx126x" } else { "sx127x" }, classify(&ans)), true);
            // depth-4 sequences (thorough): faults / drops / outcomes only on a seeded tenth
            let full = s.len() <= 3 || rng.chance(1, 10);
            if !full || obs.len() < s.len() {
                continue;
            }
            // a fault at every I/O step of every call of the sequence; a drop at every await_irq
            for (j, o) in obs.iter().enumerate() {
                // faults in an earlier call only matter through the calls that follow: always done for the last
                // two calls, for earlier ones on a seeded half
                if j + 2 < obs.len() && rng.chance(1, 2) {
                    continue;
                }
                for k in 0..o.steps {
                    let mut v = base.clone();
                    v[j] = format!("{}@-@{}@-", s[j], k);
                    let op = line("seq_digest", chip, &v);
                    let a = eval(&op);
                    sink.case(&op, &a, &format!("{}-fault-{}", if is126 { "sx126x" } else { "sx127x" }, classify(&a)), true);
                }
                for &k in &o.irq_positions {
                    let mut v = base.clone();
                    v[j] = format!("{}@-@-@{}", s[j], k);
                    let op = line("seq_digest", chip, &v);
                    let a = eval(&op);
                    sink.case(&op, &a, &format!("{}-drop-{}", if is126 { "sx126x" } else { "sx127x" }, classify(&a)), true);
                }
                if o.irq_reads > 0 {
                    for sc in irq_scripts(is126) {
                        let mut v = base.clone();
                        v[j] = format!("{}@{}@-@-", s[j], sc.iter().map(|x| x.to_string()).collect::<Vec<_>>().join(","));
                        let op = line("seq_digest", chip, &v);
                        let a = eval(&op);
                        sink.case(&op, &a, &format!("{}-irq-{}", if is126 { "sx126x" } else { "sx127x" }, classify(&a)), true);
                        // an outcome combined with a fault in the error path it triggers
                        if j + 1 == obs.len() {
                            if let Some(ob2) = run_seq(chip, &v.iter().map(|x| x.as_str()).collect::<Vec<_>>(), true) {
                                if let Some(l) = ob2.last() {
                                    for k in 0..l.steps {
                                        let mut v2 = v.clone();
                                        v2[j] = format!("{}@{}@{}@-", s[j], sc.iter().map(|x| x.to_string()).collect::<Vec<_>>().join(","), k);
                                        let op = line("seq_digest", chip, &v2);
                                        let a = eval(&op);
                                        sink.case(&op, &a, &format!("{}-irq+fault-{}", if is126 { "sx126x" } else { "sx127x" }, classify(&a)), true);
                                    }
                                }
                            }
                        }
                    }
                }
            }
        }
        // a few verbose lines as readable samples
        for s in [vec!["ptx", "tx"], vec!["prx:s", "rx"], vec!["sleep:0", "prx:d", "srx"], vec!["pcad", "cad"]] {
            let op = line("seq", chip, &plain(&s));
            let a = eval(&op);
            sink.case(&op, &a, "verbose-sample", true);
        }
    }
    sink.finish(
        dir,
        "every sequence of API calls up to the tier's depth (3 quick / 4 thorough) over the 16-call alphabet {init, sleep warm/cold, prepare_for_tx, tx, prepare_for_rx single/continuous/duty-cycle, start_rx, complete_rx, rx, rx_switch_channel, listen, prepare_for_cad, cad, set_lora_sync_word} on the real LoRa<Sx126x<Sx1262>> and LoRa<Sx127x<Sx1276>> (thorough: + Sx1261 with TCXO, Stm32wl, Sx1272) over the fake chips; for each sequence (depth 4: a seeded tenth): an I/O fault at every SPI / busy / IRQ / RF-switch / reset step of the calls, a future dropped at every await_irq, 11 chip interrupt outcomes (done, timeout, CRC error, header error, spurious, preamble first, CAD done/detected) on every call that reads the IRQ status, and every fault position inside the error path such an outcome triggers. Compared per call: result, the full I/O transcript (hashed in digest lines) and verif_state() = (radio_mode, cold_start, calibrate_image); the Lean side also evaluates I1-I5 on the run. Distinct = distinct op lines; every line is a concrete scenario.",
        false,
        serde_json::json!({"alphabet": ALPHABET, "depth": depth, "chips": chips}),
    );
}
