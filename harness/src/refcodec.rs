//! Independent reference decoder for received frames (LoRaWAN 1.0.x §4 and §6.2.5), written from the
//! specification text and sharing no code with `lorawan::parser` / `lorawan::securityhelpers`.
//! Only the AES-128 block primitive and CMAC come from the `aes` / `cmac` crates, and those are
//! themselves checked against the Lean AES/CMAC specification by suite C01.
//!
//! C07's quantifier requires that "whether a frame counts as rejected is decided by the
//! independent reference codec, never by the implementation": the view the model consumes is
//! produced here.

use crate::util::hex;
use aes::cipher::{BlockCipherEncrypt, KeyInit};

pub fn aes_enc(key: &[u8; 16], block: &[u8; 16]) -> [u8; 16] {
    let c = aes::Aes128::new_from_slice(key).unwrap();
    let mut b = aes::cipher::array::Array::from(*block);
    c.encrypt_block(&mut b);
    let mut out = [0u8; 16];
    out.copy_from_slice(&b);
    out
}

pub fn cmac4(key: &[u8; 16], msg: &[u8]) -> [u8; 4] {
    use cmac::Mac;
    let mut m = <cmac::Cmac<aes::Aes128> as KeyInit>::new_from_slice(key).unwrap();
    m.update(msg);
    let t = m.finalize().into_bytes();
    [t[0], t[1], t[2], t[3]]
}

/// MIC of a data frame (§4.4): CMAC over B0 | MHDR..FRMPayload.
pub fn data_mic(key: &[u8; 16], msg: &[u8], dir: u8, devaddr: &[u8], fcnt: u32) -> [u8; 4] {
    let mut m = vec![0x49, 0, 0, 0, 0, dir];
    m.extend_from_slice(devaddr);
    m.extend_from_slice(&fcnt.to_le_bytes());
    m.push(0);
    m.push(msg.len() as u8);
    m.extend_from_slice(msg);
    cmac4(key, &m)
}

/// FRMPayload en/decryption (§4.3.3).
fn crypt_payload(key: &[u8; 16], data: &[u8], dir: u8, devaddr: &[u8], fcnt: u32) -> Vec<u8> {
    let mut out = Vec::with_capacity(data.len());
    for (i, chunk) in data.chunks(16).enumerate() {
        let mut a = [0u8; 16];
        a[0] = 0x01;
        a[5] = dir;
        a[6..10].copy_from_slice(devaddr);
        a[10..14].copy_from_slice(&fcnt.to_le_bytes());
        a[15] = (i + 1) as u8;
        let s = aes_enc(key, &a);
        for (j, b) in chunk.iter().enumerate() {
            out.push(b ^ s[j]);
        }
    }
    out
}

fn b2s(b: bool) -> &'static str {
    if b {
        "1"
    } else {
        "0"
    }
}

/// The decoded view of a byte string an END-DEVICE received (grammar in Driver/Mac.lean):
///   `d <len> <confirmed> <fcnt16> <fcnt32|-> <fopts|-> <fport|-> <payload|->`   a well-formed DOWNLINK data
///        frame, MType 011 (UnconfirmedDataDown) or 101 (ConfirmedDataDown)
///        (the last four are `-` unless the MIC verifies at the hinted 32-bit counter, Dir = 1),
///        An uplink MType (010 UnconfirmedDataUp, 100 ConfirmedDataUp: the device's own uplink echoed back,
///        another device's uplink, any frame MIC'd with Dir = 0) is NOT a frame for this device, whatever
///        its MIC (LoRaWAN 1.0.x §4.2.1: uplink messages are sent by end-devices to the network server):
///        view `g`.  (`ref_uplink` below is the NETWORK's decoder of what the device transmits.)
///        builder Y — `own` is the DevAddr of the receiving device's session (`None`: no session / unknown, the
///        address is then not looked at).  A downlink data frame whose FHDR DevAddr is not `own` is ADDRESSED TO
///        SOMEONE ELSE: it is never authentic for this device, whatever key its MIC was computed with (also this
///        session's own NwkSKey: two devices provisioned with the same keys, a network reusing a key) — its view is
///        the unauthentic data frame `d <len> <confirmed> <fcnt16> - - - -` ("verifies under no counter: other
///        session"), exactly like a frame MIC'd under another key.  (Not `g`: the length must stay visible, an
///        oversized frame ends a Class A receive procedure whoever it is addressed to.)
///   `j 1 <devaddr> <dlsettings> <rxdelay> <cflist>`   an authentic JoinAccept under `root`,
///   `g`   anything else.
pub fn ref_view(bytes: &[u8], own: Option<u32>, nwk: &[u8; 16], app: &[u8; 16], root: &[u8; 16], mic_hint: Option<u32>) -> String {
    if bytes.is_empty() {
        return "g".into();
    }
    let mhdr = bytes[0];
    let mtype = mhdr >> 5;
    let major = mhdr & 3;
    // uplink data frames are not for an end-device
    if major == 0 && (mtype == 2 || mtype == 4) {
        return "g".into();
    }
    // downlink data frames: MType 011 / 101, Major 0 (LoRaWAN R1)
    if major == 0 && (mtype == 3 || mtype == 5) && bytes.len() >= 12 {
        let foptslen = (bytes[5] & 0x0f) as usize;
        let mic_at = bytes.len() - 4;
        if 8 + foptslen <= mic_at {
            let conf = mtype == 5;
            let dir = 1u8;
            let devaddr = &bytes[1..5];
            let f16 = u16::from_le_bytes([bytes[6], bytes[7]]);
            // addressed to this device?  (LoRaWAN 1.0.x §4.3.1: DevAddr, 4 octets little-endian after the MHDR)
            let mine = match own {
                Some(a) => a.to_le_bytes()[..] == *devaddr,
                None => true,
            };
            let authentic = match mic_hint {
                Some(n) if mine && data_mic(nwk, &bytes[..mic_at], dir, devaddr, n)[..] == bytes[mic_at..] => Some(n),
                _ => None,
            };
            return match authentic {
                Some(n) => {
                    let fopts = &bytes[8..8 + foptslen];
                    let (fport, payload) = if 8 + foptslen < mic_at {
                        let p = bytes[8 + foptslen];
                        let key = if p == 0 { nwk } else { app };
                        (Some(p), crypt_payload(key, &bytes[9 + foptslen..mic_at], dir, devaddr, n))
                    } else {
                        (None, vec![])
                    };
                    let fp = match fport {
                        Some(p) => p.to_string(),
                        None => "-".into(),
                    };
                    format!("d {} {} {} {} {} {} {}", bytes.len(), b2s(conf), f16, n, hex(fopts), fp, hex(&payload))
                }
                None => format!("d {} {} {} - - - -", bytes.len(), b2s(conf), f16),
            };
        }
        return "g".into();
    }
    // JoinAccept: MType 001, Major 0, 17 or 33 bytes (§6.2.5); the server "encrypts" with AES-decrypt,
    // so the device recovers the plaintext with AES-encrypt, block by block
    if major == 0 && mtype == 1 && (bytes.len() == 17 || bytes.len() == 33) {
        let mut plain = vec![mhdr];
        for block in bytes[1..].chunks(16) {
            let mut b = [0u8; 16];
            b.copy_from_slice(block);
            plain.extend_from_slice(&aes_enc(root, &b));
        }
        let mic_at = plain.len() - 4;
        if cmac4(root, &plain[..mic_at])[..] == plain[mic_at..] {
            let devaddr = u32::from_le_bytes([plain[7], plain[8], plain[9], plain[10]]);
            let cf = if plain.len() == 33 {
                let l = &plain[13..29];
                match l[15] {
                    0 => {
                        let f: Vec<String> = (0..5).map(|i| ((l[3 * i] as u32 | (l[3 * i + 1] as u32) << 8 | (l[3 * i + 2] as u32) << 16) * 100).to_string()).collect();
                        format!("d:{}", f.join(","))
                    }
                    1 => format!("f:{}", hex(&l[..9])),
                    _ => "-".to_string(),
                }
            } else {
                "-".to_string()
            };
            return format!("j 1 {} {} {} {}", devaddr, plain[11], plain[12], cf);
        }
    }
    "g".into()
}

/// Independent encoder of a data frame (LoRaWAN 1.0.x §4): the network server's side of the
/// harness. `None` for descriptions the specification does not allow (FOpts over 15 octets,
/// FOpts together with FPort 0) or that exceed 300 octets.
#[allow(clippy::too_many_arguments)]
pub fn build_data(mtype: u8, devaddr: u32, fctrl_hi: u8, fcnt: u32, fopts: &[u8], fport: Option<u8>, payload: &[u8], nwk: &[u8; 16], app: &[u8; 16]) -> Option<Vec<u8>> {
    if fopts.len() > 15 || (fport == Some(0) && !fopts.is_empty()) {
        return None;
    }
    build_data_any(mtype << 5, devaddr, fctrl_hi, fcnt, fopts, fport, payload, nwk, app)
}

/// The same layout and cryptography for ANY description a sender could put on the air, including
/// those the specification asks senders not to build (FOpts together with FPort 0) and MHDR octets
/// with RFU bits set: receivers must decode them all the same way.
#[allow(clippy::too_many_arguments)]
pub fn build_data_any(mhdr: u8, devaddr: u32, fctrl_hi: u8, fcnt: u32, fopts: &[u8], fport: Option<u8>, payload: &[u8], nwk: &[u8; 16], app: &[u8; 16]) -> Option<Vec<u8>> {
    let mtype = mhdr >> 5;
    if fopts.len() > 15 {
        return None;
    }
    let dir = if mtype == 3 || mtype == 5 { 1u8 } else { 0u8 };
    let addr = devaddr.to_le_bytes();
    let mut out = vec![mhdr];
    out.extend_from_slice(&addr);
    out.push((fctrl_hi & 0xf0) | fopts.len() as u8);
    out.extend_from_slice(&(fcnt as u16).to_le_bytes());
    out.extend_from_slice(fopts);
    if let Some(p) = fport {
        out.push(p);
        let key = if p == 0 { nwk } else { app };
        out.extend_from_slice(&crypt_payload(key, payload, dir, &addr, fcnt));
    }
    let mic = data_mic(nwk, &out, dir, &addr, fcnt);
    out.extend_from_slice(&mic);
    if out.len() > 300 {
        return None;
    }
    Some(out)
}

/// Network-side decoding of an uplink the device produced, judged at the full 32-bit counter the
/// network expects (format of `mac::show_uplink`).
pub fn ref_uplink(frame: &[u8], nwk: &[u8; 16], app: &[u8; 16], fcnt32: u32) -> String {
    if frame.len() < 12 || frame[0] & 3 != 0 || !(2..=5).contains(&(frame[0] >> 5)) {
        return "up=UNPARSEABLE".into();
    }
    let mtype = frame[0] >> 5;
    let foptslen = (frame[5] & 0x0f) as usize;
    let mic_at = frame.len() - 4;
    if 8 + foptslen > mic_at {
        return "up=UNPARSEABLE".into();
    }
    let dir = if mtype == 3 || mtype == 5 { 1u8 } else { 0u8 };
    let addr = &frame[1..5];
    if data_mic(nwk, &frame[..mic_at], dir, addr, fcnt32)[..] != frame[mic_at..] {
        return "up=BADMIC".into();
    }
    let wire = u16::from_le_bytes([frame[6], frame[7]]) as u32;
    if wire != (fcnt32 & 0xffff) {
        return "up=FCNT16MISMATCH".into();
    }
    let fctrl = frame[5];
    let (fport, payload) = if 8 + foptslen < mic_at {
        let p = frame[8 + foptslen];
        let key = if p == 0 { nwk } else { app };
        (Some(p), crypt_payload(key, &frame[9 + foptslen..mic_at], dir, addr, fcnt32))
    } else {
        (None, vec![])
    };
    format!(
        "up={},{},{},{},{},{},{},{},{}",
        b2s(mtype == 4 || mtype == 5),
        u32::from_le_bytes([addr[0], addr[1], addr[2], addr[3]]),
        b2s(fctrl & 0x80 != 0),
        b2s(fctrl & 0x40 != 0),
        b2s(fctrl & 0x20 != 0),
        fcnt32,
        hex(&frame[8..8 + foptslen]),
        match fport {
            Some(p) => p.to_string(),
            None => "-".into(),
        },
        hex(&payload)
    )
}

pub fn aes_dec(key: &[u8; 16], block: &[u8; 16]) -> [u8; 16] {
    use aes::cipher::BlockCipherDecrypt;
    let c = aes::Aes128::new_from_slice(key).unwrap();
    let mut b = aes::cipher::array::Array::from(*block);
    c.decrypt_block(&mut b);
    let mut out = [0u8; 16];
    out.copy_from_slice(&b);
    out
}

/// Independent encoder of a JoinAccept (§6.2.5): MHDR | JoinNonce | NetID | DevAddr | DLSettings |
/// RxDelay | [CFList 16] | MIC, everything after the MHDR "encrypted" with AES-decrypt.
pub fn build_join_accept(key: &[u8; 16], mhdr: u8, join_nonce: &[u8; 3], net_id: &[u8; 3], devaddr: u32, dl_settings: u8, rx_delay: u8, cflist: Option<[u8; 16]>) -> Vec<u8> {
    let mut out = vec![mhdr];
    out.extend_from_slice(join_nonce);
    out.extend_from_slice(net_id);
    out.extend_from_slice(&devaddr.to_le_bytes());
    out.push(dl_settings);
    out.push(rx_delay);
    if let Some(c) = cflist {
        out.extend_from_slice(&c);
    }
    let mic = cmac4(key, &out);
    out.extend_from_slice(&mic);
    let mut enc = vec![mhdr];
    for block in out[1..].chunks(16) {
        let mut b = [0u8; 16];
        b.copy_from_slice(block);
        enc.extend_from_slice(&aes_dec(key, &b));
    }
    enc
}

/// Decrypt a JoinAccept under `key`, let `f` alter the four plaintext MIC octets, re-encrypt.
pub fn retag_join_accept(key: &[u8; 16], frame: &[u8], f: impl Fn(&mut [u8])) -> Option<Vec<u8>> {
    if frame.len() != 17 && frame.len() != 33 {
        return None;
    }
    let mut plain = vec![frame[0]];
    for block in frame[1..].chunks(16) {
        let mut b = [0u8; 16];
        b.copy_from_slice(block);
        plain.extend_from_slice(&aes_enc(key, &b));
    }
    let n = plain.len();
    f(&mut plain[n - 4..]);
    let mut out = vec![frame[0]];
    for block in plain[1..].chunks(16) {
        let mut b = [0u8; 16];
        b.copy_from_slice(block);
        out.extend_from_slice(&aes_dec(key, &b));
    }
    Some(out)
}
